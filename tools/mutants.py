#!/usr/bin/env python3
"""Self-test by mutation (a tool, not a registered check): each source mutant below is applied to a scratch worktree of /repo's HEAD
(/tmp/wt-mut, removed afterwards), the property's quick check runs against it (VERIF_REPO), and the mutant counts as
  caught      exit 1 with a VIOLATION line (counterexample reproduced natively)
  flagged     exit 2 (not encodable / unconfirmed counterexample: not a pass, but no violation either)
  MISSED      exit 0
Mutants need not pass the repository's tests: they test that the check sees the bugs it was built for.
usage: mutants.py [property ...]   -> writes /verif/seeded/mutants-result.json"""
import sys, os, subprocess, json, re, time
V = os.path.dirname(os.path.dirname(os.path.abspath(__file__)))
WT = '/tmp/wt-mut'
CORE = 'cedar-policy-core/src/'
FFI = 'cedar-policy/src/ffi/'
M = [
 # id, property, file, old, new
 ('C11-m1', 'C11', CORE + 'validator/coreschema.rs', 'if !self.is_applicable_resource_type(resource_type) {', 'if false {'),
 ('C11-m2', 'C11', CORE + 'entities/conformance.rs', '            self.validate_tags(uid, entity.tags(), &schema_etype)?;\n', ''),
 ('C11-m3', 'C11', CORE + 'entities/conformance.rs', 'if schema_etype.allowed_parent_types().contains(ancestor_type) {', 'if true {'),
 ('C11-m4', 'C11', CORE + 'entities/conformance.rs', '                    if !v.required {\n                        Ok(())', '                    if !v.required || pairs_map.get(k).is_none() {\n                        Ok(())'),
 ('C11-m5', 'C11', CORE + 'validator/types.rs', '                        if !el_type.typecheck_restricted_expr(elt, extensions)? {\n                            return Ok(false);\n                        }', '                        el_type.typecheck_restricted_expr(elt, extensions)?;'),
 ('C11-m6', 'C11', CORE + 'entities/conformance.rs', '    if entity_type.is_action() && schema.action(euid).is_none() {', '    if false {'),
 ('C11-m7', 'C11', CORE + 'validator/coreschema.rs', '        if let (Some(context), Some(action)) = (request.context(), action_uid) {\n            self.validate_context(context, action, extensions)?;\n        }', ''),
 ('C11-m8', 'C11', CORE + 'entities/conformance.rs', '                    if !schema_etype.open_attributes() {', '                    if false {'),
 ('C11-m9', 'C11', CORE + 'entities/conformance.rs', '            Some(actual_euid) if actual_euid.entity_type() == ty => Ok(()),', '            Some(_) => Ok(()),'),
 ('C04-m1', 'C04', CORE + 'transitive_closure.rs', 'if self_loop || vstack.last().expect("vertex stack must be non-empty") != node_id {', 'if vstack.last().expect("vertex stack must be non-empty") != node_id {'),
 ('C04-m2', 'C04', CORE + 'transitive_closure.rs', '                    if !entity.has_edge_to(grandparent) {', '                    if false && !entity.has_edge_to(grandparent) {'),
 ('C04-m3', 'C04', CORE + 'transitive_closure.rs', '        if entity.out_edges().contains(&key) {', '        if false && entity.out_edges().contains(&key) {'),
 ('C04-m4', 'C04', CORE + 'transitive_closure.rs', '                    succ.extend(comp_succ[tail_elt].clone());', ''),
 ('C06-m1', 'C06', CORE + 'est/expr.rs', '            Expr::ExprNoExt(ExprNoExt::ContainsAll { left, right }) => Ok(ast::Expr::contains_all(', '            Expr::ExprNoExt(ExprNoExt::ContainsAll { left, right }) => Ok(ast::Expr::contains_any('),
 ('C06-m2', 'C06', CORE + 'est/expr.rs', '        Expr::ExprNoExt(ExprNoExt::Sub {\n            left: Arc::new(left),\n            right: Arc::new(right),', '        Expr::ExprNoExt(ExprNoExt::Sub {\n            left: Arc::new(right),\n            right: Arc::new(left),'),
 ('C06-m3', 'C06', CORE + 'ast/expr_builder.rs', None, None),
 ('C06-m4', 'C06', 'cedar-policy/src/proto/ast.rs', '            models::expr::binary_app::Op::LessEq => ast::BinaryOp::LessEq,', '            models::expr::binary_app::Op::LessEq => ast::BinaryOp::Less,'),
 ('C06-m5', 'C06', 'cedar-policy/src/proto/ast.rs', '                ast::Expr::binary_app(\n                    ast::BinaryOp::from(pbop),\n                    ast::Expr::try_from(left)?,\n                    ast::Expr::try_from(right)?,', '                ast::Expr::binary_app(\n                    ast::BinaryOp::from(pbop),\n                    ast::Expr::try_from(right)?,\n                    ast::Expr::try_from(left)?,'),
 ('C06-m6', 'C06', 'cedar-policy/src/proto/policy.rs', '            models::principal_or_resource_constraint::Data::Eq(msg) => Ok(\n                ast::PrincipalOrResourceConstraint::Eq(', '            models::principal_or_resource_constraint::Data::Eq(msg) => Ok(\n                ast::PrincipalOrResourceConstraint::In('),
 ('C06-m7', 'C06', 'cedar-policy/src/proto/ast.rs', '                ast::Expr::ite(\n                    ast::Expr::try_from(test_expr)?,\n                    ast::Expr::try_from(then_expr)?,\n                    ast::Expr::try_from(else_expr)?,', '                ast::Expr::ite(\n                    ast::Expr::try_from(test_expr)?,\n                    ast::Expr::try_from(else_expr)?,\n                    ast::Expr::try_from(then_expr)?,'),
 ('C06-m8', 'C06', 'cedar-policy/src/proto/policy.rs', '            ast::PrincipalConstraint::try_from(\n                v.principal_constraint\n                    .ok_or_else(|| ProtobufConversionError::missing("principal_constraint"))?,', '            ast::PrincipalConstraint::try_from(\n                v.resource_constraint.clone()\n                    .ok_or_else(|| ProtobufConversionError::missing("principal_constraint"))?,'),
 ('C06-m9', 'C06', 'cedar-policy/src/proto/policy.rs', '            resource_euid: v\n                .env()\n                .get(&ast::SlotId::resource())', '            resource_euid: v\n                .env()\n                .get(&ast::SlotId::principal())'),
 ('C03-m1', 'C03', CORE + 'validator/typecheck.rs', 'if t1 == t2 && self.is_valid_comparison_op_type(t1) =>', 'if self.is_valid_comparison_op_type(t1) && self.is_valid_comparison_op_type(t2) =>'),
 ('C03-m2', 'C03', CORE + 'validator/typecheck.rs', '                        TypecheckAnswer::success(if typ_arg == &Type::singleton_boolean(true) {\n                            ExprBuilder::with_data(Some(Type::singleton_boolean(false)))', '                        TypecheckAnswer::success(if typ_arg == &Type::singleton_boolean(true) {\n                            ExprBuilder::with_data(Some(Type::singleton_boolean(true)))'),
 ('C03-m3', 'C03', CORE + 'validator/typecheck.rs', '                            (Some(Type::Never), Some(Type::Never)) => TypecheckAnswer::fail(expr),\n                            (Some(Type::Never), Some(other)) => {\n                                if self.is_valid_comparison_op_type(other) {', '                            (Some(Type::Never), Some(Type::Never)) => TypecheckAnswer::fail(expr),\n                            (Some(Type::Never), Some(other)) => {\n                                if true || self.is_valid_comparison_op_type(other) {'),
 ('C03-m4', 'C03', CORE + 'validator/typecheck.rs', '                    self.expect_type(prior_capability, arg2, Type::any_set(), type_errors, |_| {\n                        Some(UnexpectedTypeHelp::TryUsingSingleContains)\n                    })', '                    self.typecheck(prior_capability, arg2, type_errors)'),
 ('C03-m5', 'C03', CORE + 'validator/typecheck.rs', '                            (Some(Type::Long), Some(other)) => {\n                                type_errors.push(ValidationError::expected_one_of_types(\n                                    expr_ty_arg2.source_loc().cloned(),\n                                    self.policy_id.clone(),\n                                    vec![Type::primitive_long()],\n                                    other.clone(),\n                                    None,\n                                ));\n', '                            (Some(Type::Long), Some(_other)) => {\n'),
 ('C03-m6', 'C03', CORE + 'validator/typecheck.rs', '                        let ans_right = self.expect_type(\n                            prior_capability,\n                            right,', '                        let ans_right = self.expect_type(\n                            &prior_capability.union(&capability_left),\n                            right,'),
 ('C03-m7', 'C03', CORE + 'validator/typecheck.rs', 'capability_right.intersect(&capability_left),', 'capability_right.union(&capability_left),'),
 ('C03-m8', 'C03', CORE + 'validator/typecheck.rs', 'else_capability.intersect(&then_capability),', 'then_capability,'),
 ('C03-m9', 'C03', CORE + 'validator/typecheck.rs', '                        Some(Type::Bool(BoolType::False)) => TypecheckAnswer::success(\n                            typ_left.with_maybe_source_loc(e.source_loc().cloned()),\n                        ),', '                        Some(Type::Bool(BoolType::False | BoolType::True)) => TypecheckAnswer::success(\n                            typ_left.with_maybe_source_loc(e.source_loc().cloned()),\n                        ),'),
 ('C03-m10', 'C03', CORE + 'validator/typecheck.rs', '                        let ans_else = self.typecheck(prior_capability, else_expr, type_errors);\n                        // The type of the if expression', '                        let ans_else = self.typecheck(&prior_capability.union(&test_capability), else_expr, type_errors);\n                        // The type of the if expression'),
 ('C03-m11', 'C03', CORE + 'validator/typecheck.rs', '                                if ty.is_required\n                                    || prior_capability', '                                if true\n                                    || prior_capability'),
 ('C03-m12', 'C03', CORE + 'validator/typecheck.rs', 'let type_of_has = if is_record_type || in_prior_capability {', 'let type_of_has = if true || is_record_type || in_prior_capability {'),
 ('C03-m13', 'C03', CORE + 'validator/typecheck.rs', '                                        Type::singleton_boolean(true)\n                                    } else {\n                                        Type::primitive_boolean()\n                                    },\n                                ))\n                                .with_same_source_loc(e)\n                                .has_attr', '                                        Type::singleton_boolean(true)\n                                    } else {\n                                        Type::singleton_boolean(true)\n                                    },\n                                ))\n                                .with_same_source_loc(e)\n                                .has_attr'),
 ('C03-m14', 'C03', CORE + 'validator/typecheck.rs', '                        if prior_capability.contains(&Capability::new_borrowed_tag(arg1, arg2)) {\n                            // Determine the set', '                        if true || prior_capability.contains(&Capability::new_borrowed_tag(arg1, arg2)) {\n                            // Determine the set'),
 ('C03-m15', 'C03', CORE + 'validator/typecheck.rs', '                            CapabilitySet::singleton(Capability::new_borrowed_tag(arg1, arg2)),', '                            CapabilitySet::singleton(Capability::new_borrowed_tag(arg1, arg1)),'),
 ('C03-m16', 'C03', CORE + 'validator/typecheck.rs', '                        let type_of_has = if self.tag_types(kind).is_empty() {', '                        let type_of_has = if !self.tag_types(kind).is_empty() {'),
 ('C03-m17', 'C03', CORE + 'validator/typecheck.rs', '                            let type_of_is = if !actual_lub.contains_entity_type(entity_type) {', '                            let type_of_is = if actual_lub.contains_entity_type(entity_type) {'),
 ('C03-m18', 'C03', CORE + 'validator/typecheck.rs', '                Type::singleton_boolean(lhs_lit == rhs_lit)', '                Type::singleton_boolean(lhs_lit != rhs_lit)'),
 ('C03-m19', 'C03', CORE + 'validator/typecheck.rs', '                let rhs_ty = self.typecheck(prior_capability, arg2, type_errors);\n                lhs_ty.then_typecheck(|lhs_ty, _| {\n                    rhs_ty.then_typecheck(|rhs_ty, _| {\n                        let type_of_eq', '                let rhs_ty = self.typecheck(prior_capability, arg2, type_errors);\n                lhs_ty.then_typecheck(|lhs_ty, _| {\n                    rhs_ty.into_fail().then_typecheck(|rhs_ty, _| {\n                        let type_of_eq'),
 ('C10-m1', 'C10', CORE + 'entities/json/value.rs', '            Literal::Bool(b) => Self::Bool(b),', '            Literal::Bool(b) => Self::Bool(!b),'),
 ('C10-m2', 'C10', CORE + 'entities/json/value.rs', '                        args: args\n                            .iter()\n                            .map(|arg| {', '                        args: args\n                            .iter()\n                            .rev()\n                            .map(|arg| {'),
 ('C10-m3', 'C10', CORE + 'entities/json/value.rs', '                vals.into_iter()\n                    .map(|v| v.into_expr(ctx))', '                vals.into_iter()\n                    .skip(1)\n                    .map(|v| v.into_expr(ctx))'),
 ('C10-m4', 'C10', CORE + 'entities/json/value.rs', '                check_for_reserved_keys(map.keys())?;\n                Ok(Self::Record(\n                    map.iter()', '                Ok(Self::Record(\n                    map.iter()'),
 ('C10-m5', 'C10', CORE + 'entities/json/value.rs', '            Self::Null => Err(JsonDeserializationError::Null(Box::new(ctx()))),', '            Self::Null => Ok(RestrictedExpr::val(false)),'),
 ('C10-m6', 'C10', CORE + 'entities/json/value.rs', '            Self::Long(i) => Ok(RestrictedExpr::val(i)),', '            Self::Long(i) => Ok(RestrictedExpr::val(i.saturating_abs())),'),
 ('C10-m7', 'C10', CORE + 'entities/json/value.rs', '                check_for_reserved_keys(record.keys())?;\n', ''),
 ('C10-m8', 'C10', CORE + 'entities/json/value.rs', '                set.iter()\n                    .cloned()\n                    .map(Self::from_value)', '                set.iter()\n                    .take(1)\n                    .cloned()\n                    .map(Self::from_value)'),
 ('C10-m9', 'C10', CORE + 'entities/json/value.rs', '                    [ref expr] => Ok(Self::ExtnEscape {\n                        __extn: FnAndArgs::Single {\n                            ext_fn: ext_func.to_smolstr(),', '                    [ref expr] => Ok(Self::ExtnEscape {\n                        __extn: FnAndArgs::Single {\n                            ext_fn: ext_func.basename().to_smolstr(),'),
 ('C09-m1', 'C09', CORE + 'validator/cedar_schema/to_json_schema.rs', '            attributes: fields.into_iter().map(convert_attr_decl).collect(),\n            additional_attributes: false,', '            attributes: fields.into_iter().map(convert_attr_decl).collect(),\n            additional_attributes: true,'),
 ('C09-m2', 'C09', CORE + 'validator/cedar_schema/to_json_schema.rs', '            required: attr.node.data.required,', '            required: true,'),
 ('C09-m3', 'C09', CORE + 'validator/cedar_schema/to_json_schema.rs', '        resource_types: resource_types\n            .map(|node| node.node)\n            .ok_or_else(|| ToJsonSchemaError::no_resource(&name, name_loc.cloned()))?,\n        principal_types: principal_types\n            .map(|node| node.node)', '        resource_types: principal_types.clone()\n            .map(|node| node.node)\n            .ok_or_else(|| ToJsonSchemaError::no_resource(&name, name_loc.cloned()))?,\n        principal_types: principal_types\n            .map(|node| node.node)'),
 ('C09-m4', 'C09', CORE + 'validator/cedar_schema/to_json_schema.rs', '        Type::Set(t) => json_schema::TypeVariant::Set {\n            element: Box::new(cedar_type_to_json_type(*t)),\n        },', '        Type::Set(t) => return cedar_type_to_json_type(*t),'),
 ('C09-m5', 'C09', CORE + 'validator/cedar_schema/to_json_schema.rs', '        context: context.map(|c| c.node).unwrap_or_default(),', '        context: context.filter(|_| false).map(|c| c.node).unwrap_or_default(),'),
 ('C10-m10', 'C10', CORE + 'entities/json/value.rs', '                            self.val_into_restricted_expr(element, Some(element_ty), ctx)', '                            self.val_into_restricted_expr(element, None, ctx)'),
 ('C10-m11', 'C10', CORE + 'entities/json/value.rs', '                                None if expected_attr_ty.is_required() => Some(Err(', '                                None if expected_attr_ty.is_required() && false => Some(Err('),
 ('C10-m12', 'C10', CORE + 'entities/json/value.rs', '                    if !open_attrs {\n                        // we\'ve now checked', '                    if *open_attrs {\n                        // we\'ve now checked'),
 ('C10-m13', 'C10', CORE + 'entities/json/value.rs', 'match self.val_into_restricted_expr(actual_attr, Some(expected_attr_ty.schema_type()), ctx) {', 'match self.val_into_restricted_expr(actual_attr, None, ctx) {'),
 ('C09-m6', 'C09', CORE + 'validator/cedar_schema/to_json_schema.rs', 'member_of_types: d.member_of_types.into_iter().map(RawName::from).collect(),', 'member_of_types: d.member_of_types.into_iter().skip(1).map(RawName::from).collect(),'),
 ('C09-m7', 'C09', CORE + 'validator/cedar_schema/to_json_schema.rs', '                    tags: d.tags.map(cedar_type_to_json_type),', '                    tags: d.tags.filter(|_| false).map(cedar_type_to_json_type),'),
 ('C03-m20', 'C03', CORE + 'validator/typecheck.rs', '                                if !self.any_entity_type_decedent_of(lhs_etys, rhs_etys) =>', '                                if self.any_entity_type_decedent_of(lhs_etys, rhs_etys) =>'),
 ('C03-m21', 'C03', CORE + 'validator/typecheck.rs', '                    (Some(lhs_euid), Some(rhs_euids)) if lhs_euid.is_action() => self', '                    (Some(lhs_euid), Some(rhs_euids)) if lhs_euid.is_action() || true => self'),
 ('C05-m1', 'C05', CORE + 'est/expr.rs', '            ExprNoExt::Less { left, right } => {\n                maybe_with_parens(f, left, n)?;\n                write!(f, " < ")?;', '            ExprNoExt::Less { left, right } => {\n                maybe_with_parens(f, left, n)?;\n                write!(f, " <= ")?;'),
 ('C05-m2', 'C05', CORE + 'est/expr.rs', '                write!(f, " - ")?;\n                maybe_with_parens(f, right, n)', '                write!(f, " - ")?;\n                BoundedDisplay::fmt(right.as_ref(), f, n)'),
 ('C05-m3', 'C05', CORE + 'est/expr.rs', '        Expr::ExprNoExt(ExprNoExt::Like { .. }) |\n        Expr::ExprNoExt(ExprNoExt::Is { .. }) |\n        Expr::ExprNoExt(ExprNoExt::If { .. }) => {', '        Expr::ExprNoExt(ExprNoExt::Like { .. }) |\n        Expr::ExprNoExt(ExprNoExt::Is { .. }) => BoundedDisplay::fmt(expr, f, n),\n        Expr::ExprNoExt(ExprNoExt::If { .. }) => {'),
 ('C17-m1', 'C17', CORE + 'validator/entity_manifest.rs', '            if matches!(op, BinaryOp::In) {', '            if false && matches!(op, BinaryOp::In) {'),
 ('C17-m2', 'C17', CORE + 'validator/entity_manifest.rs', '            .union(entity_manifest_from_expr(then_expr)?)\n            .union(entity_manifest_from_expr(else_expr)?)),', '            .union(entity_manifest_from_expr(then_expr)?)),'),
 ('C17-m3', 'C17', CORE + 'validator/entity_manifest.rs', '        ExprKind::HasAttr { expr, attr } => Ok(entity_manifest_from_expr(expr)?\n            .get_or_has_attr(attr)\n            .empty_paths()),', '        ExprKind::HasAttr { expr, attr: _ } => Ok(entity_manifest_from_expr(expr)?\n            .empty_paths()),'),
 ('C17-m4', 'C17', CORE + 'validator/entity_manifest/analysis.rs', '        self.global_trie = self.global_trie.union(other.global_trie);\n        self.resulting_paths = WrappedAccessPaths::Union(', '        self.resulting_paths = WrappedAccessPaths::Union('),
 ('C17-m5', 'C17', CORE + 'validator/entity_manifest.rs', '                .union(arg2_res.full_type_required(ty2))', '                .union(arg2_res)'),
 ('C15-m1', 'C15', CORE + 'batched_evaluator.rs', '            if !entities.contains_entity(&uid) {\n                to_load.insert(uid);\n            }', '            if !entities.contains_entity(&uid) && to_load.is_empty() {\n                to_load.insert(uid);\n            }'),
 ('C15-m2', 'C15', CORE + 'batched_evaluator.rs', '    for _i in 0..max_iters {', '    for _i in 0..=max_iters {'),
 ('C15-m3', 'C15', CORE + 'batched_evaluator.rs', '                None => {\n                    entities.add_entity_trusted(', '                None if false => {\n                    entities.add_entity_trusted('),
 ('C16-m1', 'C16', CORE + 'validator/level_validate.rs', None, None),
 ('C19-m1', 'C19', FFI + 'is_authorized.rs', '            reason.collect(),\n            errors.map(Into::into).collect(),', '            reason.take(1).collect(),\n            errors.map(Into::into).collect(),'),
 ('C19-m2', 'C19', FFI + 'is_authorized.rs', 'cache.borrow_mut().insert(pset_id, parsed_policies);', 'cache.borrow_mut().entry(pset_id).or_insert(parsed_policies);'),
 ('C19-m3', 'C19', FFI + 'is_authorized.rs', 'cache.borrow_mut().insert(schema_name, parsed_schema);', 'cache.borrow_mut().insert(schema_name.trim().to_string(), parsed_schema);'),
 ('C19-m4', 'C19', FFI + 'utils.rs', '.map(|(id, policy)| policy.parse(Some(id)))', '.map(|(_id, policy)| policy.parse(None))'),
 ('C19-m5', 'C19', FFI + 'utils.rs', '(Some(s), Some(a)) => Some((s, a)),', '(Some(_), Some(_)) => None,'),
 ('C19-m6', 'C19', FFI + 'utils.rs', 'self.template_links.into_iter().for_each(|link| {', 'self.template_links.into_iter().skip(1).for_each(|link| {'),
 ('C19-m7', 'C19', FFI + 'is_authorized.rs', '.with(|cache| cache.borrow().get(&schema_name).cloned())', '.with(|cache| cache.borrow().get(&schema_name).cloned().or_else(|| cache.borrow().values().next().cloned()))'),
 ('C19-m8', 'C19', FFI + 'validate.rs', '                    policy_id: error.policy_id().clone(),\n                    error: miette::Report::new(error).into(),\n                })\n                .collect();\n            let validation_warnings', '                    policy_id: error.policy_id().clone(),\n                    error: miette::Report::new(error).into(),\n                })\n                .skip(1)\n                .collect();\n            let validation_warnings'),
 ('C19-m9', 'C19', FFI + 'convert.rs', '    match template.parse(None) {\n        Ok(template) => match template.to_json() {', '    match template.parse(Some(crate::PolicyId::new("t"))) {\n        Ok(template) => match template.to_json() {'),   # keeps the property (the id is not part of the JSON form): must NOT be reported
 ('C19-m13', 'C19', FFI + 'convert.rs', '        Ok(policy) => PolicyToTextAnswer::Success {\n            text: policy.to_string(),', '        Ok(policy) => PolicyToTextAnswer::Success {\n            text: policy.to_string().replace(" when {\\n  true\\n}", ""),'),
 ('C19-m10', 'C19', FFI + 'check_parse.rs', '    call.entities.parse(schema.as_ref()).into()', '    call.entities.parse(None).into()'),
 ('C19-m11', 'C19', FFI + 'format.rs', '        indent_width: call.indent_width,', '        indent_width: call.line_width as isize,'),
 ('C19-m12', 'C19', FFI + 'check_parse.rs', '            if let Err(err) = context.validate(schema_ref, action_ref) {', '            if let Err(err) = context.validate(schema_ref, action_ref).and(Ok::<(), crate::RequestValidationError>(())).or(Ok::<(), crate::RequestValidationError>(())) {'),
]


def sh(c, **k):
    return subprocess.run(c, shell=True, capture_output=True, text=True, **k)


def main():
    props = set(sys.argv[1:])
    todo = [m for m in M if m[3] is not None and (not props or m[1] in props or m[0] in props)]
    sh(f'git -C /repo worktree remove --force {WT}')
    sh(f'git -C /repo worktree add --detach {WT} HEAD')
    out_path = os.path.join(V, 'seeded', 'mutants-result.json')
    res = json.load(open(out_path)) if os.path.exists(out_path) else {}
    for mid, prop, file, old, new in todo:
        sh(f'cd {WT} && git checkout -q -- .')
        p = os.path.join(WT, file)
        s = open(p).read()
        if s.count(old) != 1:
            res[mid] = {'status': 'mutant does not apply', 'occurrences': s.count(old)}
            print(mid, 'DOES NOT APPLY', s.count(old))
            continue
        open(p, 'w').write(s.replace(old, new))
        t = time.time()
        r = subprocess.run(f'cd {V} && ./check {prop} --tier quick', shell=True, capture_output=True, text=True, env=dict(os.environ, VERIF_REPO=WT))
        o = r.stdout + r.stderr
        viol = re.findall(r'^VIOLATION.*$', o, re.M)
        status = {0: 'MISSED', 1: 'caught', 2: 'flagged'}.get(r.returncode, f'exit {r.returncode}')
        res[mid] = {'property': prop, 'file': file, 'old': old[:160], 'new': new[:160], 'exit': r.returncode, 'status': status, 'violations': len(viol),
                    'first_violation': (o.split('VIOLATION', 1)[1][:400] if viol else ''), 'tail': o[-500:] if r.returncode == 2 else '', 'wall_s': round(time.time() - t)}
        print(mid, status, f'violations={len(viol)}', f'{time.time() - t:.0f}s', flush=True)
        sh(f'cd {V} && git checkout -- evidence/{prop}.json 2>/dev/null')
        json.dump(res, open(out_path, 'w'), indent=1)
    sh(f'git -C /repo worktree remove --force {WT}')
    import hashlib
    suf = hashlib.sha256(WT.encode()).hexdigest()[:8]
    sh(f'rm -rf {V}/build/*-{suf} {V}/build/mir/target-{suf} {V}/build/.lock-*-{suf}')


if __name__ == '__main__':
    main()
