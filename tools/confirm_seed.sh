#!/bin/bash
# usage: confirm_seed.sh <seed-dir> ; confirms in the scratch worktree /tmp/wt-confirm that the patch applies and compiles, the
# crate test suites still pass with it, and the demonstration fails with it and passes without it.  Writes <seed-dir>/confirm.log
set -u
SEED=$(realpath "$1"); WT=/tmp/wt-confirm; LOG=$SEED/confirm.log
export CARGO_TARGET_DIR=$WT/target CARGO_NET_OFFLINE=true
[ -d $WT ] || git -C /repo worktree add --detach $WT HEAD >/dev/null 2>&1
cd $WT && git checkout -q -- . && git clean -fdq -e target
: > $LOG
FEAT=$(grep -ho -- '--features [a-z,-]*' $SEED/notes.md | head -1); FEAT=${FEAT:-}
DEMOCRATE=cedar-policy; grep -q 'cedar-policy-core/tests' $SEED/notes.md && ! grep -q 'cedar-policy/tests' $SEED/notes.md && DEMOCRATE=cedar-policy-core
grep -q 'cedar-policy-symcc/tests' $SEED/notes.md && DEMOCRATE=cedar-policy-symcc
echo "demo crate: $DEMOCRATE features: $FEAT" >> $LOG
mkdir -p $WT/$DEMOCRATE/tests; cp $SEED/demo.rs $WT/$DEMOCRATE/tests/seed_demo.rs
echo "== demo WITHOUT patch" >> $LOG
cargo test --offline -q -p $DEMOCRATE $FEAT --test seed_demo -j 8 >> $LOG 2>&1; R0=$?
echo "exit=$R0" >> $LOG
git apply $SEED/patch.diff >> $LOG 2>&1 || { echo "PATCH DOES NOT APPLY" >> $LOG; exit 1; }
echo "== demo WITH patch" >> $LOG
cargo test --offline -q -p $DEMOCRATE $FEAT --test seed_demo -j 8 >> $LOG 2>&1; R1=$?
echo "exit=$R1" >> $LOG
rm -f $WT/$DEMOCRATE/tests/seed_demo.rs
echo "== existing tests WITH patch" >> $LOG
CRATES=$(git diff --name-only | cut -d/ -f1 | sort -u)
R2=0
for c in $CRATES cedar-policy; do
  F2=$FEAT; FN=$(echo "$FEAT" | sed 's/--features //'); [ -n "$FN" ] && ! grep -q "^$FN\b" $WT/$c/Cargo.toml && F2=""   # a feature of the demo crate that this crate does not have
  cargo test --offline -q -p $c $F2 --lib -j 8 2>&1 | grep -E "^test result|FAILED|failed|error(\[|:)" >> $LOG; [ ${PIPESTATUS[0]} -ne 0 ] && R2=1
done
echo "existing-tests-exit=$R2" >> $LOG
git checkout -q -- .
if [ $R0 -eq 0 ] && [ $R1 -ne 0 ] && [ $R2 -eq 0 ]; then echo "CONFIRMED" >> $LOG; else echo "NOT-CONFIRMED r0=$R0 r1=$R1 r2=$R2" >> $LOG; fi
tail -1 $LOG
