#!/usr/bin/env python3
"""Writes /verif/MANIFEST.json from the table below (single source of truth for what is claimed)."""
import json, os
V = os.path.dirname(os.path.dirname(os.path.abspath(__file__)))
TECH = 'symbolic execution of rustc MIR (mir2smt) -> SMT (z3 + cvc5), counterexamples replayed natively'
LEVEL_TEXT = ('Category "other": every obligation is a solver verdict (z3 and cvc5, Int/BV-mode SMT) over ALL inputs of a kernel that was symbolically executed from the '
              'rustc MIR of the current tree; the property itself is larger than the kernels that can be encoded, so neither "proof" nor "model_checking" of the '
              'whole property is claimed. ')
CLAIMED = {
 'C01': ('authorizer bucket-loop step from an arbitrary state (3x2 outcome x effect table, errors by id), PartialResponse::new wiring, decision / reasons / errors of Response::from(PartialResponse) over all 2^6 bucket states',
         'Trusted: MIR of the nightly toolchain as semantics; environment stubs for Evaluator::partial_evaluate / Policy::{id,effect}; HashMap/iterator adaptors as logged terms; what a condition evaluates to (C02), template links (C08), cedar-policy api.rs wrapper are outside.', '4 C01'),
 'C02': ('evaluator operator kernels unary_app and binary_arith over arbitrary Values (all kinds, all i64): exact checked arithmetic, overflow and type errors naming the first offending operand',
         'Trusted: model catalogue for core::num; EvaluationError constructors as opaque logged constructors. Outside: sets, `in`, records, like, parser/EST equivalence, extension calls.', '4 C02'),
 'C06': ('expression level of the JSON policy format: for every kind of AST expression node (if, &&, ||, unary / binary operators, attribute access, has, like, is, set, record, extension call, variable, slot) AST -> EST (generic walker + ExprBuilder dispatch + est::Builder) followed by EST -> AST (est::Expr::try_into_ast + real ast constructors) gives back the same kind, the same operator and the children in place; children opaque (structural induction); every scope-constraint shape and the whole template (effect, three constraints, condition, two annotations with keys and values) survive AST -> EST -> AST; the same expression-node round trip for the PST (PstBuilder / pst::Expr::into_expr)',
         'Narrow slice of C06. Trusted / outside: children round-trip by induction hypothesis; printing/parsing of names, pattern elements, literal values are opaque leaves; JSON serde, entity uids / literals as JSON, links, policy sets, PST constraints / policies, PST extension calls and protobuf are NOT covered (native battery of 47 policies through Policy::to_json/from_json exercises the JSON layer).', '4 C06'),
 'C07': ('scalar kernels behind datetime/duration: offset, durationSince, toDate, toTime, toMilliseconds..toDays over all i64 (Int-mode, quotient lemma for / and %)',
         'Trusted: model catalogue (checked_*, rem_euclid, Option plumbing). Outside: constructor string parsing (regex, chrono), ip, decimal parsing.', '4 C07'),
 'C14': ('TPE response: classification of residual policies into the eight bucket sets and the residual map (one loop step from an arbitrary state, Residual::is_true/is_false/is_error executed from MIR), completion-quantified decision table, reason(), ResidualPolicy -> Policy conversion, policy_set() presents the residuals',
         'Trusted: environment stubs for iterator/HashMap/HashSet/PolicySet::add and uninterpreted Policy getters. Outside: tpe::Evaluator simplification rules, can_error_assuming_well_formed, consistency checks, query_* APIs.', '4 C14'),
 'C04': ('transitive-closure algorithms of transitive_closure.rs on symbolic graphs (<= 3 entities + 1 parent id without a record; thorough: 4 entities), every parent link a symbolic boolean: compute_tc yields exactly reachability through parent links and (enforce_dag) reports a cycle iff one exists; enforce_tc_and_dag accepts exactly transitively closed acyclic stores',
         'Bounded: stores of <= 3 (4) entities. Trusted: concrete-key models of std HashMap/HashSet/Vec/Range/sort_by with insertion-order iteration (mir2smt/containers.py); node = id + row of edge bits. Outside: larger stores, EntityUID hashing/equality, order-dependent behaviour under other hash orders.', '4 C04'),
 'C11': ('schema conformance per node / loop element: ValidatorSchema::{validate_request, validate_scope_variables, validate_context}, EntitySchemaConformanceChecker::{validate_entity, validate_entity_attributes, validate_entity_ancestors, validate_tags, validate_action}, validate_euid, is_valid_enumerated_entity, validate_euids_in_subexpressions, typecheck_restricted_expr_against_schematype and Type::typecheck_restricted_expr for every (type kind, value kind) with <= 2 members and arbitrary member verdicts, and the core entry points (Entities::{add,upsert,from}_entities, single_from_ejson, Request::{new,new_with_unknowns}): accept exactly when every requirement holds',
         'Trusted: schema look-ups as arbitrary-answer stubs (that the schema object answers correctly is only exercised natively), name/type equality as free booleans, small-container models for HashMap/BTreeMap/iterator adaptors. Outside: JSON parsing and schema-directed coercion, TPE entry points, correctness of CoreSchema/EntityTypeDescription construction.', '4 C11'),
 'C15': ('driver of batched authorization (batched_evaluator.rs): request conversion; the loop for budgets 0..3 with <= 2 residual policies over <= 3 entity ids and everything the residuals say symbolic - the loader is asked only for not-yet-known ids the residuals mention, and for at least one while there is one, every answer is recorded (absent entities as attribute-less ones), every residual is re-evaluated against the updated store, at most `budget` loader calls, early exit only when no residual is partial, result = decision of the TPE response or `insufficient iterations`; ResidualKind::all_literal_uids per node kind (union over all children)',
         'Trusted / outside: tpe::Evaluator::interpret, policy_residual_map, PartialEntities::*, tpe::Response::{new,decision} (C14) and the loader are environment stubs - that a residual keeps the meaning of its policy is NOT decided, only exercised by a native battery (16 scenarios x 8 budgets: batched vs ordinary authorization, monotone in the budget, decision above the number of distinct ids).', '4 C15'),
 'C16': ('level checker: per-node level calculus of check_expr_level / check_entity_deref_target_level (every node kind, arbitrary child levels and maximum): every child visited with the right access path, dereferences report `maximum level exceeded` iff target level >= max (=> monotone in the maximum), +1 for entity attribute access and getTag, max over if-branches, non-action literals rejected',
         'Trusted: recursive calls as arbitrary levels; Expr::data annotation as entity/record/other. The RFC-76 induction from the per-node calculus to slice sufficiency is a paper argument and NOT decided; record-literal access-path lookup and the loop over request environments are outside.', '4 C16'),
 'C18': ('SymCC constant folding: symcc::bitvec::BitVec {add,sub,mul,udiv,urem,sdiv,srem,smod,neg,not,slt,sle,ult,ule,to_int,of_int,overflows} executed from the MIR of cedar-policy-symcc (num-bigint as SMT integers) against the SMT-LIB definitions at widths 1,2,8,64 (thorough: +3,32,128), and the factory overflow predicates bvsaddo/bvssubo/bvsmulo/bvnego on literal operands against the exact-integer overflow condition (= i64::checked_* returning None at width 64)',
         'Trusted: big-integer model (mir2smt/bigint.py), SMT-LIB semantics as written in the obligations. Outside: compile(), SymEnv::from_concrete_env, verify_* assert builders, extension-type string parsing, shifts/extract/concat.', '4 C18'),
 'C20': ('panic-freedom of the cedar-policy-core kernels encoded for C01/C02/C07/C13/C14: every MIR assert / unwrap / expect / unreachable! / explicit panic on a feasible path is a failed obligation',
         'Narrow slice of C20: only the kernels listed in the evidence; parsers, error rendering, JSON/protobuf/FFI entry points and nesting limits are outside. Panics inside stubbed callees are invisible.', '4 C20'),
 'C08': ('policy-set edits: add, add_static, add_template, link, unlink, remove_static, remove_template each executed from MIR over abstract maps (SMT arrays over an uninterpreted id sort) from an ARBITRARY state satisfying a 9-conjunct representation invariant: invariant preserved, failed operation changes nothing, successful one changes exactly the named ids (inductive step => histories of any length); merge_policyset(self arbitrary, other = one static policy / one template / one template with a link, symbolic) preserves the invariant, loses nothing of self, brings in everything of other, fails atomically; `==` on Template / Policy / TemplateBodyImpl / StaticPolicy compares every component but the source location',
         'Trusted: abstract-map model of LinkedHashMap/LinkedHashSet; uninterpreted Policy/Template accessors; preconditions the public API enforces (add takes static policies only, link refuses static templates). Outside: linked policy == substituted static policy (needs the evaluator), merges with larger `other` sets, the search loop of get_fresh_id, Template::link/check_binding, api.rs wrapper maps.', '4 C08'),
 'C13': ('PartialResponse algebra: decision() agrees with every completion and is None only when completions disagree; must <= determining <= may; definitely_errored / definitely_satisfied; the policy set reauthorize evaluates',
         'Trusted: bucket-granular completion model; HashMap/iterator adaptors as logged terms with real closure bodies. Outside: residual-building arms of the evaluator, partial entity stores.', '4 C13'),
}
NA = {
 'C03': 'strict-validation soundness needs the typechecker over a ValidatorSchema composed with the whole evaluator in one query; the evaluator alone exceeded 24 GB under CBMC and its typed-AST recursion is not loop-free for engine M',
 'C05': 'subject is parse(print(ast)); the LALRPOP parser lexes with the regex crate - not a bounded computation either engine can take',
 'C09': 'two parsers (LALRPOP + serde_json) and name resolution over HashMaps of parsed names',
 'C10': 'serde_json in both directions',
 'C11': 'machinery not built yet (type-directed conformance per node planned, see DESIGN.md section 4)',
 'C12': 'logos + regex + pretty + the core parser',
 'C17': 'feature-gated analysis over typed ASTs plus evaluation over sliced stores',
 'C19': 'serde_json, the parser, thread-local caches, process exit codes',
}
checks = []
for pid, (what, note, ref) in sorted(CLAIMED.items()):
    checks.append({'property_id': pid, 'quick_cmd': f'./check {pid} --tier quick', 'thorough_cmd': f'./check {pid} --tier thorough',
                   'evidence_file': f'/verif/evidence/{pid}.json', 'replay_cmd_template': './check replay {path}', 'engine': 'mir2smt',
                   'level_claimed': {'category': 'other', 'text': LEVEL_TEXT + 'Decided here: ' + what + '.', 'design_ref': 'DESIGN.md section ' + ref},
                   'level_note': note, 'technique': TECH})
m = {'version': 1,
     'setup_cmd': './check setup',
     'hooks': {'guard': 'none needed so far (no source hooks in /repo; replay goes through public APIs)', 'enable': 'n/a',
               'baseline_off_cmd': 'cd /repo && cargo nextest run --workspace --no-fail-fast --tool-config-file pb:/w/lib/nextest.toml --profile pb --test-threads 8 --offline',
               'source_commits': [], 'add_only': True},
     'engines': [{'name': 'mir2smt', 'path': '/verif/mir2smt', 'serves_properties': sorted(CLAIMED),
                  'kind_free_text': 'symbolic executor over rustc MIR (-Zunpretty=mir of the working tree) producing SMT queries for z3 and cvc5; native replay crate /verif/replay'}],
     'checks': checks,
     'not_applicable': [{'property_id': k, 'reason': v} for k, v in sorted(NA.items()) if k not in CLAIMED],
     'notes': 'Exit codes of every check: 0 held / known findings only; 1 reproduced violation (VIOLATION line); 2 machinery problem (encoding mismatch, obligation not encodable on this tree, tool failure) - never a pass.'}
json.dump(m, open(os.path.join(V, 'MANIFEST.json'), 'w'), indent=1)
print('claimed', sorted(CLAIMED), 'n/a', len(m['not_applicable']))
