#!/usr/bin/env python3
"""Prints the prompt given to a fresh sub-agent that is asked to seed a property-breaking change.
Only the property text and the scratch worktree path go in; nothing from /verif."""
import json, sys
pid, wt = sys.argv[1], sys.argv[2]
p = next(json.loads(l) for l in open('/verif/properties.jsonl') if json.loads(l)['id'] == pid)
print(f"""You are working in a scratch git worktree of the cedar-policy/cedar repository (the Rust implementation of the Cedar authorization policy language) at {wt}. Work ONLY inside {wt}: never read, write or run anything under /repo or /verif. The sandbox has no network: always pass --offline to cargo, and always set CARGO_TARGET_DIR={wt}/target so build output stays inside the worktree.

Here is a semantic property that users of this code base rely on:

TITLE: {p['title']}

STATEMENT: {p['statement']}

QUANTIFIED OVER: {p['quantifier']['text']}

Code the property is anchored in: {', '.join(p['anchors']['files'])}
Mechanisms: {'; '.join(m['name'] + ' (' + m['where'] + ')' for m in p['anchors']['mechanism'])}

YOUR TASK: produce up to 3 independent, realistic source changes to the repository (the kind of bug a maintainer could plausibly introduce during a refactor, an optimisation or a 'simplification'), each of which BREAKS this property while
  (a) the workspace still compiles, and
  (b) the existing tests of the crates you touched still pass (compare against the failures that already happen WITHOUT your change: some tests in this tree fail at baseline, e.g. everything that needs an external solver; those do not count).
Each change must need something specific to manifest - an unusual or boundary input, a particular combination of operands/policies, a multi-step sequence of operations, or two cooperating sites that each look fine alone - NOT something ordinary use or the existing examples would expose at once. Prefer small changes (1-10 lines) in the non-test source of cedar-policy-core (or cedar-policy / cedar-policy-symcc where the property lives there). Make the three changes different in kind and location (different functions / mechanisms of the property).

For each change N (1..3) create a directory {wt}/seeded/N/ containing:
  - patch.diff : `git diff` of the source change only (must apply with `git apply` to a clean checkout of this commit; do not include the demonstration in it);
  - a demonstration: one Rust integration-test file demo.rs (to be dropped into cedar-policy/tests/ or cedar-policy-core/tests/ - say which - and run with `cargo test --offline -p <crate> --test demo`, plus any --features it needs) that FAILS with the change applied and PASSES without it. Use only public APIs. Verify both directions yourself;
  - notes.md : which part of the property it breaks, what exactly is needed for it to manifest, the exact commands you ran (build, existing tests with their pass/fail counts before and after, demo before and after).
To check (b) run at least `cargo test --offline -p <touched crate> --lib` (and `-p cedar-policy --lib` if you touched cedar-policy-core), with and without the change. Building takes a few minutes; use `-j 6` to leave CPU for others.

When you are done, revert the working tree to the clean commit (git checkout -- . ; remove the demo files you dropped into tests/ directories) so that only {wt}/seeded/ remains as untracked output, and delete {wt}/target to free disk space. Finish by replying with a short summary: for each change, the file/function changed, what it needs to manifest, and whether you verified (a), (b) and the demonstration in both directions. If you could only produce fewer than 3 verified changes, say so; never report something you did not verify.""")
