#!/usr/bin/env python3
"""Writes seeded/<id>/meta.json for every kept seeded change from its notes.md (written by the sub-agent that produced it),
confirm.log (tools/confirm_seed.sh, run by me in the scratch worktree /tmp/wt-confirm) and detection.json (tools/run_seed.py)."""
import os, re, json, glob
V = os.path.dirname(os.path.dirname(os.path.abspath(__file__)))
OVERRIDE = {
    'C01-2': {'status_note': 'superseded: the patch rewrites the lines of `impl From<PartialResponse> for Response` that the genuine-defect repair F4 (/repo 9c8e1d6) replaced; it no longer applies to /repo HEAD. '
                             'It was confirmed on the pre-fix tree (confirm.log). Its behaviour (reasons = may_be_determining) is a superset of defect F4 and is rejected by the same C01 reasons-table obligation that found F4.'},
    'C18-1': {'confirm_note': 'cedar-policy-symcc --lib has 2 failing tests (solver::test::parse_error_test, solver_pool::test::test_failed_solver_discarded) on the CLEAN tree in this sandbox (they are not in the baseline stable-pass set); with the patch the same 2 fail and the other 115 pass, so the change passes the existing suite.'},
}
OVERRIDE['C18-2'] = OVERRIDE['C18-3'] = {'confirm_note': OVERRIDE['C18-1']['confirm_note']}


def section(text, pat):
    """text of the section / bold paragraph whose heading matches pat"""
    m = re.search(r'^(?:#+\s*|\*\*)(' + pat + r')[^\n]*?(?:\*\*:?|\n)(.*?)(?=^#+\s|^\*\*[A-Z][^\n]*?\*\*|\Z)', text, re.M | re.S | re.I)
    return re.sub(r'\s+', ' ', m.group(2)).strip()[:1500] if m else ''


for sd in sorted(glob.glob(os.path.join(V, 'seeded', 'C*-*'))):
    sid = os.path.basename(sd)
    notes = open(os.path.join(sd, 'notes.md')).read()
    patch = open(os.path.join(sd, 'patch.diff')).read()
    confirm = open(os.path.join(sd, 'confirm.log')).read() if os.path.exists(os.path.join(sd, 'confirm.log')) else ''
    det = json.load(open(os.path.join(sd, 'detection.json'))) if os.path.exists(os.path.join(sd, 'detection.json')) else {}
    last = confirm.strip().split('\n')[-1] if confirm.strip() else 'not run'
    meta = {
        'seed': sid,
        'property': sid.split('-')[0],
        'title': notes.split('\n')[0].lstrip('# ').strip(),
        'files_changed': re.findall(r'^\+\+\+ b/(.*)$', patch, re.M),
        'breaks': section(notes, r'(?:which )?part of the property[^\n]*'),
        'needs_to_manifest': section(notes, r'(?:what is )?needed (?:for it )?to manifest|what is needed[^\n]*'),
        'produced_by': 'a fresh sub-agent given only the property text and its own scratch worktree under /tmp (nothing from /verif)',
        'confirmed_by_me': {
            'how': 'tools/confirm_seed.sh in the scratch worktree /tmp/wt-confirm: demo.rs copied into the crate tests; `cargo test --test seed_demo` passes WITHOUT the patch and fails WITH it; '
                   '`cargo test --lib` of the touched crates and of cedar-policy still pass WITH the patch',
            'result': last,
        },
        'check_result': {k: {'exit': v.get('exit'), 'violations': v.get('violations'), 'verdict': {0: 'missed (exit 0)', 1: 'caught (VIOLATION, replayed natively)', 2: 'flagged (exit 2: not a pass, no VIOLATION)'}.get(v.get('exit'), 'not run'),
                             'first_violation': v.get('first', '')[:300], 'wall_s': v.get('wall_s')} for k, v in det.items()},
        'how_run': 'tools/run_seed.py <seed>: patch applied to the scratch worktree /tmp/wt-seedrun (VERIF_REPO), `./check <property> --tier quick`; /repo untouched',
    }
    meta.update(OVERRIDE.get(sid, {}))
    json.dump(meta, open(os.path.join(sd, 'meta.json'), 'w'), indent=1)
    print(sid, last[:30], {k: v.get('exit') for k, v in det.items()}, 'needs:', len(meta['needs_to_manifest']), 'breaks:', len(meta['breaks']))
