#!/usr/bin/env python3
"""Run registered checks against a seeded change WITHOUT touching /repo: the patch is applied to the scratch worktree
/tmp/wt-seedrun (created from /repo's HEAD) and the checks run with VERIF_REPO pointing at it.
usage: run_seed.py <seed-id> [check-id ...]      (default checks: the seed's property)"""
import sys, os, subprocess, json, re, time
V = os.path.dirname(os.path.dirname(os.path.abspath(__file__)))
WT = '/tmp/wt-seedrun'
seed = sys.argv[1]
checks = sys.argv[2:] or [seed.split('-')[0]]
sd = os.path.join(V, 'seeded', seed)
def sh(c, **k): return subprocess.run(c, shell=True, capture_output=True, text=True, **k)
if not os.path.isdir(WT):
    sh(f'git -C /repo worktree add --detach {WT} HEAD')
sh(f'cd {WT} && git checkout -q --detach $(git -C /repo rev-parse HEAD) && git checkout -q -- . && git clean -fdq')
patch = os.path.join(sd, 'patch.diff')
if os.path.exists(os.path.join(sd, 'patch-rebased.diff')):
    patch = os.path.join(sd, 'patch-rebased.diff')
r = sh(f'cd {WT} && git apply {patch}')
if r.returncode != 0:
    print('PATCH DOES NOT APPLY', r.stderr[:500]); sys.exit(3)
res = {}
for c in checks:
    t = time.time()
    env = dict(os.environ, VERIF_REPO=WT)
    p = subprocess.run(f'cd {V} && ./check {c} --tier quick', shell=True, capture_output=True, text=True, env=env)
    out = p.stdout + p.stderr
    viol = re.findall(r'^VIOLATION.*$', out, re.M)
    det = [l for l in out.split('\n') if l.startswith(('  ', 'NOT-ENCODED', 'ENCODING-MISMATCH', 'MACHINERY'))][:6]
    res[c] = {'exit': p.returncode, 'violations': len(viol), 'first': (out.split('VIOLATION', 1)[1][:600] if viol else ''), 'wall_s': round(time.time() - t), 'tail': out[-600:] if p.returncode == 2 else ''}
    print(seed, c, 'exit', p.returncode, 'violations', len(viol), f'{time.time()-t:.0f}s')
    # the evidence file was rewritten by a run against the scratch tree: restore the committed one
    sh(f'cd {V} && git checkout -- evidence/{c}.json 2>/dev/null')
sh(f'cd {WT} && git checkout -q -- . && git clean -fdq')
json.dump(res, open(os.path.join(sd, 'detection.json'), 'w'), indent=1)
