#!/usr/bin/env python3-vt
# prototype 2: PartialResponse::decision with HashMap::is_empty stubbed
import re, z3, sys
sys.path.insert(0, '/root/scratch/m2s')
import proto
from proto import *

fns, consts = parse_mir('/root/scratch/mir/core.mir')
f = [v for k, v in fns.items() if k.endswith('::decision') and 'partial_response' in k][0]

class E(Exec):
    def __init__(s, *a):
        Exec.__init__(s, *a); s.empties = {}
    def read(s, env, place):
        place = place.strip()
        m = re.match(r'^\(\(\*_1\)\.(\d+): ', place)
        if m: return ('field', int(m.group(1)))
        return Exec.read(s, env, place)
    def rvalue(s, env, rv, lty):
        rv = rv.strip()
        m = re.match(r'^&\(\(\*_1\)\.(\d+): ', rv)
        if m: return ('field', int(m.group(1)))
        m = re.match(r'^Decision::(\w+)$', rv)
        if m: return ('variant', m.group(1), [])
        m = re.match(r'^std::option::Option::<Decision>::Some\((.*)\)$', rv)
        if m: return ('variant', 'Some', [s.operand(env, m.group(1))])
        if rv == 'std::option::Option::<Decision>::None': return ('variant', 'None', [])
        return Exec.rvalue(s, env, rv, lty)
    def call(s, env, callee, args, pc):
        if 'is_empty' in callee:
            a = s.operand(env, args[0]); idx = a[1]
            b = s.empties.setdefault(idx, z3.Bool(f'empty_{idx}'))
            return [(pc, b2bv(b))]
        return Exec.call(s, env, callee, args, pc)

ex = E(fns, consts); outs = []
ex.run(f, [None], z3.BoolVal(True), outs)
print('outcomes', len(outs), 'fields used', sorted(ex.empties))
# field indices: 0 satisfied_permits, 2 residual_permits, 3 satisfied_forbids, 5 residual_forbids
sp, rp, sf, rf = [z3.Not(ex.empties[i]) for i in (0, 2, 3, 5)]
# completion: x = some residual permit becomes satisfied, y = some residual forbid becomes satisfied
x, y, x2, y2 = z3.Bools('x y x2 y2')
def concrete(x, y):  # Allow?
    return z3.And(z3.Or(sp, z3.And(rp, x)), z3.Not(z3.Or(sf, z3.And(rf, y))))
s = z3.Solver()
nq = 0
for pc, kind, val in outs:
    if kind == 'unreachable':
        s.push(); s.add(pc); r = s.check(); s.pop(); nq += 1; print(' unreachable feasible?', r)
    elif kind == 'ret':
        if val[1] == 'Some':
            d = val[2][0][1]
            s.push(); s.add(pc, concrete(x, y) != (d == 'Allow')); r = s.check(); s.pop(); nq += 1
            print(' Some(%s) unsound for some completion?' % d, r)
        else:
            # None must be justified: exist two completions that disagree
            s.push(); s.add(pc, z3.ForAll([x, y, x2, y2], concrete(x, y) == concrete(x2, y2))); r = s.check(); s.pop(); nq += 1
            print(' None although all completions agree?', r)
print('queries', nq)
