#[cfg(kani)]
mod kprobe_dt {
    use super::*;
    const DAY: i64 = 86_400_000;

    #[kani::proof]
    fn p5_to_time() {
        let e: i64 = kani::any();
        let t = DateTime { epoch: e }.to_time().ms;
        assert!(0 <= t && t < DAY);
        let k: i64 = kani::any();
        kani::assume(k >= -106_751_991_168 && k <= 106_751_991_168);
        if (k as i128) * (DAY as i128) <= e as i128 && (e as i128) < (k as i128 + 1) * (DAY as i128) {
            assert_eq!(t as i128, e as i128 - (k as i128) * (DAY as i128));
        }
    }

    #[kani::proof]
    fn p5_to_seconds() {
        let ms: i64 = kani::any();
        let q = Duration { ms }.to_seconds();
        let r = ms as i128 - (q as i128) * 1000;
        assert!(r > -1000 && r < 1000);
        assert!(r == 0 || (r > 0) == (ms > 0));
    }
}
