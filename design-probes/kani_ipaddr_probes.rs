#[cfg(kani)]
mod kprobe_ip {
    use super::*;
    #[kani::proof]
    fn p12_in_range_v4() {
        let a: u32 = kani::any();
        let b: u32 = kani::any();
        let pa: u8 = kani::any();
        let pb: u8 = kani::any();
        kani::assume(pa <= 32 && pb <= 32);
        let x = IPAddr { addr: std::net::IpAddr::V4(std::net::Ipv4Addr::from(a)), prefix: pa };
        let y = IPAddr { addr: std::net::IpAddr::V4(std::net::Ipv4Addr::from(b)), prefix: pb };
        let got = x.is_in_range(&y);
        // spec: every address in x's block is in y's block  <=>  pb <= pa and top pb bits agree
        let top = |v: u32, p: u8| if p == 0 { 0u64 } else { (v as u64) >> (32 - p as u32) };
        let expect = pb <= pa && top(a, pb) == top(b, pb);
        assert_eq!(got, expect);
    }
}

#[cfg(kani)]
mod kprobe_ip2 {
    use super::*;
    /// parse_prefix on all 2-byte ASCII strings
    #[kani::proof]
    #[kani::unwind(5)]
    #[kani::stub(alloc::fmt::format, empty_fmt)]
    fn p13_parse_prefix_len2() {
        let b: [u8; 2] = [kani::any(), kani::any()];
        kani::assume(b[0] < 128 && b[1] < 128);
        let s = std::str::from_utf8(&b).unwrap();
        let r = parse_prefix(s, 32, 2);
        let d0 = b[0].is_ascii_digit(); let d1 = b[1].is_ascii_digit();
        let val = ((b[0] - b'0') as u32) * 10 + (b[1] - b'0') as u32;
        let expect_ok = d0 && d1 && b[0] != b'0' && val <= 32;
        match r { Ok(n) => { assert!(expect_ok); assert_eq!(n as u32, val); } Err(e) => { assert!(!expect_ok); std::mem::forget(e); } }
    }
    fn empty_fmt(_a: std::fmt::Arguments<'_>) -> String { String::new() }
}
