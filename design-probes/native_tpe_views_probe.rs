#![cfg(feature = "tpe")]
use cedar_policy::*;
use std::str::FromStr;

#[test]
fn probe_policy_set_view() {
    let (schema, _) = Schema::from_cedarschema_str("entity P, R; action a appliesTo { principal: P, resource: R };").unwrap();
    let entities = Entities::from_json_value(serde_json::json!([
        {"uid": {"type": "P", "id": "p"}, "attrs": {}, "parents": []},
        {"uid": {"type": "R", "id": "r"}, "attrs": {}, "parents": []},
    ]), Some(&schema)).unwrap();
    let req = PartialRequest::new(
        PartialEntityUid::new("P".parse().unwrap(), None),
        r#"Action::"a""#.parse().unwrap(),
        PartialEntityUid::new("R".parse().unwrap(), Some(EntityId::new("r"))),
        None,
        &schema,
    ).unwrap();
    let partial_entities = PartialEntities::from_concrete(entities, &schema).unwrap();
    let policies = PolicySet::from_str(r#"permit(principal, action, resource) when { principal == P::"p" && resource == R::"r" };"#).unwrap();
    let response = policies.tpe(&req, &partial_entities, &schema).unwrap();
    println!("decision = {:?}", response.decision());
    for p in response.policies() { println!("policies(): {}", p); }
    for p in response.policy_set().policies() { println!("policy_set(): {}", p); }
    if let Some(p) = response.get_policy(&PolicyId::new("policy0")) { println!("get_policy: {}", p); }
}
