#!/usr/bin/env python3-vt
"""Design-phase probe (NOT the framework): a small symbolic executor over rustc's
-Zunpretty=mir text, Int-mode arithmetic, path forking, environment stubs.
Good enough to run cedar's scalar kernels and decision tables; used to check that
the approach described in DESIGN.md is workable."""
import re, sys, time
import z3

INT_TY = {'i8': (8, True), 'i16': (16, True), 'i32': (32, True), 'i64': (64, True), 'i128': (128, True), 'isize': (64, True),
          'u8': (8, False), 'u16': (16, False), 'u32': (32, False), 'u64': (64, False), 'u128': (128, False), 'usize': (64, False)}
BINOPS = ('Add', 'Sub', 'Mul', 'Div', 'Rem', 'Eq', 'Ne', 'Lt', 'Le', 'Gt', 'Ge', 'BitAnd', 'BitOr', 'BitXor',
          'AddWithOverflow', 'SubWithOverflow', 'MulWithOverflow', 'Not', 'Neg', 'Shl', 'Shr')


def rng(ty):
    w, sg = INT_TY[ty]
    return (-(1 << (w - 1)), (1 << (w - 1)) - 1) if sg else (0, (1 << w) - 1)


class IntV:
    """machine integer as a mathematical Int term + its type"""
    def __init__(s, t, ty): s.t, s.ty = t, ty
    def __repr__(s): return f'IntV({s.t}:{s.ty})'


class BoolV:
    def __init__(s, t): s.t = t
    def __repr__(s): return f'BoolV({s.t})'


class Variant:  # enum value with concrete variant
    def __init__(s, name, fields=()): s.name, s.fields = name, list(fields)
    def __repr__(s): return f'{s.name}{s.fields}'


class Opaque:
    n = 0
    def __init__(s, what, args=()):
        Opaque.n += 1; s.id, s.what, s.args = Opaque.n, what, args
    def __repr__(s): return f'<{s.what}#{s.id}>'


class Ref:
    def __init__(s, place, fid=None): s.place, s.fid = place, fid
    def __repr__(s): return f'&{s.place}@{s.fid}'


class Fn:
    pass


def split_args(sarg):
    out, depth, cur = [], 0, ''
    for ch in sarg:
        if ch in '([{<': depth += 1
        if ch in ')]}>': depth -= 1
        if ch == ',' and depth == 0:
            out.append(cur.strip()); cur = ''
        else:
            cur += ch
    if cur.strip(): out.append(cur.strip())
    return out


def parse_mir(path):
    fns, consts = {}, {}
    txt = open(path).read()
    for it in re.split(r'\n(?=(?:fn|const|static) )', txt):
        head = it.split('\n', 1)[0]
        m = re.match(r'const (.*?): (\S+) = const (\S+);', head)
        if m:
            consts[m.group(1)] = ('lit', m.group(3)); continue
        if not head.endswith('{') or not head.startswith(('fn ', 'const ')): continue
        f = Fn(); f.kind = head.split(' ', 1)[0]; f.head = head
        body = head[len(f.kind) + 1:]
        if f.kind == 'fn':
            depth = 0; start = None
            for i, ch in enumerate(body):
                if ch == '<': depth += 1
                elif ch == '>' and i > 0 and body[i-1] != '-': depth -= 1
                elif ch == '(' and depth == 0: start = i; break
            if start is None: continue
            d = 0
            for j in range(start, len(body)):
                if body[j] == '(': d += 1
                elif body[j] == ')':
                    d -= 1
                    if d == 0: break
            f.name = body[:start]
            try:
                f.args = [(a.split(': ', 1)[0], a.split(': ', 1)[1]) for a in split_args(body[start + 1:j])]
            except IndexError:
                continue
        else:
            f.name = body.split(': ')[0] if ': ' in body else body; f.args = []
            mm = re.match(r'(.*): [^:]+ = \{$', body)
            if mm: f.name = mm.group(1)
        f.locals = dict(re.findall(r'let (?:mut )?(_\d+): (.*?);', it))
        f.debug = dict(re.findall(r'debug (\w+) => (_\d+);', it))
        f.blocks = {}
        for bm in re.finditer(r'\n    (bb\d+)(?: \(cleanup\))?: \{\n(.*?)\n    \}', it, re.S):
            f.blocks[bm.group(1)] = [l.strip() for l in bm.group(2).split('\n') if l.strip()]
        if f.kind == 'const': consts[f.name] = ('body', f)
        else: fns.setdefault(f.name, f)
    return fns, consts


class Outcome:
    def __init__(s, pc, kind, val, log, lemmas, env=None): s.pc, s.kind, s.val, s.log, s.lemmas, s.env = pc, kind, val, log, lemmas, env


class Exec:
    def __init__(s, fns, consts, stubs=None, enum_variants=None):
        s.fns, s.consts, s.stubs = fns, consts, stubs or {}
        s.fresh = 0
        s.enum_variants = enum_variants or {}

    def newint(s, ty, hint='v'):
        s.fresh += 1
        v = z3.Int(f'{hint}{s.fresh}'); lo, hi = rng(ty)
        return IntV(v, ty), z3.And(v >= lo, v <= hi)

    # ---- constants
    def const(s, tok, st):
        tok = tok.strip()
        m = re.match(r'(-?\d+)_(\w+)$', tok)
        if m and m.group(2) in INT_TY: return IntV(z3.IntVal(int(m.group(1))), m.group(2))
        if tok in ('true', 'false'): return BoolV(z3.BoolVal(tok == 'true'))
        m = re.match(r'(\w+)::(MIN|MAX)$', tok)
        if m and m.group(1) in INT_TY:
            lo, hi = rng(m.group(1)); return IntV(z3.IntVal(lo if m.group(2) == 'MIN' else hi), m.group(1))
        if tok.endswith('::None'): return Variant('None')
        if tok.startswith('"'): return Opaque('str:' + tok)
        if tok.startswith('ZeroSized'): return Opaque('zst:' + tok)
        last = tok.split('::')[-1]
        for k, v in s.consts.items():
            if k.split('::')[-1] == last:
                if v[0] == 'lit': return s.const(v[1], st)
                outs = s.run(v[1], [])
                return [o for o in outs if o.kind == 'ret'][0].val
        return Opaque('const:' + tok)

    # ---- places
    def read(s, st, place):
        place = place.strip()
        if place.startswith('(*') and place.endswith(')'):
            r = s.read(st, place[2:-1])
            return s.deref(st, r) if isinstance(r, Ref) else r
        m = re.match(r'^\((.*) as (\w+)\)$', place)
        if m: return s.read(st, m.group(1))
        if place.startswith('(') and place.endswith(')') and ': ' in place:
            inner = place[1:-1]
            base, rest = s.split_proj(inner)
            b = s.read(st, base)
            if isinstance(b, Ref): b = s.deref(st, b)
            if isinstance(b, Variant): return b.fields[rest]
            if isinstance(b, Opaque): return s.stub_field(st, b, rest)
            return b[rest]
        v = st['env'][place]
        return v

    def deref(s, st, r):
        if r.fid is None:
            base = re.match(r'[\(\*]*(\w+)', r.place).group(1)
            if base not in st['env']:
                for fid, env in st['frames'].items():
                    if base in env:
                        st2 = dict(st); st2['env'] = env; st2['fid'] = fid
                        return s.read(st2, r.place)
            return s.read(st, r.place)
        if r.fid == st.get('fid'): return s.read(st, r.place)
        st2 = dict(st); st2['env'] = st['frames'][r.fid]; st2['fid'] = r.fid
        return s.read(st2, r.place)

    def split_proj(s, inner):
        # "<base>.<idx>: <ty>"
        depth = 0
        for i in range(len(inner) - 1, -1, -1):
            pass
        m = re.match(r'^(.*)\.(\d+): ', inner)
        # greedy base: find the last ".N: " at depth 0
        depth = 0; pos = None
        for i, ch in enumerate(inner):
            if ch in '(<[': depth += 1
            elif ch in ')>]': depth -= 1
            elif ch == '.' and depth == 0:
                mm = re.match(r'\.(\d+): ', inner[i:])
                if mm: pos = (i, int(mm.group(1)))
        return inner[:pos[0]], pos[1]

    def stub_field(s, st, b, idx):
        key = ('field', b.id, idx)
        if key not in st['memo']: st['memo'][key] = Opaque(f'{b.what}.{idx}')
        return st['memo'][key]

    def write(s, st, place, val):
        place = place.strip()
        if place.startswith('(*') and place.endswith(')') and ': ' not in place:
            r = st['env'].get(place[2:-1])
            if isinstance(r, Ref): return s.write(st, r.place, val)
        if place.startswith('(') and ': ' in place and not place.startswith('(*'):
            base, idx = s.split_proj(place[1:-1])
            b = s.read(st, base)
            if isinstance(b, Variant): b = Variant(b.name, b.fields); b.fields[idx] = val
            else: b = list(b); b[idx] = val
            s.write(st, base, b); return
        st['env'][place] = val

    def operand(s, st, tok):
        tok = tok.strip()
        if tok.startswith('const '): return s.const(tok[6:], st)
        for p in ('copy ', 'move '):
            if tok.startswith(p): return s.read(st, tok[len(p):])
        if '::' in tok and not tok.startswith('('): return Opaque('fnitem:' + tok)
        return s.read(st, tok)

    # ---- arithmetic (Int mode)
    def wrap(s, t, ty):
        w, sg = INT_TY[ty]; m = 1 << w
        return ((t + (1 << (w - 1))) % m) - (1 << (w - 1)) if sg else t % m

    def divrem(s, st, a, b):
        s.fresh += 1
        q, r = z3.Int(f'q{s.fresh}'), z3.Int(f'r{s.fresh}')
        absb = z3.If(b < 0, -b, b)
        st['lemmas'].append(z3.Implies(b != 0, z3.And(a == q * b + r, z3.If(a >= 0, z3.And(r >= 0, r < absb), z3.And(r <= 0, -r < absb)))))
        return q, r

    def binop(s, st, op, a, b):
        if isinstance(a, BoolV):
            if op == 'BitAnd': return BoolV(z3.And(a.t, b.t))
            if op == 'BitOr': return BoolV(z3.Or(a.t, b.t))
            if op == 'Eq': return BoolV(a.t == b.t)
            if op == 'Ne': return BoolV(a.t != b.t)
            if op == 'Not': return BoolV(z3.Not(a.t))
        ty = a.ty; x = a.t; y = b.t if b is not None else None
        lo, hi = rng(ty)
        if op in ('Add', 'Sub', 'Mul'):
            e = {'Add': x + y, 'Sub': x - y, 'Mul': x * y}[op]; return IntV(s.wrap(e, ty), ty)
        if op.endswith('WithOverflow'):
            e = {'Add': x + y, 'Sub': x - y, 'Mul': x * y}[op[:3]]
            return [IntV(s.wrap(e, ty), ty), BoolV(z3.Or(e < lo, e > hi))]
        if op == 'Div': return IntV(s.divrem(st, x, y)[0], ty)
        if op == 'Rem': return IntV(s.divrem(st, x, y)[1], ty)
        if op == 'Neg': return IntV(s.wrap(-x, ty), ty)
        cmp = {'Eq': x == y, 'Ne': x != y, 'Lt': x < y, 'Le': x <= y, 'Gt': x > y, 'Ge': x >= y}
        if op in cmp: return BoolV(cmp[op])
        raise NotImplementedError(op)

    def rvalue(s, st, rv):
        rv = rv.strip()
        m = re.match(r'^(\w+)\((.*)\)$', rv)
        if m and m.group(1) in BINOPS:
            parts = split_args(m.group(2)); a = s.operand(st, parts[0]); b = s.operand(st, parts[1]) if len(parts) > 1 else None
            return s.binop(st, m.group(1), a, b)
        if rv.startswith(('copy ', 'move ', 'const ')):
            m = re.match(r'^(?:copy|move) (.*) as (\w+) \(IntToInt\)$', rv)
            if m:
                v = s.operand(st, 'copy ' + m.group(1)); return IntV(s.wrap(v.t, m.group(2)), m.group(2))
            return s.operand(st, rv)
        if rv.startswith('&'):
            return Ref(re.sub(r'^&(mut |raw const |raw mut )?', '', rv).strip(), st.get('fid'))
        m = re.match(r'^discriminant\((.*)\)$', rv)
        if m: return ('disc', s.read(st, m.group(1)))
        m = re.match(r'^\((.*)\)$', rv)
        if m and not re.match(r'^\(.* as \w+\)$', rv): return [s.operand(st, x) for x in split_args(m.group(1))]
        # enum variant / struct aggregates
        m = re.match(r'^(.*?)::(\w+)\((.*)\)$', rv)
        if m and '::<' in rv or (m and m.group(2)[0].isupper()):
            return Variant(m.group(2), [s.operand(st, x) for x in split_args(m.group(3))])
        m = re.match(r'^(.*?) \{ (.*) \}$', rv)
        if m:
            name = m.group(1).split('::')[-1] if '::' in m.group(1) else m.group(1)
            fields = [s.operand(st, f.split(': ', 1)[1]) for f in split_args(m.group(2))]
            return Variant(name.split('<')[0], fields)
        m = re.match(r'^([\w:<>, ]+)::(\w+)$', rv)
        if m: return Variant(m.group(2))
        raise NotImplementedError('rvalue ' + rv)

    # ---- calls
    def model(s, st, callee, A):
        """return list of (cond, value) or None"""
        T = z3.BoolVal(True)
        m = re.search(r'<impl (i\d+|u\d+|isize|usize)>::(\w+)', callee)
        if m:
            ty, fn = m.group(1), m.group(2); lo, hi = rng(ty)
            if fn in ('checked_add', 'checked_sub', 'checked_mul', 'checked_neg'):
                x = A[0].t; y = A[1].t if len(A) > 1 else None
                e = {'checked_add': lambda: x + y, 'checked_sub': lambda: x - y, 'checked_mul': lambda: x * y, 'checked_neg': lambda: -x}[fn]()
                ok = z3.And(e >= lo, e <= hi)
                return [(ok, Variant('Some', [IntV(e, ty)])), (z3.Not(ok), Variant('None'))]
            if fn == 'checked_rem_euclid':
                a, b = A[0].t, A[1].t; r = s.divrem(st, a, b)[1]
                re_ = z3.If(r < 0, z3.If(b < 0, r - b, r + b), r)
                bad = z3.Or(b == 0, z3.And(a == lo, b == -1))
                return [(z3.Not(bad), Variant('Some', [IntV(re_, ty)])), (bad, Variant('None'))]
            if fn == 'is_negative': return [(T, BoolV(A[0].t < 0))]
        if 'as Try>::branch' in callee:
            v = A[0]
            if v.name in ('Some', 'Ok'): return [(T, Variant('Continue', [v.fields[0]]))]
            return [(T, Variant('Break', [Variant(v.name, v.fields)]))]
        if 'from_residual' in callee:
            v = A[0]; return [(T, Variant(v.name, v.fields))]
        if re.search(r'(Result|Option)::<.*>::(unwrap|expect)$', callee):
            v = A[0]
            if isinstance(v, Variant) and v.name in ('Ok', 'Some'): return [(T, v.fields[0])]
            if isinstance(v, Variant):
                st['suboutcomes'].append(Outcome(list(st['pc']), 'panic', 'unwrap on ' + v.name, list(st['log']), st['lemmas']))
                return []
        if re.search(r'as Clone>::clone$', callee) or callee.endswith('::cloned'):
            v = A[0]; return [(T, s.read(st, v.place) if isinstance(v, Ref) else v)]
        return None

    def call(s, st, callee, args):
        A = [s.operand(st, a) for a in args]
        for pat, fn in s.stubs.items():
            if re.search(pat, callee):
                res = fn(s, st, callee, A)
                st['log'].append((callee, A, res))
                return res
        r = s.model(st, callee, A)
        if r is not None: return r
        # in-dump body?
        cands = [f for k, f in s.fns.items() if k == callee or callee.endswith('::' + k) or k.endswith('::' + callee)]
        if not cands and re.match(r'^\w+::\w+$', callee):
            ty, meth = callee.split('::')
            cands = [f for k, f in s.fns.items() if k.endswith('>::' + meth) and ty.lower() in k.split('<impl')[0].lower()]
        if len(cands) == 1 and cands[0].blocks:
            outs = s.run(cands[0], A, st)
            res = []
            for o in outs:
                if o.kind == 'ret': res.append((o.pc, o.val))
                else: st['suboutcomes'].append(o)
            return res
        res = [(z3.BoolVal(True), Opaque(callee.split('::')[-1], A))]
        if __import__('os').environ.get('M2S_DEBUG'): print('  [opaque call]', callee[:120])
        st['log'].append((callee, A, res))
        return res

    # ---- driver
    def run(s, fn, argvals, parent=None, start='bb0', pre=None, stop=()):
        st0 = {'env': {}, 'pc': [], 'log': [], 'lemmas': [], 'memo': {}, 'suboutcomes': [], 'frames': {}}
        s.nframes = getattr(s, 'nframes', 0) + 1; st0['fid'] = s.nframes
        if parent:
            st0['pc'], st0['lemmas'], st0['memo'] = list(parent['pc']), parent['lemmas'], parent['memo']
            st0['frames'] = dict(parent.get('frames', {})); st0['frames'][parent.get('fid')] = parent['env']
        st0['frames'][st0['fid']] = st0['env']
        if pre: st0['pc'] += pre
        for (name, ty), v in zip(fn.args, argvals): st0['env'][name] = v
        work, outs = [(start, st0)], []
        def fork(st):
            n = {'env': dict(st['env']), 'pc': list(st['pc']), 'log': list(st['log']), 'lemmas': st['lemmas'], 'memo': st['memo'], 'suboutcomes': st['suboutcomes'], 'fid': st['fid']}
            n['frames'] = dict(st['frames']); n['frames'][st['fid']] = n['env']
            return n
        while work:
            bb, st = work.pop()
            if bb in stop:
                outs.append(Outcome(st['pc'], 'stop:' + bb, None, st['log'], st['lemmas'])); continue
            for line in fn.blocks[bb]:
                line = line.rstrip(';')
                if line.startswith(('StorageLive', 'StorageDead', 'nop', 'FakeRead', 'PlaceMention', 'Retag', '//')): continue
                if line == 'return': outs.append(Outcome(st['pc'], 'ret', st['env'].get('_0'), st['log'], st['lemmas'], st['env'])); break
                if line == 'unreachable': outs.append(Outcome(st['pc'], 'unreachable', None, st['log'], st['lemmas'])); break
                if line == 'resume': break
                m = re.match(r'^goto -> (bb\d+)$', line)
                if m: work.append((m.group(1), st)); break
                m = re.match(r'^drop\(.*\) -> \[return: (bb\d+)', line)
                if m: work.append((m.group(1), st)); break
                m = re.match(r'^\S+ = panic_fmt\(', line) or re.match(r'^\S+ = .*begin_panic', line)
                if m: outs.append(Outcome(st['pc'], 'panic', line[:100], st['log'], st['lemmas'])); break
                m = re.match(r'^switchInt\((.*)\) -> \[(.*)\]$', line)
                if m:
                    v = s.operand(st, m.group(1)); tg = [t.strip().split(': ') for t in m.group(2).split(',')]
                    s.switch(st, v, tg, work, fork); break
                m = re.match(r'^assert\((!?)(.*?), ".*?"(?:, .*)?\) -> \[success: (bb\d+).*\]$', line)
                if m:
                    c = s.operand(st, m.group(2)).t; ok = z3.Not(c) if m.group(1) == '!' else c
                    outs.append(Outcome(st['pc'] + [z3.Not(ok)], 'panic', line[:100], st['log'], st['lemmas']))
                    st['pc'].append(ok); work.append((m.group(3), st)); break
                m = parse_call(line)
                if m:
                    dest, callee, cargs, nxt = m
                    for cond, val in s.call(st, callee, split_args(cargs)):
                        st2 = fork(st)
                        if not z3.is_true(cond): st2['pc'].append(cond) if not isinstance(cond, list) else st2['pc'].extend(cond)
                        s.write(st2, dest, val); work.append((nxt, st2))
                    break
                m = re.match(r'^(\S.*?) = (.*)$', line)
                if m: s.write(st, m.group(1), s.rvalue(st, m.group(2))); continue
                raise NotImplementedError('stmt ' + line)
        if parent is None: outs += [o for o in st0['suboutcomes']]
        return outs

    def switch(s, st, v, tg, work, fork):
        targets = [(a, b) for a, b in tg if a != 'otherwise']; other = dict(tg).get('otherwise')
        if isinstance(v, tuple) and v[0] == 'disc':
            val = v[1]
            if isinstance(val, Variant):
                idx = s.variant_index(val.name)
                dest = dict(targets).get(str(idx), other); work.append((dest, st)); return
            if isinstance(val, IntV): v = val
            else: raise NotImplementedError(f'discriminant of {val}')
        if isinstance(v, BoolV):
            for a, b in targets + ([('otherwise', other)] if other else []):
                st2 = fork(st)
                if a == '0': st2['pc'].append(z3.Not(v.t))
                elif a == 'otherwise':
                    st2['pc'].append(v.t if ('0' in dict(targets)) else z3.BoolVal(True))
                else: st2['pc'].append(v.t)
                work.append((b, st2))
            return
        for a, b in targets:
            st2 = fork(st); st2['pc'].append(v.t == int(a)); work.append((b, st2))
        if other:
            st2 = fork(st); st2['pc'] += [v.t != int(a) for a, _ in targets]; work.append((other, st2))

    def variant_index(s, name):
        std = {'None': 0, 'Some': 1, 'Ok': 0, 'Err': 1, 'Continue': 0, 'Break': 1, 'Left': 0, 'Right': 1}
        if name in s.enum_variants: return s.enum_variants[name]
        return std[name]


def parse_call(line):
    m = re.match(r'^(\S.*?) = (.*) -> \[return: (bb\d+).*\]$', line)
    if not m or not m.group(2).endswith(')'): return None
    rhs = m.group(2); depth = 0
    for i in range(len(rhs) - 1, -1, -1):
        if rhs[i] == ')': depth += 1
        elif rhs[i] == '(':
            depth -= 1
            if depth == 0: break
    head = rhs[:i]
    if head in BINOPS or head == 'discriminant' or head == '': return None
    return m.group(1), head, rhs[i + 1:-1], m.group(3)


def check(formulas, lemmas=(), timeout=30000):
    sv = z3.Solver(); sv.set('timeout', timeout)
    for f in formulas: sv.add(f)
    for l in lemmas: sv.add(l)
    t = time.time(); r = sv.check()
    return str(r), (sv.model() if r == z3.sat else None), time.time() - t


def enum_variants_from_source(path, enum_name):
    src = open(path).read()
    m = re.search(r'pub enum ' + enum_name + r'\b[^{]*\{(.*?)\n\}', src, re.S)
    body = re.sub(r'//[^\n]*', '', m.group(1)); body = re.sub(r'#\[[^\]]*\]', '', body)
    names = re.findall(r'^\s*(\w+)\s*(?:[,({]|$)', body, re.M)
    return {n: i for i, n in enumerate(names)}
