#!/usr/bin/env python3-vt
"""C08 prototype: one PolicySet operation from an arbitrary state, maps as SMT arrays."""
import sys, z3
sys.path.insert(0, '/root/scratch/m2s')
from m2s import *

fns, consts = parse_mir('/root/scratch/mir/core.mir')
PID = z3.DeclareSort('PID')
class AMap:
    """abstract map: presence array + value array (value = abstract id of type VAL)"""
    def __init__(s, name, pres=None, val=None):
        s.name = name
        s.pres = pres if pres is not None else z3.Array(name + '_pres', PID, z3.BoolSort())
        s.val = val if val is not None else z3.Array(name + '_val', PID, z3.IntSort())
    def __repr__(s): return f'AMap({s.name})'
class Key:
    def __init__(s, t): s.t = t
    def __repr__(s): return f'Key({s.t})'
class Val:
    def __init__(s, t): s.t = t
    def __repr__(s): return f'Val({s.t})'

tmpl_of = z3.Function('tmpl_of', z3.IntSort(), PID)    # template id of a Policy value
def deref(ex, st, v):
    while isinstance(v, Ref): v = ex.read(st, v.place)
    return v
def stub_remove(ex, st, callee, A):
    mref, k = A[0], deref(ex, st, A[1])
    m = deref(ex, st, mref)
    present = z3.Select(m.pres, k.t)
    newm = AMap(m.name, z3.Store(m.pres, k.t, False), m.val)
    def commit(): pass
    # both branches update the map (removing an absent key is a no-op)
    ex.write(st, mref.place, newm)
    return [([present], Variant('Some', [Val(z3.Select(m.val, k.t))])), ([z3.Not(present)], Variant('None'))]
def stub_insert(ex, st, callee, A):
    mref, k, v = A[0], deref(ex, st, A[1]), deref(ex, st, A[2])
    m = deref(ex, st, mref)
    vt = v.t if isinstance(v, Val) else z3.IntVal(-1)
    ex.write(st, mref.place, AMap(m.name, z3.Store(m.pres, k.t, True), z3.Store(m.val, k.t, vt)))
    return [(z3.BoolVal(True), Opaque('old'))]
def stub_contains(ex, st, callee, A):
    m, k = deref(ex, st, A[0]), deref(ex, st, A[1])
    return [(z3.BoolVal(True), BoolV(z3.Select(m.pres, k.t)))]
def stub_clone(ex, st, callee, A): return [(z3.BoolVal(True), deref(ex, st, A[0]))]
stubs = {r'LinkedHashMap::<.*>::remove::<': stub_remove, r'LinkedHashMap::<.*>::insert$': stub_insert,
         r'LinkedHashMap::<.*>::contains_key::<': stub_contains, r'as Clone>::clone$': stub_clone}

def run_op(name):
    f = [v for k, v in fns.items() if k.endswith('::' + name) and 'policy_set' in k][0]
    ex = Exec(fns, consts, stubs=stubs)
    T, L, M = AMap('templates'), AMap('links'), AMap('tlm')
    k = Key(z3.Const('k', PID))
    # _1 = &mut self ; model `self` as a list local
    f.args = [('_1', ''), ('_2', ''), ('__self', ''), ('__k', '')]
    outs = ex.run(f, [Ref('__self'), Ref('__k'), [T, L, M], k])
    return f, ex, (T, L, M), k, outs

x = z3.Const('x', PID)
def inv_keys(T, M): return z3.ForAll([x], z3.Select(T.pres, x) == z3.Select(M.pres, x))
def same(a, b): return z3.And(z3.ForAll([x], z3.Select(a.pres, x) == z3.Select(b.pres, x)),
                             z3.ForAll([x], z3.Implies(z3.Select(a.pres, x), z3.Select(a.val, x) == z3.Select(b.val, x))))

f, ex, (T, L, M), k, outs = run_op('remove_static')
print('remove_static outcomes:', len(outs))
for o in outs:
    if o.kind != 'ret': print(' ', o.kind); continue
    # final state = what `__self` holds on this path: re-run bookkeeping via log is awkward; the executor keeps env per path,
    # so we stash it: Outcome has no env -> recover through a hook below
    pass

for opname in ('remove_static', 'unlink'):
    try:
        f, ex, (T, L, M), k, outs = run_op(opname)
    except NotImplementedError as e:
        print(opname, 'NOT IMPLEMENTED', e); continue
    print('==', opname, 'outcomes', len(outs))
    for o in outs:
        if o.kind != 'ret': print('  ', o.kind, [str(p) for p in o.pc]); continue
        T2, L2, M2 = o.env['__self']
        pre = [inv_keys(T, M)]
        res = o.val.name
        if res == 'Err':
            r, m, t = check(o.pc + pre + [z3.Not(z3.And(same(T, T2), same(L, L2), same(M, M2)))])
            print(f'   Err({o.val.fields[0].name}) leaves the set unchanged? violation: {r}')
        else:
            r, m, t = check(o.pc + pre + [z3.Not(inv_keys(T2, M2))])
            r2, _, _ = check(o.pc + pre + [z3.Or(z3.Select(L2.pres, k.t), z3.Select(T2.pres, k.t))])
            print(f'   Ok: invariant keys(templates)=keys(tlm) broken? {r}; removed id still present? {r2}')

f, ex, (T, L, M), k, outs = run_op('remove_static')
for o in outs: print(o.kind, o.val, [str(p)[:80] for p in o.pc])
o = outs[3]
T2, L2, M2 = o.env['__self']
print('T2', T2.pres); print('L2', L2.pres); print('M2', M2.pres)
