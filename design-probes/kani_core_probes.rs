//! scratch probes
use crate::ast::*;
use crate::authorizer::*;
use crate::entities::Entities;
use crate::evaluator::Evaluator;
use crate::extensions::Extensions;
use std::collections::HashMap;
use std::sync::Arc;

fn uid(ty: &'static str, id: &'static str) -> EntityUID {
    let name = Name(InternalName::unqualified_name(Id::new_unchecked_const(ty), None));
    EntityUID::from_components(EntityType::EntityType(name), Eid::new(id), None)
}

fn req() -> Request {
    Request::new_unchecked(
        EntityUIDEntry::known(uid("U", "p"), None),
        EntityUIDEntry::known(uid("Action", "a"), None),
        EntityUIDEntry::known(uid("R", "r"), None),
        Some(Context::empty()),
    )
}

/// P1: wildcard with ASCII text of symbolic content, fixed len 2, pattern len 2 symbolic
fn ref_match(p: &[PatternElem], t: &[u8]) -> bool {
    match p.split_first() {
        None => t.is_empty(),
        Some((PatternElem::Wildcard, rest)) => {
            let mut k = 0;
            while k <= t.len() {
                if ref_match(rest, &t[k..]) { return true; }
                k += 1;
            }
            false
        }
        Some((PatternElem::Char(c), rest)) => match t.split_first() {
            Some((b, trest)) => (*b as char) == *c && ref_match(rest, trest),
            None => false,
        },
    }
}

fn any_elem() -> PatternElem {
    if kani::any() { PatternElem::Wildcard } else {
        let b: u8 = kani::any();
        kani::assume(b < 128);
        PatternElem::Char(b as char)
    }
}

#[kani::proof]
#[kani::unwind(6)]
fn p1_wildcard_ascii() {
    let plen: usize = kani::any();
    kani::assume(plen <= 3);
    let elems = [any_elem(), any_elem(), any_elem()];
    let p = Pattern::from(elems[..plen].to_vec());
    let tlen: usize = kani::any();
    kani::assume(tlen <= 3);
    let tb: [u8; 3] = kani::any();
    kani::assume(tb[0] < 128 && tb[1] < 128 && tb[2] < 128);
    let text = std::str::from_utf8(&tb[..tlen]).unwrap();
    let m = p.wildcard_match(text);
    assert_eq!(m, ref_match(&elems[..plen], &tb[..tlen]));
}

/// P2: evaluator arithmetic on symbolic longs
#[kani::proof]
#[kani::unwind(4)]
fn p2_eval_add() {
    let a: i64 = kani::any();
    let b: i64 = kani::any();
    let e = Expr::add(Expr::val(a), Expr::val(b));
    let ents = Entities::new();
    let ev = Evaluator::new(req(), &ents, Extensions::none());
    let r = ev.interpret(&e, &HashMap::new());
    match a.checked_add(b) {
        Some(s) => assert!(matches!(r, Ok(v) if v == Value::from(s))),
        None => assert!(r.is_err()),
    }
}

/// P3: authorizer with 2 policies, symbolic effect and outcome
fn any_cond() -> (Expr, u8) {
    let k: u8 = kani::any();
    kani::assume(k < 3);
    let e = match k {
        0 => Expr::val(true),
        1 => Expr::val(false),
        _ => Expr::not(Expr::val(1)), // type error
    };
    (e, k)
}
fn any_effect() -> Effect { if kani::any() { Effect::Permit } else { Effect::Forbid } }

fn mk_policy(id: &'static str, eff: Effect, cond: Expr) -> StaticPolicy {
    StaticPolicy::new(
        PolicyID::from_string(id), None, Annotations::new(), eff,
        PrincipalConstraint::any(), ActionConstraint::any(), ResourceConstraint::any(),
        Some(cond),
    ).unwrap()
}

#[kani::proof]
#[kani::unwind(5)]
#[kani::stub(crate::extensions::Extensions::all_available, crate::extensions::Extensions::none)]
fn p3_authz_two() {
    let (c0, k0) = any_cond();
    let (c1, k1) = any_cond();
    let e0 = any_effect();
    let e1 = any_effect();
    let mut ps = PolicySet::new();
    ps.add_static(mk_policy("p0", e0, c0)).unwrap();
    ps.add_static(mk_policy("p1", e1, c1)).unwrap();
    let ents = Entities::new();
    let a = Authorizer::new();
    let resp = a.is_authorized(req(), &ps, &ents);
    let sat_permit = (k0 == 0 && e0 == Effect::Permit) || (k1 == 0 && e1 == Effect::Permit);
    let sat_forbid = (k0 == 0 && e0 == Effect::Forbid) || (k1 == 0 && e1 == Effect::Forbid);
    let expect = if sat_permit && !sat_forbid { Decision::Allow } else { Decision::Deny };
    assert_eq!(resp.decision, expect);
    let nerr = (k0 == 2) as usize + (k1 == 2) as usize;
    assert_eq!(resp.diagnostics.errors.len(), nerr);
    std::mem::forget(resp);
    std::mem::forget(ps);
}

/// P1b: wildcard, concrete lengths (3,3), symbolic content, DP reference
fn dp_match<const P: usize, const T: usize>(p: &[PatternElem; P], t: &[u8; T]) -> bool {
    // m[i][j]: p[i..] matches t[j..]
    let mut m = [[false; 5]; 5];
    let mut i = P + 1;
    while i > 0 {
        i -= 1;
        let mut j = T + 1;
        while j > 0 {
            j -= 1;
            m[i][j] = if i == P { j == T } else {
                match p[i] {
                    PatternElem::Wildcard => m[i + 1][j] || (j < T && m[i][j + 1]),
                    PatternElem::Char(c) => j < T && (t[j] as char) == c && m[i + 1][j + 1],
                }
            };
        }
    }
    m[0][0]
}

#[kani::proof]
#[kani::unwind(8)]
fn p1b_wildcard_33() {
    let elems = [any_elem(), any_elem(), any_elem()];
    let p = Pattern::from(elems.to_vec());
    let tb: [u8; 3] = kani::any();
    kani::assume(tb[0] < 128 && tb[1] < 128 && tb[2] < 128);
    let text = std::str::from_utf8(&tb).unwrap();
    let m = p.wildcard_match(text);
    assert_eq!(m, dp_match(&elems, &tb));
    std::mem::forget(p);
}

/// P6: binary_arith directly (small reach)
#[kani::proof]
#[kani::unwind(4)]
fn p6_binary_arith_add() {
    let a: i64 = kani::any();
    let b: i64 = kani::any();
    let r = crate::evaluator::binary_arith(BinaryOp::Add, Value::from(a), Value::from(b), None);
    match a.checked_add(b) {
        Some(s) => assert!(matches!(&r, Ok(v) if *v == Value::from(s))),
        None => assert!(r.is_err()),
    }
    std::mem::forget(r);
}

/// P7: authorizer with evaluator stubbed by nondeterministic outcome keyed by policy id
use std::sync::atomic::{AtomicU8, Ordering};
static OUTCOME: [AtomicU8; 3] = [AtomicU8::new(0), AtomicU8::new(0), AtomicU8::new(0)];
fn idx_of(p: &Policy) -> usize {
    let s: &str = p.id().as_ref();
    match s { "p0" => 0, "p1" => 1, _ => 2 }
}
fn stub_partial_evaluate<'e>(_ev: &Evaluator<'e>, p: &Policy) -> crate::evaluator::Result<either::Either<bool, Expr>> where 'e: 'e {
    let k = OUTCOME[idx_of(p)].load(Ordering::Relaxed);
    match k {
        0 => Ok(either::Either::Left(true)),
        1 => Ok(either::Either::Left(false)),
        _ => Err(crate::evaluator::EvaluationError::recursion_limit(None)),
    }
}

#[kani::proof]
#[kani::unwind(5)]
#[kani::stub(crate::extensions::Extensions::all_available, crate::extensions::Extensions::none)]
#[kani::stub(crate::evaluator::Evaluator::partial_evaluate, stub_partial_evaluate)]
fn p7_authz_stubbed() {
    let k0: u8 = kani::any(); kani::assume(k0 < 3);
    let k1: u8 = kani::any(); kani::assume(k1 < 3);
    OUTCOME[0].store(k0, Ordering::Relaxed); OUTCOME[1].store(k1, Ordering::Relaxed);
    let e0 = any_effect();
    let e1 = any_effect();
    let mut ps = PolicySet::new();
    ps.add_static(mk_policy("p0", e0, Expr::val(true))).unwrap();
    ps.add_static(mk_policy("p1", e1, Expr::val(true))).unwrap();
    let ents = Entities::new();
    let a = Authorizer::new();
    let resp = a.is_authorized(req(), &ps, &ents);
    let sat_permit = (k0 == 0 && e0 == Effect::Permit) || (k1 == 0 && e1 == Effect::Permit);
    let sat_forbid = (k0 == 0 && e0 == Effect::Forbid) || (k1 == 0 && e1 == Effect::Forbid);
    let expect = if sat_permit && !sat_forbid { Decision::Allow } else { Decision::Deny };
    assert_eq!(resp.decision, expect);
    let nerr = (k0 == 2) as usize + (k1 == 2) as usize;
    assert_eq!(resp.diagnostics.errors.len(), nerr);
    std::mem::forget(resp);
    std::mem::forget(ps);
    std::mem::forget(ents);
}

/// P8: binary_arith with symbolic payload; no Value eq / drops in harness
#[kani::proof]
#[kani::unwind(4)]
fn p8_binary_arith_add_lean() {
    let a: i64 = kani::any();
    let b: i64 = kani::any();
    let va = Value { value: ValueKind::Lit(Literal::Long(a)), loc: None };
    let vb = Value { value: ValueKind::Lit(Literal::Long(b)), loc: None };
    let r = crate::evaluator::binary_arith(BinaryOp::Add, va, vb, None);
    let ok = match &r {
        Ok(Value { value: ValueKind::Lit(Literal::Long(x)), .. }) => a.checked_add(b) == Some(*x),
        Ok(_) => false,
        Err(_) => a.checked_add(b).is_none(),
    };
    std::mem::forget(r);
    assert!(ok);
}

/// P10: transitive closure on 3 nodes with symbolic edges, generic instantiation K=u8
mod tc {
    use crate::transitive_closure::{compute_tc, TCNode};
    use std::collections::{HashMap, HashSet};

    struct N { id: u8, direct: HashSet<u8>, all: HashSet<u8> }
    impl TCNode<u8> for N {
        fn get_key(&self) -> u8 { self.id }
        fn add_edge_to(&mut self, k: u8) { self.all.insert(k); }
        fn out_edges(&self) -> Box<dyn Iterator<Item = &u8> + '_> { Box::new(self.all.iter()) }
        fn has_edge_to(&self, k: &u8) -> bool { self.all.contains(k) }
        fn reset_edges(&mut self) { self.all = self.direct.clone(); }
        fn direct_edges(&self) -> Box<dyn Iterator<Item = &u8> + '_> { Box::new(self.direct.iter()) }
    }

    #[kani::proof]
    #[kani::unwind(6)]
    fn p10_tc3() {
        const NN: usize = 3;
        let adj: [[bool; NN]; NN] = kani::any();
        let mut nodes: HashMap<u8, N> = HashMap::new();
        let mut i = 0;
        while i < NN {
            let mut d = HashSet::new();
            let mut j = 0;
            while j < NN { if adj[i][j] { d.insert(j as u8); } j += 1; }
            nodes.insert(i as u8, N { id: i as u8, all: d.clone(), direct: d });
            i += 1;
        }
        // reference closure (Warshall)
        let mut r = adj;
        let mut k = 0;
        while k < NN { let mut i = 0; while i < NN { let mut j = 0; while j < NN {
            if r[i][k] && r[k][j] { r[i][j] = true; } j += 1; } i += 1; } k += 1; }
        let cyclic = r[0][0] || r[1][1] || r[2][2];
        let res = compute_tc(&mut nodes, true);
        assert_eq!(res.is_err(), cyclic);
        if !cyclic {
            let mut i = 0;
            while i < NN { let mut j = 0; while j < NN {
                assert_eq!(nodes.get(&(i as u8)).unwrap().has_edge_to(&(j as u8)), r[i][j]);
                j += 1; } i += 1; }
        }
        std::mem::forget(nodes);
        std::mem::forget(res);
    }
}

/// P11: PartialResponse decision table with symbolic bucket membership
#[kani::proof]
#[kani::unwind(4)]
fn p11_partial_decision() {
    let ann = Arc::new(Annotations::new());
    let mk = |s: &'static str| PolicyID::from_string(s);
    // each of 6 buckets optionally holds one policy
    let b: [bool; 6] = [kani::any(), kani::any(), kani::any(), kani::any(), kani::any(), kani::any()];
    let tp = if b[0] { vec![(mk("a"), ann.clone())] } else { vec![] };
    let fp = if b[1] { vec![(mk("b"), (ErrorState::NoError, ann.clone()))] } else { vec![] };
    let rp = if b[2] { vec![(mk("c"), (Arc::new(Expr::val(true)), ann.clone()))] } else { vec![] };
    let tf = if b[3] { vec![(mk("d"), ann.clone())] } else { vec![] };
    let ff = if b[4] { vec![(mk("e"), (ErrorState::NoError, ann.clone()))] } else { vec![] };
    let rf = if b[5] { vec![(mk("f"), (Arc::new(Expr::val(true)), ann.clone()))] } else { vec![] };
    let pr = PartialResponse::new(tp, fp, rp, tf, ff, rf, vec![], Arc::new(req()));
    let d = pr.decision();
    // spec: for every completion of residuals (rp -> x, rf -> y)
    let x: bool = kani::any();
    let y: bool = kani::any();
    let permit = b[0] || (b[2] && x);
    let forbid = b[3] || (b[5] && y);
    let concrete = if permit && !forbid { Decision::Allow } else { Decision::Deny };
    if let Some(dd) = d { assert_eq!(dd, concrete); }
    std::mem::forget(pr);
}

#[kani::proof]
#[kani::unwind(6)]
fn p15_wildcard_22() {
    let elems = [any_elem(), any_elem()];
    let p = Pattern::from(elems.to_vec());
    let tb: [u8; 2] = [kani::any(), kani::any()];
    kani::assume(tb[0] < 128 && tb[1] < 128);
    let text = std::str::from_utf8(&tb).unwrap();
    let m = p.wildcard_match(text);
    kani::cover!(m, "some match");
    kani::cover!(!m, "some non-match");
    assert_eq!(m, dp_match(&elems, &tb));
    std::mem::forget(p);
}
