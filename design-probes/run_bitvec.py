#!/usr/bin/env python3-vt
"""C18 prototype: symcc BitVec ops executed from MIR with num-bigint modelled as Ints; oracle = SMT-LIB bv ops."""
import sys, z3, re
sys.path.insert(0, '/root/scratch/m2s')
import m2s
from m2s import *

m2s.INT_TY['nat'] = (0, False); m2s.INT_TY['int'] = (0, True)
_rng = m2s.rng
def rng2(ty):
    if ty in ('nat', 'int'): return (None, None)
    return _rng(ty)
m2s.rng = rng2

fns, consts = parse_mir('/root/scratch/mir/symcc.mir')
T = z3.BoolVal(True)
def dr(ex, st, v):
    while isinstance(v, Ref): v = ex.deref(st, v)
    return v
def big_binop(ex, st, callee, A):
    a, b = dr(ex, st, A[0]), dr(ex, st, A[1])
    op = re.search(r'as (?:std::ops::)?(Add|Sub|Mul|Div|Rem|BitXor)', callee).group(1)
    ty = a.ty if a.ty in ('nat', 'int') else b.ty
    x, y = a.t, b.t
    if op == 'Add': return [(T, IntV(x + y, ty))]
    if op == 'Sub': return [(T, IntV(x - y, ty))]
    if op == 'Mul': return [(T, IntV(x * y, ty))]
    if op == 'Rem':
        q, r = ex.divrem(st, x, y); return [(T, IntV(r, ty))]
    if op == 'Div':
        q, r = ex.divrem(st, x, y); return [(T, IntV(q, ty))]
    if op == 'BitXor':
        # only used against an all-ones mask 2^w-1 with x < 2^w: x ^ mask = mask - x   (model precondition recorded)
        st['pc'].append(z3.And(x >= 0, x <= y)); return [(T, IntV(y - x, ty))]
def stub_two(ex, st, callee, A): return [(T, IntV(z3.IntVal(2), 'nat'))]
def stub_get(ex, st, callee, A): return [(T, dr(ex, st, A[0]))]
def stub_pow(ex, st, callee, A):
    b, e = dr(ex, st, A[0]), dr(ex, st, A[1])
    e_c = z3.simplify(e.t); b_c = z3.simplify(b.t)
    return [(T, IntV(z3.IntVal(b_c.as_long() ** e_c.as_long()), 'nat'))]
def stub_ne(ex, st, callee, A):
    a, b = dr(ex, st, A[0]), dr(ex, st, A[1]); return [(T, BoolV(a.t != b.t))]
def stub_from_u(ex, st, callee, A): return [(T, IntV(dr(ex, st, A[0]).t, 'nat'))]
stubs = {r'BigU?int as (std::ops::)?(Add|Sub|Mul|Div|Rem|BitXor)': big_binop, r'BigU?int as (Add|Sub|Mul|Div|Rem|BitXor)': big_binop,
         r'LazyLock<BigUint> as Deref>::deref': stub_two, r'NonZero::<u32>::get$': stub_get, r'BigUint::pow$': stub_pow,
         r'NonZero<u32> as PartialEq>::ne$': stub_ne, r'BigUint as From<u(128|32|64)>>::from$': stub_from_u,
         r'BigUint as Sub<u32>>::sub$': lambda ex, st, c, A: [(T, IntV(dr(ex, st, A[0]).t - dr(ex, st, A[1]).t, 'nat'))]}

W = 64
def bv_obj(name):
    v = z3.Int(name); return [IntV(z3.IntVal(W), 'u32'), IntV(v, 'nat')], v
def run(fnname, nargs):
    f = [v for k, v in fns.items() if k.startswith('bitvec::<impl') and k.endswith('::' + fnname)][0]
    ex = Exec(fns, consts, stubs=stubs)
    objs = [bv_obj(f'x{i}') for i in range(nargs)]
    f.args = [(f'_{i+1}', '') for i in range(nargs)] + [(f'__o{i}', '') for i in range(nargs)]
    outs = ex.run(f, [Ref(f'__o{i}') for i in range(nargs)] + [o[0] for o in objs],
                  pre=[z3.And(o[1] >= 0, o[1] < 2**W) for o in objs])
    return outs, [o[1] for o in objs]

for name, spec in [('add', lambda a, b: (a + b) % (2**W)), ('sub', lambda a, b: (a - b) % (2**W))]:
    try:
        outs, (x, y) = run(name, 2)
    except NotImplementedError as e:
        print(name, 'NOT IMPLEMENTED:', e); continue
    print('==', name, 'outcomes', len(outs))
    for o in outs:
        if o.kind != 'ret': print('  ', o.kind, str(o.val)[:60]); continue
        if o.val.name == 'Err':
            r, _, _ = check(o.pc, o.lemmas); print('   Err path feasible with equal widths?', r); continue
        res = o.val.fields[0]           # BitVec { width, v }
        got = res.fields[1].t
        # oracle: SMT-LIB bvadd / bvsub on 64-bit vectors
        want = spec(x, y)   # SMT-LIB definition: nat2bv((bv2nat s op bv2nat t) mod 2^m)
        r, m, t = check(o.pc + [got != want], o.lemmas)
        print(f'   result differs from SMT-LIB bv{name}? {r} ({t:.2f}s)', m if m else '')
