use cedar_policy::{Authorizer, Context, Entities, Policy, PolicySet, Request, RequestEnv, Schema};
use cedar_policy_symcc::{never_errors_asserts, CompiledPolicy, Env, SymEnv};
use std::str::FromStr;

#[test]
fn probe_decimal_plus_via_api() {
    let (schema, _) = Schema::from_cedarschema_str(
        "entity P, R; action a appliesTo { principal: P, resource: R, context: { s: String } };",
    ).unwrap();
    let policy = Policy::from_str(r#"permit(principal, action, resource) when { decimal(context.s) == decimal("1.2") };"#).unwrap();
    let req_env = RequestEnv::new("P".parse().unwrap(), r#"Action::"a""#.parse().unwrap(), "R".parse().unwrap());
    let ctx = Context::from_json_str(r#"{"s": "+1.2"}"#, None).unwrap();
    let request = Request::new(r#"P::"p""#.parse().unwrap(), r#"Action::"a""#.parse().unwrap(), r#"R::"r""#.parse().unwrap(), ctx, Some(&schema)).unwrap();
    let entities = Entities::from_json_str(r#"[
        {"uid": {"type": "P", "id": "p"}, "attrs": {}, "parents": []},
        {"uid": {"type": "R", "id": "r"}, "attrs": {}, "parents": []}
    ]"#, Some(&schema)).unwrap();
    // concrete evaluation
    let pset = PolicySet::from_policies([policy.clone()]).unwrap();
    let resp = Authorizer::new().is_authorized(&request, &pset, &entities);
    println!("concrete: decision={:?} errors={:?}", resp.decision(), resp.diagnostics().errors().map(|e| e.to_string()).collect::<Vec<_>>());
    // symbolic compilation on the literal environment
    let env = Env { request, entities };
    let symenv = SymEnv::from_concrete_env(&req_env, &schema, &env).unwrap();
    println!("literal symenv: {}", symenv.is_literal());
    let compiled = CompiledPolicy::compile_with_custom_symenv(&policy, &req_env, &schema, symenv).unwrap();
    let asserts = never_errors_asserts(&compiled);
    for t in asserts.asserts().iter() { println!("never_errors assert: {:?}", t); }
}
