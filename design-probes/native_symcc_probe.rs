use cedar_policy_symcc::extension_types::datetime::Datetime;
use cedar_policy_symcc::extension_types::decimal::Decimal;
use std::str::FromStr;

#[test]
fn probe_to_date_min() {
    let d = Datetime::from(i64::MIN + 5);
    let r = std::panic::catch_unwind(|| d.to_date());
    println!("to_date(MIN+5) = {:?}", r);
}

#[test]
fn probe_decimal_plus() {
    println!("{:?}", Decimal::from_str("1.+2"));
    println!("{:?}", Decimal::from_str("+1.2"));
}
