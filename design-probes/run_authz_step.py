#!/usr/bin/env python3-vt
"""C01 M1 prototype: one iteration of the bucket loop of is_authorized_core_internal from a havocked state."""
import sys, z3
sys.path.insert(0, '/root/scratch/m2s')
from m2s import *

fns, consts = parse_mir('/root/scratch/mir/core.mir')
f = [v for k, v in fns.items() if k.endswith('::is_authorized_core_internal')][0]
print('blocks', len(f.blocks), 'debug', {k: v for k, v in f.debug.items() if k.endswith(('permits', 'forbids', 'errors'))})
eff = enum_variants_from_source('/repo/cedar-policy-core/src/ast/policy.rs', 'Effect')
print('Effect', eff)

OUT = z3.Int('outcome')    # 0 true, 1 false, 2 residual, 3 error
EFF = z3.Int('effect')
def stub_partial_evaluate(ex, st, callee, A):
    return [([OUT == 0], Variant('Ok', [Variant('Left', [BoolV(z3.BoolVal(True))])])),
            ([OUT == 1], Variant('Ok', [Variant('Left', [BoolV(z3.BoolVal(False))])])),
            ([OUT == 2], Variant('Ok', [Variant('Right', [Opaque('residual')])])),
            ([OUT == 3], Variant('Err', [Opaque('evalerr')]))]
def stub_effect(ex, st, callee, A):
    return [([EFF == i], Variant(n)) for n, i in eff.items()]
def stub_push(ex, st, callee, A):
    return [(z3.BoolVal(True), Opaque('unit'))]
def stub_id(ex, st, callee, A): return [(z3.BoolVal(True), Ref('__pid'))]
stubs = {r'partial_evaluate$': stub_partial_evaluate, r'Policy::effect$': stub_effect, r'Vec::<.*>::push$': stub_push}
ex = Exec(fns, consts, stubs=stubs, enum_variants={**eff, 'Left': 0, 'Right': 1, 'NoError': 0, 'Error': 1})
# havoc state: every local the body reads gets an opaque value; vectors are named opaque objects
env = {}
names = {v: k for k, v in f.debug.items()}
for loc in f.locals: env[loc] = Opaque('havoc' + loc)
for loc, nm in names.items(): env[loc] = Opaque(nm)
env['_15'] = Variant('Some', [Opaque('p')])
orig_run = ex.run
# run from bb13 with prepared env: emulate by temporarily making args cover env
f2 = f
f2_args = list(env.items())
f.args = [(k, '') for k, _ in f2_args]
try:
    outs = ex.run(f, [v for _, v in f2_args], start='bb13', stop=('bb10',))
except NotImplementedError as e:
    print('NOT IMPLEMENTED', e); sys.exit(1)
print('outcomes', len(outs))
def vecname(a):
    r = a
    while isinstance(r, Ref): r = env_lookup(r.place)
    return repr(r)
def env_lookup(place): return env.get(place, Opaque('?' + place))
for o in outs:
    pushes = []
    for c in o.log:
        if 'push' in c[0]:
            tgt = c[1][0]; item = c[1][1]
            tname = names.get(tgt.place, tgt.place) if isinstance(tgt, Ref) else repr(tgt)
            pushes.append((tname, repr(item)[:60]))
    print(o.kind, [str(p) for p in o.pc], '->', pushes)
