#!/usr/bin/env python3-vt
import sys, z3
sys.path.insert(0, '/root/scratch/m2s')
from m2s import *

fns, consts = parse_mir('/root/scratch/mir/core.mir')
binop_idx = enum_variants_from_source('/repo/cedar-policy-core/src/ast/ops.rs', 'BinaryOp')
print('BinaryOp variants:', binop_idx)
f = fns['binary_arith']

def stub_get_as_long(ex, st, callee, A):
    # A[0] is a Ref to the Value local; result is functionally determined by which argument it is
    v = A[0]
    key = ('get_as_long', v.place)
    if key not in st['memo']:
        iv, rngc = ex.newint('i64', 'long_' + v.place.strip('_'))
        st['memo'][key] = (z3.Bool('islong_' + v.place.strip('_')), iv, rngc, Opaque('TypeError:' + v.place))
    isl, iv, rngc, err = st['memo'][key]
    return [([isl, rngc], Variant('Ok', [iv])), ([z3.Not(isl)], Variant('Err', [err]))]

ex = Exec(fns, consts, stubs={r'get_as_long': stub_get_as_long}, enum_variants=binop_idx)
op, oprange = ex.newint('isize', 'op')
arg1, arg2 = Opaque('arg1'), Opaque('arg2')
outs = ex.run(f, [op, arg1, arg2, Variant('None')], pre=[oprange, op.t >= 0, op.t < len(binop_idx)])
print('paths:', len(outs))
MIN, MAX = -(1 << 63), (1 << 63) - 1
isl1, a, _, e1 = [v for k, v in ex_memo.items()] if False else (None,)*4
nq = nviol = 0
for o in outs:
    pc = o.pc
    # pull the stub memo for names
    def named(n):
        return z3.Bool(n)
    l1, l2 = z3.Bool('islong_2'), z3.Bool('islong_3')
    a = [v for v in [z3.Int(f'long_2{i}') for i in range(1, 9)]]
    # generic: find symbols by scanning pc
    syms = {str(d): d for fml in pc for d in z3.z3util.get_vars(fml)} if pc else {}
    A = next((v for k, v in syms.items() if k.startswith('long_2')), None)
    B = next((v for k, v in syms.items() if k.startswith('long_3')), None)
    OP = next((v for k, v in syms.items() if k.startswith('op')), None)
    is_arith = z3.Or(OP == binop_idx['Add'], OP == binop_idx['Sub'], OP == binop_idx['Mul'])
    if o.kind == 'panic':
        # unreachable!() must be infeasible under the documented precondition op in {Add,Sub,Mul}
        r, m, t = check(pc + [is_arith], o.lemmas); nq += 1
        print(f'  panic path ({o.val[:40]}...) feasible under precondition? {r}')
        r2, m2, _ = check(pc, o.lemmas); print(f'     ... and without the precondition? {r2} (expected sat: unreachable! is real for other ops)')
        continue
    if o.kind != 'ret': continue
    res = o.val
    if res.name == 'Ok':
        # must be Value::from(exact result), no overflow
        call = [c for c in o.log if 'Into<ast::value::Value>' in c[0]]
        got = call[-1][1][0].t
        exact = z3.If(OP == binop_idx['Add'], A + B, z3.If(OP == binop_idx['Sub'], A - B, A * B))
        bad = z3.Or(got != exact, exact < MIN, exact > MAX, z3.Not(l1), z3.Not(l2))
        r, m, t = check(pc + [is_arith, bad], o.lemmas); nq += 1
        print(f'  Ok path: wrong value / missed overflow possible? {r} ({t:.2f}s)')
        if r == 'sat': nviol += 1; print('     model', m)
    else:
        # Err: either a type error from the first non-long operand (left first), or overflow of the exact result
        err = res.fields[0]
        if isinstance(err, Opaque) and err.what.startswith('TypeError'):
            which = err.what.split(':')[1]
            bad = z3.And(l1, l2) if True else None
            # error must come from arg1 if arg1 is not long, else from arg2
            cond = z3.Not(l1) if which == '_2' else z3.And(l1, z3.Not(l2))
            r, m, t = check(pc + [z3.Not(cond)], o.lemmas); nq += 1
            print(f'  Err(type error of {which}): raised although it should not? {r}')
        else:
            exact = z3.If(OP == binop_idx['Add'], A + B, z3.If(OP == binop_idx['Sub'], A - B, A * B))
            r, m, t = check(pc + [is_arith, z3.And(exact >= MIN, exact <= MAX)], o.lemmas); nq += 1
            print(f'  Err(overflow: {err}): raised although result fits? {r} ({t:.2f}s)')
            if r == 'sat': nviol += 1; print('     model', m)
print('queries', nq, 'violations', nviol)
