#!/usr/bin/env python3-vt
import sys, z3
sys.path.insert(0, '/root/scratch/m2s')
from m2s import *
import m2s

fns, consts = parse_mir('/root/scratch/mir/core.mir')
ek = enum_variants_from_source('/repo/cedar-policy-core/src/ast/expr.rs', 'ExprKind')
f = [v for k, v in fns.items() if k.endswith('::partial_interpret_internal') and 'Evaluator' in v.head and 'slots' in ''.join(v.debug)][0] if False else None
for k, v in fns.items():
    if k.endswith('::partial_interpret_internal') and len(v.args) == 3: f = v
print('function:', f.name[:80], 'blocks:', len(f.blocks))

# outcome of evaluating an operand: kind in {0: Value(bool b), 1: Value(non-bool), 2: Err, 3: Residual}
def stub_partial_interpret(ex, st, callee, A):
    operand = A[1]
    key = ('pi', repr(operand))
    if key not in st['memo']:
        n = len([k for k in st['memo'] if k[0] == 'pi'])
        st['memo'][key] = (z3.Int(f'kind_{n}'), z3.Bool(f'b_{n}'), n)
    kind, b, n = st['memo'][key]
    val_bool = Variant('Ok', [Variant('Value', [Opaque(f'val{n}:bool', (b,))])])
    val_nonb = Variant('Ok', [Variant('Value', [Opaque(f'val{n}:nonbool')])])
    return [([kind == 0], val_bool), ([kind == 1], val_nonb), ([kind == 2], Variant('Err', [Opaque(f'err{n}')])),
            ([kind == 3], Variant('Ok', [Variant('Residual', [Opaque(f'res{n}')])]))]

def stub_get_as_bool(ex, st, callee, A):
    v = A[0]
    v = ex.read(st, v.place) if isinstance(v, Ref) else v
    if isinstance(v, Opaque) and v.what.endswith(':bool'): return [(z3.BoolVal(True), Variant('Ok', [BoolV(v.args[0])]))]
    return [(z3.BoolVal(True), Variant('Err', [Opaque('TypeError(' + v.what + ')')]))]

def stub_expr_kind(ex, st, callee, A):
    return [(z3.BoolVal(True), Ref('__kind'))]

def stub_deref(ex, st, callee, A):
    v = A[0]
    return [(z3.BoolVal(True), ex.read(st, v.place) if isinstance(v, Ref) else v)]

stubs = {r'::partial_interpret$': stub_partial_interpret, r'get_as_bool': stub_get_as_bool, r'Expr::expr_kind$': stub_expr_kind,
         r'as Deref>::deref$': stub_deref}
ex = Exec(fns, consts, stubs=stubs, enum_variants={'Value': 0, 'Residual': 1, **ek})
left, right = Opaque('LEFT'), Opaque('RIGHT')
# seed the environment with the pinned ExprKind::And node
class E2(Exec):
    pass
orig_run = ex.run
def run_with_kind(fn, args, **kw):
    return orig_run(fn, args, **kw)
# inject '__kind' by wrapping read
orig_read = ex.read
def read(st, place):
    if place.strip() == '__kind': return Variant('And', [left, right])
    return orig_read(st, place)
ex.read = read
try:
    outs = ex.run(f, [Opaque('self'), Opaque('expr'), Opaque('slots')])
    print('paths', len(outs))
    for o in outs:
        calls = [(c[0].split('::')[-1][:30], [repr(a)[:20] for a in c[1]]) for c in o.log]
        print(o.kind, repr(o.val)[:70], '| pc:', [str(p) for p in o.pc][:4], '| calls:', [c[0] for c in calls])
except NotImplementedError as e:
    print('NOT IMPLEMENTED:', e)
