#!/usr/bin/env python3-vt
"""Throw-away prototype: MIR text -> z3 terms for loop-free scalar kernels."""
import re, sys, subprocess, time
import z3

INT_TY = {'i8':(8,True),'i16':(16,True),'i32':(32,True),'i64':(64,True),'i128':(128,True),'isize':(64,True),
          'u8':(8,False),'u16':(16,False),'u32':(32,False),'u64':(64,False),'u128':(128,False),'usize':(64,False),'bool':(1,False)}

class Fn:
    def __init__(s, name, sig, locals_, blocks): s.name, s.sig, s.locals, s.blocks = name, sig, locals_, blocks

def parse_mir(path):
    fns, consts = {}, {}
    txt = open(path).read()
    # split top-level items
    for m in re.finditer(r'^(fn|const) (.*?) = \{\n|^(fn) (.*?) \{\n|^const (\S+): (\S+) = const (\S+);', txt, re.M):
        pass
    items = re.split(r'\n(?=(?:fn|const|static|promoted) )', txt)
    for it in items:
        if it.startswith('const ') and ' = const ' in it.split('\n')[0]:
            m = re.match(r'const (.*?): (\S+) = const (\S+);', it)
            if m: consts[m.group(1)] = ('lit', m.group(3))
            continue
        m = re.match(r'(fn|const) (.*?)(\(.*?\))? ?(?:-> (.*?))?(?:: (\S+) =)? \{\n', it)
        if not m: continue
        kind, name = m.group(1), m.group(2)
        head = it.split('\n')[0]
        blocks = {}
        for bm in re.finditer(r'\n    (bb\d+)(?: \(cleanup\))?: \{\n(.*?)\n    \}', it, re.S):
            blocks[bm.group(1)] = [l.strip() for l in bm.group(2).split('\n') if l.strip()]
        locs = dict(re.findall(r'let (?:mut )?(_\d+): (.*?);', it))
        args = re.findall(r'(_\d+): ([^,()]*(?:\([^)]*\))?[^,()]*)', head.split('->')[0])
        f = Fn(name, head, locs, blocks); f.args = args
        if kind == 'const': consts[name] = ('body', f)
        else: fns.setdefault(name, f)
    return fns, consts

class Panic(Exception): pass

class Exec:
    def __init__(s, fns, consts):
        s.fns, s.consts, s.fresh = fns, consts, 0
        s.lemmas = []
    def divrem(s, a, b):
        w = a.size(); s.fresh += 1
        q = z3.BitVec(f'q{s.fresh}', w); r = z3.BitVec(f'r{s.fresh}', w)
        A, B, Q, R = [z3.SignExt(w, x) for x in (a, b, q, r)]
        absB = z3.If(B < 0, -B, B)
        s.lemmas.append(z3.Implies(b != 0, z3.And(A == Q*B + R, z3.If(A >= 0, z3.And(R >= 0, R < absB), z3.And(R <= 0, -R < absB)))))
        return q, r
        s.results = []   # (pc, kind, payload)
    def const(s, tok):
        tok = tok.strip()
        m = re.match(r'(-?\d+)_(\w+)$', tok)
        if m:
            w, _ = INT_TY[m.group(2)]; return z3.BitVecVal(int(m.group(1)), w)
        if tok in ('true','false'): return z3.BitVecVal(1 if tok=='true' else 0, 1)
        m = re.match(r'(\w+)::(MIN|MAX)$', tok)
        if m:
            w, sg = INT_TY[m.group(1)]
            v = (-(1<<(w-1)) if m.group(2)=='MIN' else (1<<(w-1))-1) if sg else (0 if m.group(2)=='MIN' else (1<<w)-1)
            return z3.BitVecVal(v, w)
        if tok.endswith('::None'): return ('variant','None',[])
        # named const: match by suffix
        for k, v in s.consts.items():
            if tok.endswith(k) or k.endswith(tok) or tok.split('::')[-1] == k.split('::')[-1]:
                if v[0] == 'lit': return s.const(v[1])
                outs = []
                s.run(v[1], [], z3.BoolVal(True), outs)
                return [o for o in outs if o[1]=='ret'][0][2]
        raise NotImplementedError('const ' + tok)
    # places -------------------------------------------------------
    def read(s, env, place):
        place = place.strip()
        m = re.match(r'^\((.*)\)$', place)
        if place.startswith('(') and place.endswith(')') and ': ' in place:
            # (base.N: ty)
            inner = place[1:-1]
            base, rest = inner.rsplit('.', 1)
            idx = int(rest.split(':')[0])
            b = s.read(env, base)
            if isinstance(b, tuple) and b[0] == 'variant': return b[2][idx]
            return b[idx]
        if place.startswith('(*') :
            return s.read(env, place[2:-1])
        m = re.match(r'^\((.*) as (\w+)\)$', place)
        if m: return s.read(env, m.group(1))
        v = env[place]
        if isinstance(v, tuple) and v[0] == 'ref': return s.read(env, v[1])
        return v
    def write(s, env, place, val):
        place = place.strip()
        if place.startswith('(') and ': ' in place:
            inner = place[1:-1]; base, rest = inner.rsplit('.', 1); idx = int(rest.split(':')[0])
            b = list(s.read(env, base)); b[idx] = val; s.write(env, base, b); return
        env[place] = val
    def operand(s, env, tok):
        tok = tok.strip()
        if tok.startswith('const '): return s.const(tok[6:])
        for p in ('copy ', 'move '):
            if tok.startswith(p): return s.read(env, tok[len(p):])
        return s.read(env, tok)
    # rvalues ------------------------------------------------------
    def rvalue(s, env, rv, lty):
        rv = rv.strip()
        m = re.match(r'^(\w+)\((.*)\)$', rv)
        signed = True
        if m and m.group(1) in ('Add','Sub','Mul','Div','Rem','Eq','Ne','Lt','Le','Gt','Ge','BitAnd','BitOr','BitXor','AddWithOverflow','SubWithOverflow','MulWithOverflow','Not','Neg'):
            op = m.group(1); parts = split_args(m.group(2)); a = s.operand(env, parts[0]); b = s.operand(env, parts[1]) if len(parts) > 1 else None
            sg = s.signed_of(env, parts[0], lty)
            w = a.size()
            if op == 'Add': return a + b
            if op == 'Sub': return a - b
            if op == 'Mul': return a * b
            if op == 'Div': return s.divrem(a, b)[0] if sg else z3.UDiv(a, b)
            if op == 'Rem': return s.divrem(a, b)[1] if sg else z3.URem(a, b)
            if op == 'Eq': return b2bv(a == b)
            if op == 'Ne': return b2bv(a != b)
            if op == 'Lt': return b2bv(a < b if sg else z3.ULT(a, b))
            if op == 'Le': return b2bv(a <= b if sg else z3.ULE(a, b))
            if op == 'Gt': return b2bv(a > b if sg else z3.UGT(a, b))
            if op == 'Ge': return b2bv(a >= b if sg else z3.UGE(a, b))
            if op == 'BitAnd': return a & b
            if op == 'BitOr': return a | b
            if op == 'BitXor': return a ^ b
            if op == 'Not': return ~a
            if op == 'Neg': return -a
            ext = (z3.SignExt if sg else z3.ZeroExt)
            A, B = ext(w, a), ext(w, b)
            R = {'AddWithOverflow': A + B, 'SubWithOverflow': A - B, 'MulWithOverflow': A * B}[op]
            lo = z3.Extract(w-1, 0, R)
            return [lo, b2bv(ext(w, lo) != R)]
        if rv.startswith('copy ') or rv.startswith('move ') or rv.startswith('const '):
            return s.operand(env, rv)
        if rv.startswith('&'):
            return ('ref', rv.lstrip('&').replace('mut ', '').strip())
        m = re.match(r'^discriminant\((.*)\)$', rv)
        if m:
            v = s.read(env, m.group(1)); return ('disc', v)
        m = re.match(r'^(?:std::option::)?Option::<.*>::Some\((.*)\)$', rv)
        if m: return ('variant', 'Some', [s.operand(env, m.group(1))])
        if re.match(r'^(?:std::option::)?Option::<.*>::None$', rv): return ('variant', 'None', [])
        m = re.match(r'^([\w:<> ]+?) \{ (.*) \}$', rv)
        if m:
            fields = [s.operand(env, f.split(': ', 1)[1]) for f in split_args(m.group(2))]
            return fields
        m = re.match(r'^\((.*)\)$', rv)
        if m: return [s.operand(env, x) for x in split_args(m.group(1))]
        raise NotImplementedError('rvalue ' + rv)
    def signed_of(s, env, tok, lty):
        tok = tok.strip()
        m = re.search(r'_(i\d+|u\d+|isize|usize)$', tok)
        if m: return INT_TY[m.group(1)][1]
        m = re.search(r': (\w+)\)$', tok)
        if m and m.group(1) in INT_TY: return INT_TY[m.group(1)][1]
        m = re.match(r'(?:copy|move) (_\d+)$', tok)
        if m:
            ty = env['__types'].get(m.group(1), '')
            if ty in INT_TY: return INT_TY[ty][1]
        if 'i64::' in tok or 'i128::' in tok: return True
        return True
    # calls --------------------------------------------------------
    def call(s, env, callee, args, pc):
        """returns list of (pc, value)"""
        A = [s.operand(env, a) for a in args]
        def opt(cond, val): return [(z3.And(pc, cond), ('variant','Some',[val])), (z3.And(pc, z3.Not(cond)), ('variant','None',[]))]
        m = re.search(r'<impl (i\d+|u\d+)>::(\w+)', callee)
        if m:
            ty, fn = m.group(1), m.group(2); w, sg = INT_TY[ty]; ext = z3.SignExt if sg else z3.ZeroExt
            if fn in ('checked_add','checked_sub','checked_mul'):
                X, Y = ext(w, A[0]), ext(w, A[1]); R = {'checked_add': X+Y, 'checked_sub': X-Y, 'checked_mul': X*Y}[fn]
                lo = z3.Extract(w-1, 0, R); return opt(ext(w, lo) == R, lo)
            if fn == 'checked_rem_euclid':
                a, b = A; r = s.divrem(a, b)[1]; re_ = z3.If(r < 0, z3.If(b < 0, r - b, r + b), r)
                bad = z3.Or(b == 0, z3.And(a == z3.BitVecVal(-(1<<(w-1)), w), b == -1)); return opt(z3.Not(bad), re_)
            if fn == 'is_negative': return [(pc, b2bv(A[0] < 0))]
        if 'as Try>::branch' in callee:
            v = A[0]
            if v[1] == 'Some': return [(pc, ('variant','Continue',[v[2][0]]))]
            return [(pc, ('variant','Break',[('variant','None',[])]))]
        if 'from_residual' in callee: return [(pc, ('variant','None',[]))]
        if 'as Clone>::clone' in callee:
            v = A[0]
            if isinstance(v, tuple) and v[0] == 'ref': v = s.read(env, v[1])
            return [(pc, v)]
        # in-dump function (closures, Option::map with closure ...)
        m = re.match(r'^Option::<.*>::map::<.*?>\((.*)$', callee)
        raise NotImplementedError('call ' + callee)
    # driver -------------------------------------------------------
    def run(s, fn, argvals, pc0, outs):
        env0 = {'__types': dict(fn.locals)}
        for (name, ty), v in zip(fn.args, argvals): env0[name] = v; env0['__types'][name] = ty.strip()
        work = [('bb0', env0, pc0)]
        while work:
            bb, env, pc = work.pop()
            for line in fn.blocks[bb]:
                line = line.rstrip(';')
                if line.startswith(('StorageLive','StorageDead','nop','FakeRead','PlaceMention','Retag','// ')): continue
                if line == 'return':
                    outs.append((pc, 'ret', env['_0'])); break
                if line == 'unreachable':
                    outs.append((pc, 'unreachable', None)); break
                m = re.match(r'^goto -> (bb\d+)$', line)
                if m: work.append((m.group(1), env, pc)); break
                m = re.match(r'^switchInt\((.*)\) -> \[(.*)\]$', line)
                if m:
                    v = s.operand(env, m.group(1)); tg = [t.strip().split(': ') for t in m.group(2).split(',')]
                    if isinstance(v, tuple) and v[0] == 'disc':
                        val = v[1]; name = val[1]
                        idx = {'None':0,'Some':1,'Continue':0,'Break':1,'Ok':0,'Err':1}[name]
                        dest = dict((a, b) for a, b in tg if a != 'otherwise').get(str(idx)) or dict(tg)['otherwise']
                        work.append((dest, env, pc)); break
                    taken = []
                    for a, b in tg:
                        if a == 'otherwise':
                            cond = z3.And(*[v != z3.BitVecVal(int(x), v.size()) for x, _ in tg if x != 'otherwise'])
                        else: cond = v == z3.BitVecVal(int(a), v.size())
                        work.append((b, dict(env), z3.And(pc, cond)))
                    break
                m = re.match(r'^assert\((!?)(.*?), ".*?"(?:, .*)?\) -> \[success: (bb\d+).*\]$', line)
                if m:
                    c = s.operand(env, m.group(2)); ok = (c == 0) if m.group(1) == '!' else (c == 1)
                    outs.append((z3.And(pc, z3.Not(ok)), 'panic', line[:90]))
                    pc = z3.And(pc, ok); work.append((m.group(3), env, pc)); break
                m = parse_call(line)
                if m and not re.match(r'^(Add|Sub|Mul|Div|Rem|Eq|Ne|Lt|Le|Gt|Ge|BitAnd|BitOr|Not|Neg|\w+WithOverflow|discriminant)$', m.group(2)):
                    for pc2, val in s.call(env, m.group(2), split_args(m.group(3)), pc):
                        e2 = dict(env); s.write(e2, m.group(1), val); work.append((m.group(4), e2, pc2))
                    break
                m = re.match(r'^(\S.*?) = (.*)$', line)
                if m:
                    lty = env['__types'].get(m.group(1).strip(), '')
                    s.write(env, m.group(1), s.rvalue(env, m.group(2), lty)); continue
                raise NotImplementedError('stmt ' + line)

class _M:
    def __init__(s, g): s.g = g
    def group(s, i): return s.g[i]
def parse_call(line):
    m = re.match(r'^(\S.*?) = (.*) -> \[return: (bb\d+).*\]$', line)
    if not m or not m.group(2).endswith(')'): return None
    rhs = m.group(2); depth = 0
    for i in range(len(rhs)-1, -1, -1):
        if rhs[i] == ')': depth += 1
        elif rhs[i] == '(':
            depth -= 1
            if depth == 0: break
    return _M([line, m.group(1), rhs[:i], rhs[i+1:-1], m.group(3)])
def split_args(sarg):
    out, depth, cur = [], 0, ''
    for ch in sarg:
        if ch in '([{<': depth += 1
        if ch in ')]}>': depth -= 1
        if ch == ',' and depth == 0: out.append(cur.strip()); cur = ''
        else: cur += ch
    if cur.strip(): out.append(cur.strip())
    return out
def b2bv(b): return z3.If(b, z3.BitVecVal(1,1), z3.BitVecVal(0,1))

def solve(formula, name, timeout=30, lemmas=()):
    s = z3.Solver(); s.add(formula); s.add(*lemmas); smt = "(set-logic ALL)\n" + s.to_smt2()
    open('/root/scratch/m2s/q.smt2','w').write(smt.replace('(check-sat)','(check-sat)\n(get-model)'))
    t=time.time()
    r = subprocess.run(['cvc5','--lang','smt2','--solve-bv-as-int=sum','--produce-models',f'--tlimit={timeout*1000}','/root/scratch/m2s/q.smt2'],capture_output=True,text=True)
    out = r.stdout.strip().split('\n')
    return out[0], ' '.join(out[1:])[:300], time.time()-t

if __name__ == '__main__':
    core_fns, core_consts = parse_mir('/root/scratch/mir/core.mir')
    sym_fns, sym_consts = parse_mir('/root/scratch/mir/symcc.mir')
    def find(fns, frag, suffix):
        c = [k for k in fns if frag in k and k.endswith(suffix)]
        assert len(c) == 1, (frag, suffix, c); return fns[c[0]]
    e = z3.BitVec('e', 64)
    DAY = 86400000
    for (label, fns, consts, frag, byref) in [('core', core_fns, core_consts, 'extensions/datetime.rs:293', False), ('symcc', sym_fns, sym_consts, 'extension_types/datetime.rs:70', True)]:
        f = find(fns, frag, '::to_date')
        ex = Exec(fns, consts); outs = []
        arg = [e]
        env_arg = ('ref', '__self') if byref else arg
        if byref:
            # argument _1 is &Datetime: bind a synthetic local
            fn = f; 
            outs = []
            env0_hack = None
        ex2 = Exec(fns, consts)
        outs = []
        if byref:
            f.locals['__self'] = 'Datetime'
            # run with _1 = ref to __self; preload __self
            orig_run = ex2.run
            def run_with(fn, argvals, pc0, outs):
                env0 = {'__types': dict(fn.locals), '__self': [e]}
                for (name, ty), v in zip(fn.args, argvals): env0[name] = v
                work = [('bb0', env0, pc0)]
                return env0
            # simple: emulate by monkeypatching read of '_1'
            class E2(Exec):
                def read(s, env, place):
                    if place.strip() == '_1': return [e]
                    return Exec.read(s, env, place)
            ex2 = E2(fns, consts)
            ex2.run(f, [[e]], z3.BoolVal(True), outs)
        else:
            ex2.run(f, [[e]], z3.BoolVal(True), outs)
        print(f'== {label} to_date: {len(outs)} outcomes')
        # spec: floor day d; Some(d) iff d >= MIN
        k = z3.BitVec('k', 64)
        E, K = z3.SignExt(64, e), z3.SignExt(64, k)
        D = z3.BitVecVal(DAY, 128)
        isq = z3.And(k >= -106751991168, k <= 106751991168, K*D <= E, E < (K+1)*D)
        floor = K*D
        fits = floor >= z3.BitVecVal(-(1<<63), 128)
        for pc, kind, val in outs:
            if kind == 'panic':
                r = solve(pc, 'panic', lemmas=ex2.lemmas); print('  panic reachable?', val[:60], r)
            elif kind == 'ret':
                if val[1] == 'Some':
                    got = val[2][0][0]
                    bad = z3.And(pc, isq, z3.Not(z3.And(fits, z3.SignExt(64, got) == floor)))
                else:
                    bad = z3.And(pc, isq, fits)
                r = solve(bad, 'post', lemmas=ex2.lemmas); print('  return', val[1], 'violates spec?', r)
