#[cfg(kani)]
mod proofs {
    use cedar_policy_core::transitive_closure::{compute_tc, TCNode};
    use std::collections::{HashMap, HashSet};
    use std::hash::RandomState;

    fn fixed_state() -> RandomState {
        // RandomState is { k0: u64, k1: u64 }
        unsafe { std::mem::transmute::<(u64, u64), RandomState>((1u64, 2u64)) }
    }

    struct N { id: u8, direct: HashSet<u8>, all: HashSet<u8> }
    impl TCNode<u8> for N {
        fn get_key(&self) -> u8 { self.id }
        fn add_edge_to(&mut self, k: u8) { self.all.insert(k); }
        fn out_edges(&self) -> Box<dyn Iterator<Item = &u8> + '_> { Box::new(self.all.iter()) }
        fn has_edge_to(&self, k: &u8) -> bool { self.all.contains(k) }
        fn reset_edges(&mut self) { self.all = self.direct.clone(); }
        fn direct_edges(&self) -> Box<dyn Iterator<Item = &u8> + '_> { Box::new(self.direct.iter()) }
    }

    #[kani::proof]
    #[kani::unwind(6)]
    #[kani::stub(std::hash::RandomState::new, fixed_state)]
    fn p10b_tc3_fixedhash() {
        const NN: usize = 3;
        let adj: [[bool; NN]; NN] = kani::any();
        let mut nodes: HashMap<u8, N> = HashMap::new();
        let mut i = 0;
        while i < NN {
            let mut d = HashSet::new();
            let mut j = 0;
            while j < NN { if adj[i][j] { d.insert(j as u8); } j += 1; }
            nodes.insert(i as u8, N { id: i as u8, all: d.clone(), direct: d });
            i += 1;
        }
        let mut r = adj;
        let mut k = 0;
        while k < NN { let mut i = 0; while i < NN { let mut j = 0; while j < NN {
            if r[i][k] && r[k][j] { r[i][j] = true; } j += 1; } i += 1; } k += 1; }
        let cyclic = r[0][0] || r[1][1] || r[2][2];
        let res = compute_tc(&mut nodes, true);
        assert_eq!(res.is_err(), cyclic);
        if !cyclic {
            let mut i = 0;
            while i < NN { let mut j = 0; while j < NN {
                assert_eq!(nodes.get(&(i as u8)).unwrap().has_edge_to(&(j as u8)), r[i][j]);
                j += 1; } i += 1; }
        }
        std::mem::forget(nodes);
        std::mem::forget(res);
    }
}
