#![allow(dead_code)]
#[path = "/repo/cedar-policy-symcc/src/symcc/extension_types/decimal.rs"]
mod decimal;

#[cfg(kani)]
mod proofs {
    use super::decimal::Decimal;
    use std::str::FromStr;

    fn empty_fmt(_a: std::fmt::Arguments<'_>) -> String { String::new() }

    /// all valid decimals of the shape D.DD / -D.D etc. of length 4: "d.dd", "dd.d", "-d.d"
    #[kani::proof]
    #[kani::unwind(6)]
    fn p14_symcc_decimal_len4() {
        let b: [u8; 4] = [kani::any(), kani::any(), kani::any(), kani::any()];
        kani::assume(b[0] < 128 && b[1] < 128 && b[2] < 128 && b[3] < 128);
        let dig = |c: u8| c.is_ascii_digit();
        let v = |c: u8| (c - b'0') as i64;
        // valid shapes of length 4
        let expect: Option<i64> =
            if dig(b[0]) && b[1] == b'.' && dig(b[2]) && dig(b[3]) { Some(v(b[0]) * 10000 + v(b[2]) * 1000 + v(b[3]) * 100) }
            else if dig(b[0]) && dig(b[1]) && b[2] == b'.' && dig(b[3]) { Some((v(b[0]) * 10 + v(b[1])) * 10000 + v(b[3]) * 1000) }
            else if b[0] == b'-' && dig(b[1]) && b[2] == b'.' && dig(b[3]) { Some(-(v(b[1]) * 10000 + v(b[3]) * 1000)) }
            else { None };
        kani::assume(expect.is_some());
        let s = std::str::from_utf8(&b).unwrap();
        let r = Decimal::from_str(s);
        match r { Ok(d) => assert_eq!(Some(d.0), expect), Err(e) => { std::mem::forget(e); assert!(false); } }
    }
}
