"""`check replay <file>`: re-run a recorded counterexample against the real code (natively compiled from /repo's tree)."""
import json
from .framework import Native


def replay_file(path):
    d = json.load(open(path))
    r = d['replay']
    print(f'property {d["property"]} obligation {d["obligation"]}\n  {d["what"]}')
    nat = Native('dev')
    if 'op' in r:
        req = {k: v for k, v in r.items() if k in ('op', 'policies', 'expr', 'bindings', 'entities')}
        print('  request :', json.dumps(req)[:600])
        print('  real code:', json.dumps(nat.ask(req))[:1200])
        if 'expected' in r:
            print('  expected :', json.dumps(r['expected']))
    else:
        print('  inputs:', r.get('inputs'), ' recorded native result:', r.get('native'))
    nat.close()
    return 0
