"""Driver-side plumbing shared by all property modules: building the MIR dump and the native replay binary from
/repo's working tree, obligations and their verdicts, translator validation, replay of counterexamples, known
findings, evidence files."""
import os, sys, json, time, hashlib, subprocess, random, fcntl, re, traceback
import z3
from .mirparse import Program, INT_TY
from .executor import Exec, NotEncoded, IntV, BoolV, Agg, Opaque, Ref, rng
from .solve import Solvers
from .enums import EnumIndex

VERIF = os.path.dirname(os.path.dirname(os.path.abspath(__file__)))
REPO = os.environ.get('VERIF_REPO', '/repo')
BUILD = os.path.join(VERIF, 'build')
# checks always rebuild from REPO's working tree; a scratch tree (VERIF_REPO=/tmp/wt-x) gets its own build directories
SUFFIX = '' if REPO == '/repo' else '-' + hashlib.sha256(REPO.encode()).hexdigest()[:8]
NIGHTLY = os.environ.get('VERIF_NIGHTLY', 'nightly')

CRATES = {
    'core': {'pkg': 'cedar-policy-core', 'dir': 'cedar-policy-core', 'features': 'partial-eval,tpe'},
    'symcc': {'pkg': 'cedar-policy-symcc', 'dir': 'cedar-policy-symcc', 'features': ''},
    # cedar-policy-core with the (deprecated, feature-gated) entity-manifest analysis: C17 only, so that the dump of the other properties is unaffected
    'coreem': {'pkg': 'cedar-policy-core', 'dir': 'cedar-policy-core', 'features': 'partial-eval,tpe,entity-manifest'},
    # the public API crate: FFI / protobuf / permission-query wrappers (its dump contains only its own bodies; calls into cedar-policy-core are stubs)
    'api': {'pkg': 'cedar-policy', 'dir': 'cedar-policy', 'features': 'partial-eval,tpe,protobufs', 'extra_src': ['cedar-policy-core/src']},
    # the command-line front end (library part): exit status and printed decision of `cedar authorize` / `validate` (its own bodies only)
    'cli': {'pkg': 'cedar-policy-cli', 'dir': 'cedar-policy-cli', 'features': '', 'extra_src': ['cedar-policy/src', 'cedar-policy-core/src']},
}


class MachineryError(Exception):
    """the machinery itself is broken (exit 2)"""


def sh(cmd, **kw):
    return subprocess.run(cmd, shell=isinstance(cmd, str), capture_output=True, text=True, **kw)


def tree_hash(paths):
    h = hashlib.sha256()
    for root in paths:
        if os.path.isfile(root):
            h.update(root.encode()); h.update(open(root, 'rb').read()); continue
        for d, dirs, files in sorted(os.walk(root)):
            dirs.sort()
            if '/target' in d:
                continue
            for f in sorted(files):
                p = os.path.join(d, f)
                h.update(p.encode())
                try:
                    h.update(open(p, 'rb').read())
                except OSError:
                    pass
    return h.hexdigest()[:20]


def build_mir(crate, log=print):
    """(re)generate the MIR dump of `crate` from /repo's working tree; cached by source hash"""
    c = CRATES[crate]
    os.makedirs(os.path.join(BUILD, 'mir'), exist_ok=True)
    srcs = [os.path.join(REPO, c['dir'], 'src'), os.path.join(REPO, c['dir'], 'Cargo.toml'), os.path.join(REPO, 'Cargo.lock'),
            os.path.join(REPO, 'Cargo.toml')]
    if crate == 'symcc':
        srcs.append(os.path.join(REPO, 'cedar-policy-core', 'src'))
    for x in c.get('extra_src', []):
        srcs.append(os.path.join(REPO, x))
    flags = f'-Zunpretty=mir -Zmir-include-spans=on -C debug-assertions=off -C overflow-checks=on|{c["features"]}|{NIGHTLY}'
    key = tree_hash(srcs) + hashlib.sha256(flags.encode()).hexdigest()[:8]
    out = os.path.join(BUILD, 'mir', f'{crate}-{key}.mir')
    if os.path.exists(out) and os.path.getsize(out) > 1000:
        os.utime(out)
        return out, key, 0.0, True
    lock = open(os.path.join(BUILD, 'mir', f'.lock-{crate}'), 'w')
    fcntl.flock(lock, fcntl.LOCK_EX)
    try:
        if os.path.exists(out) and os.path.getsize(out) > 1000:
            return out, key, 0.0, True
        t = time.time()
        tdir = os.path.join(BUILD, 'mir', 'target' + SUFFIX)
        # force rustc to run again for this crate (an up-to-date crate prints nothing)
        sh(f'rm -rf {tdir}/debug/.fingerprint/{c["pkg"]}-*')
        feat = f'--features {c["features"]}' if c['features'] else ''
        cmd = (f'cd {REPO} && CARGO_NET_OFFLINE=true CARGO_TARGET_DIR={tdir} cargo +{NIGHTLY} rustc --offline -p {c["pkg"]} --lib {feat} '
               f'-- -Zunpretty=mir -Zmir-include-spans=on -C debug-assertions=off -C overflow-checks=on')
        log(f'[mir] building dump of {c["pkg"]} ...')
        tmp = out + '.tmp'
        with open(tmp, 'w') as fo:
            r = subprocess.run(cmd, shell=True, stdout=fo, stderr=subprocess.PIPE, text=True)
        if r.returncode != 0 or os.path.getsize(tmp) < 1000:
            raise MachineryError(f'MIR dump of {crate} failed:\n{r.stderr[-3000:]}')
        os.rename(tmp, out)
        # keep only the two newest dumps per crate
        olds = sorted([f for f in os.listdir(os.path.join(BUILD, 'mir')) if f.startswith(crate + '-') and f.endswith('.mir')],
                      key=lambda f: os.path.getmtime(os.path.join(BUILD, 'mir', f)))
        for f in olds[:-8]:
            os.remove(os.path.join(BUILD, 'mir', f))
        return out, key, time.time() - t, False
    finally:
        fcntl.flock(lock, fcntl.LOCK_UN)


class Native:
    """the real code, natively compiled from /repo's working tree (replay + translator validation)"""

    def __init__(self, profile='dev', log=print, crate='replay', binname='verif-replay'):
        self.crate, self.binname = crate, binname
        self.profile = profile
        self.log = log
        self.proc = None
        self.build_s = 0.0
        self.calls = 0

    def build(self):
        t = time.time()
        tdir = os.path.join(BUILD, self.crate + SUFFIX)
        rel = '--release' if self.profile == 'release' else ''
        os.makedirs(BUILD, exist_ok=True)
        lock = open(os.path.join(BUILD, f'.lock-{self.crate}-{self.profile}{SUFFIX}'), 'w')
        fcntl.flock(lock, fcntl.LOCK_EX)
        try:
            src = f'{VERIF}/{self.crate}'
            if SUFFIX:
                src = os.path.join(BUILD, self.crate + '-src' + SUFFIX)
                sh(f'rm -rf {src} && mkdir -p {src}/src && cp {VERIF}/{self.crate}/src/main.rs {src}/src/ && sed "s#/repo/#{REPO}/#g" {VERIF}/{self.crate}/Cargo.toml > {src}/Cargo.toml')
            r = sh(f'cd {src} && cp {REPO}/Cargo.lock Cargo.lock && CARGO_NET_OFFLINE=true CARGO_TARGET_DIR={tdir} cargo build --offline {rel}')
        finally:
            fcntl.flock(lock, fcntl.LOCK_UN)
        if r.returncode != 0:
            raise MachineryError('replay binary does not build:\n' + r.stderr[-3000:])
        self.build_s = time.time() - t
        self.bin = os.path.join(tdir, 'release' if self.profile == 'release' else 'debug', self.binname)

    def start(self):
        if self.proc is None:
            self.build()
            self.proc = subprocess.Popen([self.bin], stdin=subprocess.PIPE, stdout=subprocess.PIPE, text=True, bufsize=1)

    def ask(self, req):
        self.start()
        self.calls += 1
        self.proc.stdin.write(json.dumps(req) + '\n')
        self.proc.stdin.flush()
        line = self.proc.stdout.readline()
        if not line:
            raise MachineryError('replay binary died on ' + json.dumps(req)[:300])
        return json.loads(line)

    def close(self):
        if self.proc is not None:
            try:
                self.proc.stdin.close()
                self.proc.wait(timeout=10)
            except Exception:
                self.proc.kill()
            self.proc = None


# ------------------------------------------------------------------ dual-mode specification helpers
# A specification is ONE python function used twice: over z3 terms (the obligation) and over python ints (replay and
# translator validation).  These helpers pick the right operator.

def _sym(*xs):
    return any(isinstance(x, z3.ExprRef) for x in xs)


def And(*xs):
    xs = [x for x in xs]
    return z3.And(*[x if isinstance(x, z3.ExprRef) else z3.BoolVal(bool(x)) for x in xs]) if _sym(*xs) else all(xs)


def Or(*xs):
    return z3.Or(*[x if isinstance(x, z3.ExprRef) else z3.BoolVal(bool(x)) for x in xs]) if _sym(*xs) else any(xs)


def Not(x):
    return z3.Not(x) if _sym(x) else (not x)


def Implies(a, b):
    return z3.Implies(a if isinstance(a, z3.ExprRef) else z3.BoolVal(bool(a)), b if isinstance(b, z3.ExprRef) else z3.BoolVal(bool(b))) if _sym(a, b) else ((not a) or b)


def If(c, a, b):
    if _sym(c):
        return z3.If(c, a, b)
    return a if c else b


def Eq(a, b):
    return a == b


def tdiv(a, c):
    """truncating division by a positive python constant"""
    assert isinstance(c, int) and c > 0
    if _sym(a):
        return z3.If(a >= 0, a / c, -((-a) / c))
    return a // c if a >= 0 else -((-a) // c)


def emod(a, c):
    """euclidean remainder by a positive python constant"""
    assert isinstance(c, int) and c > 0
    return a % c


def in_range(x, ty):
    lo, hi = rng(ty)
    return And(x >= lo, x <= hi)


I64_MIN, I64_MAX = -(1 << 63), (1 << 63) - 1


# ------------------------------------------------------------------ obligations

def is_nonlinear(f):
    seen = set()
    stack = [f]
    while stack:
        u = stack.pop()
        if u.get_id() in seen:
            continue
        seen.add(u.get_id())
        if z3.is_app(u):
            k = u.decl().kind()
            ch = u.children()
            if k == z3.Z3_OP_MUL and sum(0 if z3.is_int_value(c) or z3.is_rational_value(c) else 1 for c in ch) >= 2:
                return True
            if k in (z3.Z3_OP_IDIV, z3.Z3_OP_MOD, z3.Z3_OP_DIV, z3.Z3_OP_REM) and len(ch) == 2 and not z3.is_int_value(ch[1]):
                return True
            stack.extend(ch)
        elif z3.is_quantifier(u):
            stack.append(u.body())
    return False


class Ob:
    def __init__(s, name, kind, status, detail='', answers=None, times=None, sample=None):
        s.name, s.kind, s.status, s.detail, s.answers, s.times, s.sample = name, kind, status, detail, answers or {}, times or {}, sample


class Finding(Exception):
    pass


class Ctx:
    def __init__(self, pid, tier, seed):
        self.pid, self.tier, self.seed = pid, tier, seed
        self.t0 = time.time()
        self.rand = random.Random(seed)
        self.solvers = Solvers(tier)
        self.native = Native('dev', self.log)
        self.native_release = None
        self.obs = []
        self.functions = {}      # name -> mir sha
        self.stubs = set()
        self.models = set()
        self.assumptions = []
        self.bounds = []
        self.validation_samples = 0
        self.violations = []     # (obligation, replay path, text)
        self.known = []
        self.mismatches = []
        self.not_encoded = []
        self.witnesses = 0
        self.progs = {}
        self.mir_info = {}
        self.enum_index = {}
        self.samples = []
        self.known_findings = json.load(open(os.path.join(VERIF, 'known_findings.json')))['findings'] \
            if os.path.exists(os.path.join(VERIF, 'known_findings.json')) else []
        self.extra = {}
        self.panic_only = False

    def log(self, *a):
        print(*a, flush=True)

    # ---------------------------------------------------------- programs
    def prog(self, crate):
        if crate not in self.progs:
            path, key, dt, cached = build_mir(crate, self.log)
            t = time.time()
            self.progs[crate] = Program(path)
            self.mir_info[crate] = {'dump': os.path.basename(path), 'source_key': key, 'build_s': round(dt, 1), 'cached': cached,
                                    'index_s': round(time.time() - t, 1), 'functions_in_dump': len(self.progs[crate]._spans),
                                    'features': CRATES[crate]['features'], 'flags': '-Zunpretty=mir -Zmir-include-spans=on -C debug-assertions=off -C overflow-checks=on'}
            self.log(f'[mir] {crate}: {os.path.basename(path)} ({"cached" if cached else f"built in {dt:.0f}s"}), {len(self.progs[crate]._spans)} functions')
            feats = set(CRATES[crate]['features'].split(',')) | {'default', 'ipaddr', 'decimal', 'datetime'}
            self.enum_index[crate] = EnumIndex(os.path.join(REPO, CRATES[crate]['dir'], 'src'), feats)
            for x in CRATES[crate].get('extra_src', []):
                self.enum_index[crate].add_dir(os.path.join(REPO, x))
            if crate == 'api':
                # prost-generated message types (OUT_DIR of the dump build): the newest generation
                import glob
                outs = sorted(glob.glob(os.path.join(BUILD, 'mir', 'target' + SUFFIX, 'debug', 'build', 'cedar-policy-*', 'out', 'cedar_policy_core.rs')), key=os.path.getmtime)
                if outs:
                    self.enum_index[crate].add_dir(os.path.dirname(outs[-1]))     # module name = file name = `cedar_policy_core`, as MIR prints these types
        return self.progs[crate]

    def new_exec(self, crate='core', mode='int', **kw):
        p = self.prog(crate)
        ex = Exec(p, self.enum_index[crate], mode=mode, **kw)
        ex.src_root = REPO
        return ex

    def use(self, func):
        self.functions[f'{func.name} @ {func.file}:{func.line}'] = func.sha()

    def absorb(self, ex):
        self.stubs |= ex.stats['stubbed']
        self.models |= ex.stats['modelled']
        for n in ex.stats['inlined']:
            for f in ex.prog.funcs_named(n):
                self.use(f)

    # ---------------------------------------------------------- obligations
    def panic_summary(self, name, outs, ex, pre=(), replay=None):
        """C20 obligation of a kernel / code fragment: no panicking path (MIR assert, unwrap/expect on the empty case,
        unreachable!, explicit panic) is feasible under the stated precondition, and the non-panicking paths cover it"""
        bad = [o for o in outs if o.kind in ('panic', 'unreachable', 'diverged')]
        good = [o for o in outs if o.kind not in ('panic', 'unreachable', 'diverged')]
        f = z3.Or([z3.And(o.pc) if o.pc else z3.BoolVal(True) for o in bad]) if bad else z3.BoolVal(False)
        self.decide(f'{name}/panic-free ({len(bad)} panic sites on {len(outs)} paths)', list(pre) + [f], kind='panic', ex=ex, on_sat=replay,
                    sample={'panic_sites': [o.msg[:120] for o in bad][:4], 'paths': len(outs)})
        self.extra.setdefault('panic_sites_examined', 0)
        self.extra['panic_sites_examined'] += len(bad)

    def decide(self, name, formulas, expect='unsat', kind='post', sample=None, on_sat=None, ex=None):
        """one solver query.  expect='unsat': an obligation (sat = counterexample candidate, handed to on_sat(model)).
        expect='sat': a reachability / vacuity witness."""
        if self.panic_only and not (kind in ('panic', 'cover') or 'cover' in name):
            return None
        fs = list(formulas)
        if ex is not None:
            inv = list(ex.invariants)
            lin = [f for f in inv if not is_nonlinear(f)]
            if expect == 'unsat' and len(lin) < len(inv):
                # weakening the hypotheses is sound for an unsat verdict: try with the linear facts only first (much easier for the solvers)
                v0 = self.solvers.check(lin + fs, quick_pass=True)
                if v0.status == 'unsat':
                    self.obs.append(Ob(name, kind, 'discharged', 'linear facts only', v0.answers, v0.times, sample))
                    return v0
            fs = inv + fs
        v = self.solvers.check(fs, witness=(expect == 'sat'))
        if expect == 'sat':
            if v.status == 'sat':
                self.witnesses += 1
                st = 'witness'
            elif v.status == 'unsat':
                st = 'vacuous'
            else:
                st = 'inconclusive'
            self.obs.append(Ob(name, 'witness', st, '', v.answers, v.times, sample))
            if st == 'vacuous':
                self.log(f'  VACUOUS  {name}: reachability witness is unsat')
            return v
        if v.status == 'unsat':
            self.obs.append(Ob(name, kind, 'discharged', '', v.answers, v.times, sample))
        elif v.status == 'sat':
            detail = ''
            st = 'counterexample'
            if on_sat is not None:
                st, detail = on_sat(v.model)
            else:
                st, detail = 'unreplayed', 'no replay recipe for this obligation'
            self.obs.append(Ob(name, kind, st, detail, v.answers, v.times, sample))
        else:
            self.obs.append(Ob(name, kind, 'inconclusive', str(v.answers), v.answers, v.times, sample))
            self.log(f'  INCONCLUSIVE {name}: {v.answers}')
        return v

    def skip(self, name, reason):
        self.not_encoded.append((name, reason))
        self.obs.append(Ob(name, 'post', 'not_encoded', reason))
        self.log(f'  NOT-ENCODED {name}: {reason}')

    def guarded(self, name, fn):
        """run one obligation family; NotEncoded / lookup failures are reported, never counted as a pass"""
        try:
            fn()
        except NotEncoded as e:
            self.skip(name, f'NotEncoded: {e}')
        except LookupError as e:
            self.skip(name, f'kernel not located: {e}')

    # ---------------------------------------------------------- families in parallel worker processes
    _LISTS = ('obs', 'violations', 'known', 'mismatches', 'not_encoded', 'assumptions', 'bounds', 'samples')

    def run_families(self, fams, jobs=None):
        """run obligation families, each in a forked worker (the MIR index and z3 context are inherited copy-on-write); results are merged in family order.
        VERIF_JOBS=1 runs them in this process."""
        fams = list(fams)
        jobs = jobs or int(os.environ.get('VERIF_JOBS', '0') or 0) or min(12, max(1, (os.cpu_count() or 2) - 2))
        if jobs <= 1 or len(fams) <= 1:
            for name, fn in fams:
                self.guarded(name, fn)
            return
        import pickle, tempfile, traceback
        if not self.progs:
            self.prog('symcc' if self.pid == 'C18' else 'core')      # index the dump once, before forking
        tmpd = tempfile.mkdtemp(prefix='fam-', dir=BUILD)
        pending = list(enumerate(fams))
        running, done, timed_out = {}, {}, set()
        sys.stdout.flush()
        while pending or running:
            while pending and len(running) < jobs:
                idx, (name, fn) = pending.pop(0)
                out = os.path.join(tmpd, f'{idx}.pkl')
                pid = os.fork()
                if pid == 0:
                    code = 0
                    try:
                        base = {k: len(getattr(self, k)) for k in self._LISTS}
                        base_fn, base_st, base_md = dict(self.functions), set(self.stubs), set(self.models)
                        self.native.proc, self.native.calls = None, 0
                        for nn in [self.native_release] + list(getattr(self, 'extra_natives', [])):
                            if nn is not None:
                                nn.proc = None          # a worker never talks to a replay process its parent started
                        self.solvers.queries = 0
                        self.solvers.time = {k: 0.0 for k in self.solvers.time}
                        self.solvers.answers = {k: {} for k in self.solvers.answers}
                        w0, x0, v0 = self.witnesses, dict(self.extra), self.validation_samples
                        self.guarded(name, fn)
                        for nn in [self.native, self.native_release] + list(getattr(self, 'extra_natives', [])):
                            try:
                                if nn is not None:
                                    nn.close()
                            except Exception:
                                pass
                        delta = {k: getattr(self, k)[base[k]:] for k in self._LISTS}
                        delta.update(functions={k: v for k, v in self.functions.items() if k not in base_fn}, stubs=self.stubs - base_st, models=self.models - base_md,
                                     witnesses=self.witnesses - w0, validation_samples=self.validation_samples - v0,
                                     extra={k: (v - x0.get(k, 0) if isinstance(v, (int, float)) else v) for k, v in self.extra.items()},
                                     solvers=(self.solvers.queries, self.solvers.time, self.solvers.answers), native_calls=self.native.calls,
                                     replays_seen=getattr(self, '_replays_seen', {}))
                        pickle.dump(delta, open(out, 'wb'))
                    except BaseException:
                        try:
                            pickle.dump({'crash': traceback.format_exc()}, open(out, 'wb'))
                        except Exception:
                            code = 3
                    finally:
                        sys.stdout.flush()
                        os._exit(code)
                running[pid] = (idx, name, out, time.time())
            # wait for a worker; a family that runs past the cap (path explosion on a changed tree) is stopped and reported as a machinery problem (exit 2), never as a pass
            cap = float(os.environ.get('VERIF_FAMILY_CAP', '0') or 0) or (5400.0 if self.tier == 'thorough' else 900.0)
            while True:
                pid, status = os.waitpid(-1, os.WNOHANG)
                if pid:
                    break
                now = time.time()
                for p_, (_, nm_, _, t0_) in list(running.items()):
                    if now - t0_ > cap and p_ not in timed_out:
                        timed_out.add(p_)
                        try:
                            os.kill(p_, 9)
                        except OSError:
                            pass
                time.sleep(0.2)
            if pid in running:
                idx, name, out, _t0 = running.pop(pid)
                if pid in timed_out:
                    done[idx] = (name, {'crash': f'family stopped after {cap:.0f} s (VERIF_FAMILY_CAP): no verdict for its obligations'})
                    continue
                try:
                    done[idx] = (name, pickle.load(open(out, 'rb')))
                except Exception as e:
                    done[idx] = (name, {'crash': f'worker died (status {status}): {e}'})
        for idx in sorted(done):
            name, d = done[idx]
            if 'crash' in d:
                self.log(f'MACHINERY-ERROR family {name}: {d["crash"][-1500:]}')
                self.mismatches.append((name, 'worker crashed'))
                continue
            for k in self._LISTS:
                for x in d[k]:
                    if k in ('assumptions', 'bounds') and x in getattr(self, k):
                        continue
                    getattr(self, k).append(x)
            self.functions.update(d['functions'])
            self.stubs |= d['stubs']
            self.models |= d['models']
            self.witnesses += d['witnesses']
            self.validation_samples += d['validation_samples']
            for k, v in d['extra'].items():
                self.extra[k] = (self.extra.get(k, 0) + v) if isinstance(v, (int, float)) else v
            q, tm, an = d['solvers']
            self.solvers.queries += q
            for k, v in tm.items():
                self.solvers.time[k] = self.solvers.time.get(k, 0.0) + v
            for k, v in an.items():
                for a, n in v.items():
                    self.solvers.answers.setdefault(k, {})
                    self.solvers.answers[k][a] = self.solvers.answers[k].get(a, 0) + n
            self.native.calls += d['native_calls']
            if d.get('replays_seen'):
                if not hasattr(self, '_replays_seen'):
                    self._replays_seen = {}
                self._replays_seen.update(d['replays_seen'])
        import shutil
        shutil.rmtree(tmpd, ignore_errors=True)

    # ---------------------------------------------------------- violations
    def violation(self, obligation, role, text, replay):
        """a counterexample that reproduced natively.  role = stable key used by known_findings.json"""
        os.makedirs(os.path.join(VERIF, 'replays', self.pid), exist_ok=True)
        h = hashlib.sha256(json.dumps(replay, sort_keys=True).encode()).hexdigest()[:10]
        path = os.path.join(VERIF, 'replays', self.pid, f'{re.sub(r"[^A-Za-z0-9_.-]", "_", obligation)[:60]}-{h}.json')
        json.dump({'property': self.pid, 'obligation': obligation, 'role': role, 'what': text, 'replay': replay}, open(path, 'w'), indent=1)
        for kf in self.known_findings:
            if kf.get('status', 'open') == 'open' and kf['property'] == self.pid and kf['role'] == role:
                self.known.append((role, text))
                self.log(f'KNOWN-FINDING: property={self.pid} {role}: {kf["what"]}')
                return 'known_finding', text
        if any(p == path for _, p, _ in self.violations):
            return 'violation', text          # the same replay was already reported for this obligation name prefix
        seen = getattr(self, '_replays_seen', None)
        if seen is None:
            seen = self._replays_seen = {}
        if h in seen:
            # the same concrete counterexample confirms several obligations: one VIOLATION line, the others refer to it
            self.violations.append((obligation, seen[h], text))
            return 'violation', text
        seen[h] = path
        self.violations.append((obligation, path, text))
        self.log(f'VIOLATION property={self.pid} replay={path}')
        self.log(f'  {obligation}: {text}')
        return 'violation', text

    def mismatch(self, obligation, text):
        self.mismatches.append((obligation, text))
        self.log(f'ENCODING-MISMATCH {obligation}: {text}')
        return 'encoding_mismatch', text

    # ---------------------------------------------------------- evidence
    def finish(self, explanation, level_note=''):
        self.native.close()
        if self.native_release:
            self.native_release.close()
        posts = [o for o in self.obs if o.kind != 'witness']
        n_ob = len(posts)
        n_dis = sum(1 for o in posts if o.status == 'discharged')
        n_inc = sum(1 for o in self.obs if o.status == 'inconclusive')       # an undecided reachability witness counts too: vacuity would go unnoticed
        n_ne = sum(1 for o in posts if o.status == 'not_encoded')
        n_vac = sum(1 for o in self.obs if o.status == 'vacuous')
        samples = []
        for o in self.obs:
            if o.sample and len(samples) < 12:
                samples.append({'obligation': o.name, 'status': o.status, 'query': o.sample})
        if not samples:
            samples = [{'obligation': o.name, 'status': o.status} for o in self.obs[:8]]
        status_count = {}
        for o in self.obs:
            status_count[o.status] = status_count.get(o.status, 0) + 1
        ev = {
            'property_id': self.pid, 'tier': self.tier, 'seed': self.seed, 'level': 'other',
            'coverage': {
                'explanation': explanation,
                'obligations': n_ob, 'discharged': n_dis, 'inconclusive': n_inc, 'not_encoded': n_ne,
                'vacuity_witnesses_satisfied': self.witnesses, 'vacuous': n_vac,
                'status_counts': status_count,
                'evaluations': n_ob + self.witnesses, 'distinct_nontrivial': len({o.name for o in posts if o.status == 'discharged'}),
                'rule': 'one SMT query per (kernel path, postcondition / panic site); distinct = distinct obligation names discharged (unsat by >=1 solver, sat by none)',
                'functions_encoded': self.functions,
                'mir': self.mir_info,
                'stubs': sorted(self.stubs), 'models_used': sorted(self.models),
                'bounds': self.bounds,
                'solvers': self.solvers.summary(),
                'translator_validation_samples': self.validation_samples,
                'native_calls': self.native.calls,
                'known_findings_reported': [k[0] for k in self.known],
                'not_encoded_list': [f'{n}: {r}' for n, r in self.not_encoded],
                'samples': samples,
                'obligation_list': [{'name': o.name, 'kind': o.kind, 'status': o.status, 'answers': o.answers,
                                     'time_s': {k: round(v, 3) for k, v in o.times.items()}} for o in self.obs],
                'exhaustive': False,
            },
            'assumptions': self.assumptions,
            'wall_s': round(time.time() - self.t0, 1),
            'violations': len(self.violations),
        }
        ev['coverage'].update(self.extra)
        os.makedirs(os.path.join(VERIF, 'evidence'), exist_ok=True)
        tmp = os.path.join(VERIF, 'evidence', f'.{self.pid}.json.tmp')
        json.dump(ev, open(tmp, 'w'), indent=1, default=str)
        os.rename(tmp, os.path.join(VERIF, 'evidence', f'{self.pid}.json'))
        self.log(f'[{self.pid}] obligations={n_ob} discharged={n_dis} inconclusive={n_inc} not_encoded={n_ne} witnesses={self.witnesses} '
                 f'vacuous={n_vac} violations={len(self.violations)} known={len(self.known)} mismatches={len(self.mismatches)} '
                 f'queries={self.solvers.queries} wall={time.time() - self.t0:.0f}s')
        n_unrep = sum(1 for o in posts if o.status == 'unreplayed')
        if self.violations:
            return 1          # a counterexample reproduced natively: reported even when other obligations of the run could not be decided
        if self.mismatches or n_vac:
            return 2
        if n_unrep:
            self.log(f'UNCONFIRMED: {n_unrep} obligation(s) have a solver counterexample but no native replay recipe; not a pass (exit 2)')
            return 2
        if n_ne:
            self.log(f'NOT-ENCODED: {n_ne} obligation(s) could not be encoded on this tree; the check cannot decide them (exit 2, not a pass)')
            return 2
        if n_inc:
            self.log(f'INCONCLUSIVE: {n_inc} obligation(s) were not decided by any solver within the cap; not a pass (exit 2)')
            return 2
        if n_ob == 0 or n_dis == 0:
            self.log('no obligation was discharged: machinery broken')
            return 2
        return 0


# ------------------------------------------------------------------ scalar kernels

class Kernel:
    """a loop-free kernel decided path by path against a dual-mode specification.
    inputs: [(name, ty)] with ty an integer type or 'bool'.  Either `make_args(ex, ins)` builds the argument values from
    fresh scalar inputs, or `make(ex)` returns (ins: {name: z3 term}, args, pre: [z3]) for inputs that live inside
    structured symbolic values."""

    def __init__(self, name, func, inputs, make_args, decode, spec, native=None, pre=None, samples=None, expect_tags=(),
                 role=None, crate='core', mode='int', setup=None, make=None, gen=None, start=None):
        self.name, self.func, self.inputs, self.make_args, self.decode, self.spec = name, func, inputs, make_args, decode, spec
        self.native, self.pre, self.samples, self.expect_tags = native, pre, samples or [], expect_tags
        self.role = role or name
        self.crate, self.mode, self.setup, self.make, self.gen = crate, mode, setup, make, gen


def boundary_values(ty):
    if ty == 'bool':
        return [False, True]
    lo, hi = rng(ty)
    vs = {lo, lo + 1, -1, 0, 1, hi - 1, hi, 2, 3, 4, 5, 10, 1000, 60000, 3600000, 86400000, -86400000, 86399999, -86399999, 86400001,
          -86400001, hi // 2, lo // 2, 9999, 10000, -9999, -10000, 127, 128, 255, 256, 31, 32, 33, 3037000499, 3037000500, -3037000500,
          4294967296, -4294967296, 2147483648}
    return sorted(v for v in vs if lo <= v <= hi)


def model_val(model, term):
    v = model.eval(term, model_completion=True)
    if z3.is_bool(v):
        return z3.is_true(v)
    return v.as_long() if hasattr(v, 'as_long') else int(str(v))


model_int = model_val


def run_kernel(ctx, K):
    ex = ctx.new_exec(K.crate, K.mode)
    if K.setup:
        K.setup(ex)
    ctx.use(K.func)
    extra_pre = []
    if K.make is not None:
        ins_t, args, extra_pre = K.make(ex)
    else:
        ins = {n: (ex.fresh_bool(n) if ty == 'bool' else ex.fresh_int(ty, n)) for n, ty in K.inputs}
        ins_t = {n: v.t for n, v in ins.items()}
        args = K.make_args(ex, ins)
    pre = [K.pre(**ins_t)] if K.pre else []
    pre = [p if isinstance(p, z3.ExprRef) else z3.BoolVal(bool(p)) for p in pre] + list(extra_pre)
    t = time.time()
    outs = ex.run(K.func, args, heap=getattr(ex, 'initial_heap', None))
    ctx.absorb(ex)
    decoded = []
    for o in outs:
        if o.kind in ('panic', 'unreachable', 'diverged'):
            decoded.append((o, 'panic', [], o.msg))
        elif o.kind == 'ret':
            tag, vals = K.decode(ex, o)
            decoded.append((o, tag, vals, ''))
        else:
            raise NotEncoded(f'{K.name}: outcome {o.kind}')
    ctx.log(f'  [{K.name}] {len(outs)} paths in {time.time() - t:.2f}s: ' + ', '.join(sorted({d[1] for d in decoded})))
    ctx.panic_summary(K.name, outs, ex, pre)

    def replay(model, tagged):
        conc = {n: model_val(model, ins_t[n]) for n, _ in K.inputs}
        if K.native is None:
            return 'unreplayed', f'counterexample {conc} (no native route for this kernel)'
        nr = K.native(ctx.native, conc)
        if nr is None:
            return 'unreplayed', f'counterexample {conc} (no public route reaches this kernel with these arguments)'
        ntag, nvals = nr
        okspec = K.spec(conc, ntag, nvals)
        if not okspec:
            st = ctx.violation(K.name, K.role, f'inputs {conc}: real code returns {ntag}{nvals}, which violates the specification',
                               {'kernel': K.name, 'inputs': {k: str(v) for k, v in conc.items()}, 'native': [ntag, [str(x) for x in nvals]]})
            return st
        return ctx.mismatch(K.name, f'solver model {conc} (path {tagged}) but the real code returns {ntag}{nvals}, which satisfies the specification')

    # 1. postcondition per path
    for i, (o, tag, vals, msg) in enumerate(decoded):
        post = K.spec(ins_t, tag, vals)
        post = post if isinstance(post, z3.ExprRef) else z3.BoolVal(bool(post))
        name = f'{K.name}/path{i}:{tag}'
        sample = None
        if i < 2:
            sample = {'path_condition': [str(c)[:200] for c in o.pc][:6], 'result': f'{tag}{[str(v)[:120] for v in vals]}', 'negated_post': str(z3.Not(post))[:300]}
        ctx.decide(name, pre + o.pc + [z3.Not(post)], kind='panic' if tag == 'panic' else 'post', sample=sample,
                   on_sat=lambda m, tg=f'{tag} {msg}': replay(m, tg), ex=ex)
    # 2. no path lost: pre => some path condition holds
    if decoded:
        ctx.decide(f'{K.name}/paths-cover-precondition', pre + [z3.Not(z3.Or([z3.And(o.pc) if o.pc else z3.BoolVal(True) for o, *_ in decoded]))], ex=ex)
    # 3. reachability witnesses
    for tag in K.expect_tags:
        conds = [z3.And(o.pc) if o.pc else z3.BoolVal(True) for o, tg, *_ in decoded if tg == tag]
        ctx.decide(f'{K.name}/witness:{tag}', pre + [z3.Or(conds) if conds else z3.BoolVal(False)], expect='sat', ex=ex)
    # 4. translator validation: the encoding evaluated on concrete inputs must equal the real code
    if K.native is not None and not ctx.panic_only:
        names = [n for n, _ in K.inputs]
        tys = [ty for _, ty in K.inputs]
        samples = [dict(zip(names, smp)) if not isinstance(smp, dict) else smp for smp in (list(K.samples) + (K.samples_fn() if getattr(K, 'samples_fn', None) else []))]
        bv = [boundary_values(ty) for ty in tys] if K.gen is None else None
        nrand = 12 if ctx.tier == 'quick' else 60
        for _ in range(nrand):
            if K.gen is not None:
                samples.append(K.gen(ctx.rand))
            else:
                samples.append({n: (ctx.rand.choice(b) if (ty == 'bool' or ctx.rand.random() < 0.6) else ctx.rand.randint(*rng(ty)))
                                for n, b, ty in zip(names, bv, tys)})
        if len(tys) == 1 and bv is not None:
            samples += [{names[0]: v} for v in bv[0]]
        nval = 0
        for conc in samples:
            pins = [ins_t[n] == (z3.BoolVal(v) if isinstance(v, bool) else v) for n, v in conc.items()]
            s = z3.Solver()
            s.set('timeout', 10000)
            for f in ex.invariants + pre + pins:
                s.add(f)
            if s.check() != z3.sat:
                continue        # sample outside the precondition
            hit = None
            for o, tag, vals, msg in decoded:
                s = z3.Solver()
                s.set('timeout', 10000)
                for f in ex.invariants + o.pc + pins:
                    s.add(f)
                if s.check() == z3.sat:
                    m = s.model()
                    hit = (tag, [model_val(m, v) if isinstance(v, z3.ExprRef) else v for v in vals])
                    break
            nr = K.native(ctx.native, conc)
            if nr is None:
                continue
            ntag, nvals = nr
            nval += 1
            if hit is None or hit[0] != ntag or list(hit[1]) != list(nvals):
                ctx.mismatch(K.name, f'translator validation: inputs {conc}: encoding gives {hit}, real code gives {(ntag, nvals)}')
                break
        ctx.validation_samples += nval
