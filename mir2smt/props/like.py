"""C02 - `like`: Pattern::wildcard_match executed from the MIR for every pattern shape of <= N elements (each element a wildcard or a literal with a symbolic
character) against every text of <= M symbolic characters; the backtracking loop is unrolled by path (its indices are concrete on every path).  Oracle: the
textbook recursive definition of glob matching, written as a formula over the character equalities."""
import itertools
import z3
from ..executor import IntV, BoolV, Agg, Opaque, Ref, NotEncoded, UNIT, Diverge
from ..models import ok, err, some, none

PE = 'ast::pattern::PatternElem'


def valid_char(c):
    return z3.And(c >= 0, c <= 0x10FFFF, z3.Or(c < 0xD800, c > 0xDFFF))


def reference(shape, pc, tc):
    """M[j][i]: pattern[j..] matches text[i..]"""
    n, m = len(shape), len(tc)
    memo = {}

    def M(j, i):
        if (j, i) in memo:
            return memo[(j, i)]
        if j == n:
            r = z3.BoolVal(i == m)
        elif shape[j] == 'W':
            r = M(j + 1, i) if i == m else z3.Or(M(j + 1, i), M(j, i + 1))
        else:
            r = z3.BoolVal(False) if i == m else z3.And(pc[j] == tc[i], M(j + 1, i + 1))
        memo[(j, i)] = r
        return r
    return M(0, 0)


def cedar_char(c, in_pattern):
    if in_pattern and c == ord('*'):
        return '\\*'
    if c in (ord('"'), ord('\\')) or c < 0x20 or c > 0x7e:
        return '\\u{%x}' % c
    return chr(c)


def replay(ctx, name, shape, m, model, pcv, tcv, want):
    ev = lambda t: model.eval(t, model_completion=True).as_long()
    text = ''.join(cedar_char(ev(t), False) for t in tcv)
    pat = ''.join('*' if s == 'W' else cedar_char(ev(pcv[j]), True) for j, s in enumerate(shape))
    expr = f'"{text}" like "{pat}"'
    a = ctx.native.ask({'op': 'peval', 'expr': expr})
    wantv = z3.is_true(model.eval(want, model_completion=True))
    if 'value' not in a or a['value'].get('kind') != 'bool':
        return ctx.mismatch(name, f'`{expr}` natively: {a}')
    got = a['value']['v'] == 'true'
    if got != wantv:
        return ctx.violation(name, 'ast/pattern.rs: Pattern::wildcard_match', f'`{expr}` evaluates to {got}; glob semantics says {wantv}', {'op': 'peval', 'expr': expr, 'expected': wantv})
    return ctx.mismatch(name, f'abstract counterexample `{expr}` but the native evaluator answers {got} as the reference does')


def wildcard(ctx, N=None, Mx=None, only_n=None):
    P = ctx.prog('core')
    f = P.method('ast/pattern.rs', 'wildcard_match', nargs=2)
    ctx.use(f)
    thorough = ctx.tier == 'thorough'
    N = N or (5 if thorough else 4)
    Mx = Mx or (5 if thorough else 4)
    total_paths = 0
    for n in ([only_n] if only_n is not None else range(0, N + 1)):
        for shape in itertools.product('WC', repeat=n):
            # adjacent wildcards behave like one; keep them (the code must cope) but skip shapes that are all literals longer than the text bound
            for m in range(0, Mx + 1):
                ex = ctx.new_exec('core')
                ex.max_paths = 20000
                pcv = [z3.Int(f'p{j}') for j in range(n)]
                tcv = [z3.Int(f't{i}') for i in range(m)]
                ex.invariants += [valid_char(c) for j, c in enumerate(pcv) if shape[j] == 'C'] + [valid_char(c) for c in tcv]
                elems = [Agg('variant', PE, 'Wildcard', []) if s == 'W' else Agg('variant', PE, 'Char', [IntV(pcv[j], 'char')]) for j, s in enumerate(shape)]
                heap = {'ELEMS': Agg('array', None, None, elems), 'PAT': Opaque('ast::pattern::Pattern', 'pattern'), 'TEXT': Opaque('str', 'text')}
                ex.stub(r'Pattern::get_elems$', lambda ex_, st, c, A: Ref(0, ('local', 'ELEMS')), 'Pattern::get_elems: the pattern elements (concrete shape, symbolic characters)')
                ex.stub(r'slice::<impl \[.*PatternElem\]>::is_empty$', lambda ex_, st, c, A, n=n: BoolV(z3.BoolVal(n == 0)), 'slice::is_empty')
                ex.stub(r'str::<impl str>::is_empty$', lambda ex_, st, c, A, m=m: BoolV(z3.BoolVal(m == 0)), 'str::is_empty (text length is fixed per obligation)')
                ex.stub(r'str::<impl str>::chars$', lambda ex_, st, c, A: Opaque('Chars', 'chars of the text'), 'str::chars (term)')
                ex.stub(r'Chars<.*> as Iterator>::collect::<Vec<char>>$', lambda ex_, st, c, A, tcv=tcv: Agg('struct', '~vec', None, [IntV(t, 'char') for t in tcv]), 'chars().collect(): the symbolic characters of the text')
                ex.stub(r'Vec::<char>::len$', lambda ex_, st, c, A, m=m: ex_.const_int(m, 'usize'), 'Vec::len')

                def index(ex_, st, c, A, m=m):
                    i = ex_.concrete(A[1].t) if isinstance(A[1], IntV) else None
                    if i is None:
                        raise NotEncoded(f'symbolic text index {A[1]!r}')
                    if i >= m:
                        return Diverge(f'index out of bounds: the len is {m} but the index is {i}')
                    base = A[0]
                    while isinstance(ex_.read(st, base.fid, base.place), Ref):
                        base = ex_.read(st, base.fid, base.place)
                    return Ref(base.fid, ('field', base.place, i, '?'))
                ex.stub(r'<Vec<char> as (std::ops::)?Index<usize>>::index$', index, 'Vec<char>[i] with the concrete index of the path (out of range = panic)')
                outs = ex.run(f, [Ref(0, ('local', 'PAT')), Ref(0, ('local', 'TEXT'))], heap=heap)
                ctx.absorb(ex)
                nm = f'wildcard_match[pattern {"".join("*" if s == "W" else "c" for s in shape) or "(empty)"} x text of {m}]'
                ctx.panic_summary(nm, outs, ex)
                rets = [o for o in outs if o.kind == 'ret']
                total_paths += len(rets)
                want = reference(shape, pcv, tcv)
                bad = []
                for o in rets:
                    r = o.val
                    if not isinstance(r, BoolV):
                        raise NotEncoded(f'{nm}: result {r!r}')
                    bad.append(z3.And(o.pc + [r.t != want]))
                # one query per (shape, length): some path returns something else than the reference
                ctx.decide(f'{nm}/agrees with glob semantics on all {len(rets)} paths', list(ex.invariants) + [z3.Or(bad) if bad else z3.BoolVal(False)], ex=ex,
                           sample={'paths': len(rets), 'reference': str(z3.simplify(want))[:160]} if (n, m) == (3, 2) and shape == ('W', 'C', 'W') else None,
                           on_sat=lambda mm, nm=nm, shape=shape, m=m, pcv=pcv, tcv=tcv, want=want: replay(ctx, nm, shape, m, mm, pcv, tcv, want))
                ctx.decide(f'{nm}/paths-cover', list(ex.invariants) + [z3.Not(z3.Or([z3.And(o.pc) if o.pc else z3.BoolVal(True) for o in rets]))], ex=ex)
    if only_n is not None:
        ctx.decide(f'wildcard_match[{only_n} elements]/witness', [z3.BoolVal(total_paths > 0)], expect='sat')
        return
    ctx.bounds.append(f'like: every pattern shape of <= {N} elements (wildcard / literal with a symbolic character, {sum(2 ** k for k in range(N + 1))} shapes) x every text of <= {Mx} symbolic characters; '
                      f'the backtracking loop is unrolled by path ({total_paths} paths in total); longer patterns / texts are outside the claim')
    ctx.decide('wildcard_match/witness', [z3.BoolVal(total_paths > 0)], expect='sat')


def bounds(ctx):
    thorough = ctx.tier == 'thorough'
    return (7 if thorough else 6), (5 if thorough else 4)


def families(ctx):
    N, Mx = bounds(ctx)
    return [(f'like: wildcard_match vs glob semantics, patterns of {n} elements', lambda n=n: wildcard(ctx, N, Mx, only_n=n)) for n in range(N + 1)]


def describe(ctx):
    N, Mx = bounds(ctx)
    return (f'like: every pattern shape of <= {N} elements (wildcard / literal with a symbolic character, {sum(2 ** k for k in range(N + 1))} shapes) x every text of <= {Mx} symbolic characters; '
            'the backtracking loop is unrolled by path; longer patterns / texts are outside the claim')
