"""C20 - no panics, for the core kernels that engine M encodes: every MIR `assert` (overflow, division by zero, bounds),
unwrap/expect on the empty case, unreachable!() and explicit panic reached on a feasible path of a kernel is a failed
obligation.  This check re-runs the symbolic executions of the other properties' kernels and keeps only the panic
obligations (and the path-coverage obligations that make them meaningful)."""
import importlib

SOURCES = ['c01', 'c02', 'c03', 'c05', 'c07', 'c09', 'c10', 'c13', 'c14', 'c08', 'c11', 'c16', 'c17', 'c06', 'c15', 'c19']      # c02 includes the evaluator arms and the wildcard matcher; c06 the JSON / protobuf conversions; c19 the FFI and CLI wrappers
THOROUGH_SOURCES = ['c04']                                                                      # the closure algorithms on symbolic graphs (minutes)


def unfiltered(ctx, fn):
    keep = ctx.panic_only
    ctx.panic_only = False
    try:
        return fn()
    finally:
        ctx.panic_only = keep


def run(ctx):
    ctx.panic_only = True
    fams = []
    for m in SOURCES + (THOROUGH_SOURCES if ctx.tier == 'thorough' else []):
        try:
            mod = importlib.import_module(f'.{m}', 'mir2smt.props')
        except ImportError:
            continue
        fams += [(f'{m.upper()}:{name}', fn) for name, fn in mod.families(ctx)]
    from . import c20_kernels
    ctx.panic_only = False          # the index-arithmetic kernels also carry a functional obligation (the edit distance) that anchors the panic claim
    own = c20_kernels.families(ctx)
    ctx.panic_only = True
    ctx.run_families(fams + [(f'C20:{name}', (lambda fn=fn: unfiltered(ctx, fn))) for name, fn in own])
    ctx.guarded('native battery: extension constructors', lambda: c20_kernels.ext_parse_battery(ctx))
    ctx.bounds += ['native battery (sampling, not a solver verdict): datetime / duration / decimal / ip constructors on ~' + str(sum(len(c20_kernels.ext_strings(f)) for f in c20_kernels.EXT_BASE)) + ' strings derived from valid ones '
                   '(non-ASCII decimal digits in every digit position, stretched numbers, moved signs and separators): none panics',
                   'EST printer of an extension call: 0..3 arguments, every outcome of the style lookup and of the writer',
                   'fuzzy_match::levenshtein_distance: words of <= 2 x 2 (+ 3 x 1, 1 x 3; thorough: <= 3 x 3) characters, every character an arbitrary Unicode scalar value (UTF-8 length 1..4 symbolic)',
                   'full input space of each encoded kernel under its stated precondition (see the evidence of C01/C02/C06/C07/C08/C11/C13/C14/C15/C16/C19 - thorough: also C04 - for the preconditions)']
    ctx.assumptions += ['only the kernels listed in functions_encoded (core kernels, the AST <-> EST / PST / protobuf conversions, the batched-evaluation driver, the FFI and CLI wrapper functions with their callees as stubs); parsers, serde, error rendering and deep-nesting limits - most of C20 - are NOT covered',
                        'panics inside stubbed callees are not visible; modelled std functions panic exactly where std documents (unwrap/expect on None/Err, abs/rem_euclid overflow)']
    return ctx.finish('Solver-decided panic-freedom of the kernels encoded by engine M - cedar-policy-core kernels, format conversions, FFI / CLI wrappers - (narrow slice of C20): for each kernel, the disjunction of the path conditions of all panicking paths '
                      '(MIR asserts, unwrap/expect, unreachable!, explicit panics) is unsatisfiable under the documented precondition, and the remaining paths cover the precondition.')
