"""C20 - no panics, for the core kernels that engine M encodes: every MIR `assert` (overflow, division by zero, bounds),
unwrap/expect on the empty case, unreachable!() and explicit panic reached on a feasible path of a kernel is a failed
obligation.  This check re-runs the symbolic executions of the other properties' kernels and keeps only the panic
obligations (and the path-coverage obligations that make them meaningful)."""
import importlib

SOURCES = ['c01', 'c02', 'c07', 'c13', 'c14', 'c08', 'c11', 'c16']      # c02 includes the evaluator arms and the wildcard matcher


def run(ctx):
    ctx.panic_only = True
    fams = []
    for m in SOURCES:
        try:
            mod = importlib.import_module(f'.{m}', 'mir2smt.props')
        except ImportError:
            continue
        fams += [(f'{m.upper()}:{name}', fn) for name, fn in mod.families(ctx)]
    ctx.run_families(fams)
    ctx.bounds += ['full input space of each encoded kernel under its stated precondition (see the evidence of C01/C02/C07/C08/C11/C13/C14/C16 for the preconditions)']
    ctx.assumptions += ['only the kernels listed in functions_encoded; parsers, error rendering, JSON/protobuf/FFI entry points and deep-nesting limits - most of C20 - are NOT covered',
                        'panics inside stubbed callees are not visible; modelled std functions panic exactly where std documents (unwrap/expect on None/Err, abs/rem_euclid overflow)']
    return ctx.finish('Solver-decided panic-freedom of the cedar-policy-core kernels encoded by engine M (narrow slice of C20): for each kernel, the disjunction of the path conditions of all panicking paths '
                      '(MIR asserts, unwrap/expect, unreachable!, explicit panics) is unsatisfiable under the documented precondition, and the remaining paths cover the precondition.')
