"""C06, protobuf part - the conversions between the AST and the prost message types (cedar-policy/src/proto/policy.rs, executed from the cedar-policy crate's MIR
dump; the message types are the prost-generated code of the dump build).  Same method as the EST part: run AST -> message, then message -> AST ON THE VALUE THE
FIRST RUN PRODUCED, and compare shapes.  Entity uids and type names travel as opaque message tokens that convert back to the same object (their own conversions,
proto/ast.rs, are leaves here); prost's byte encoding itself is a library and out of reach."""
import z3
from ..executor import IntV, BoolV, Agg, Opaque, Ref, NotEncoded, UNIT
from ..models import ok, err, some, none
from .. import containers as C
from .c06 import strip, arc, cshape, constraint_shapes, action_shapes, HAVOC, install_maps

T, F = z3.BoolVal(True), z3.BoolVal(False)
FILE = 'cedar-policy/src/proto/policy.rs'


def leaf_stubs(ex, uids, puids, ety, pname):
    uidx, pidx = {u.id: i for i, u in enumerate(uids)}, {p.id: i for i, p in enumerate(puids)}
    gid = lambda ex_, st, v: getattr(strip(ex_, st, v), 'id', None)
    ex.stub(r'<(cedar_policy_core::)?EntityUid as From<&.*EntityUID>>::from$', lambda ex_, st, c, A: (lambda i: None if i is None else puids[i])(uidx.get(gid(ex_, st, A[0]))), 'EntityUID -> message (token of uid i)')
    ex.stub(r'EntityUID as TryFrom<(cedar_policy_core::)?EntityUid>>::try_from$', lambda ex_, st, c, A: (lambda i: None if i is None else ok(uids[i]))(pidx.get(gid(ex_, st, A[0]))), 'message of uid i -> uid i (proto/ast.rs, a leaf here)')
    ex.stub(r'<(cedar_policy_core::)?Name as From<&.*EntityType>>::from$', lambda ex_, st, c, A: pname if gid(ex_, st, A[0]) == ety.id else None, 'EntityType -> Name message (token)')
    ex.stub(r'EntityType as TryFrom<(cedar_policy_core::)?Name>>::try_from$', lambda ex_, st, c, A: ok(ety) if gid(ex_, st, A[0]) == pname.id else None, 'Name message -> the entity type (proto/ast.rs, a leaf here)')
    ex.stub(r'<Arc<.*> as AsRef<.*>>::as_ref$', lambda ex_, st, c, A: (lambda v: ex_.new_cell(st, v.fields[0], 'arc_inner') if isinstance(v, Agg) and v.name == 'Arc' else None)(strip_arc(ex_, st, A[0])), 'Arc::as_ref')
    ex.stub(r'as Into<Arc<.*>>>::into$|<Arc<.*> as From<.*>>::from$', lambda ex_, st, c, A: arc(A[0]), 'T -> Arc<T>')
    ex.stub(r'(cedar_policy_core::)?ast::EntityReference::euid$', lambda ex_, st, c, A: Agg('variant', 'ast::policy::EntityReference', 'EUID', [A[0]]), 'EntityReference::euid(e) = EntityReference::EUID(e) (cedar-policy-core, one line)')


def strip_arc(ex, st, v, n=6):
    while n > 0 and isinstance(v, Ref):
        v = ex.read(st, v.fid, v.place)
        n -= 1
    return v


def find2(ctx, ast_ty, msg_ty):
    P = ctx.prog('api')
    f1 = [f for f in P.find(r'>::from$', FILE) if len(f.args) == 1 and f.args[0][1].replace(' ', '').endswith('&cedar_policy_core::ast::' + ast_ty) and f.ret.endswith('cedar_policy_core::' + msg_ty)]
    f2 = [f for f in P.find(r'>::try_from$', FILE) if len(f.args) == 1 and f.args[0][1].endswith('cedar_policy_core::' + msg_ty) and f'ast::{ast_ty},' in f.ret.replace(' ', '').replace('>', ',')]
    if len(f1) != 1 or len(f2) != 1:
        raise LookupError(f'proto conversions {ast_ty} <-> {msg_ty}: {len(f1)} / {len(f2)} candidates')
    ctx.use(f1[0])
    ctx.use(f2[0])
    return f1[0], f2[0]


def constraint_round_trip(ctx, who, label, build, battery):
    if who == 'action':
        f1, f2 = find2(ctx, 'ActionConstraint', 'ActionConstraint')
    else:
        f1, f2 = find2(ctx, 'PrincipalOrResourceConstraint', 'PrincipalOrResourceConstraint')
    uids = [Opaque('ast::entity::EntityUID', f'uid{i}') for i in range(2)]
    puids = [Opaque('cedar_policy_core::EntityUid', f'uid{i} as message') for i in range(2)]
    ety, pname = Opaque('ast::entity::EntityType', 'entity type'), Opaque('cedar_policy_core::Name', 'entity type as message')
    tok = {u.id: f'uid{i}' for i, u in enumerate(uids)}
    tok.update({ety.id: 'entity_type'})
    node = build(uids, ety)

    def mk():
        ex = ctx.new_exec('api')
        ex.havoc_unknown = HAVOC
        ex.max_paths = 400
        C.install(ex)
        leaf_stubs(ex, uids, puids, ety, pname)
        ex.stub(r'ProtobufConversionError::missing$', lambda ex_, st, c, A: Opaque('ProtobufConversionError', 'missing field'), 'conversion error (term)')
        return ex
    ex = mk()
    outs = ex.run(f1, [ex_ref(ex, node)], heap={'NODE': node})
    ctx.absorb(ex)
    nm = f'{who} constraint AST -> protobuf message -> AST[{label}]'
    ctx.panic_summary(nm + ' (to message)', outs, ex)
    rets = [o for o in outs if o.kind == 'ret']
    if len(rets) != 1:
        raise NotEncoded(f'{nm}: AST -> message gave {len(rets)} results')
    msg = deep(ex, rets[0].st, rets[0].val)
    ex2 = mk()
    outs2 = ex2.run(f2, [msg])
    ctx.absorb(ex2)
    ctx.panic_summary(nm + ' (back to AST)', outs2, ex2)
    rets2 = [o for o in outs2 if o.kind == 'ret']
    orig = cshape(ex, rets[0].st, node, tok)
    last, bad = None, []
    for o in rets2:
        good = isinstance(o.val, Agg) and o.val.variant == 'Ok' and cshape(ex2, o.st, o.val.fields[0], tok) == orig
        last = cshape(ex2, o.st, o.val.fields[0], tok) if isinstance(o.val, Agg) and o.val.fields else repr(o.val)[:80]
        bad.append(z3.And(o.pc + [z3.BoolVal(not good)]))
    ctx.decide(f'{nm}/same constraint', [z3.Or(bad) if bad else T], ex=ex2, sample={'constraint': str(orig)[:160], 'message': repr(msg)[:200], 'back': str(last)[:160]},
               on_sat=lambda m: battery(ctx, nm, 'proto/policy.rs: scope constraint conversion', f'a `{label}` {who} constraint does not survive AST -> protobuf -> AST'))
    ctx.decide(f'{nm}/paths-cover', [z3.Not(z3.Or([z3.And(o.pc) if o.pc else T for o in rets2]))], ex=ex2)
    ctx.decide(f'{nm}/witness', [z3.Or([z3.And(o.pc) if o.pc else T for o in rets2] or [F])], expect='sat', ex=ex2)


def ex_ref(ex, node):
    return Ref(0, ('local', 'NODE'))


def deep(ex, st, v, n=12):
    """the value with references into the finished run's heap replaced by what they point to (the second run starts from a self-contained value)"""
    if n == 0:
        return v
    if isinstance(v, Ref):
        return deep(ex, st, ex.read(st, v.fid, v.place), n - 1)
    if isinstance(v, Agg):
        return Agg(v.kind, v.name, v.variant, [deep(ex, st, f, n - 1) for f in v.fields], getattr(v, 'fnames', None))
    return v


def effect_round_trip(ctx, battery):
    P = ctx.prog('api')
    f1 = [f for f in P.find(r'>::from$', FILE) if len(f.args) == 1 and f.args[0][1].replace(' ', '') == '&cedar_policy_core::ast::Effect']
    f2 = [f for f in P.find(r'>::from$', FILE) if len(f.args) == 1 and f.args[0][1] == 'cedar_policy_core::Effect']
    if len(f1) != 1 or len(f2) != 1:
        raise LookupError(f'proto Effect conversions: {len(f1)} / {len(f2)}')
    ctx.use(f1[0]), ctx.use(f2[0])
    for eff in ('Permit', 'Forbid'):
        ex = ctx.new_exec('api')
        node = Agg('variant', 'ast::policy::Effect', eff, [])
        outs = ex.run(f1[0], [Ref(0, ('local', 'NODE'))], heap={'NODE': node})
        ctx.absorb(ex)
        rets = [o for o in outs if o.kind == 'ret']
        if len(rets) != 1:
            raise NotEncoded(f'Effect -> message: {len(rets)} results')
        ex2 = ctx.new_exec('api')
        outs2 = ex2.run(f2[0], [deep(ex, rets[0].st, rets[0].val)])
        ctx.absorb(ex2)
        rets2 = [o for o in outs2 if o.kind == 'ret']
        nm = f'effect AST -> protobuf message -> AST[{eff}]'
        ctx.panic_summary(nm, outs + outs2, ex2)
        bad = [z3.And(o.pc + [z3.BoolVal(not (isinstance(o.val, Agg) and o.val.variant == eff))]) for o in rets2]
        ctx.decide(f'{nm}/same effect', [z3.Or(bad) if bad else T], ex=ex2, sample={'message': repr(rets[0].val)}, on_sat=lambda m, nm=nm: battery(ctx, nm, 'proto/policy.rs: Effect conversion', 'permit and forbid are confused by the protobuf conversion'))
        ctx.decide(f'{nm}/witness', [z3.Or([z3.And(o.pc) if o.pc else T for o in rets2] or [F])], expect='sat', ex=ex2)


# ---------------------------------------------------------------------------------------------------------------- template body and link messages

def template_round_trip(ctx, has_cond, effect, battery):
    """ast::TemplateBody -> models::TemplateBody -> ast::TemplateBody: id, two annotations (key and value), effect, the THREE constraints each in its own position
    (principal and resource share one message type), the condition.  Accessors of the body and the component conversions are tokens / logged stubs."""
    P = ctx.prog('api')
    f1 = [f for f in P.find(r'>::from$', FILE) if len(f.args) == 1 and f.args[0][1].replace(' ', '') == '&cedar_policy_core::ast::TemplateBody' and f.ret.endswith('cedar_policy_core::TemplateBody')]
    f2 = [f for f in P.find(r'>::try_from$', FILE) if len(f.args) == 1 and f.args[0][1].endswith('cedar_policy_core::TemplateBody') and 'ast::TemplateBody,' in f.ret.replace(' ', '').replace('>', ',')]
    if len(f1) != 1 or len(f2) != 1:
        raise LookupError(f'proto TemplateBody conversions: {len(f1)} / {len(f2)} candidates')
    f1, f2 = f1[0], f2[0]
    ctx.use(f1), ctx.use(f2)
    body = Opaque('ast::policy::TemplateBody', 'the template body')
    pid, pid_txt = Opaque('ast::policy::PolicyID', 'policy id'), Opaque('String', 'policy id as text')
    akeys = [Opaque('ast::id::AnyId', f'annotation key {i}') for i in range(2)]
    avals = [Opaque('ast::policy::Annotation', f'annotation value {i}') for i in range(2)]
    ktxt = [Opaque('String', f'annotation key {i} as text') for i in range(2)]
    vtxt = [Opaque('String', f'annotation value {i} as text') for i in range(2)]
    vsmol = [Opaque('smol_str::SmolStr', f'annotation value {i} (SmolStr)') for i in range(2)]
    cons = {'principal': Opaque('ast::policy::PrincipalConstraint', 'principal constraint'), 'action': Opaque('ast::policy::ActionConstraint', 'action constraint'), 'resource': Opaque('ast::policy::ResourceConstraint', 'resource constraint')}
    pcons = {k: Opaque('cedar_policy_core::' + ('ActionConstraint' if k == 'action' else 'PrincipalOrResourceConstraint'), f'{k} constraint as message') for k in cons}
    cond, pcond = Opaque('ast::expr::Expr', 'condition'), Opaque('cedar_policy_core::Expr', 'condition as message')
    gid = lambda ex_, st, v: getattr(strip(ex_, st, v), 'id', None)
    table = lambda pairs: (lambda ex_, st, c, A: dict((a.id, b) for a, b in pairs).get(gid(ex_, st, A[0])))
    okt = lambda pairs: (lambda ex_, st, c, A: (lambda r: None if r is None else ok(r))(dict((a.id, b) for a, b in pairs).get(gid(ex_, st, A[0]))))

    def mk():
        ex = ctx.new_exec('api')
        ex.havoc_unknown = HAVOC
        ex.max_paths = 2000
        # accessors of the body (cedar-policy-core)
        ex.stub(r'ast::TemplateBody::id$', lambda ex_, st, c, A: ex_.new_cell(st, pid, 'pid'), 'TemplateBody::id')
        ex.stub(r'ast::TemplateBody::annotations$', lambda ex_, st, c, A: Agg('struct', '~vec_iter', None, [Agg('tuple', None, None, [ex_.new_cell(st, akeys[i], 'ak'), ex_.new_cell(st, avals[i], 'av')]) for i in range(2)]), 'TemplateBody::annotations: two annotations')
        ex.stub(r'ast::TemplateBody::effect$', lambda ex_, st, c, A: Agg('variant', 'ast::policy::Effect', effect, []), 'TemplateBody::effect')
        for k in cons:
            ex.stub(rf'ast::TemplateBody::{k}_constraint$', lambda ex_, st, c, A, k=k: ex_.new_cell(st, cons[k], k), f'TemplateBody::{k}_constraint')
        ex.stub(r'ast::TemplateBody::non_scope_constraints$', lambda ex_, st, c, A: some(ex_.new_cell(st, cond, 'cond')) if has_cond else none(), 'TemplateBody::non_scope_constraints')
        # text of ids and annotations (tokens that read back as the same object)
        ex.stub(r'PolicyID as AsRef<str>>::as_ref$|AnyId as AsRef<str>>::as_ref$|Annotation as AsRef<str>>::as_ref$', lambda ex_, st, c, A: A[0], 'as_ref::<str> (the same object seen as text)')
        ex.stub(r'<str as (std::string::)?ToString>::to_string$|<&str as Into<(std::string::)?String>>::into$|str as ToOwned>::to_owned$', table([(pid, pid_txt)] + list(zip(akeys, ktxt)) + list(zip(avals, vtxt))), 'text of an id / annotation (token)')
        ex.stub(r'ast::PolicyID::from_string::<', table([(pid_txt, pid)]), 'PolicyID::from_string on the text of the id: the id')
        ex.stub(r'AnyId( as [\w:]+)?>?::from_normalized_str$', okt(list(zip(ktxt, akeys))), 'AnyId::from_normalized_str on the text of key i: key i')
        ex.stub(r'<(std::string::)?String as Deref>::deref$', lambda ex_, st, c, A: A[0], 'String -> &str')
        ex.stub(r'String as Into<(smol_str::)?SmolStr>>::into$', table(list(zip(vtxt, vsmol))), 'String -> SmolStr (annotation value)')
        # component conversions (their own obligations)
        ex.stub(r'PrincipalOrResourceConstraint as From<&.*ast::PrincipalConstraint>>::from$', table([(cons['principal'], pcons['principal'])]), 'principal constraint -> message (own obligation)')
        ex.stub(r'PrincipalOrResourceConstraint as From<&.*ast::ResourceConstraint>>::from$', table([(cons['resource'], pcons['resource'])]), 'resource constraint -> message (own obligation)')
        ex.stub(r'ActionConstraint as From<&.*ast::ActionConstraint>>::from$', table([(cons['action'], pcons['action'])]), 'action constraint -> message (own obligation)')
        ex.stub(r'ast::PrincipalConstraint as TryFrom<.*PrincipalOrResourceConstraint>>::try_from$', lambda ex_, st, c, A: (lambda k: None if k is None else ok(Agg('struct', '~as_principal', None, [cons[k]])))({pcons[k].id: k for k in ('principal', 'resource')}.get(gid(ex_, st, A[0]))),
                'message -> principal constraint: the constraint the message came from, read as a principal constraint')
        ex.stub(r'ast::ResourceConstraint as TryFrom<.*PrincipalOrResourceConstraint>>::try_from$', lambda ex_, st, c, A: (lambda k: None if k is None else ok(Agg('struct', '~as_resource', None, [cons[k]])))({pcons[k].id: k for k in ('principal', 'resource')}.get(gid(ex_, st, A[0]))),
                'message -> resource constraint')
        ex.stub(r'ast::ActionConstraint as TryFrom<.*ActionConstraint>>::try_from$', okt([(pcons['action'], cons['action'])]), 'message -> action constraint')
        ex.stub(r'<(cedar_policy_core::)?Expr as From<&.*ast::Expr>>::from$', table([(cond, pcond)]), 'condition -> message (own obligation)')
        ex.stub(r'ast::Expr as TryFrom<(cedar_policy_core::)?Expr>>::try_from$', okt([(pcond, cond)]), 'message -> condition')
        ex.stub(r'ProtobufConversionError::missing$', lambda ex_, st, c, A: Opaque('ProtobufConversionError', 'missing field'), 'conversion error (term)')

        def new_body(ex_, st, c, A):
            st.notes['new'] = list(A)
            return Opaque('ast::policy::TemplateBody', 'rebuilt body')
        ex.stub(r'ast::TemplateBody::new$', new_body, 'TemplateBody::new(id, loc, annotations, effect, principal, action, resource, condition): logged')
        C.install(ex)
        return ex
    ex = mk()
    outs = ex.run(f1, [Ref(0, ('local', 'BODY'))], heap={'BODY': body})
    ctx.absorb(ex)
    nm = f'template body AST -> protobuf message -> AST[{effect}, {"with" if has_cond else "without"} condition]'
    ctx.panic_summary(nm + ' (to message)', outs, ex)
    rets = [o for o in outs if o.kind == 'ret']
    if len(rets) != 1:
        raise NotEncoded(f'{nm}: AST -> message gave {len(rets)} results')
    msg = deep(ex, rets[0].st, rets[0].val)
    ex2 = mk()
    outs2 = ex2.run(f2, [msg])
    ctx.absorb(ex2)
    ctx.panic_summary(nm + ' (back to AST)', outs2, ex2)
    rets2 = [o for o in outs2 if o.kind == 'ret']
    bad, last = [], None
    for o in rets2:
        A = o.st.notes.get('new')
        good = isinstance(o.val, Agg) and o.val.variant == 'Ok' and A is not None and len(A) == 8
        if good:
            v = lambda x: strip(ex2, o.st, x)
            anns = v(A[2])
            pairs = []
            if isinstance(anns, Agg) and anns.name in ('~vec', '~vec_iter', '~hmap', '~btree', '~collected'):
                for e in anns.fields:
                    e = v(e)
                    if isinstance(e, Agg) and len(e.fields) == 2:
                        a_ = v(e.fields[1])
                        val_ = v(a_.fields[0]) if isinstance(a_, Agg) and a_.fields else a_
                        pairs.append((getattr(v(e.fields[0]), 'id', None), getattr(val_, 'id', None)))
            cnd = v(A[7])
            last = {'id': getattr(v(A[0]), 'id', None), 'annotations': sorted(pairs, key=str), 'effect': getattr(v(A[3]), 'variant', None), 'p': repr(v(A[4]))[:60], 'a': repr(v(A[5]))[:60], 'r': repr(v(A[6]))[:60], 'cond': repr(cnd)[:60]}
            good = gid(ex2, o.st, A[0]) == pid.id and sorted(pairs, key=str) == sorted([(akeys[i].id, vsmol[i].id) for i in range(2)], key=str) and getattr(v(A[3]), 'variant', None) == effect
            good = good and isinstance(v(A[4]), Agg) and v(A[4]).name == '~as_principal' and gid(ex2, o.st, v(A[4]).fields[0]) == cons['principal'].id
            good = good and gid(ex2, o.st, A[5]) == cons['action'].id and isinstance(v(A[6]), Agg) and v(A[6]).name == '~as_resource' and gid(ex2, o.st, v(A[6]).fields[0]) == cons['resource'].id
            good = good and ((isinstance(cnd, Agg) and cnd.variant == 'Some' and gid(ex2, o.st, cnd.fields[0]) == cond.id) if has_cond else (isinstance(cnd, Agg) and cnd.variant == 'None'))
        bad.append(z3.And(o.pc + [z3.BoolVal(not good)]))
    ctx.decide(f'{nm}/same id, annotations, effect, constraints in their own positions, condition', [z3.Or(bad) if bad else T], ex=ex2, sample={'message': repr(msg)[:300], 'rebuilt': str(last)[:300]},
               on_sat=lambda m: battery(ctx, nm, 'proto/policy.rs: TemplateBody conversion', 'a template body does not survive AST -> protobuf -> AST'))
    ctx.decide(f'{nm}/paths-cover', [z3.Not(z3.Or([z3.And(o.pc) if o.pc else T for o in rets2]))], ex=ex2)
    ctx.decide(f'{nm}/witness', [z3.Or([z3.And(o.pc) if o.pc else T for o in rets2 if isinstance(o.val, Agg) and o.val.variant == 'Ok'] or [F])], expect='sat', ex=ex2)


def link_round_trip(ctx, has_p, has_r, battery):
    """ast::Policy (a template link) -> models::Policy -> reify_template_link: the same template id, link id, and slot values under their own slots"""
    from ..models import key_id
    P = ctx.prog('api')
    f1 = [f for f in P.find(r'>::from$', FILE) if len(f.args) == 1 and f.args[0][1].replace(' ', '') == '&cedar_policy_core::ast::Policy' and f.ret.endswith('cedar_policy_core::Policy')]
    f2 = [f for f in P.find(r'(^|::)reify_template_link$', FILE) if len(f.args) == 3]
    if len(f1) != 1 or len(f2) != 1:
        raise LookupError(f'proto Policy conversions: {len(f1)} / {len(f2)} candidates')
    f1, f2 = f1[0], f2[0]
    ctx.use(f1), ctx.use(f2)
    pol, tmpl = Opaque('ast::policy::Policy', 'the linked policy'), Opaque('ast::policy::Template', 'its template')
    tid, lid = Opaque('ast::policy::PolicyID', 'template id'), Opaque('ast::policy::PolicyID', 'link id')
    tid_txt, lid_txt = Opaque('String', 'template id as text'), Opaque('String', 'link id as text')
    SP, SR = Opaque('ast::policy::SlotId', '?principal'), Opaque('ast::policy::SlotId', '?resource')
    up, ur = Opaque('ast::entity::EntityUID', 'principal value'), Opaque('ast::entity::EntityUID', 'resource value')
    pup, pur = Opaque('cedar_policy_core::EntityUid', 'principal value as message'), Opaque('cedar_policy_core::EntityUid', 'resource value as message')
    env = Agg('struct', '~hmap', None, ([Agg('tuple', None, None, [SP, up])] if has_p else []) + ([Agg('tuple', None, None, [SR, ur])] if has_r else []))
    gid = lambda ex_, st, v: getattr(strip(ex_, st, v), 'id', None)
    table = lambda pairs: (lambda ex_, st, c, A: dict((a.id, b) for a, b in pairs).get(gid(ex_, st, A[0])))

    def mk():
        ex = ctx.new_exec('api')
        ex.havoc_unknown = HAVOC
        ex.max_paths = 2000
        ex.invariants.append(key_id(SP) != key_id(SR))
        ex.stub(r'ast::Policy::template$', lambda ex_, st, c, A: ex_.new_cell(st, tmpl, 't'), 'Policy::template')
        ex.stub(r'ast::Template::id$', lambda ex_, st, c, A: ex_.new_cell(st, tid, 'tid'), 'Template::id')
        ex.stub(r'ast::Policy::id$', lambda ex_, st, c, A: ex_.new_cell(st, lid, 'lid'), 'Policy::id')
        ex.stub(r'ast::Policy::is_static$', lambda ex_, st, c, A: BoolV(F), 'Policy::is_static: false (a template link)')
        ex.stub(r'ast::Policy::env$', lambda ex_, st, c, A: Ref(0, ('local', 'ENV')), 'Policy::env: the slot bindings')
        ex.stub(r'ast::SlotId::principal$', lambda ex_, st, c, A: SP, 'SlotId::principal()')
        ex.stub(r'ast::SlotId::resource$', lambda ex_, st, c, A: SR, 'SlotId::resource()')
        ex.stub(r'PolicyID as AsRef<str>>::as_ref$', lambda ex_, st, c, A: A[0], 'PolicyID::as_ref::<str>')
        ex.stub(r'<str as (std::string::)?ToString>::to_string$', table([(tid, tid_txt), (lid, lid_txt)]), 'text of an id (token)')
        ex.stub(r'ast::PolicyID::from_string::<', table([(tid_txt, tid), (lid_txt, lid)]), 'PolicyID::from_string on the text of an id: that id')
        ex.stub(r'Option::<(std::string::)?String>::as_ref$|Option::<&(std::string::)?String>::as_ref$', lambda ex_, st, c, A: None, 'pass')
        ex.stub(r'<(cedar_policy_core::)?EntityUid as From<&.*EntityUID>>::from$', table([(up, pup), (ur, pur)]), 'slot value -> message (token)')
        ex.stub(r'EntityUID as TryFrom<(cedar_policy_core::)?EntityUid>>::try_from$', lambda ex_, st, c, A: (lambda r: None if r is None else ok(r))({pup.id: up, pur.id: ur}.get(gid(ex_, st, A[0]))), 'message -> slot value')
        ex.stub(r'PolicyID as Clone>::clone$|Arc<.*Template> as Clone>::clone$', lambda ex_, st, c, A: strip(ex_, st, A[0]), 'clone: the same object')
        ex.stub(r'HashSet::<.*PolicyID>::insert$', lambda ex_, st, c, A: BoolV(z3.Bool('link_id_is_new')), 'link_ids.insert(id): new or already there')
        ex.stub(r'LinkedHashMap::<.*>::get::<', lambda ex_, st, c, A: (st.notes.__setitem__('template_lookup', gid(ex_, st, A[1])) or [([z3.Bool('template_exists')], some(ex_.new_cell(st, arc(tmpl), 'tm'))), ([z3.Not(z3.Bool('template_exists'))], none())]),
                'templates.get(template id): found or not, logged')
        ex.stub(r'LinkedHashMap::<.*>::contains_key::<', lambda ex_, st, c, A: BoolV(z3.Bool('link_id_names_a_template')), 'templates.contains_key(link id)')
        ex.stub(r'HashMap::<.*SlotId, .*EntityUID>::new$', lambda ex_, st, c, A: Agg('struct', '~hmap', None, []), 'HashMap::new (slot values)')

        def ins(ex_, st, c, A):
            m = strip(ex_, st, A[0])
            if not (isinstance(m, Agg) and m.name == '~hmap'):
                return None
            r = C.base_ref(ex_, st, A[0])
            new = Agg('struct', '~hmap', None, list(m.fields) + [Agg('tuple', None, None, [A[1], A[2]])])
            return [([], none(), lambda s2: ex_.write(s2, r.fid, r.place, new))]
        ex.stub(r'HashMap::<.*SlotId, .*EntityUID>::insert$', ins, 'HashMap::insert (slot values; the two slot ids are distinct)')

        def link(ex_, st, c, A):
            st.notes['link'] = list(A)
            return [([z3.Bool('link_ok')], ok(Opaque('ast::policy::Policy', 'relinked policy'))), ([z3.Not(z3.Bool('link_ok'))], err(Opaque('LinkingError', 'linking error')))]
        ex.stub(r'ast::Template::link$', link, 'Template::link(template, link id, values): logged')
        ex.stub(r'ProtobufConversionError::missing$', lambda ex_, st, c, A: Opaque('ProtobufConversionError', 'missing field'), 'conversion error (term)')
        C.install(ex)
        return ex
    ex = mk()
    outs = ex.run(f1, [Ref(0, ('local', 'POL'))], heap={'POL': pol, 'ENV': env})
    ctx.absorb(ex)
    nm = f'template link AST -> protobuf message -> AST[?principal {"bound" if has_p else "unbound"}, ?resource {"bound" if has_r else "unbound"}]'
    ctx.panic_summary(nm + ' (to message)', outs, ex)
    rets = [o for o in outs if o.kind == 'ret']
    if len(rets) != 1:
        raise NotEncoded(f'{nm}: AST -> message gave {len(rets)} results')
    msg = deep(ex, rets[0].st, rets[0].val)
    ex2 = mk()
    outs2 = ex2.run(f2, [msg, Ref(0, ('local', 'IDS')), Ref(0, ('local', 'TEMPLATES'))], heap={'IDS': Opaque('HashSet<PolicyID>', 'link ids so far'), 'TEMPLATES': Opaque('LinkedHashMap<PolicyID, Arc<Template>>', 'templates')})
    ctx.absorb(ex2)
    ctx.panic_summary(nm + ' (back to AST)', outs2, ex2)
    rets2 = [o for o in outs2 if o.kind == 'ret']
    bad, last = [], None
    want_vals = sorted(([(SP.id, up.id)] if has_p else []) + ([(SR.id, ur.id)] if has_r else []))
    for o in rets2:
        if isinstance(o.val, Agg) and o.val.variant == 'Ok':
            A = o.st.notes.get('link')
            good = A is not None and len(A) == 3 and o.st.notes.get('template_lookup') == tid.id
            if good:
                vals = strip(ex2, o.st, A[2])
                got = sorted((gid(ex2, o.st, e.fields[0]), gid(ex2, o.st, e.fields[1])) for e in vals.fields) if isinstance(vals, Agg) and vals.name == '~hmap' else None
                last = {'template': gid(ex2, o.st, A[0]), 'link id': gid(ex2, o.st, A[1]), 'values': got}
                good = gid(ex2, o.st, A[0]) == tmpl.id and gid(ex2, o.st, A[1]) == lid.id and got == want_vals
            bad.append(z3.And(o.pc + [z3.BoolVal(not good)]))
    ctx.decide(f'{nm}/the same template, link id and slot values under their own slots', [z3.Or(bad) if bad else T], ex=ex2, sample={'message': repr(msg)[:300], 'relinked': str(last)[:200]},
               on_sat=lambda m: battery(ctx, nm, 'proto/policy.rs: Policy (template link) conversion', 'a template link does not survive AST -> protobuf -> AST'))
    ctx.decide(f'{nm}/paths-cover', [z3.Not(z3.Or([z3.And(o.pc) if o.pc else T for o in rets2]))], ex=ex2)
    ctx.decide(f'{nm}/witness', [z3.Or([z3.And(o.pc) if o.pc else T for o in rets2 if isinstance(o.val, Agg) and o.val.variant == 'Ok'] or [F])], expect='sat', ex=ex2)


# ---------------------------------------------------------------------------------------------------------------- expression nodes

AFILE = 'cedar-policy/src/proto/ast.rs'
CONSTRUCTOR = {'If': 'ite', 'And': 'and', 'Or': 'or', 'UnaryApp': 'unary_app', 'BinaryApp': 'binary_app', 'ExtensionFunctionApp': 'call_extension_fn', 'GetAttr': 'get_attr', 'HasAttr': 'has_attr', 'Like': 'like',
               'Is': 'is_entity_type', 'Set': 'set', 'Record': 'record', 'Var': 'var', 'Slot': 'slot', 'Lit': 'val'}


def expr_nodes():
    from .c06 import nodes, EK
    out = [(l, b) for l, b in nodes() if l not in ('variable', 'slot')]
    for v in ('Principal', 'Action', 'Resource', 'Context'):
        out.append((f'variable {v}', lambda k, p, v=v: Agg('variant', EK, 'Var', [Agg('variant', 'ast::expr::Var', v, [])])))
    for sl in ('Principal', 'Resource'):
        out.append((f'slot {sl}', lambda k, p, sl=sl: Agg('variant', EK, 'Slot', [Agg('struct', 'ast::policy::SlotId', None, [Agg('variant', 'ast::policy::ValidSlotId', sl, [])])])))
    out.append(('literal', lambda k, p: Agg('variant', EK, 'Lit', [p['literal']])))
    return out


def expr_round_trip(ctx, label, build, battery):
    """one AST node kind: `models::Expr::from(&node)` and then `ast::Expr::try_from(message)`; the recursive calls on children are tokens, the ast::Expr constructors of
    cedar-policy-core are logged: the claim is that the constructor of the SAME kind and operator is called with the children (and payloads) in the SAME positions"""
    from .c06 import ast_expr
    P = ctx.prog('api')
    f1 = [f for f in P.find(r'>::from$', AFILE) if len(f.args) == 1 and f.args[0][1].replace(' ', '') == '&cedar_policy_core::ast::Expr' and f.ret.endswith('cedar_policy_core::Expr')]
    f2 = [f for f in P.find(r'>::try_from$', AFILE) if len(f.args) == 1 and f.args[0][1].endswith('cedar_policy_core::Expr') and 'ast::Expr' in f.ret]
    if len(f1) != 1 or len(f2) != 1:
        raise LookupError(f'proto Expr conversions: {len(f1)} / {len(f2)} candidates')
    f1, f2 = f1[0], f2[0]
    ctx.use(f1), ctx.use(f2)
    kids = [Opaque('ast::expr::Expr', f'child{i}') for i in range(3)]
    pkids = [Opaque('cedar_policy_core::Expr', f'child{i} as message') for i in range(3)]
    pay = {'attr': Opaque('smol_str::SmolStr', 'attr'), 'pattern': Opaque('ast::pattern::Pattern', 'pattern'), 'entity_type': Opaque('ast::entity::EntityType', 'entity type'), 'key0': Opaque('smol_str::SmolStr', 'key0'),
           'key1': Opaque('smol_str::SmolStr', 'key1'), 'fn_name': Opaque('ast::name::Name', 'function name'), 'literal': Opaque('ast::literal::Literal', 'literal')}
    txt = {k: Opaque('String', pay[k].what + ' as text') for k in ('attr', 'key0', 'key1')}
    pmsg = {'entity_type': Opaque('cedar_policy_core::Name', 'entity type as message'), 'fn_name': Opaque('cedar_policy_core::Name', 'function name as message'), 'literal': Opaque('cedar_policy_core::expr::Literal', 'literal as message')}
    pelems = [Opaque('ast::pattern::PatternElem', f'pattern element {i}') for i in range(2)]
    ppelems = [Opaque('cedar_policy_core::expr::like::PatternElem', f'pattern element {i} as message') for i in range(2)]
    tok = {k.id: f'child{i}' for i, k in enumerate(kids)}
    tok.update({v.id: k for k, v in pay.items()})
    tok.update({e.id: f'pattern element {i}' for i, e in enumerate(pelems)})
    node = ast_expr(build(kids, pay))
    gid = lambda ex_, st, v: getattr(strip(ex_, st, v), 'id', None)

    def by(table, back):
        idx = {a.id: b for a, b in zip(table, back)}
        return lambda ex_, st, c, A: idx.get(gid(ex_, st, A[0]))

    def mk():
        ex = ctx.new_exec('api')
        ex.havoc_unknown = HAVOC
        ex.max_paths = 600
        C.install(ex)
        install_maps(ex)
        ex.stub(r'(cedar_policy_core::)?ast::Expr::expr_kind$|ast::Expr::<.*>::expr_kind$', lambda ex_, st, c, A: (lambda r: Ref(r.fid, ('field', r.place, 0, 'expr_kind')))(C.base_ref(ex_, st, A[0])), 'Expr::expr_kind (field accessor of cedar-policy-core)')
        ex.stub(r'<(cedar_policy_core::)?Expr as From<&.*ast::Expr>>::from$', by(kids, pkids), 'recursive call on child i: its message (token, induction hypothesis)')
        ex.stub(r'ast::Expr as TryFrom<(cedar_policy_core::)?Expr>>::try_from$', lambda ex_, st, c, A: (lambda r: None if r is None else ok(r))(by(pkids, kids)(ex_, st, c, A)), 'recursive call on the message of child i: child i (induction hypothesis)')
        ex.stub(r'<Arc<.*> as AsRef<.*>>::as_ref$', lambda ex_, st, c, A: (lambda v: ex_.new_cell(st, v.fields[0], 'arc_inner') if isinstance(v, Agg) and v.name == 'Arc' else None)(strip_arc(ex_, st, A[0])), 'Arc::as_ref')
        ex.stub(r'<Arc<.*> as Deref>::deref$', lambda ex_, st, c, A: (lambda v: ex_.new_cell(st, v.fields[0], 'arc_inner') if isinstance(v, Agg) and v.name == 'Arc' else None)(strip_arc(ex_, st, A[0])), 'Arc::deref')
        ex.stub(r'<Box<.*> as Deref>::deref$', lambda ex_, st, c, A: (lambda v: ex_.new_cell(st, v.fields[0], 'box_inner') if isinstance(v, Agg) and v.name == 'Box' else None)(strip_arc(ex_, st, A[0])), 'Box::deref')
        # payload leaves: each has its own conversion pair in proto/ast.rs; here a token that converts back to the same object
        ex.stub(r'SmolStr as (std::string::)?ToString>::to_string$', lambda ex_, st, c, A: {pay[k].id: txt[k] for k in txt}.get(gid(ex_, st, A[0])), 'attribute / key name -> String (token)')
        ex.stub(r'String as Into<(smol_str::)?SmolStr>>::into$', lambda ex_, st, c, A: {txt[k].id: pay[k] for k in txt}.get(gid(ex_, st, A[0])), 'String -> SmolStr: the name the text came from')
        ex.stub(r'<(cedar_policy_core::)?Name as From<&.*(EntityType|ast::Name)>>::from$', lambda ex_, st, c, A: {pay['entity_type'].id: pmsg['entity_type'], pay['fn_name'].id: pmsg['fn_name']}.get(gid(ex_, st, A[0])), 'name -> Name message (token)')
        ex.stub(r'(EntityType|ast::Name) as TryFrom<(cedar_policy_core::)?Name>>::try_from$', lambda ex_, st, c, A: (lambda r: None if r is None else ok(r))({pmsg['entity_type'].id: pay['entity_type'], pmsg['fn_name'].id: pay['fn_name']}.get(gid(ex_, st, A[0]))),
                'Name message -> the name it came from')
        ex.stub(r'([\w:]*::)?Literal as From<&.*ast::Literal>>::from$', lambda ex_, st, c, A: pmsg['literal'] if gid(ex_, st, A[0]) == pay['literal'].id else None, 'literal -> message (token)')
        ex.stub(r'ast::Literal as TryFrom<([\w:]*::)?Literal>>::try_from$', lambda ex_, st, c, A: ok(pay['literal']) if gid(ex_, st, A[0]) == pmsg['literal'].id else None, 'literal message -> the literal')
        ex.stub(r'(cedar_policy_core::)?ast::Pattern::iter$|ast::Pattern::len$', lambda ex_, st, c, A: (Agg('struct', '~vec_iter', None, [ex_.new_cell(st, e, 'pe') for e in pelems]) if c.endswith('iter') else ex_.const_int(2, 'usize')) if gid(ex_, st, A[0]) == pay['pattern'].id else None,
                'Pattern::iter / len: two elements')
        ex.stub(r'like::PatternElem as From<&.*ast::PatternElem>>::from$', by(pelems, ppelems), 'pattern element -> message (token)')
        ex.stub(r'ast::PatternElem as TryFrom<([\w:]*::)?like::PatternElem>>::try_from$', lambda ex_, st, c, A: (lambda r: None if r is None else ok(r))(by(ppelems, pelems)(ex_, st, c, A)), 'pattern element message -> the element')
        ex.stub(r'ProtobufConversionError::missing$', lambda ex_, st, c, A: Opaque('ProtobufConversionError', 'missing field'), 'conversion error (term)')
        # ast::SlotId is `SlotId(ValidSlotId)` in cedar-policy-core: its two tests and two constructors
        slot_is = lambda which: (lambda ex_, st, c, A: (lambda v: BoolV(z3.BoolVal(strip(ex_, st, v.fields[0]).variant == which)) if isinstance(v, Agg) and v.fields and isinstance(strip(ex_, st, v.fields[0]), Agg) else None)(strip(ex_, st, A[0])))
        ex.stub(r'ast::SlotId::is_principal$', slot_is('Principal'), 'SlotId::is_principal (cedar-policy-core, one line)')
        ex.stub(r'ast::SlotId::is_resource$', slot_is('Resource'), 'SlotId::is_resource (cedar-policy-core, one line)')
        ex.stub(r'ast::SlotId::(principal|resource)$', lambda ex_, st, c, A: Agg('struct', 'ast::policy::SlotId', None, [Agg('variant', 'ast::policy::ValidSlotId', c.rsplit('::', 1)[1].capitalize(), [])]), 'SlotId::principal() / resource() (cedar-policy-core)')

        def constructor(ex_, st, c, A):
            name = c.split('::<')[0].rsplit('::', 1)[1]
            st.notes['built'] = st.notes.get('built', []) + [(name, [shape_arg(ex_, st, a, tok) for a in A])]
            res_ = Opaque('ast::expr::Expr', f'result of Expr::{name}')
            return ok(res_) if name == 'record' else res_
        ex.stub(r'(cedar_policy_core::)?ast::Expr::(ite|and|or|unary_app|binary_app|call_extension_fn|get_attr|has_attr|like|is_entity_type|set|record|var|slot|val)(::<.*>)?$', constructor, 'ast::Expr constructors of cedar-policy-core: logged with their arguments')
        return ex
    ex = mk()
    outs = ex.run(f1, [Ref(0, ('local', 'NODE'))], heap={'NODE': node})
    ctx.absorb(ex)
    nm = f'expression AST -> protobuf message -> AST[{label}]'
    ctx.panic_summary(nm + ' (to message)', outs, ex)
    rets = [o for o in outs if o.kind == 'ret']
    if len(rets) != 1:
        raise NotEncoded(f'{nm}: AST -> message gave {len(rets)} results')
    msg = deep(ex, rets[0].st, rets[0].val)
    ex2 = mk()
    outs2 = ex2.run(f2, [msg])
    ctx.absorb(ex2)
    ctx.panic_summary(nm + ' (back to AST)', outs2, ex2)
    rets2 = [o for o in outs2 if o.kind == 'ret']
    kind = strip(ex, rets[0].st, node.fields[0])
    want = (CONSTRUCTOR[kind.variant], want_args(ex, rets[0].st, kind, tok, pelems))
    bad, last = [], None
    for o in rets2:
        built = o.st.notes.get('built', [])
        good = isinstance(o.val, Agg) and o.val.variant == 'Ok' and len(built) == 1 and (built[0][0], norm_args(built[0][1])) == (want[0], norm_args(want[1]))
        last = built
        bad.append(z3.And(o.pc + [z3.BoolVal(not good)]))
    ctx.decide(f'{nm}/same node: constructor, operator, children and payloads in their positions', [z3.Or(bad) if bad else T], ex=ex2, sample={'node': str(want)[:200], 'message': repr(msg)[:240], 'rebuilt with': str(last)[:200]},
               on_sat=lambda m: battery(ctx, nm, 'proto/ast.rs: expression conversion', f'a `{label}` node does not survive AST -> protobuf -> AST'))
    ctx.decide(f'{nm}/paths-cover', [z3.Not(z3.Or([z3.And(o.pc) if o.pc else T for o in rets2]))], ex=ex2)
    ctx.decide(f'{nm}/witness', [z3.Or([z3.And(o.pc) if o.pc else T for o in rets2] or [F])], expect='sat', ex=ex2)


def shape_arg(ex, st, v, tok):
    from .c06 import shape
    return shape(ex, st, v, tok)


def want_args(ex, st, kind, tok, pelems):
    """the constructor arguments that rebuild `kind`: its fields, with a pattern given as its element list"""
    from .c06 import shape
    args = []
    for f in kind.fields:
        s_ = shape(ex, st, f, tok)
        if s_ == ('tok', 'pattern'):
            s_ = ('~vec',) + tuple(('tok', f'pattern element {i}') for i in range(len(pelems)))
        args.append(s_)
    if kind.variant == 'Record':
        # Expr::record takes the (key, value) pairs
        args = [('~vec',) + tuple(args[0][1:])] if args and args[0] and args[0][0] in ('~btree', '~vec') else args
    return args


def norm_args(args):
    """containers of children compare as sequences whatever the container (Vec / iterator / map of pairs)"""
    def n(a):
        if isinstance(a, tuple) and a and a[0] in ('~vec', '~vec_iter', '~btree', '~hmap', '~cmap', '~collected'):
            return ('seq',) + tuple(sorted((n(x) for x in a[1:]), key=str) if a[0] in ('~btree', '~hmap', '~cmap') else [n(x) for x in a[1:]])
        if isinstance(a, tuple):
            return tuple(n(x) for x in a)
        return a
    out = [n(a) for a in args]
    # a record's pairs are an unordered collection
    return [('seq',) + tuple(sorted(a[1:], key=str)) if isinstance(a, tuple) and a and a[0] == 'seq' and all(isinstance(x, tuple) and x and x[0] == 'tuple' for x in a[1:]) else a for a in out]


PROTO_SETS = [
    {'policies': 'permit(principal, action, resource);'},
    {'policies': 'forbid(principal == User::"a", action == Action::"x", resource == Doc::"d") unless { 1 < 2 };'},
    {'policies': 'permit(principal in Group::"g", action in Action::"grp", resource in Folder::"f");'},                      # action in <one entity> is stored as a one-element list
    {'policies': 'permit(principal, action in [Action::"grp"], resource);'},
    {'policies': 'permit(principal, action in [Action::"a", Action::"b"], resource); forbid(principal, action in [], resource);'},
    {'policies': 'permit(principal is User, action, resource is Doc in Folder::"f"); forbid(principal is User in Group::"g", action, resource is Doc);'},
    {'policies': '@id("p") @note("") permit(principal, action, resource) when { context.a.b has c && [1, -2].contains(resource.n * 3) || "x" like "a*\\*" };'},
    {'policies': 'permit(principal, action, resource) when { if principal has x then principal.x - 1 <= 2 else !(ip("1.2.3.4").isIpv4()) };'},
    {'policies': 'permit(principal, action, resource) when { {"k": [principal, action], "l": {}}.k.isEmpty() || resource.hasTag("t") && resource.getTag("t") == decimal("1.5") };'},
    {'policies': 'permit(principal == ?principal, action, resource in ?resource); forbid(principal in ?principal, action == Action::"x", resource == ?resource) when { true };',
     'links': [{'template': 'policy0', 'id': 'l0', 'values': {'?principal': 'User::"a"', '?resource': 'Folder::"f"'}}, {'template': 'policy1', 'id': 'l1', 'values': {'?principal': 'Group::"g"', '?resource': 'Doc::"d"'}},
               {'template': 'policy0', 'id': 'l2', 'values': {'?principal': 'User::"b"', '?resource': 'Folder::"g"'}}]},
    {'policies': 'permit(principal is User in ?principal, action, resource is Doc in ?resource);', 'links': [{'template': 'policy0', 'id': 'l0', 'values': {'?principal': 'Group::"g"', '?resource': 'Folder::"f"'}}]},
]


def proto_battery(ctx, name, role, why):
    cache = ctx.__dict__.setdefault('_c06_proto_battery', {})
    if 'r' not in cache:
        cache['r'] = None
        for q in PROTO_SETS:
            a = ctx.native.ask(dict(q, op='proto_roundtrip'))
            if 'equal' not in a:
                return ctx.mismatch(name, f'proto_roundtrip probe `{q["policies"][:60]}`: {a}')
            if not a['equal']:
                cache['r'] = (f'policy set `{q["policies"]}`{" with " + str(len(q["links"])) + " links" if q.get("links") else ""} through Protobuf::encode / decode: {a.get("why")}', dict(q, op='proto_roundtrip'))
                break
    if cache['r']:
        return ctx.violation(name, role, f'{why}; natively: {cache["r"][0]}', cache['r'][1])
    return ('unreplayed', f'{why}; but the {len(PROTO_SETS)} protobuf round trips of the battery agree')


def families(ctx, battery=proto_battery):
    fam = []
    for label, build in constraint_shapes():
        fam.append((f'proto principal/resource constraint {label}', lambda label=label, build=build: constraint_round_trip(ctx, 'principal / resource', label, build, battery)))
    for label, build in action_shapes():
        fam.append((f'proto action constraint {label}', lambda label=label, build=build: constraint_round_trip(ctx, 'action', label, build, battery)))
    fam.append(('proto effect', lambda: effect_round_trip(ctx, battery)))
    for hc in (True, False):
        for eff in ('Permit', 'Forbid'):
            fam.append((f'proto template body {eff} cond={hc}', lambda hc=hc, eff=eff: template_round_trip(ctx, hc, eff, battery)))
    for hp, hr in ((True, True), (True, False), (False, True), (False, False)):
        fam.append((f'proto template link p={hp} r={hr}', lambda hp=hp, hr=hr: link_round_trip(ctx, hp, hr, battery)))
    for label, build in expr_nodes():
        fam.append((f'proto expression {label}', lambda label=label, build=build: expr_round_trip(ctx, label, build, battery)))
    return fam
