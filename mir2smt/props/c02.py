"""C02 - expression evaluation follows the language semantics: the operator kernels of the evaluator (engine M)."""
import re
import z3
from ..framework import (Kernel, run_kernel, And, Or, Not, Implies, If, in_range, I64_MIN, I64_MAX, MachineryError, boundary_values)
from ..executor import IntV, BoolV, Agg, Opaque, Ref, NotEncoded, UNIT
from ..models import ok, err, none
from .common import flat, SymValue, KINDS, cedar_value, gen_value, classify_eval

BV = boundary_values('i64')


def install_value_stubs(ex):
    """constructors of evaluation errors are logged opaque constructors; From<..> for EvaluationError is a wrapper"""
    ex.from_wrappers.add('EvaluationError')

    def type_error_single(ex, st, callee, A):
        v = A[1]
        tgt = ex.read(st, v.fid, v.place) if isinstance(v, Ref) else v
        return mk_type_error(A[0], tgt)
    ex.stub(r'EvaluationError::type_error_single$', type_error_single, 'EvaluationError::type_error_single (opaque constructor)')

    def type_error_other(ex, st, callee, A):
        # type_error(expected: NonEmpty<Type>, actual), type_error_with_advice(expected, actual, advice), type_error_with_advice_single(..)
        v = A[1]
        tgt = ex.read(st, v.fid, v.place) if isinstance(v, Ref) else v
        return mk_type_error(A[0], tgt)
    ex.stub(r'EvaluationError::type_error(_with_advice|_with_advice_single)?$', type_error_other, 'EvaluationError::type_error* (opaque constructors)')


def mk_type_error(expected, actual_value):
    """EvaluationError::TypeError(TypeError { expected, actual, advice, source_loc }); `actual` keeps the offending VALUE (a marker
    for the obligations: the real field holds only its type)"""
    return Agg('variant', 'evaluator::err::EvaluationError', 'TypeError',
               [Agg('struct', 'evaluator::err::evaluation_errors::TypeError', None, [expected, actual_value, none(), none()], ('expected', 'actual', 'advice', 'source_loc'))])


def as_type_error(e):
    """(expected, offending value) if `e` is a type error built by the stubs above"""
    if isinstance(e, Agg) and e.variant == 'TypeError' and e.fields and isinstance(e.fields[0], Agg) and e.fields[0].fnames and e.fields[0].fnames[:2] == ('expected', 'actual'):
        return e.fields[0].fields[0], e.fields[0].fields[1]
    return None


def expected_type_name(v):
    """name of the `Type` variant handed to type_error_single"""
    if isinstance(v, Agg) and v.variant:
        return v.variant.lower()
    return repr(v)


def decode_result(sv_by_id):
    """decoder for Result<Value, EvaluationError> returned by the operator kernels"""
    def dec(ex, o):
        v = o.val
        if not (isinstance(v, Agg) and v.variant in ('Ok', 'Err')):
            raise NotEncoded(f'result shape {v!r}')
        p = v.fields[0]
        if v.variant == 'Ok':
            # Value { value: ValueKind::Lit(Literal::X(payload)), loc }
            try:
                vk = p.fields[0]
                lit = vk.fields[0]
                if vk.variant == 'Lit' and lit.variant == 'Long':
                    return 'OkLong', [lit.fields[0].t]
                if vk.variant == 'Lit' and lit.variant == 'Bool':
                    return 'OkBool', [lit.fields[0].t]
            except (AttributeError, IndexError):
                pass
            raise NotEncoded(f'Ok payload {p!r}')
        # Err
        te = as_type_error(p)
        if te is not None:
            actual = te[1]
            sv = sv_by_id.get(getattr(actual, 'id', None))
            if sv is None:
                raise NotEncoded(f'type error about an unknown value {actual!r}')
            return 'TypeError', [expected_type_name(te[0]), sv.code]
        if isinstance(p, Agg) and p.fnames and p.fnames[0].startswith('from:IntegerOverflowError'):
            inner = p.fields[0]
            return 'Overflow', [('err', inner)]
        raise NotEncoded(f'Err payload {p!r}')
    return dec


def k_binary_arith(ctx):
    P = ctx.prog('core')
    f = P.method('evaluator.rs', 'binary_arith', nargs=4)
    BOP = {}
    state = {}

    def make(ex):
        install_value_stubs(ex)
        a, b = SymValue(ex, 'arg1'), SymValue(ex, 'arg2')
        op = Opaque('ast::ops::BinaryOp', 'op')
        tbl = ex.variants_of('ast::ops::BinaryOp')
        BOP.update(tbl)
        d = ex.disc_term(op)
        state.update(a=a, b=b, op=op, by_id={a.v.id: a, b.v.id: b})
        ins = {'op': d, **a.ins('a'), **b.ins('b')}
        pre = [z3.Or(d == tbl['Add'], d == tbl['Sub'], d == tbl['Mul'])]     # documented precondition (checked by the caller)
        return ins, [op, a.v, b.v, none()], pre

    def decode(ex, o):
        tag, vals = decode_result(state['by_id'])(ex, o)
        if tag == 'Overflow':
            # the error must record this operator and these operands, in this order
            e = vals[0][1]
            okk = False
            try:
                inner = e.fields[0]          # BinaryOpOverflowError { op, arg1, arg2, source_loc }
                okk = (e.variant == 'BinaryOp' and inner.fields[0] is state['op'] and inner.fields[1].id == state['a'].v.id
                       and inner.fields[2].id == state['b'].v.id)
            except (AttributeError, IndexError):
                okk = False
            return 'Overflow', [okk]
        return tag, vals

    def spec(ins, tag, vals):
        a_long, b_long = ins['a_kind'] == 1, ins['b_kind'] == 1
        x, y = ins['a_n'], ins['b_n']
        exact = If(ins['op'] == BOP['Add'], x + y, If(ins['op'] == BOP['Sub'], x - y, x * y))
        if tag == 'OkLong':
            return And(a_long, b_long, in_range(exact, 'i64'), vals[0] == exact)
        if tag == 'Overflow':
            return And(a_long, b_long, Not(in_range(exact, 'i64')), vals[0] if vals else True)
        if tag == 'TypeError':
            # left operand's type error first
            return And(vals[0] == 'long', Or(And(Not(a_long), vals[1] == ins['a_kind']), And(a_long, Not(b_long), vals[1] == ins['b_kind'])))
        return False

    def native(nat, c):
        sym = {BOP['Add']: '+', BOP['Sub']: '-', BOP['Mul']: '*'}[c['op']]
        e = f'{cedar_value(c["a_kind"], c["a_b"], c["a_n"])} {sym} {cedar_value(c["b_kind"], c["b_b"], c["b_n"])}'
        a = nat.ask({'op': 'eval', 'expr': e})
        tag, vals = classify_eval(a)
        if tag == 'Overflow':
            word = {'+': 'add', '-': 'subtract', '*': 'multiply'}[sym]
            return tag, [f'attempting to {word} the values `{c["a_n"]}` and `{c["b_n"]}`' in a.get('msg', '')]
        return tag, vals

    def gen(rand):
        return {'op': rand.choice([BOP['Add'], BOP['Sub'], BOP['Mul']]), **gen_value(rand, 'a', BV), **gen_value(rand, 'b', BV)}

    samples = []
    inputs = [('op', 'isize')] + SymValue.input_decl('a') + SymValue.input_decl('b')
    K = Kernel('evaluator::binary_arith', f, inputs, None, decode, spec, native=native, make=make, gen=gen,
               expect_tags=('OkLong', 'Overflow', 'TypeError'))
    K.samples_fn = lambda: [{'op': BOP[o], 'a_kind': 1, 'a_b': False, 'a_n': x, 'b_kind': 1, 'b_b': False, 'b_n': y}
                            for o in ('Add', 'Sub', 'Mul') for x, y in [(I64_MIN, 0), (0, I64_MIN), (I64_MIN, -1), (-1, I64_MIN), (I64_MAX, 1), (1, I64_MAX),
                                                                         (3037000500, 3037000500), (-3037000500, 3037000500), (I64_MIN, 1), (5, 7)]]
    return K


def k_unary_app(ctx):
    P = ctx.prog('core')
    f = P.method('evaluator.rs', 'unary_app', nargs=3, arg0='UnaryOp')
    UOP = {}
    state = {}

    def make(ex):
        install_value_stubs(ex)
        a = SymValue(ex, 'arg')
        op = Opaque('ast::ops::UnaryOp', 'op')
        UOP.update(ex.variants_of('ast::ops::UnaryOp'))
        d = ex.disc_term(op)
        empty = z3.Bool('set_is_empty')
        state.update(a=a, op=op, by_id={a.v.id: a}, empty=empty)
        ex.stub(r'(^|::)Set::is_empty$', lambda ex, st, callee, A: BoolV(empty), 'Set::is_empty (symbolic emptiness bit)')
        return {'op': d, 'empty': empty, **a.ins('a')}, [op, a.v, none()], []

    def decode(ex, o):
        tag, vals = decode_result(state['by_id'])(ex, o)
        if tag == 'Overflow':
            e = vals[0][1]
            try:
                inner = e.fields[0]
                return 'Overflow', [e.variant == 'UnaryOp' and inner.fields[0] is state['op'] and inner.fields[1].id == state['a'].v.id]
            except (AttributeError, IndexError):
                return 'Overflow', [False]
        return tag, vals

    def spec(ins, tag, vals):
        k, op = ins['a_kind'], ins['op']
        is_not, is_neg, is_empty = op == UOP['Not'], op == UOP['Neg'], op == UOP['IsEmpty']
        if tag == 'OkBool':
            return Or(And(is_not, k == 0, vals[0] == Not(ins['a_b'])), And(is_empty, k == 4, vals[0] == ins['empty']))
        if tag == 'OkLong':
            return And(is_neg, k == 1, ins['a_n'] != I64_MIN, vals[0] == -ins['a_n'])
        if tag == 'Overflow':
            return And(is_neg, k == 1, ins['a_n'] == I64_MIN, vals[0] if vals else True)
        if tag == 'TypeError':
            return And(vals[1] == k, Or(And(is_not, k != 0, vals[0] == 'bool'), And(is_neg, k != 1, vals[0] == 'long'), And(is_empty, k != 4, vals[0] == 'set')))
        return False

    def native(nat, c):
        v = cedar_value(c['a_kind'], c['a_b'], c['a_n'], empty_set=c['empty'])
        e = {UOP['Not']: f'!{v}', UOP['Neg']: f'-{v}', UOP['IsEmpty']: f'{v}.isEmpty()'}[c['op']]
        if c['op'] == UOP['Neg'] and c['a_kind'] == 1:
            # `-N` with a literal would be folded by the parser; negate a computed long instead
            n = c['a_n']
            v2 = f'({n} + 0)' if n >= 0 else (f'(({n + 1}) - 1)' if n > I64_MIN else f'(({n + 1}) - 1)')
            e = f'-{v2}'
        a = nat.ask({'op': 'eval', 'expr': e})
        tag, vals = classify_eval(a)
        if tag == 'Overflow':
            return tag, [f'negate the value `{c["a_n"]}`' in a.get('msg', '')]
        return tag, vals

    def gen(rand):
        return {'op': rand.choice(list(UOP.values())), 'empty': rand.random() < 0.5, **gen_value(rand, 'a', BV)}

    inputs = [('op', 'isize'), ('empty', 'bool')] + SymValue.input_decl('a')
    K = Kernel('evaluator::unary_app', f, inputs, None, decode, spec, native=native, make=make, gen=gen,
               expect_tags=('OkLong', 'OkBool', 'Overflow', 'TypeError'))
    K.samples_fn = lambda: [{'op': UOP['Neg'], 'empty': False, 'a_kind': 1, 'a_b': False, 'a_n': n} for n in (I64_MIN, I64_MIN + 1, I64_MAX, 0, -1)] + \
                           [{'op': UOP['IsEmpty'], 'empty': e, 'a_kind': 4, 'a_b': False, 'a_n': 0} for e in (True, False)]
    return K


def k_binary_relation(ctx):
    P = ctx.prog('core')
    f = P.method('evaluator.rs', 'binary_relation', nargs=4)
    BOP = {}
    state = {}

    def make(ex):
        install_value_stubs(ex)
        a, b = SymValue(ex, 'arg1'), SymValue(ex, 'arg2')
        op = Opaque('ast::ops::BinaryOp', 'op')
        BOP.update(ex.variants_of('ast::ops::BinaryOp'))
        d = ex.disc_term(op)
        B = {n: z3.Bool(n) for n in ('a_ovl', 'b_ovl', 'same_type', 'ext_lt', 'ext_le', 'values_equal')}
        ext_of = {}
        for sv, nm in ((a, 'a'), (b, 'b')):
            arc = ex.opaque_field(sv.vk, 'ExtensionValue', 0, 'Arc<ast::extension::RepresentableExtensionValue>')
            ext_of[arc.id] = nm
            ext_of[('inner', nm)] = arc
        state.update(a=a, b=b, op=op, by_id={a.v.id: a, b.v.id: b})

        def which(ex, st, v):
            n = 0
            while isinstance(v, Ref) and n < 6:
                v = ex.read(st, v.fid, v.place)
                n += 1
            # the Arc or the value inside it
            if getattr(v, 'id', None) in ext_of:
                return ext_of[v.id]
            for nm in ('a', 'b'):
                arc = ext_of[('inner', nm)]
                if ('deref', arc.id) in ex.memo and st.frames[0].get(ex.memo[('deref', arc.id)]) is v:
                    return nm
            raise NotEncoded(f'unknown extension value {v!r}')
        ex.stub(r'RepresentableExtensionValue::supports_operator_overloading$', lambda ex, st, c, A: BoolV(B[which(ex, st, A[0]) + '_ovl']), 'ExtensionValue::supports_operator_overloading: one free boolean per operand')
        ex.stub(r'RepresentableExtensionValue::typename$', lambda ex, st, c, A: Agg('struct', 'Name', None, [StrLit(which(ex, st, A[0]))], ('of',)), 'ExtensionValue::typename (name of that operand\'s type)')
        ex.stub(r'<.*Name as PartialEq>::(eq|ne)$', lambda ex, st, c, A: BoolV(B['same_type'] if c.endswith('eq') else z3.Not(B['same_type'])), 'equality of the two extension type names: free boolean')
        ex.stub(r'<&*Arc<.*RepresentableExtensionValue> as PartialOrd>::(lt|le)$', lambda ex, st, c, A: BoolV(B['ext_lt'] if c.endswith('lt') else B['ext_le']), 'ordering of two extension values of one type: uninterpreted (lt implies le)')
        ex.stub(r'<.*Value as PartialEq>::eq$', lambda ex, st, c, A: BoolV(B['values_equal']), 'structural equality of the two Values: free boolean (derive-generated, not encoded)')
        ex.stub(r'valid_comparison_op_types$', lambda ex, st, c, A: Opaque('Vec<Type>', 'valid comparison types'), 'valid_comparison_op_types (opaque)')
        ex.stub(r'(^|::)fmt::format$|Itertools>::join$|Itertools>::sorted$|as IntoIterator>::into_iter$|must_use::<', lambda ex, st, c, A: Opaque('String', 'advice text'), 'advice message formatting (opaque)')
        ex.invariants.append(z3.Implies(B['ext_lt'], B['ext_le']))
        ins = {'op': d, **a.ins('a'), **b.ins('b'), **B}
        pre = [z3.Or(d == BOP['Eq'], d == BOP['Less'], d == BOP['LessEq'])]
        return ins, [op, Ref(0, ('local', 'A')), Ref(0, ('local', 'B')), Ref(0, ('local', 'X'))], pre

    def setup(ex):
        ex.initial_heap = None

    def make2(ex):
        r = make(ex)
        ex.initial_heap = {'A': state['a'].v, 'B': state['b'].v, 'X': Opaque("Extensions<'_>", 'extensions')}
        return r

    def decode(ex, o):
        v = o.val
        p = v.fields[0]
        if v.variant == 'Ok':
            lit = p.fields[0].fields[0]
            if lit.variant == 'Bool':
                return 'OkBool', [lit.fields[0].t]
            raise NotEncoded(f'result {p!r}')
        te = as_type_error(p)
        if te is None:
            raise NotEncoded(f'error {p!r}')
        exp = te[0]
        if isinstance(exp, Agg) and exp.variant == 'Long':
            e = 'long'
        elif isinstance(exp, Agg) and exp.variant == 'Extension':
            nm = exp.fields[0]
            e = 'ext:' + (nm.fields[0].s if isinstance(nm, Agg) and nm.name == 'Name' else '?')
        else:
            e = 'advice'
        sv = state['by_id'].get(getattr(te[1], 'id', None))
        if sv is None:
            raise NotEncoded('type error about an unknown value')
        return 'TypeError', [e, 'a' if sv is state['a'] else 'b']

    def spec(ins, tag, vals):
        op = ins['op']
        ak, bk = ins['a_kind'], ins['b_kind']
        a_long, b_long, a_ext, b_ext = ak == 1, bk == 1, ak == 6, bk == 6
        is_eq, is_lt = op == BOP['Eq'], op == BOP['Less']
        both_ext = And(a_ext, b_ext, ins['a_ovl'], ins['b_ovl'], ins['same_type'])
        if tag == 'OkBool':
            return Or(And(is_eq, vals[0] == ins['values_equal']),
                      And(Not(is_eq), a_long, b_long, vals[0] == If(is_lt, ins['a_n'] < ins['b_n'], ins['a_n'] <= ins['b_n'])),
                      And(Not(is_eq), both_ext, vals[0] == If(is_lt, ins['ext_lt'], ins['ext_le'])))
        if tag == 'TypeError':
            e, who = vals
            ok_cmp = Or(And(a_long, b_long), both_ext)
            c1 = And(a_long, Not(b_long))                                  # long vs non-long: names the non-long side
            c2 = And(Not(a_long), b_long)
            c3 = And(Not(a_long), Not(b_long), a_ext, ins['a_ovl'])        # comparable extension value on the left: right operand is wrong
            c4 = And(Not(a_long), Not(b_long), Not(And(a_ext, ins['a_ovl'])), b_ext, ins['b_ovl'])
            c5 = And(Not(a_long), Not(b_long), Not(And(a_ext, ins['a_ovl'])), Not(And(b_ext, ins['b_ovl'])))
            return And(Not(is_eq), Not(ok_cmp),
                       Or(And(c1, e == 'long', who == 'b'), And(c2, e == 'long', who == 'a'), And(c3, e == 'ext:a', who == 'b'),
                          And(c4, e == 'ext:b', who == 'a'), And(c5, e == 'advice', who == 'a')))
        return False

    def cedar_operand(c, p, other_dt=None):
        k = c[f'{p}_kind']
        if k != 6:
            return cedar_value(k, c[f'{p}_b'], c[f'{p}_n'])
        if not c[f'{p}_ovl']:
            return 'ip("1.2.3.4")'
        return None

    def native(nat, c):
        opn = {BOP['Eq']: '==', BOP['Less']: '<', BOP['LessEq']: '<='}[c['op']]
        A, Bv = cedar_operand(c, 'a'), cedar_operand(c, 'b')
        a_dt = c['a_kind'] == 6 and c['a_ovl']
        b_dt = c['b_kind'] == 6 and c['b_ovl']
        if a_dt and b_dt:
            if c['same_type']:
                rel = 'lt' if c['ext_lt'] else ('eq' if c['ext_le'] else 'gt')
                A = 'datetime("2024-01-02")'
                Bv = {'lt': 'datetime("2024-01-03")', 'eq': 'datetime("2024-01-02")', 'gt': 'datetime("2024-01-01")'}[rel]
            else:
                A, Bv = 'datetime("2024-01-02")', 'duration("1h")'
        else:
            if a_dt:
                A = 'datetime("2024-01-02")'
            if b_dt:
                Bv = 'duration("1h")'
        if opn == '==':
            # the free boolean `values_equal` must be realisable by the chosen operands
            truly = (A == Bv)
            if truly != c['values_equal']:
                return None
        a = nat.ask({'op': 'eval', 'expr': f'{A} {opn} {Bv}'})
        tag, vals = classify_eval(a)
        if tag == 'TypeError':
            exp, got = vals
            e = 'long' if exp == 'long' else ('advice' if exp.startswith('one of') else 'ext')
            # which operand is named: compare the reported kind with the operands' kinds
            ka, kb = c['a_kind'], c['b_kind']
            if ka == kb:
                return None                      # cannot tell the operands apart from the message
            who = 'a' if got == ka else 'b'
            if e == 'ext':
                e = 'ext:' + ('b' if who == 'a' else 'a')
            return 'TypeError', [e, who]
        return tag, vals

    def gen(rand):
        c = {'op': rand.choice([BOP['Eq'], BOP['Less'], BOP['LessEq']]), **gen_value(rand, 'a', BV), **gen_value(rand, 'b', BV)}
        if rand.random() < 0.4:
            c['a_kind'] = 6
        if rand.random() < 0.4:
            c['b_kind'] = 6
        for n in ('a_ovl', 'b_ovl', 'same_type', 'ext_le'):
            c[n] = rand.random() < 0.6
        c['ext_lt'] = c['ext_le'] and rand.random() < 0.5
        c['values_equal'] = rand.random() < 0.5
        return c
    inputs = [('op', 'isize')] + SymValue.input_decl('a') + SymValue.input_decl('b') + [(n, 'bool') for n in ('a_ovl', 'b_ovl', 'same_type', 'ext_lt', 'ext_le', 'values_equal')]
    K = Kernel('evaluator::binary_relation', f, inputs, None, decode, spec, native=native, make=make2, gen=gen, expect_tags=('OkBool', 'TypeError'))
    base = {'a_b': False, 'b_b': False, 'a_ovl': True, 'b_ovl': True, 'same_type': True, 'ext_lt': False, 'ext_le': True, 'values_equal': False}
    K.samples_fn = lambda: [dict(base, op=BOP[o], a_kind=1, a_n=x, b_kind=1, b_n=y) for o in ('Less', 'LessEq') for x, y in [(I64_MIN, I64_MAX), (I64_MAX, I64_MIN), (5, 5), (-1, 0), (0, -1), (I64_MIN, I64_MIN)]] + \
                           [dict(base, op=BOP['Less'], a_kind=6, a_n=0, b_kind=6, b_n=0, ext_lt=lt, ext_le=le, same_type=st_) for lt, le, st_ in [(True, True, True), (False, True, True), (False, False, True), (False, True, False)]]
    return K


class StrLit:
    """a python-level tag carried inside symbolic values (never reaches the solver)"""
    def __init__(s, t):
        s.s = t

    def __repr__(s):
        return f'tag:{s.s}'


KERNELS = [k_binary_arith, k_unary_app, k_binary_relation]


def families(ctx):
    from . import arms, like
    return [(mk.__name__, (lambda mk=mk: run_kernel(ctx, mk(ctx)))) for mk in KERNELS] + arms.families(ctx) + like.families(ctx)


def run(ctx):
    ctx.run_families(families(ctx))
    from . import like as _like
    ctx.bounds += [_like.describe(ctx), 'operand payloads: every i64; operand kinds: all 7 Cedar value kinds; no unrolling (loop-free kernels)',
                   'evaluator arms: one node of each kind (&&, ||, if, unary, binary scalar / set / in / tag operators, like, is, has, attribute access) with arbitrary outcomes (value of any kind / residual / error) '
                   'of its sub-expressions => expressions of any depth by structural induction; entity store as environment (absent / partial / present entity, attribute or tag present or not)']
    ctx.assumptions += ['EvaluationError constructors (type_error_single) and derive-generated From<..> for EvaluationError are opaque logged constructors',
                        'symbolic Value = opaque struct with lazily created ValueKind / Literal discriminants and payloads',
                        'replay through cedar_policy::eval_expression on concretised operands']
    ctx.assumptions += ['Evaluator::partial_interpret on sub-expressions, Entities::entity, Entity::{get,get_tag}, BTreeMap::get, Set::{contains,is_subset,is_disjoint}, eval_in: environment stubs (logged) in the arm obligations; Pattern::wildcard_match is a stub there and has its own bounded obligation (like.py)',
                        'structural equality of Values, the set algorithms, record/set construction, extension calls and parser/EST equivalence are NOT covered']
    return ctx.finish('Solver-decided operator semantics of the evaluator, executed from the MIR of the current tree: the scalar kernels (unary_app, binary_arith, binary_relation) over arbitrary Values, and every '
                      'dispatching arm of partial_interpret_internal / eval_if / get_attr over arbitrary sub-expression outcomes: evaluation order, short-circuiting, which error surfaces, type errors, has on absent entities, '
                      'operand roles handed to the kernels, and the residual built when an operand is unknown.')
