"""C02 - expression evaluation follows the language semantics: the operator kernels of the evaluator (engine M)."""
import re
import z3
from ..framework import (Kernel, run_kernel, And, Or, Not, Implies, If, in_range, I64_MIN, I64_MAX, MachineryError, boundary_values)
from ..executor import IntV, BoolV, Agg, Opaque, Ref, NotEncoded, UNIT
from ..models import ok, err, none
from .common import flat, SymValue, KINDS, cedar_value, gen_value, classify_eval

BV = boundary_values('i64')


def install_value_stubs(ex):
    """constructors of evaluation errors are logged opaque constructors; From<..> for EvaluationError is a wrapper"""
    ex.from_wrappers.add('EvaluationError')

    def type_error_single(ex, st, callee, A):
        v = A[1]
        tgt = ex.read(st, v.fid, v.place) if isinstance(v, Ref) else v
        return Agg('struct', 'EvaluationError', None, [Agg('struct', 'TypeError', None, [A[0], tgt], ('expected', 'actual'))], ('type_error',))
    ex.stub(r'EvaluationError::type_error_single$', type_error_single, 'EvaluationError::type_error_single (opaque constructor)')


def expected_type_name(v):
    """name of the `Type` variant handed to type_error_single"""
    if isinstance(v, Agg) and v.variant:
        return v.variant.lower()
    return repr(v)


def decode_result(sv_by_id):
    """decoder for Result<Value, EvaluationError> returned by the operator kernels"""
    def dec(ex, o):
        v = o.val
        if not (isinstance(v, Agg) and v.variant in ('Ok', 'Err')):
            raise NotEncoded(f'result shape {v!r}')
        p = v.fields[0]
        if v.variant == 'Ok':
            # Value { value: ValueKind::Lit(Literal::X(payload)), loc }
            try:
                vk = p.fields[0]
                lit = vk.fields[0]
                if vk.variant == 'Lit' and lit.variant == 'Long':
                    return 'OkLong', [lit.fields[0].t]
                if vk.variant == 'Lit' and lit.variant == 'Bool':
                    return 'OkBool', [lit.fields[0].t]
            except (AttributeError, IndexError):
                pass
            raise NotEncoded(f'Ok payload {p!r}')
        # Err
        if isinstance(p, Agg) and p.fnames == ('type_error',):
            te = p.fields[0]
            actual = te.fields[1]
            sv = sv_by_id.get(getattr(actual, 'id', None))
            if sv is None:
                raise NotEncoded(f'type error about an unknown value {actual!r}')
            return 'TypeError', [expected_type_name(te.fields[0]), sv.code]
        if isinstance(p, Agg) and p.fnames and p.fnames[0].startswith('from:IntegerOverflowError'):
            inner = p.fields[0]
            return 'Overflow', [('err', inner)]
        raise NotEncoded(f'Err payload {p!r}')
    return dec


def k_binary_arith(ctx):
    P = ctx.prog('core')
    f = P.method('evaluator.rs', 'binary_arith', nargs=4)
    BOP = {}
    state = {}

    def make(ex):
        install_value_stubs(ex)
        a, b = SymValue(ex, 'arg1'), SymValue(ex, 'arg2')
        op = Opaque('ast::ops::BinaryOp', 'op')
        tbl = ex.variants_of('ast::ops::BinaryOp')
        BOP.update(tbl)
        d = ex.disc_term(op)
        state.update(a=a, b=b, op=op, by_id={a.v.id: a, b.v.id: b})
        ins = {'op': d, **a.ins('a'), **b.ins('b')}
        pre = [z3.Or(d == tbl['Add'], d == tbl['Sub'], d == tbl['Mul'])]     # documented precondition (checked by the caller)
        return ins, [op, a.v, b.v, none()], pre

    def decode(ex, o):
        tag, vals = decode_result(state['by_id'])(ex, o)
        if tag == 'Overflow':
            # the error must record this operator and these operands, in this order
            e = vals[0][1]
            okk = False
            try:
                inner = e.fields[0]          # BinaryOpOverflowError { op, arg1, arg2, source_loc }
                okk = (e.variant == 'BinaryOp' and inner.fields[0] is state['op'] and inner.fields[1].id == state['a'].v.id
                       and inner.fields[2].id == state['b'].v.id)
            except (AttributeError, IndexError):
                okk = False
            return 'Overflow', [okk]
        return tag, vals

    def spec(ins, tag, vals):
        a_long, b_long = ins['a_kind'] == 1, ins['b_kind'] == 1
        x, y = ins['a_n'], ins['b_n']
        exact = If(ins['op'] == BOP['Add'], x + y, If(ins['op'] == BOP['Sub'], x - y, x * y))
        if tag == 'OkLong':
            return And(a_long, b_long, in_range(exact, 'i64'), vals[0] == exact)
        if tag == 'Overflow':
            return And(a_long, b_long, Not(in_range(exact, 'i64')), vals[0] if vals else True)
        if tag == 'TypeError':
            # left operand's type error first
            return And(vals[0] == 'long', Or(And(Not(a_long), vals[1] == ins['a_kind']), And(a_long, Not(b_long), vals[1] == ins['b_kind'])))
        return False

    def native(nat, c):
        sym = {BOP['Add']: '+', BOP['Sub']: '-', BOP['Mul']: '*'}[c['op']]
        e = f'{cedar_value(c["a_kind"], c["a_b"], c["a_n"])} {sym} {cedar_value(c["b_kind"], c["b_b"], c["b_n"])}'
        a = nat.ask({'op': 'eval', 'expr': e})
        tag, vals = classify_eval(a)
        if tag == 'Overflow':
            word = {'+': 'add', '-': 'subtract', '*': 'multiply'}[sym]
            return tag, [f'attempting to {word} the values `{c["a_n"]}` and `{c["b_n"]}`' in a.get('msg', '')]
        return tag, vals

    def gen(rand):
        return {'op': rand.choice([BOP['Add'], BOP['Sub'], BOP['Mul']]), **gen_value(rand, 'a', BV), **gen_value(rand, 'b', BV)}

    samples = []
    inputs = [('op', 'isize')] + SymValue.input_decl('a') + SymValue.input_decl('b')
    K = Kernel('evaluator::binary_arith', f, inputs, None, decode, spec, native=native, make=make, gen=gen,
               expect_tags=('OkLong', 'Overflow', 'TypeError'))
    K.samples_fn = lambda: [{'op': BOP[o], 'a_kind': 1, 'a_b': False, 'a_n': x, 'b_kind': 1, 'b_b': False, 'b_n': y}
                            for o in ('Add', 'Sub', 'Mul') for x, y in [(I64_MIN, 0), (0, I64_MIN), (I64_MIN, -1), (-1, I64_MIN), (I64_MAX, 1), (1, I64_MAX),
                                                                         (3037000500, 3037000500), (-3037000500, 3037000500), (I64_MIN, 1), (5, 7)]]
    return K


def k_unary_app(ctx):
    P = ctx.prog('core')
    f = P.method('evaluator.rs', 'unary_app', nargs=3, arg0='UnaryOp')
    UOP = {}
    state = {}

    def make(ex):
        install_value_stubs(ex)
        a = SymValue(ex, 'arg')
        op = Opaque('ast::ops::UnaryOp', 'op')
        UOP.update(ex.variants_of('ast::ops::UnaryOp'))
        d = ex.disc_term(op)
        empty = z3.Bool('set_is_empty')
        state.update(a=a, op=op, by_id={a.v.id: a}, empty=empty)
        ex.stub(r'(^|::)Set::is_empty$', lambda ex, st, callee, A: BoolV(empty), 'Set::is_empty (symbolic emptiness bit)')
        return {'op': d, 'empty': empty, **a.ins('a')}, [op, a.v, none()], []

    def decode(ex, o):
        tag, vals = decode_result(state['by_id'])(ex, o)
        if tag == 'Overflow':
            e = vals[0][1]
            try:
                inner = e.fields[0]
                return 'Overflow', [e.variant == 'UnaryOp' and inner.fields[0] is state['op'] and inner.fields[1].id == state['a'].v.id]
            except (AttributeError, IndexError):
                return 'Overflow', [False]
        return tag, vals

    def spec(ins, tag, vals):
        k, op = ins['a_kind'], ins['op']
        is_not, is_neg, is_empty = op == UOP['Not'], op == UOP['Neg'], op == UOP['IsEmpty']
        if tag == 'OkBool':
            return Or(And(is_not, k == 0, vals[0] == Not(ins['a_b'])), And(is_empty, k == 4, vals[0] == ins['empty']))
        if tag == 'OkLong':
            return And(is_neg, k == 1, ins['a_n'] != I64_MIN, vals[0] == -ins['a_n'])
        if tag == 'Overflow':
            return And(is_neg, k == 1, ins['a_n'] == I64_MIN, vals[0] if vals else True)
        if tag == 'TypeError':
            return And(vals[1] == k, Or(And(is_not, k != 0, vals[0] == 'bool'), And(is_neg, k != 1, vals[0] == 'long'), And(is_empty, k != 4, vals[0] == 'set')))
        return False

    def native(nat, c):
        v = cedar_value(c['a_kind'], c['a_b'], c['a_n'], empty_set=c['empty'])
        e = {UOP['Not']: f'!{v}', UOP['Neg']: f'-{v}', UOP['IsEmpty']: f'{v}.isEmpty()'}[c['op']]
        if c['op'] == UOP['Neg'] and c['a_kind'] == 1:
            # `-N` with a literal would be folded by the parser; negate a computed long instead
            n = c['a_n']
            v2 = f'({n} + 0)' if n >= 0 else (f'(({n + 1}) - 1)' if n > I64_MIN else f'(({n + 1}) - 1)')
            e = f'-{v2}'
        a = nat.ask({'op': 'eval', 'expr': e})
        tag, vals = classify_eval(a)
        if tag == 'Overflow':
            return tag, [f'negate the value `{c["a_n"]}`' in a.get('msg', '')]
        return tag, vals

    def gen(rand):
        return {'op': rand.choice(list(UOP.values())), 'empty': rand.random() < 0.5, **gen_value(rand, 'a', BV)}

    inputs = [('op', 'isize'), ('empty', 'bool')] + SymValue.input_decl('a')
    K = Kernel('evaluator::unary_app', f, inputs, None, decode, spec, native=native, make=make, gen=gen,
               expect_tags=('OkLong', 'OkBool', 'Overflow', 'TypeError'))
    K.samples_fn = lambda: [{'op': UOP['Neg'], 'empty': False, 'a_kind': 1, 'a_b': False, 'a_n': n} for n in (I64_MIN, I64_MIN + 1, I64_MAX, 0, -1)] + \
                           [{'op': UOP['IsEmpty'], 'empty': e, 'a_kind': 4, 'a_b': False, 'a_n': 0} for e in (True, False)]
    return K


KERNELS = [k_binary_arith, k_unary_app]


def families(ctx):
    return [(mk.__name__, (lambda mk=mk: run_kernel(ctx, mk(ctx)))) for mk in KERNELS]


def run(ctx):
    for name, fn in families(ctx):
        ctx.guarded(name, fn)
    ctx.bounds += ['operand payloads: every i64; operand kinds: all 7 Cedar value kinds; no unrolling (loop-free kernels)']
    ctx.assumptions += ['EvaluationError constructors (type_error_single) and derive-generated From<..> for EvaluationError are opaque logged constructors',
                        'symbolic Value = opaque struct with lazily created ValueKind / Literal discriminants and payloads',
                        'replay through cedar_policy::eval_expression on concretised operands']
    return ctx.finish('Solver-decided operator semantics of the evaluator kernels (unary_app, binary_arith, ...) executed from the MIR of the current tree over '
                      'arbitrary Values: exact checked arithmetic, error class and operand order, type errors name the first offending operand.')
