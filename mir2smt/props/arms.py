"""Obligations for single arms of Evaluator::partial_interpret_internal / eval_if / get_attr (shared by C02 and C13)."""
import itertools
import z3
from ..framework import And, Or, Not, Implies, If, MachineryError, model_val
from ..executor import IntV, BoolV, Agg, Opaque, Ref, NotEncoded, UNIT
from .common import KINDS, cedar_value, classify_eval, KIND_NATIVE
from .evalarm import Harness, Sub, operand_text

PV = 'ast::partial_value::PartialValue'
EK = 'ast::expr::ExprKind'


def same(actual, expected):
    """z3 Bool: does the actual outcome descriptor equal the expected one"""
    if actual[0] != expected[0]:
        return z3.BoolVal(False)
    if actual[0] in ('bool', 'long'):
        e = expected[1]
        e = e if isinstance(e, z3.ExprRef) else (z3.BoolVal(e) if isinstance(e, bool) else z3.IntVal(e))
        return actual[1] == e
    return z3.BoolVal(tuple(actual[1:]) == tuple(expected[1:]))


def zb(x):
    return x if isinstance(x, z3.ExprRef) else z3.BoolVal(bool(x))


class Arm:
    def __init__(self, name, func_locator, subs, build, cases, text, extra_inputs=(), setup=None, args=None, role=None, pre=None):
        self.name, self.func_locator, self.subs, self.build, self.cases, self.text = name, func_locator, subs, build, cases, text
        self.extra_inputs, self.setup, self.args, self.role, self.pre = list(extra_inputs), setup, args, role, pre


def native_outcome(ctx, expr, entities=None, partial=False):
    a = ctx.native.ask({'op': 'peval', 'expr': expr, 'entities': entities, 'partial': partial})
    if 'panic' in a:
        return ('panic', a['panic'])
    if 'value' in a:
        k, v = a['value']['kind'], a['value']['v']
        if k == 'bool':
            return ('bool', v == 'true')
        if k == 'long':
            return ('long', int(v))
        return ('value_kind', k, v)
    if 'residual' in a:
        return ('residual', a['residual'])
    if 'err' in a:
        if a['err'] == 'TypeError':
            tag, vals = classify_eval({'err': 'TypeError', 'msg': a.get('msg', '')})
            return ('type_error', str(vals[0]).split(' ')[0] if not str(vals[0]).startswith('one of') else 'advice', vals[1])
        return ('error', a['err'])
    raise MachineryError(f'peval answer {a}')


def expected_native(exp, c):
    """what the native evaluator must report for an expected descriptor (concrete inputs c)"""
    k = exp[0]
    if k in ('bool', 'long'):
        return (k, exp[1])
    if k == 'err_of':
        return ('error', 'IntegerOverflow')
    if k == 'type_error':
        name = exp[2]
        return ('type_error', exp[1], c[f'{name}_kind'])
    if k == 'value_of':
        name = exp[1]
        kk = KINDS[c[f'{name}_kind']]
        if kk == 'bool':
            return ('bool', c[f'{name}_b'])
        if kk == 'long':
            return ('long', c[f'{name}_n'])
        return ('value_kind', kk)
    if k == 'error':
        return ('error', exp[1])
    return exp


def residual_sound(ctx, expr, residual, unknowns, entities=None):
    """C13 at one node: under every binding of the unknowns the residual evaluates like the original expression"""
    problems = []
    for combo in itertools.product(['true', 'false', '7', '(9223372036854775807 + 1)'], repeat=len(unknowns)):
        e1, e2 = expr, residual
        for u, v in zip(unknowns, combo):
            e1 = e1.replace(f'unknown("{u}")', v)
            e2 = e2.replace(f'unknown("{u}")', v)
        r1, r2 = native_outcome(ctx, e1, entities), native_outcome(ctx, e2, entities)
        n1 = r1[:2] if r1[0] in ('type_error', 'value_kind') else r1
        n2 = r2[:2] if r2[0] in ('type_error', 'value_kind') else r2
        if r1[0] == 'error' and r2[0] in ('error', 'type_error') or r2[0] == 'error' and r1[0] in ('error', 'type_error'):
            continue                       # both fail; which error surfaces first may differ between an expression and its residual
        if n1 != n2:
            problems.append(f'binding {dict(zip(unknowns, combo))}: original gives {r1}, residual `{residual}` gives {r2}')
    return problems


def run_arm(ctx, A):
    P = ctx.prog('core')
    f = A.func_locator(P)
    ctx.use(f)
    ex = ctx.new_exec('core')
    h = Harness(ctx, ex, f)
    subs = {n: h.sub(n) for n in A.subs}
    if A.setup:
        A.setup(h)
    node = A.build(h)
    ex.stub(r'(^|::)Expr::(<.*>::)?expr_kind$', lambda ex, st, c, A_: ex.new_cell(st, node, 'exprkind'), 'Expr::expr_kind of the node under evaluation: the pinned variant with opaque sub-expressions')
    heap = {'EV': Opaque('evaluator::Evaluator', 'eval'), 'E': Opaque('ast::expr::Expr', 'this_expr'), 'S': Opaque('SlotEnv', 'slots')}
    args = A.args(h, heap) if A.args else [Ref(0, ('local', 'EV')), Ref(0, ('local', 'E')), Ref(0, ('local', 'S'))]
    outs = ex.run(f, args, heap=heap)
    ctx.absorb(ex)
    ctx.panic_summary(A.name, outs, ex)
    ins = {}
    for s in subs.values():
        ins.update(s.ins())
    for n, t in getattr(h, 'extra_ins', {}).items():
        ins[n] = t
    names = list(ins)
    cases = A.cases(ins)
    pre = [zb(A.pre(ins))] if A.pre else []

    def replay(m, o, why):
        c = {n: model_val(m, ins[n]) for n in names}
        cs = A.cases(c)
        hit = [(exp, evald) for cond, exp, evald in cs if cond]
        if len(hit) != 1:
            return ctx.mismatch(A.name, f'specification cases are not a partition for {c}: {len(hit)} cases hold')
        exp, evald = hit[0]
        text, entities, partial = A.text(c)
        unknowns = [n for n in A.subs if c.get(f'{n}_out') == 1]
        got = native_outcome(ctx, text, entities, partial)
        if exp[0] == 'residual':
            if got[0] != 'residual':
                return ctx.violation(A.name, A.role or A.name, f'{why}; `{text}`: real evaluator returns {got}, a residual is prescribed', {'op': 'peval', 'expr': text, 'entities': entities, 'partial': partial})
            probs = residual_sound(ctx, text, got[1], unknowns, entities)
            if probs:
                return ctx.violation(A.name, A.role or A.name, f'{why}; `{text}`: residual unsound: {probs[0]}', {'op': 'peval', 'expr': text, 'problems': probs[:4]})
            return ctx.mismatch(A.name, f'{why}; but the real evaluator returns the sound residual `{got[1]}` for `{text}`')
        want = expected_native(exp, c)
        g = got[:len(want)]
        if tuple(g) != tuple(want):
            return ctx.violation(A.name, A.role or A.name, f'{why}; `{text}`: real evaluator returns {got}, the language semantics prescribes {want}',
                                 {'op': 'peval', 'expr': text, 'entities': entities, 'partial': partial, 'expected': list(map(str, want)), 'got': list(map(str, got))})
        return ctx.mismatch(A.name, f'{why}; but the real evaluator answers {got} as prescribed for `{text}`')

    for i, o in enumerate(outs):
        if o.kind != 'ret':
            continue
        d = h.describe(o)
        ev = h.evaluated(o)
        claims = []
        for cond, exp, evald in cases:
            claims.append(z3.Implies(zb(cond), z3.And(same(d, exp), z3.BoolVal(list(ev) == list(evald)))))
        ctx.decide(f'{A.name}/path{i}: {d[0]}', pre + o.pc + [z3.Not(z3.And(claims))], ex=ex,
                   sample={'path_condition': [str(c)[:70] for c in o.pc][:6], 'outcome': str(d)[:200], 'evaluated': ev} if i < 3 else None,
                   on_sat=lambda m, o=o, d=d, ev=ev: replay(m, o, f'arm yields {str(d)[:120]} after evaluating {ev}'))
    rets = [o for o in outs if o.kind == 'ret']
    ctx.decide(f'{A.name}/paths-cover', pre + [z3.Not(z3.Or([z3.And(o.pc) if o.pc else z3.BoolVal(True) for o in rets]))], ex=ex,
               on_sat=lambda m: replay(m, None, 'some inputs reach no outcome'))
    ctx.decide(f'{A.name}/spec-cases-partition', pre + list(ex.invariants) + [z3.Not(z3.PbEq([(zb(c[0]), 1) for c in cases], 1))])
    ctx.decide(f'{A.name}/witness', pre + [z3.Or([z3.And(o.pc) if o.pc else z3.BoolVal(True) for o in rets])], expect='sat', ex=ex)
    # translator validation on seeded concrete inputs: the case table itself against the real evaluator
    if not ctx.panic_only:
        n = 0
        for _ in range(10 if ctx.tier == 'quick' else 40):
            c = {}
            for s in A.subs:
                c[f'{s}_out'] = ctx.rand.choice([0, 0, 0, 1, 2])
                c[f'{s}_kind'] = ctx.rand.choice([0, 0, 0, 1, 2, 3, 4, 5, 6])
                c[f'{s}_b'] = ctx.rand.random() < 0.5
                c[f'{s}_n'] = ctx.rand.choice([0, 1, -1, 5, (1 << 63) - 1, -(1 << 63)])
            for nme, ty, gen in A.extra_inputs:
                c[nme] = gen(ctx.rand)
            if A.pre and not A.pre(c):
                continue
            hit = [(exp, evald) for cond, exp, evald in A.cases(c) if cond]
            if len(hit) != 1:
                ctx.mismatch(A.name, f'specification cases are not a partition for {c}')
                break
            exp = hit[0][0]
            text, entities, partial = A.text(c)
            got = native_outcome(ctx, text, entities, partial)
            n += 1
            if exp[0] == 'residual':
                unknowns = [x for x in A.subs if c.get(f'{x}_out') == 1]
                if got[0] != 'residual' or residual_sound(ctx, text, got[1], unknowns, entities):
                    ctx.mismatch(A.name, f'case table vs real evaluator on `{text}`: {got}')
                    break
                continue
            want = expected_native(exp, c)
            if tuple(got[:len(want)]) != tuple(want):
                ctx.mismatch(A.name, f'case table vs real evaluator on `{text}`: table says {want}, evaluator says {got}')
                break
        ctx.validation_samples += n


# ---------------------------------------------------------------------------------------------- && || if

def pii(P):
    return P.method('evaluator.rs', 'partial_interpret_internal', nargs=3)


def is_bool(ins, n):
    return ins[f'{n}_kind'] == 0


def arm_and_or(which):
    short = False if which == 'And' else True        # the left value that short-circuits

    def build(h):
        return Agg('variant', EK, which, [h.subs['left'].arc, h.subs['right'].arc], ('left', 'right'))

    def cases(ins):
        lo, ro = ins['left_out'], ins['right_out']
        lb, rb = ins['left_b'], ins['right_b']
        lv, rv = And(lo == 0, is_bool(ins, 'left')), And(ro == 0, is_bool(ins, 'right'))
        go = And(lv, lb != short)            # left is the non-short-circuiting boolean: the right operand decides
        ctor = which.lower()
        return [
            (lo == 2, ('err_of', 'left'), ['left']),
            (And(lo == 0, Not(is_bool(ins, 'left'))), ('type_error', 'bool', 'left'), ['left']),
            (And(lv, lb == short), ('bool', short), ['left']),
            (And(go, ro == 2), ('err_of', 'right'), ['left', 'right']),
            (And(go, ro == 0, Not(is_bool(ins, 'right'))), ('type_error', 'bool', 'right'), ['left', 'right']),
            (And(go, rv), ('bool', rb), ['left', 'right']),
            (And(go, ro == 1), ('residual', (ctor, ('val', ('lit', 'false' if short else 'true')), ('res', 'right'))), ['left', 'right']),
            (And(lo == 1, ro == 0), ('residual', (ctor, ('res', 'left'), ('from_value', ('val', 'right')))), ['left', 'right']),
            (And(lo == 1, ro == 1), ('residual', (ctor, ('res', 'left'), ('res', 'right'))), ['left', 'right']),
            (And(lo == 1, ro == 2), ('residual', (ctor, ('res', 'left'), ('orig', 'right'))), ['left', 'right']),
        ]

    def text(c):
        op = '&&' if which == 'And' else '||'
        return f'({operand_text(c, "left")}) {op} ({operand_text(c, "right")})', None, False
    return Arm(f'evaluator arm {which}', pii, ['left', 'right'], build, cases, text, role=f'evaluator.rs: partial_interpret_internal {which} arm')


def arm_if():
    def build(h):
        return None

    def cases(ins):
        go, to, eo = ins['guard_out'], ins['then_out'], ins['else_out']
        gv = And(go == 0, is_bool(ins, 'guard'))
        out = []
        out.append((go == 2, ('err_of', 'guard'), ['guard']))
        out.append((And(go == 0, Not(is_bool(ins, 'guard'))), ('type_error', 'bool', 'guard'), ['guard']))
        for br, flag in (('then', True), ('else', False)):
            sel = And(gv, ins['guard_b'] == flag)
            bo = ins[f'{br}_out']
            out.append((And(sel, bo == 2), ('err_of', br), ['guard', br]))
            out.append((And(sel, bo == 0), ('value_of', br), ['guard', br]))
            out.append((And(sel, bo == 1), ('residual', ('res', br)), ['guard', br]))
        # residual guard: both branches are partially evaluated best-effort; a failing branch stays as written
        def brshape(name, o):
            return {0: ('from_value', ('val', name)), 1: ('res', name), 2: ('orig', name)}[o]
        for t in (0, 1, 2):
            for e in (0, 1, 2):
                out.append((And(go == 1, to == t, eo == e), ('residual', ('ite_arc', ('res', 'guard'), brshape('then', t), brshape('else', e))), ['guard', 'then', 'else']))
        return out

    def text(c):
        return f'if ({operand_text(c, "guard")}) then ({operand_text(c, "then")}) else ({operand_text(c, "else")})', None, False

    def args(h, heap):
        heap['G'] = h.subs['guard'].expr
        heap['T'] = h.subs['then'].arc
        heap['F'] = h.subs['else'].arc
        return [Ref(0, ('local', 'EV')), Ref(0, ('local', 'G')), Ref(0, ('local', 'T')), Ref(0, ('local', 'F')), Ref(0, ('local', 'S'))]
    return Arm('evaluator eval_if', lambda P: P.method('evaluator.rs', 'eval_if', nargs=5), ['guard', 'then', 'else'], build, cases, text, args=args, role='evaluator.rs: eval_if')


ARMS = [lambda: arm_and_or('And'), lambda: arm_and_or('Or'), arm_if]


def families(ctx):
    out = []
    for mk in ARMS:
        A = mk()
        out.append((A.name, (lambda A=A: run_arm(ctx, A))))
    return out
