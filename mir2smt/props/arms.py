"""Obligations for single arms of Evaluator::partial_interpret_internal / eval_if / get_attr (shared by C02 and C13)."""
import itertools
import z3
from ..framework import And, Or, Not, Implies, If, MachineryError, model_val
from ..executor import IntV, BoolV, Agg, Opaque, Ref, NotEncoded, UNIT
from .common import KINDS, cedar_value, classify_eval, KIND_NATIVE
from .evalarm import Harness, Sub, operand_text
from ..models import ok, err, some, none

PV = 'ast::partial_value::PartialValue'
EK = 'ast::expr::ExprKind'


def same(actual, expected):
    """z3 Bool: does the actual outcome descriptor equal the expected one"""
    if actual[0] != expected[0]:
        return z3.BoolVal(False)
    if actual[0] in ('bool', 'long'):
        e = expected[1]
        e = e if isinstance(e, z3.ExprRef) else (z3.BoolVal(e) if isinstance(e, bool) else z3.IntVal(e))
        return actual[1] == e
    return z3.BoolVal(tuple(actual[1:]) == tuple(expected[1:]))


def zb(x):
    return x if isinstance(x, z3.ExprRef) else z3.BoolVal(bool(x))


class Arm:
    def __init__(self, name, func_locator, subs, build, cases, text, extra_inputs=(), setup=None, args=None, role=None, pre=None):
        self.name, self.func_locator, self.subs, self.build, self.cases, self.text = name, func_locator, subs, build, cases, text
        self.extra_inputs, self.setup, self.args, self.role, self.pre = list(extra_inputs), setup, args, role, pre


def native_outcome(ctx, expr, entities=None, partial=False):
    a = ctx.native.ask({'op': 'peval', 'expr': expr, 'entities': entities, 'partial': partial})
    if 'panic' in a:
        return ('panic', a['panic'])
    if 'value' in a:
        k, v = a['value']['kind'], a['value']['v']
        if k == 'bool':
            return ('bool', v == 'true')
        if k == 'long':
            return ('long', int(v))
        return ('value_kind', k, v)
    if 'residual' in a:
        return ('residual', a['residual'])
    if 'err' in a:
        if a['err'] == 'TypeError':
            tag, vals = classify_eval({'err': 'TypeError', 'msg': a.get('msg', '')})
            return ('type_error', str(vals[0]).lstrip('(').split(' ')[0] if not str(vals[0]).startswith('one of') else 'advice', vals[1])
        return ('error', a['err'])
    raise MachineryError(f'peval answer {a}')


def expected_native(exp, c):
    """what the native evaluator must report for an expected descriptor (concrete inputs c)"""
    k = exp[0]
    if k in ('bool', 'long'):
        return (k, exp[1])
    if k == 'err_of':
        return ('error', 'IntegerOverflow')
    if k == 'type_error':
        name = exp[2]
        return ('type_error', exp[1], c[f'{name}_kind'])
    if k == 'value_of':
        name = exp[1]
        kk = KINDS[c[f'{name}_kind']]
        if kk == 'bool':
            return ('bool', c[f'{name}_b'])
        if kk == 'long':
            return ('long', c[f'{name}_n'])
        return ('value_kind', kk)
    if k == 'error':
        return ('error', exp[1])
    return exp


def residual_sound(ctx, expr, residual, unknowns, entities=None):
    """C13 at one node: under every binding of the unknowns the residual evaluates like the original expression"""
    problems = []
    for combo in itertools.product(['true', 'false', '7', '(9223372036854775807 + 1)'], repeat=len(unknowns)):
        e1, e2 = expr, residual
        for u, v in zip(unknowns, combo):
            e1 = e1.replace(f'unknown("{u}")', v)
            e2 = e2.replace(f'unknown("{u}")', v)
        r1, r2 = native_outcome(ctx, e1, entities), native_outcome(ctx, e2, entities)
        n1 = r1[:2] if r1[0] in ('type_error', 'value_kind') else r1
        n2 = r2[:2] if r2[0] in ('type_error', 'value_kind') else r2
        if r1[0] == 'error' and r2[0] in ('error', 'type_error') or r2[0] == 'error' and r1[0] in ('error', 'type_error'):
            continue                       # both fail; which error surfaces first may differ between an expression and its residual
        if n1 != n2:
            problems.append(f'binding {dict(zip(unknowns, combo))}: original gives {r1}, residual `{residual}` gives {r2}')
    return problems


def run_arm(ctx, A):
    P = ctx.prog('core')
    f = A.func_locator(P)
    ctx.use(f)
    ex = ctx.new_exec('core')
    h = Harness(ctx, ex, f)
    subs = {n: h.sub(n) for n in A.subs}
    if A.setup:
        A.setup(h)
    node = A.build(h)
    def expr_kind(ex, st, c, A_):
        e = h._resolve(st, A_[0])
        if getattr(e, 'what', None) == 'this_expr' and node is not None:
            return ex.new_cell(st, node, 'exprkind')
        # any other expression (a residual returned by a sub-evaluation): an arbitrary node kind
        key = ('exprkind', getattr(e, 'id', None))
        if key not in ex.memo:
            ex.memo[key] = Opaque('ast::expr::ExprKind', f'kind of {getattr(e, "what", "?")}')
        return ex.new_cell(st, ex.memo[key], 'exprkind')
    ex.stub(r'(^|::)Expr::(<.*>::)?expr_kind$', expr_kind, 'Expr::expr_kind: the pinned variant for the node under evaluation, an arbitrary kind for residuals')
    heap = {'EV': Opaque('evaluator::Evaluator', 'eval'), 'E': Opaque('ast::expr::Expr', 'this_expr'), 'S': Opaque('SlotEnv', 'slots')}
    args = A.args(h, heap) if A.args else [Ref(0, ('local', 'EV')), Ref(0, ('local', 'E')), Ref(0, ('local', 'S'))]
    outs = ex.run(f, args, heap=heap)
    ctx.absorb(ex)
    ctx.panic_summary(A.name, outs, ex)
    ins = {}
    for s in subs.values():
        ins.update(s.ins())
    for n, t in getattr(h, 'extra_ins', {}).items():
        ins[n] = t
    names = list(ins)
    cases = A.cases(ins)
    pre = [zb(A.pre(ins))] if A.pre else []

    def replay(m, o, why):
        c = {n: model_val(m, ins[n]) for n in names}
        cs = A.cases(c)
        hit = [(exp, evald) for cond, exp, evald in cs if cond]
        if len(hit) != 1:
            return ctx.mismatch(A.name, f'specification cases are not a partition for {c}: {len(hit)} cases hold')
        exp, evald = hit[0]
        text, entities, partial = A.text(c)
        unknowns = [n for n in A.subs if c.get(f'{n}_out') == 1]
        got = native_outcome(ctx, text, entities, partial)
        if exp[0] == 'residual':
            if got[0] != 'residual':
                return ctx.violation(A.name, A.role or A.name, f'{why}; `{text}`: real evaluator returns {got}, a residual is prescribed', {'op': 'peval', 'expr': text, 'entities': entities, 'partial': partial})
            probs = [] if partial else residual_sound(ctx, text, got[1], unknowns, entities)
            if probs:
                return ctx.violation(A.name, A.role or A.name, f'{why}; `{text}`: residual unsound: {probs[0]}', {'op': 'peval', 'expr': text, 'problems': probs[:4]})
            return ctx.mismatch(A.name, f'{why}; but the real evaluator returns the sound residual `{got[1]}` for `{text}`')
        want = (A.native_expect(exp, c) if getattr(A, 'native_expect', None) else None) or expected_native(exp, c)
        g = got[:len(want)]
        if tuple(g) != tuple(want):
            return ctx.violation(A.name, A.role or A.name, f'{why}; `{text}`: real evaluator returns {got}, the language semantics prescribes {want}',
                                 {'op': 'peval', 'expr': text, 'entities': entities, 'partial': partial, 'expected': list(map(str, want)), 'got': list(map(str, got))})
        return ctx.mismatch(A.name, f'{why}; but the real evaluator answers {got} as prescribed for `{text}`')

    for i, o in enumerate(outs):
        if o.kind != 'ret':
            continue
        d = h.describe(o)
        ev = h.evaluated(o)
        claims = []
        if getattr(A, 'log_check', None) is not None:
            claims.append(z3.BoolVal(bool(A.log_check(h, o))))
        for cond, exp, evald in cases:
            claims.append(z3.Implies(zb(cond), z3.And(same(d, exp), z3.BoolVal(list(ev) == list(evald)))))
        ctx.decide(f'{A.name}/path{i}: {d[0]}', pre + o.pc + [z3.Not(z3.And(claims))], ex=ex,
                   sample={'path_condition': [str(c)[:70] for c in o.pc][:6], 'outcome': str(d)[:200], 'evaluated': ev} if i < 3 else None,
                   on_sat=lambda m, o=o, d=d, ev=ev: replay(m, o, f'arm yields {str(d)[:120]} after evaluating {ev}'))
    rets = [o for o in outs if o.kind == 'ret']
    ctx.decide(f'{A.name}/paths-cover', pre + [z3.Not(z3.Or([z3.And(o.pc) if o.pc else z3.BoolVal(True) for o in rets]))], ex=ex,
               on_sat=lambda m: replay(m, None, 'some inputs reach no outcome'))
    ctx.decide(f'{A.name}/spec-cases-partition', pre + list(ex.invariants) + [z3.Not(z3.PbEq([(zb(c[0]), 1) for c in cases], 1))])
    ctx.decide(f'{A.name}/witness', pre + [z3.Or([z3.And(o.pc) if o.pc else z3.BoolVal(True) for o in rets])], expect='sat', ex=ex)
    # translator validation on seeded concrete inputs: the case table itself against the real evaluator
    if not ctx.panic_only:
        n = 0
        for _ in range(10 if ctx.tier == 'quick' else 40):
            c = {}
            for s in A.subs:
                c[f'{s}_out'] = ctx.rand.choice([0, 0, 0, 1, 2])
                c[f'{s}_kind'] = ctx.rand.choice([0, 0, 0, 1, 2, 3, 4, 5, 6])
                c[f'{s}_b'] = ctx.rand.random() < 0.5
                c[f'{s}_n'] = ctx.rand.choice([0, 1, -1, 5, (1 << 63) - 1, -(1 << 63)])
            for nme, ty, gen in A.extra_inputs:
                c[nme] = gen(ctx.rand)
            if A.pre and not A.pre(c):
                continue
            hit = [(exp, evald) for cond, exp, evald in A.cases(c) if cond]
            if len(hit) != 1:
                ctx.mismatch(A.name, f'specification cases are not a partition for {c}')
                break
            exp = hit[0][0]
            text, entities, partial = A.text(c)
            got = native_outcome(ctx, text, entities, partial)
            n += 1
            if exp[0] == 'residual':
                unknowns = [x for x in A.subs if c.get(f'{x}_out') == 1]
                if got[0] != 'residual' or (not partial and residual_sound(ctx, text, got[1], unknowns, entities)):
                    ctx.mismatch(A.name, f'case table vs real evaluator on `{text}`: {got}')
                    break
                continue
            want = (A.native_expect(exp, c) if getattr(A, 'native_expect', None) else None) or expected_native(exp, c)
            if tuple(got[:len(want)]) != tuple(want):
                ctx.mismatch(A.name, f'case table vs real evaluator on `{text}`: table says {want}, evaluator says {got}')
                break
        ctx.validation_samples += n


# ---------------------------------------------------------------------------------------------- && || if

def pii(P):
    return P.method('evaluator.rs', 'partial_interpret_internal', nargs=3)


def is_bool(ins, n):
    return ins[f'{n}_kind'] == 0


def arm_and_or(which):
    short = False if which == 'And' else True        # the left value that short-circuits

    def build(h):
        return Agg('variant', EK, which, [h.subs['left'].arc, h.subs['right'].arc], ('left', 'right'))

    def cases(ins):
        lo, ro = ins['left_out'], ins['right_out']
        lb, rb = ins['left_b'], ins['right_b']
        lv, rv = And(lo == 0, is_bool(ins, 'left')), And(ro == 0, is_bool(ins, 'right'))
        go = And(lv, lb != short)            # left is the non-short-circuiting boolean: the right operand decides
        ctor = which.lower()
        return [
            (lo == 2, ('err_of', 'left'), ['left']),
            (And(lo == 0, Not(is_bool(ins, 'left'))), ('type_error', 'bool', 'left'), ['left']),
            (And(lv, lb == short), ('bool', short), ['left']),
            (And(go, ro == 2), ('err_of', 'right'), ['left', 'right']),
            (And(go, ro == 0, Not(is_bool(ins, 'right'))), ('type_error', 'bool', 'right'), ['left', 'right']),
            (And(go, rv), ('bool', rb), ['left', 'right']),
            (And(go, ro == 1), ('residual', (ctor, ('val', ('lit', 'false' if short else 'true')), ('res', 'right'))), ['left', 'right']),
            (And(lo == 1, ro == 0), ('residual', (ctor, ('res', 'left'), ('from_value', ('val', 'right')))), ['left', 'right']),
            (And(lo == 1, ro == 1), ('residual', (ctor, ('res', 'left'), ('res', 'right'))), ['left', 'right']),
            (And(lo == 1, ro == 2), ('residual', (ctor, ('res', 'left'), ('orig', 'right'))), ['left', 'right']),
        ]

    def text(c):
        op = '&&' if which == 'And' else '||'
        return f'({operand_text(c, "left")}) {op} ({operand_text(c, "right")})', None, False
    return Arm(f'evaluator arm {which}', pii, ['left', 'right'], build, cases, text, role=f'evaluator.rs: partial_interpret_internal {which} arm')


def arm_if():
    def build(h):
        return None

    def cases(ins):
        go, to, eo = ins['guard_out'], ins['then_out'], ins['else_out']
        gv = And(go == 0, is_bool(ins, 'guard'))
        out = []
        out.append((go == 2, ('err_of', 'guard'), ['guard']))
        out.append((And(go == 0, Not(is_bool(ins, 'guard'))), ('type_error', 'bool', 'guard'), ['guard']))
        for br, flag in (('then', True), ('else', False)):
            sel = And(gv, ins['guard_b'] == flag)
            bo = ins[f'{br}_out']
            out.append((And(sel, bo == 2), ('err_of', br), ['guard', br]))
            out.append((And(sel, bo == 0), ('value_of', br), ['guard', br]))
            out.append((And(sel, bo == 1), ('residual', ('res', br)), ['guard', br]))
        # residual guard: both branches are partially evaluated best-effort; a failing branch stays as written
        def brshape(name, o):
            return {0: ('from_value', ('val', name)), 1: ('res', name), 2: ('orig', name)}[o]
        for t in (0, 1, 2):
            for e in (0, 1, 2):
                out.append((And(go == 1, to == t, eo == e), ('residual', ('ite_arc', ('res', 'guard'), brshape('then', t), brshape('else', e))), ['guard', 'then', 'else']))
        return out

    def text(c):
        return f'if ({operand_text(c, "guard")}) then ({operand_text(c, "then")}) else ({operand_text(c, "else")})', None, False

    def args(h, heap):
        heap['G'] = h.subs['guard'].expr
        heap['T'] = h.subs['then'].arc
        heap['F'] = h.subs['else'].arc
        return [Ref(0, ('local', 'EV')), Ref(0, ('local', 'G')), Ref(0, ('local', 'T')), Ref(0, ('local', 'F')), Ref(0, ('local', 'S'))]
    return Arm('evaluator eval_if', lambda P: P.method('evaluator.rs', 'eval_if', nargs=5), ['guard', 'then', 'else'], build, cases, text, args=args, role='evaluator.rs: eval_if')


ARMS = [lambda: arm_and_or('And'), lambda: arm_and_or('Or'), arm_if]


def families(ctx):
    out = []
    for mk in ARMS:
        A = mk()
        out.append((A.name, (lambda A=A: run_arm(ctx, A))))
    out.append(('evaluator eval_in', lambda: eval_in_kernel(ctx)))
    out.append(('Set fast/authoritative agreement', lambda: set_kernels(ctx)))
    return out


# ---------------------------------------------------------------------------------------------- unary / binary application

I64_MIN, I64_MAX = -(1 << 63), (1 << 63) - 1
BIN_SYM = {'Eq': '==', 'Less': '<', 'LessEq': '<=', 'Add': '+', 'Sub': '-', 'Mul': '*'}


def ref_value(c, n):
    """python value of a concrete operand (as concretised by cedar_value)"""
    k = KINDS[c[f'{n}_kind']]
    return (k, c[f'{n}_b'] if k == 'bool' else (c[f'{n}_n'] if k == 'long' else None))


def ref_binop(op, c, a='arg1', b='arg2'):
    """reference semantics of the scalar binary operators on concretised operands -> expected native outcome"""
    (ka, va), (kb, vb) = ref_value(c, a), ref_value(c, b)
    if op == 'Eq':
        return ('bool', ka == kb and va == vb)
    if op in ('Less', 'LessEq'):
        if ka == 'long' and kb == 'long':
            return ('bool', va < vb if op == 'Less' else va <= vb)
        if ka == 'long':
            return ('type_error', 'long', c[f'{b}_kind'])
        if kb == 'long':
            return ('type_error', 'long', c[f'{a}_kind'])
        return ('type_error', 'advice', c[f'{a}_kind'])
    if ka != 'long':
        return ('type_error', 'long', c[f'{a}_kind'])
    if kb != 'long':
        return ('type_error', 'long', c[f'{b}_kind'])
    r = {'Add': va + vb, 'Sub': va - vb, 'Mul': va * vb}[op]
    return ('long', r) if I64_MIN <= r <= I64_MAX else ('error', 'IntegerOverflow')


def arm_binary_scalar(opname):
    """BinaryApp with op in {==, <, <=, +, -, *}: operands evaluated left to right, the first error wins, two values go to
    binary_relation / binary_arith IN THIS ORDER with THIS operator, residual operands rebuild the application"""
    callee = 'binary_relation' if opname in ('Eq', 'Less', 'LessEq') else 'binary_arith'
    st_ = {}

    def setup(h):
        ex = h.ex
        RES = z3.Int('kernel_result')         # 0: Ok(value), 1: Err
        ex.invariants.append(z3.And(RES >= 0, RES <= 1))
        h.extra_ins = {'kernel_result': RES}
        rv, re_ = Opaque('ast::value::Value', 'kernel value'), Opaque('EvaluationError', 'kernel error')
        h.by_val[rv.id] = type('X', (), {'name': 'kernel'})()
        h.by_err[re_.id] = type('X', (), {'name': 'kernel'})()
        ex.stub(r'(^|::)' + callee + '$', lambda ex, st, c, A: [([RES == 0], ok(rv)), ([RES == 1], err(re_))], f'{callee}: arbitrary result, logged')
        for sc in ('short_circuit_value_and_residual', 'short_circuit_residual_and_value', 'short_circuit_two_typed_residuals'):
            ex.stub(r'::' + sc + '$', lambda ex, st, c, A: none(), f'{sc}: returns None (its own obligations are separate)')
        st_['h'] = h

    def build(h):
        return Agg('variant', EK, 'BinaryApp', [Agg('variant', 'ast::ops::BinaryOp', opname, []), h.subs['arg1'].arc, h.subs['arg2'].arc], ('op', 'arg1', 'arg2'))

    def cases(ins):
        o1, o2 = ins['arg1_out'], ins['arg2_out']
        kr = ins['kernel_result']
        both = ['arg1', 'arg2']
        return [
            (o1 == 2, ('err_of', 'arg1'), ['arg1']),
            (And(o1 != 2, o2 == 2), ('err_of', 'arg2'), both),
            (And(o1 == 0, o2 == 0, kr == 0), ('value_of', 'kernel'), both),
            (And(o1 == 0, o2 == 0, kr == 1), ('err_of', 'kernel'), both),
            (And(o1 == 0, o2 == 1), ('residual', ('binary_app', ('enum', opname), ('from_value', ('val', 'arg1')), ('res', 'arg2'))), both),
            (And(o1 == 1, o2 == 0), ('residual', ('binary_app', ('enum', opname), ('res', 'arg1'), ('from_value', ('val', 'arg2')))), both),
            (And(o1 == 1, o2 == 1), ('residual', ('binary_app', ('enum', opname), ('res', 'arg1'), ('res', 'arg2'))), both),
        ]

    def text(c):
        return f'({operand_text(c, "arg1")}) {BIN_SYM[opname]} ({operand_text(c, "arg2")})', None, False
    A = Arm(f'evaluator arm BinaryApp[{opname}]', pii, ['arg1', 'arg2'], build, cases, text, setup=setup, role='evaluator.rs: partial_interpret_internal BinaryApp arm (scalar operators)',
            extra_inputs=[('kernel_result', 'u8', lambda r: 0)])

    def log_check(h, o):
        calls = [c for c in o.log if c.tag.startswith(callee)]
        if not calls:
            return True
        if len(calls) != 1:
            return False
        a = calls[0].args
        v1, v2 = h._resolve(o.st, a[1]), h._resolve(o.st, a[2])
        return isinstance(a[0], Agg) and a[0].variant == opname and getattr(v1, 'id', None) == h.subs['arg1'].val.v.id and getattr(v2, 'id', None) == h.subs['arg2'].val.v.id
    A.log_check = log_check
    A.native_expect = lambda exp, c: ref_binop(opname, c) if exp[0] in ('value_of', 'err_of') and exp[1] == 'kernel' else None
    return A


def arm_unary():
    def setup(h):
        ex = h.ex
        RES = z3.Int('kernel_result')
        ex.invariants.append(z3.And(RES >= 0, RES <= 1))
        h.extra_ins = {'kernel_result': RES}
        rv, re_ = Opaque('ast::value::Value', 'kernel value'), Opaque('EvaluationError', 'kernel error')
        h.by_val[rv.id] = type('X', (), {'name': 'kernel'})()
        h.by_err[re_.id] = type('X', (), {'name': 'kernel'})()
        h.uop = Opaque('ast::ops::UnaryOp', 'op')
        ex.stub(r'(^|::)unary_app$', lambda ex, st, c, A: [([RES == 0], ok(rv)), ([RES == 1], err(re_))], 'unary_app: arbitrary result, logged')

    def build(h):
        return Agg('variant', EK, 'UnaryApp', [h.uop, h.subs['arg'].arc], ('op', 'arg'))

    def cases(ins):
        o, kr = ins['arg_out'], ins['kernel_result']
        return [(o == 2, ('err_of', 'arg'), ['arg']), (And(o == 0, kr == 0), ('value_of', 'kernel'), ['arg']), (And(o == 0, kr == 1), ('err_of', 'kernel'), ['arg']),
                (o == 1, ('residual', ('unary_app', ('opaque', 'op'), ('res', 'arg'))), ['arg'])]

    def text(c):
        return f'!({operand_text(c, "arg")})', None, False
    A = Arm('evaluator arm UnaryApp', pii, ['arg'], build, cases, text, setup=setup, role='evaluator.rs: partial_interpret_internal UnaryApp arm', extra_inputs=[('kernel_result', 'u8', lambda r: 0)])

    def log_check(h, o):
        calls = [c for c in o.log if c.tag.startswith('unary_app')]
        if not calls:
            return True
        a = calls[0].args
        return len(calls) == 1 and getattr(a[0], 'id', None) == h.uop.id and getattr(h._resolve(o.st, a[1]), 'id', None) == h.subs['arg'].val.v.id

    def nat(exp, c):
        if exp[0] in ('value_of', 'err_of') and exp[1] == 'kernel':
            k, v = ref_value(c, 'arg')
            return ('bool', not v) if k == 'bool' else ('type_error', 'bool', c['arg_kind'])
        return None
    A.log_check, A.native_expect = log_check, nat
    return A


ARMS += [arm_unary] + [(lambda o=o: arm_binary_scalar(o)) for o in ('Eq', 'Less', 'LessEq', 'Add', 'Sub', 'Mul')]


# ---------------------------------------------------------------------------------------------- set operators

def arm_set_op(opname):
    """contains / containsAll / containsAny: operands must be sets (type error names the first non-set, left first); the answer is
    exactly what Set::{contains, is_subset, is_disjoint} says for the operands IN THE RIGHT ROLES"""
    def setup(h):
        ex = h.ex
        B = z3.Bool('set_answer')
        h.extra_ins = {'set_answer': B}
        h.set_of = {}
        for n, s in h.subs.items():
            so = ex.opaque_field(s.val.vk, 'Set', 0, 'ast::value::Set')
            h.set_of[so.id] = n
        for sc in ('short_circuit_value_and_residual', 'short_circuit_residual_and_value', 'short_circuit_two_typed_residuals'):
            ex.stub(r'::' + sc + '$', lambda ex, st, c, A: none(), f'{sc}: returns None')
        ex.stub(r'(^|::)Set::(contains|is_subset|is_disjoint)$', lambda ex, st, c, A: BoolV(B), 'Set::{contains,is_subset,is_disjoint}: free boolean, logged (the set algorithms themselves are separate obligations)')

    def build(h):
        return Agg('variant', EK, 'BinaryApp', [Agg('variant', 'ast::ops::BinaryOp', opname, []), h.subs['arg1'].arc, h.subs['arg2'].arc], ('op', 'arg1', 'arg2'))

    def cases(ins):
        o1, o2 = ins['arg1_out'], ins['arg2_out']
        s1, s2 = ins['arg1_kind'] == 4, ins['arg2_kind'] == 4
        B = ins['set_answer']
        both = ['arg1', 'arg2']
        vv = And(o1 == 0, o2 == 0)
        out = [(o1 == 2, ('err_of', 'arg1'), ['arg1']), (And(o1 != 2, o2 == 2), ('err_of', 'arg2'), both),
               (And(o1 == 0, o2 == 1), ('residual', ('binary_app', ('enum', opname), ('from_value', ('val', 'arg1')), ('res', 'arg2'))), both),
               (And(o1 == 1, o2 == 0), ('residual', ('binary_app', ('enum', opname), ('res', 'arg1'), ('from_value', ('val', 'arg2')))), both),
               (And(o1 == 1, o2 == 1), ('residual', ('binary_app', ('enum', opname), ('res', 'arg1'), ('res', 'arg2'))), both),
               (And(vv, Not(s1)), ('type_error', 'set', 'arg1'), both)]
        if opname == 'Contains':
            out.append((And(vv, s1), ('bool', B), both))
        else:
            out.append((And(vv, s1, Not(s2)), ('type_error', 'set', 'arg2'), both))
            out.append((And(vv, s1, s2), ('bool', B if opname == 'ContainsAll' else Not(B)), both))
        return out

    def log_check(h, o):
        calls = [c for c in o.log if c.tag.startswith('Set::')]
        if not calls:
            return True
        if len(calls) != 1:
            return False
        c = calls[0]
        fn = c.callee.rsplit('::', 1)[1]
        a0 = h._resolve(o.st, c.args[0])
        a1 = h._resolve(o.st, c.args[1])
        who0 = h.set_of.get(getattr(a0, 'id', None))
        if opname == 'Contains':
            return fn == 'contains' and who0 == 'arg1' and getattr(a1, 'id', None) == h.subs['arg2'].val.v.id
        who1 = h.set_of.get(getattr(a1, 'id', None))
        if opname == 'ContainsAll':
            return fn == 'is_subset' and (who0, who1) == ('arg2', 'arg1')        # arg1.containsAll(arg2)  <=>  arg2 is a subset of arg1
        return fn == 'is_disjoint' and {who0, who1} == {'arg1', 'arg2'}

    def text(c):
        def opnd(n):
            return operand_text(c, n)
        a, b = opnd('arg1'), opnd('arg2')
        ans = c['set_answer']
        if c['arg1_out'] == 0 and c['arg1_kind'] == 4:
            if opname == 'Contains':
                a = f'[{b}]' if (ans and c['arg2_out'] == 0) else '[]'
            elif c['arg2_out'] == 0 and c['arg2_kind'] == 4:
                if opname == 'ContainsAll':
                    a, b = ('[1, 2]', '[1]') if ans else ('[1]', '[1, 2]')
                else:
                    a, b = ('[1]', '[2]') if ans else ('[1, 3]', '[3]')
        meth = {'Contains': 'contains', 'ContainsAll': 'containsAll', 'ContainsAny': 'containsAny'}[opname]
        return f'({a}).{meth}({b})', None, False
    A = Arm(f'evaluator arm BinaryApp[{opname}]', pii, ['arg1', 'arg2'], build, cases, text, setup=setup, role='evaluator.rs: partial_interpret_internal BinaryApp arm (set operators)',
            extra_inputs=[('set_answer', 'bool', lambda r: r.random() < 0.5)])
    A.log_check = log_check
    return A


# ---------------------------------------------------------------------------------------------- like / is

def arm_like():
    def setup(h):
        B = z3.Bool('pattern_matches')
        h.extra_ins = {'pattern_matches': B}
        h.pattern = Opaque('ast::pattern::Pattern', 'pattern')
        h.ex.stub(r'Pattern::wildcard_match$', lambda ex, st, c, A: BoolV(B), 'Pattern::wildcard_match: free boolean, logged (the matcher itself is a separate obligation)')

    def build(h):
        return Agg('variant', EK, 'Like', [h.subs['e'].arc, h.pattern], ('expr', 'pattern'))

    def cases(ins):
        o = ins['e_out']
        is_str = ins['e_kind'] == 2
        return [(o == 2, ('err_of', 'e'), ['e']), (And(o == 0, Not(is_str)), ('type_error', 'string', 'e'), ['e']), (And(o == 0, is_str), ('bool', ins['pattern_matches']), ['e']),
                (o == 1, ('residual', ('like', ('res', 'e'), ('opaque', 'pattern'))), ['e'])]

    def text(c):
        pat = 's' if c['pattern_matches'] else 'zz*'
        return f'({operand_text(c, "e")}) like "{pat}"', None, False

    def log_check(h, o):
        calls = [c for c in o.log if c.tag.startswith('Pattern::wildcard_match')]
        return not calls or (len(calls) == 1 and getattr(h._resolve(o.st, calls[0].args[0]), 'id', None) == h.pattern.id)
    A = Arm('evaluator arm Like', pii, ['e'], build, cases, text, setup=setup, role='evaluator.rs: partial_interpret_internal Like arm', extra_inputs=[('pattern_matches', 'bool', lambda r: r.random() < 0.5)])
    A.log_check = log_check
    return A


def arm_is():
    def setup(h):
        B = z3.Bool('same_entity_type')
        h.extra_ins = {'same_entity_type': B}
        h.ety = Opaque('ast::entity::EntityType', 'tested type')
        h.ex.stub(r'EntityUID::entity_type$', lambda ex, st, c, A: ex.new_cell(st, Opaque('ast::entity::EntityType', 'type of the operand'), 'ety'), 'EntityUID::entity_type (opaque)')
        h.ex.stub(r'<&?.*EntityType as PartialEq(<.*>)?>::eq$', lambda ex, st, c, A: BoolV(B), 'EntityType equality: free boolean')
        # the typed-unknown shortcut of the residual case is a C13 obligation (short_circuit.py); here a residual is any non-unknown expression

    def build(h):
        return Agg('variant', EK, 'Is', [h.subs['e'].arc, h.ety], ('expr', 'entity_type'))

    def cases(ins):
        o = ins['e_out']
        is_ent = ins['e_kind'] == 3
        return [(o == 2, ('err_of', 'e'), ['e']), (And(o == 0, Not(is_ent)), ('type_error', 'entity', 'e'), ['e']), (And(o == 0, is_ent), ('bool', ins['same_entity_type']), ['e'])]

    def text(c):
        t = 'User' if c['same_entity_type'] else 'Photo'
        return f'({operand_text(c, "e")}) is {t}', None, False
    return Arm('evaluator arm Is', pii, ['e'], build, cases, text, setup=setup, role='evaluator.rs: partial_interpret_internal Is arm', pre=lambda ins: ins['e_out'] != 1,
               extra_inputs=[('same_entity_type', 'bool', lambda r: r.random() < 0.5)])


ARMS += [(lambda o=o: arm_set_op(o)) for o in ('Contains', 'ContainsAll', 'ContainsAny')] + [arm_like, arm_is]


# ---------------------------------------------------------------------------------------------- has / . / in / tags

ERR_CTORS = r'EvaluationError::(entity_does_not_exist|entity_attr_does_not_exist|record_attr_does_not_exist|entity_tag_does_not_exist|unlinked_slot)(::<.*>)?$'
ERR_CLASS = {'entity_does_not_exist': 'EntityDoesNotExist', 'entity_attr_does_not_exist': 'EntityAttrDoesNotExist', 'record_attr_does_not_exist': 'RecordAttrDoesNotExist',
             'entity_tag_does_not_exist': 'EntityAttrDoesNotExist', 'unlinked_slot': 'UnlinkedSlot'}
STORE_WITH = [{'uid': {'type': 'User', 'id': 'alice'}, 'attrs': {'a': 1}, 'parents': [{'type': 'Group', 'id': 'g'}], 'tags': {'t': 1}}, {'uid': {'type': 'Group', 'id': 'g'}, 'attrs': {}, 'parents': []}]
STORE_BARE = [{'uid': {'type': 'User', 'id': 'alice'}, 'attrs': {}, 'parents': [], 'tags': {}}]


def store_setup(h):
    """the entity store as an environment: Entities::entity(uid) is NoSuchEntity | Residual(r) | Data(e); lookups in the entity are free booleans"""
    import re as _re
    ex = h.ex
    ex.havoc_unknown = True       # only the residual-operand paths (excluded by the precondition of these arms) meet unknown callees
    ex.stub(r'Expr::(<.*>::)?is_projectable$', lambda ex, st, c, A: BoolV(z3.Bool('projectable')), 'Expr::is_projectable: free boolean (its own table is a C13 obligation)')
    D = z3.Int('deref')          # 0 no such entity, 1 residual (partial store), 2 data
    ex.invariants.append(z3.And(D >= 0, D <= 2))
    h.extra_ins = dict(getattr(h, 'extra_ins', {}), deref=D)
    h.deref_res = Opaque('ast::expr::Expr', 'res_store')
    h.by_res[h.deref_res.id] = type('X', (), {'name': 'store'})()
    h.entity = Opaque('ast::entity::Entity', 'the entity')
    DT = 'entities::Dereference'
    ex.stub(r'Entities::entity$', lambda ex, st, c, A: [([D == 0], Agg('variant', DT, 'NoSuchEntity', [])), ([D == 1], Agg('variant', DT, 'Residual', [h.deref_res])),
                                                        ([D == 2], Agg('variant', DT, 'Data', [ex.new_cell(st, h.entity, 'entity')]))], 'Entities::entity: NoSuchEntity | Residual(r) | Data(e), logged')
    ex.stub(ERR_CTORS, lambda ex, st, c, A: Agg('variant', 'evaluator::err::EvaluationError', ERR_CLASS[_re.search(ERR_CTORS, c).group(1)], [Opaque('error payload', 'payload')]), 'evaluation error constructors (class only)')
    for fn in ('keys', 'len', 'attrs_len', 'tags_len', 'tag_keys'):
        ex.stub(r'(Entity|BTreeMap<.*>)::(<.*>::)?' + fn + '$', lambda ex, st, c, A: Opaque('usize or iterator', 'error detail'), 'details for error messages (opaque)')


def describe_error(h, d):
    return d


def arm_has_attr():
    def setup(h):
        ex = h.ex
        store_setup(h)
        P_, K_ = z3.Bool('attr_present'), z3.Int('residual_kind')
        h.extra_ins.update(attr_present=P_)
        h.attr = Opaque('smol_str::SmolStr', 'attr')
        ex.stub(r'BTreeMap::<.*>::get::<', lambda ex, st, c, A: [([P_], some(ex.new_cell(st, Opaque('ast::value::Value', 'stored value'), 'stored'))), ([z3.Not(P_)], none())], 'BTreeMap::get(attr): present or not (free boolean)')
        ex.stub(r'Entity::get$', lambda ex, st, c, A: [([P_], some(ex.new_cell(st, Opaque('ast::partial_value::PartialValue', 'stored value'), 'stored'))), ([z3.Not(P_)], none())], 'Entity::get(attr): present or not (free boolean)')

    def build(h):
        return Agg('variant', EK, 'HasAttr', [h.subs['e'].arc, h.attr], ('expr', 'attr'))

    def cases(ins):
        o, k, d, p = ins['e_out'], ins['e_kind'], ins['deref'], ins['attr_present']
        v = o == 0
        return [(o == 2, ('err_of', 'e'), ['e']),
                (And(v, k == 5), ('bool', p), ['e']),
                (And(v, k == 3, d == 0), ('bool', False), ['e']),                       # `has` on an absent entity is false, not an error
                (And(v, k == 3, d == 1), ('residual', ('has_attr', ('res', 'store'), ('opaque', 'attr'))), ['e']),
                (And(v, k == 3, d == 2), ('bool', p), ['e']),
                (And(v, k != 5, k != 3), ('type_error', 'advice', 'e'), ['e'])]

    def text(c):
        store, partial = None, False
        if c['e_out'] == 0 and c['e_kind'] == 3:
            store, partial = {0: (None, False), 1: ([], True), 2: (STORE_WITH if c['attr_present'] else STORE_BARE, False)}[c['deref']]
        e = operand_text(c, 'e')
        if c['e_out'] == 0 and c['e_kind'] == 5:
            e = '{a: 1}' if c['attr_present'] else '{b: 1}'
        return f'({e}) has a', store, partial
    return Arm('evaluator arm HasAttr', pii, ['e'], build, cases, text, setup=setup, role='evaluator.rs: partial_interpret_internal HasAttr arm', pre=lambda ins: ins['e_out'] != 1,
               extra_inputs=[('deref', 'u8', lambda r: r.choice([0, 1, 2])), ('attr_present', 'bool', lambda r: r.random() < 0.5)])


def arm_get_attr():
    def setup(h):
        ex = h.ex
        store_setup(h)
        P_, SV = z3.Bool('attr_present'), z3.Bool('stored_is_value')
        h.extra_ins.update(attr_present=P_)
        h.attr = Opaque('smol_str::SmolStr', 'attr')
        stored = Opaque('ast::value::Value', 'stored value')
        h.by_val[stored.id] = type('X', (), {'name': 'stored'})()
        ex.stub(r'BTreeMap::<.*>::get::<', lambda ex, st, c, A: [([P_], some(ex.new_cell(st, stored, 'stored'))), ([z3.Not(P_)], none())], 'BTreeMap::get(attr): present (the stored value) or not')
        ex.stub(r'Entity::get$', lambda ex, st, c, A: [([P_], some(ex.new_cell(st, Agg('variant', PV, 'Value', [stored]), 'stored'))), ([z3.Not(P_)], none())],
                'Entity::get(attr): present (a stored concrete value) or not; unknown-valued attributes are outside this obligation')
        ex.stub(r'Entity::get_tag$', lambda ex, st, c, A: none(), 'Entity::get_tag (only used for an error hint)')

    def cases(ins):
        o, k, d, p = ins['e_out'], ins['e_kind'], ins['deref'], ins['attr_present']
        v = o == 0
        return [(o == 2, ('err_of', 'e'), ['e']),
                (And(v, k == 5, p), ('value_of', 'stored'), ['e']),
                (And(v, k == 5, Not(p)), ('error', 'RecordAttrDoesNotExist'), ['e']),
                (And(v, k == 3, d == 0), ('error', 'EntityDoesNotExist'), ['e']),
                (And(v, k == 3, d == 1), ('residual', ('get_attr', ('res', 'store'), ('opaque', 'attr'))), ['e']),
                (And(v, k == 3, d == 2, p), ('value_of', 'stored'), ['e']),
                (And(v, k == 3, d == 2, Not(p)), ('error', 'EntityAttrDoesNotExist'), ['e']),
                (And(v, k != 5, k != 3), ('type_error', 'advice', 'e'), ['e'])]

    def text(c):
        store, partial = None, False
        if c['e_out'] == 0 and c['e_kind'] == 3:
            store, partial = {0: (None, False), 1: ([], True), 2: (STORE_WITH if c['attr_present'] else STORE_BARE, False)}[c['deref']]
        e = operand_text(c, 'e')
        if c['e_out'] == 0 and c['e_kind'] == 5:
            e = '{a: 1}' if c['attr_present'] else '{b: 1}'
        return f'({e}).a', store, partial

    def args(h, heap):
        heap['X'] = h.subs['e'].expr
        heap['AT'] = h.attr
        return [Ref(0, ('local', 'EV')), Ref(0, ('local', 'X')), Ref(0, ('local', 'AT')), Ref(0, ('local', 'S')), none()]

    def nat(exp, c):
        if exp == ('value_of', 'stored'):
            return ('long', 1)
        return None
    A = Arm('evaluator get_attr', lambda P: P.method('evaluator.rs', 'get_attr', nargs=5), ['e'], lambda h: None, cases, text, setup=setup, args=args, role='evaluator.rs: get_attr',
            pre=lambda ins: ins['e_out'] != 1, extra_inputs=[('deref', 'u8', lambda r: r.choice([0, 1, 2])), ('attr_present', 'bool', lambda r: r.random() < 0.5)])
    A.native_expect = nat
    return A


def same_desc(d):
    return d


ARMS += [arm_has_attr, arm_get_attr]


def arm_in():
    def setup(h):
        ex = h.ex
        store_setup(h)
        RES = z3.Int('kernel_result')
        ex.invariants.append(z3.And(RES >= 0, RES <= 1))
        h.extra_ins.update(kernel_result=RES)
        rv, re_ = Agg('variant', PV, 'Value', [Opaque('ast::value::Value', 'kernel value')]), Opaque('EvaluationError', 'kernel error')
        h.by_val[rv.fields[0].id] = type('X', (), {'name': 'kernel'})()
        h.by_err[re_.id] = type('X', (), {'name': 'kernel'})()
        ex.stub(r'::eval_in$', lambda ex, st, c, A: [([RES == 0], ok(rv)), ([RES == 1], err(re_))], 'Evaluator::eval_in: arbitrary result, logged (its own loop is a separate obligation)')
        ex.stub(r'type_of$', lambda ex, st, c, A: Opaque('ast::types::Type', 'type of arg2'), 'Value::type_of (only selects the advice text of a type error)')
        for sc in ('short_circuit_value_and_residual', 'short_circuit_residual_and_value', 'short_circuit_two_typed_residuals'):
            ex.stub(r'::' + sc + '$', lambda ex, st, c, A: none(), f'{sc}: returns None')

    def build(h):
        return Agg('variant', EK, 'BinaryApp', [Agg('variant', 'ast::ops::BinaryOp', 'In', []), h.subs['arg1'].arc, h.subs['arg2'].arc], ('op', 'arg1', 'arg2'))

    def cases(ins):
        o1, o2, k1, d, kr = ins['arg1_out'], ins['arg2_out'], ins['arg1_kind'], ins['deref'], ins['kernel_result']
        both = ['arg1', 'arg2']
        vv = And(o1 == 0, o2 == 0)
        return [(o1 == 2, ('err_of', 'arg1'), ['arg1']), (And(o1 != 2, o2 == 2), ('err_of', 'arg2'), both),
                (And(o1 == 0, o2 == 1), ('residual', ('binary_app', ('enum', 'In'), ('from_value', ('val', 'arg1')), ('res', 'arg2'))), both),
                (And(o1 == 1, o2 == 0), ('residual', ('binary_app', ('enum', 'In'), ('res', 'arg1'), ('from_value', ('val', 'arg2')))), both),
                (And(o1 == 1, o2 == 1), ('residual', ('binary_app', ('enum', 'In'), ('res', 'arg1'), ('res', 'arg2'))), both),
                (And(vv, k1 != 3), ('type_error', 'entity', 'arg1'), both),
                (And(vv, k1 == 3, d == 1), ('residual', ('binary_app', ('enum', 'In'), ('res', 'store'), ('from_value', ('val', 'arg2')))), both),
                (And(vv, k1 == 3, d != 1, kr == 0), ('value_of', 'kernel'), both),
                (And(vv, k1 == 3, d != 1, kr == 1), ('err_of', 'kernel'), both)]

    def log_check(h, o):
        calls = [c for c in o.log if c.tag.startswith('Evaluator::eval_in')]
        if not calls:
            return True
        if len(calls) != 1:
            return False
        a = calls[0].args
        ent = a[2]
        derefs = [c for c in o.log if c.tag.startswith('Entities::entity')]
        if len(derefs) != 1:
            return False
        dv = derefs[0].res
        ok_ent = (ent.variant == 'None' and dv.variant == 'NoSuchEntity') or (ent.variant == 'Some' and dv.variant == 'Data' and getattr(h._resolve(o.st, ent.fields[0]), 'id', None) == h.entity.id)
        return ok_ent and getattr(h._resolve(o.st, a[3]), 'id', None) == h.subs['arg2'].val.v.id

    def text(c):
        store, partial = None, False
        if c['arg1_out'] == 0 and c['arg1_kind'] == 3:
            store, partial = {0: (None, False), 1: ([], True), 2: (STORE_WITH, False)}[c['deref']]
        return f'({operand_text(c, "arg1")}) in ({operand_text(c, "arg2")})', store, partial

    def nat(exp, c):
        if exp[0] in ('value_of', 'err_of') and exp[1] == 'kernel':
            k2 = c['arg2_kind']
            if k2 == 3:
                return ('bool', True)               # alice in alice: reflexive, whether or not alice is in the store
            if k2 == 4:
                return ('type_error', 'entity', 1)  # [1]: the element is not an entity
            return ('type_error', 'advice', k2)
        return None
    A = Arm('evaluator arm BinaryApp[In]', pii, ['arg1', 'arg2'], build, cases, text, setup=setup, role='evaluator.rs: partial_interpret_internal BinaryApp arm (in)',
            extra_inputs=[('deref', 'u8', lambda r: r.choice([0, 1, 2])), ('kernel_result', 'u8', lambda r: 0)])
    A.log_check, A.native_expect = log_check, nat
    return A


def arm_tag(opname):
    def setup(h):
        ex = h.ex
        store_setup(h)
        P_ = z3.Bool('tag_present')
        h.extra_ins.update(tag_present=P_)
        stored = Opaque('ast::value::Value', 'stored value')
        h.by_val[stored.id] = type('X', (), {'name': 'stored'})()
        ex.stub(r'Entity::get_tag$', lambda ex, st, c, A: [([P_], some(ex.new_cell(st, Agg('variant', PV, 'Value', [stored]), 'stored'))), ([z3.Not(P_)], none())], 'Entity::get_tag: present (a stored value) or not')
        ex.stub(r'Entity::get$', lambda ex, st, c, A: none(), 'Entity::get (only used for an error hint)')
        for sc in ('short_circuit_value_and_residual', 'short_circuit_residual_and_value', 'short_circuit_two_typed_residuals'):
            ex.stub(r'::' + sc + '$', lambda ex, st, c, A: none(), f'{sc}: returns None')

    def build(h):
        return Agg('variant', EK, 'BinaryApp', [Agg('variant', 'ast::ops::BinaryOp', opname, []), h.subs['arg1'].arc, h.subs['arg2'].arc], ('op', 'arg1', 'arg2'))
    ctor = 'get_tag' if opname == 'GetTag' else 'has_tag'

    def cases(ins):
        o1, o2, k1, k2, d, p = ins['arg1_out'], ins['arg2_out'], ins['arg1_kind'], ins['arg2_kind'], ins['deref'], ins['tag_present']
        both = ['arg1', 'arg2']
        vv = And(o1 == 0, o2 == 0)
        good = And(vv, k1 == 3, k2 == 2)
        out = [(o1 == 2, ('err_of', 'arg1'), ['arg1']), (And(o1 != 2, o2 == 2), ('err_of', 'arg2'), both),
               (And(o1 == 0, o2 == 1), ('residual', ('binary_app', ('enum', opname), ('from_value', ('val', 'arg1')), ('res', 'arg2'))), both),
               (And(o1 == 1, o2 == 0), ('residual', ('binary_app', ('enum', opname), ('res', 'arg1'), ('from_value', ('val', 'arg2')))), both),
               (And(o1 == 1, o2 == 1), ('residual', ('binary_app', ('enum', opname), ('res', 'arg1'), ('res', 'arg2'))), both),
               (And(vv, k1 != 3), ('type_error', 'entity', 'arg1'), both),
               (And(vv, k1 == 3, k2 != 2), ('type_error', 'string', 'arg2'), both),
               (And(good, d == 1), ('residual', (ctor, ('res', 'store'), ('val', ('opaque', 'val_arg2.0.Lit.0.String.0')))), both)]
        if opname == 'GetTag':
            out += [(And(good, d == 0), ('error', 'EntityDoesNotExist'), both), (And(good, d == 2, p), ('value_of', 'stored'), both),
                    (And(good, d == 2, Not(p)), ('error', 'EntityAttrDoesNotExist'), both)]      # a missing tag is reported with the attribute error class (was_attr = false)
        else:
            out += [(And(good, d == 0), ('bool', False), both), (And(good, d == 2), ('bool', p), both)]
        return out

    def text(c):
        store, partial = None, False
        if c['arg1_out'] == 0 and c['arg1_kind'] == 3:
            store, partial = {0: (None, False), 1: ([], True), 2: (STORE_WITH if c['tag_present'] else STORE_BARE, False)}[c['deref']]
        a2 = operand_text(c, 'arg2')
        if c['arg2_out'] == 0 and c['arg2_kind'] == 2:
            a2 = '"t"'
        meth = 'getTag' if opname == 'GetTag' else 'hasTag'
        return f'({operand_text(c, "arg1")}).{meth}({a2})', store, partial
    A = Arm(f'evaluator arm BinaryApp[{opname}]', pii, ['arg1', 'arg2'], build, cases, text, setup=setup, role='evaluator.rs: partial_interpret_internal BinaryApp arm (tags)',
            extra_inputs=[('deref', 'u8', lambda r: r.choice([0, 1, 2])), ('tag_present', 'bool', lambda r: r.random() < 0.5)])
    A.native_expect = lambda exp, c: ('long', 1) if exp == ('value_of', 'stored') else None
    return A


ARMS += [arm_in, (lambda: arm_tag('GetTag')), (lambda: arm_tag('HasTag'))]


# ---------------------------------------------------------------------------------------------- eval_in (hierarchy membership test)

def eval_in_kernel(ctx):
    """`uid1 in arg2`: reflexive, or uid1's entity is a descendant of some member; arg2 an entity literal or a set of entities (bound: <= 2
    members), anything else a type error.  UID equality and Entity::is_descendant_of are free booleans (the closure they read is C04)."""
    P = ctx.prog('core')
    f = P.method('evaluator.rs', 'eval_in', nargs=4)
    ctx.use(f)
    for LEN in (0, 1, 2):
        ex = ctx.new_exec('core')
        from .c02 import install_value_stubs, as_type_error
        from .common import SymValue
        install_value_stubs(ex)
        arg2 = SymValue(ex, 'arg2')
        HAS = z3.Bool('entity_in_store')
        EQ = [z3.Bool(f'same_uid_{i}') for i in range(2)]
        DESC = [z3.Bool(f'descendant_of_{i}') for i in range(2)]
        uids = [Opaque('ast::entity::EntityUID', f'member{i}') for i in range(2)]
        uid1, ent = Opaque('ast::entity::EntityUID', 'uid1'), Opaque('ast::entity::Entity', 'entity1')
        lit_uid = ex.opaque_field(arg2.lit, 'EntityUID', 0, 'Arc<ast::entity::EntityUID>')
        seterr = Opaque('EvaluationError', 'non-entity member')

        def idx(ex_, st, v):
            n = 0
            while isinstance(v, Ref) and n < 6:
                v = ex_.read(st, v.fid, v.place)
                n += 1
            if getattr(v, 'id', None) == lit_uid.id or (('deref', lit_uid.id) in ex_.memo and st.frames[0].get(ex_.memo[('deref', lit_uid.id)]) is v):
                return 0
            for i, u in enumerate(uids):
                if getattr(v, 'id', None) == u.id:
                    return i
            raise NotEncoded(f'unknown uid {v!r}')
        # member i of the set is an entity uid or not (NONENT[i]); the set as a whole has a non-entity member iff some member is one
        NONENT = [z3.Bool(f'member_{i}_is_not_an_entity') for i in range(2)]
        SETERR = z3.Or([NONENT[i] for i in range(LEN)]) if LEN else z3.BoolVal(False)
        mvals = [Opaque('ast::value::Value', f'member value {i}') for i in range(2)]
        ex.stub(r'get_as_entity_set$', lambda ex_, st, c, A, LEN=LEN: [([z3.Not(SETERR)], ok(Agg('struct', '~vec', None, [ex_.new_cell(st, uids[i], f'm{i}') for i in range(LEN)]))), ([SETERR], err(seterr))],
                f'Value::get_as_entity_set: {LEN} entity members, or a type error for a non-entity member')
        # the same set seen member by member (code that walks the set itself instead of calling get_as_entity_set)
        ex.stub(r'value::Set::iter$', lambda ex_, st, c, A, LEN=LEN: Agg('struct', '~vec_iter', None, [ex_.new_cell(st, mvals[i], f'mv{i}') for i in range(LEN)]), f'Set::iter: the {LEN} member values')

        def get_as_entity(ex_, st, c, A):
            v = A[0]
            n = 0
            while isinstance(v, Ref) and n < 6:
                v = ex_.read(st, v.fid, v.place)
                n += 1
            for i, mv in enumerate(mvals):
                if getattr(v, 'id', None) == mv.id:
                    return [([z3.Not(NONENT[i])], ok(ex_.new_cell(st, uids[i], f'm{i}'))), ([NONENT[i]], err(seterr))]
            return None
        ex.stub(r'Value>?::get_as_entity$', get_as_entity, 'Value::get_as_entity on member i: its uid, or a type error when it is not an entity')
        ex.stub(r'^((std|core)::iter::)?once::<', lambda ex_, st, c, A: Agg('struct', '~vec_iter', None, [A[0]]), 'iter::once')
        ex.stub(r'<([\w:]*::)?Either<.*> as IntoIterator>::into_iter$', lambda ex_, st, c, A: A[0], 'Either::into_iter (itself)')

        def either_next(ex_, st, c, A):
            r = A[0]
            if not isinstance(r, Ref):
                return None
            v = ex_.read(st, r.fid, r.place)
            if not (isinstance(v, Agg) and v.variant in ('Left', 'Right')):
                return None
            return ex_.dispatch(st, '<std::vec::IntoIter<T> as Iterator>::next', [Ref(r.fid, ('field', ('downcast', r.place, v.variant), 0, '?'))])
        ex.stub(r'<([\w:]*::)?Either<.*> as Iterator>::next$', either_next, 'Either::next: next of the side it holds')
        ex.stub(r'<Arc<.*EntityUID> as AsRef<.*>>::as_ref$', lambda ex_, st, c, A: A[0], 'Arc<EntityUID>::as_ref')
        ex.stub(r'<&.*EntityUID as PartialEq>::eq$', lambda ex_, st, c, A: BoolV(EQ[idx(ex_, st, A[1])]), 'EntityUID equality with member i: free boolean')
        ex.stub(r'Entity::is_descendant_of$', lambda ex_, st, c, A: BoolV(DESC[idx(ex_, st, A[1])]), 'Entity::is_descendant_of(member i): free boolean (the closure is C04)')
        ex.stub(r'<LazyLock<.*Name> as Deref>::deref$', lambda ex_, st, c, A: ex_.new_cell(st, Opaque('ast::name::Name', 'static name'), 'name'), 'static Name (opaque)')
        ex.stub(r'Type::entity_type$', lambda ex_, st, c, A: Agg('variant', 'ast::types::Type', 'Entity', [A[0]]), 'Type::entity_type')
        heap = {'EV': Opaque('evaluator::Evaluator', 'eval'), 'U': uid1, 'EN': ent, 'A2': arg2.v}
        for has in (False, True):
            outs = ex.run(f, [Ref(0, ('local', 'EV')), Ref(0, ('local', 'U')), some(Ref(0, ('local', 'EN'))) if has else none(), Ref(0, ('local', 'A2'))], heap=heap)
            ctx.absorb(ex)
            ctx.panic_summary(f'eval_in[{LEN} members, entity {"present" if has else "absent"}]', outs, ex)
            k = arg2.code
            member = lambda i: z3.Or(EQ[i], z3.And(z3.BoolVal(has), DESC[i]))
            for i, o in enumerate(outs):
                if o.kind != 'ret':
                    continue
                v = o.val
                name = f'eval_in[{LEN} members, entity {"present" if has else "absent"}]/path{i}'
                if v.variant == 'Ok':
                    try:
                        b = v.fields[0].fields[0].fields[0].fields[0].fields[0].t
                    except (AttributeError, IndexError):
                        raise NotEncoded(f'eval_in result {v!r}')
                    claim = z3.Or(z3.And(k == 3, b == member(0)), z3.And(k == 4, z3.Not(SETERR), b == z3.Or([member(j) for j in range(LEN)] or [z3.BoolVal(False)])))
                else:
                    e = v.fields[0]
                    if getattr(e, 'id', None) == seterr.id:
                        claim = z3.And(k == 4, SETERR)
                    elif as_type_error(e) is not None:
                        claim = z3.And(k != 3, k != 4, z3.BoolVal(getattr(as_type_error(e)[1], 'id', None) == arg2.v.id))
                    else:
                        claim = z3.BoolVal(False)

                def on_sat(m, has=has):
                    kk = m.eval(k, model_completion=True).as_long()
                    if kk == 3:
                        text = 'User::"alice" in User::"alice"' if z3.is_true(m.eval(EQ[0], model_completion=True)) else ('User::"alice" in Group::"g"' if z3.is_true(m.eval(DESC[0], model_completion=True)) else 'User::"alice" in Group::"h"')
                        want = ('bool', 'alice"' in text.split(' in ')[1] or ('Group::"g"' in text and has))
                    elif kk == 4:
                        tv = lambda t: z3.is_true(m.eval(t, model_completion=True))
                        # sets iterate in value order (literals before sets and records, entity uids last among literals): a record member is visited AFTER the entity members, a number before them - try both
                        NE = '{"x": 1}'
                        elems = [NE if tv(NONENT[i]) else ('User::"alice"' if tv(EQ[i]) else ('Group::"g"' if tv(DESC[i]) else 'Group::"h"')) for i in range(LEN)]
                        if any(e == NE for e in elems):
                            text, want = 'User::"alice" in [' + ', '.join(elems) + ']', ('type_error', 'entity', 1)
                        else:
                            text, want = 'User::"alice" in [Group::"h", Group::"g", 1]', ('type_error', 'entity', 1)
                    else:
                        text, want = 'User::"alice" in 5', ('type_error', 'advice', 1)
                    got = native_outcome(ctx, text, STORE_WITH if has else None)
                    if tuple(got[:len(want)]) != tuple(want):
                        return ctx.violation(name, 'evaluator.rs: eval_in', f'`{text}`: real evaluator returns {got}, the language semantics prescribes {want}', {'op': 'peval', 'expr': text, 'entities': STORE_WITH if has else None})
                    return ctx.mismatch(name, f'counterexample in the abstract model, but the real evaluator answers {got} as prescribed for `{text}`')
                ctx.decide(name, o.pc + [z3.Not(claim)], ex=ex, on_sat=on_sat, sample={'path_condition': [str(c)[:60] for c in o.pc][:6], 'result': repr(v)[:100]} if i < 2 and LEN == 2 else None)
            rets = [o for o in outs if o.kind == 'ret']
            ctx.decide(f'eval_in[{LEN} members, entity {"present" if has else "absent"}]/paths-cover', [z3.Not(z3.Or([z3.And(o.pc) if o.pc else z3.BoolVal(True) for o in rets]))], ex=ex)
    ctx.decide('eval_in/witness', [z3.BoolVal(True)], expect='sat')
    ctx.bounds.append('eval_in: right-hand side an entity literal or a set with <= 2 entity members (loop unrolled by path)')


# ---------------------------------------------------------------------------------------------- Set: fast path == authoritative answer

def set_kernels(ctx):
    """Set::{contains, is_subset, is_disjoint, eq}: whatever representation (all-literal `fast` HashSet present or not) each operand has, the answer is
    the mathematical one over the authoritative elements.  Sets are SMT arrays over an uninterpreted element sort; representation invariant: `fast`
    is Some exactly when every element is a literal, and then holds the same elements."""
    from ..executor import ASet, SymV
    P = ctx.prog('core')
    V = z3.DeclareSort('VAL')
    is_lit = z3.Function('is_lit', V, z3.BoolSort())
    x = z3.Const('x', V)

    def mkset(name, has_fast):
        auth = z3.Array(f'{name}_auth', V, z3.BoolSort())
        w = z3.Const(f'{name}_nonlit_witness', V)
        if has_fast:
            facts = [z3.ForAll([x], z3.Implies(z3.Select(auth, x), is_lit(x)))]
            fast = some(Agg('struct', 'Arc', None, [ASet(auth)], ('inner',)))
        else:
            facts = [z3.Select(auth, w), z3.Not(is_lit(w))]
            fast = none()
        return Agg('struct', 'ast::value::Set', None, [Agg('struct', 'Arc', None, [ASet(auth)], ('inner',)), fast], ('authoritative', 'fast')), auth, facts

    def deref(ex, st, v):
        n = 0
        while isinstance(v, Ref) and n < 6:
            v = ex.read(st, v.fid, v.place)
            n += 1
        if isinstance(v, Agg) and v.name == 'Arc':
            v = v.fields[0]
        return v

    def install(ex, values):
        def two(fn):
            def f(ex_, st, c, A):
                a, b = deref(ex_, st, A[0]), deref(ex_, st, A[1])
                if not (isinstance(a, ASet) and isinstance(b, ASet)):
                    raise NotEncoded(f'{c} on {a!r}, {b!r}')
                if fn == 'is_subset':
                    return BoolV(z3.ForAll([x], z3.Implies(z3.Select(a.mem, x), z3.Select(b.mem, x))))
                if fn == 'is_disjoint':
                    return BoolV(z3.ForAll([x], z3.Not(z3.And(z3.Select(a.mem, x), z3.Select(b.mem, x)))))
                return BoolV(a.mem == b.mem)
            return f
        for fn in ('is_subset', 'is_disjoint'):
            ex.stub(r'(HashSet|BTreeSet)::<.*>::' + fn + '(::<.*>)?$', two(fn), f'std set {fn} (mathematical definition over arrays)')
        ex.stub(r'<&*(Arc<)?(std::collections::)?(HashSet|BTreeSet)<.*> as PartialEq(<.*>)?>::eq$', two('eq'), 'std set equality (extensional)')

        def contains(ex_, st, c, A):
            s = deref(ex_, st, A[0])
            v = deref(ex_, st, A[1])
            key = values.get(id(v)) if not isinstance(v, SymV) else v.t
            if key is None or not isinstance(s, ASet):
                raise NotEncoded(f'contains({s!r}, {v!r})')
            return BoolV(z3.Select(s.mem, key))
        ex.stub(r'(HashSet|BTreeSet)::<.*>::contains::<', contains, 'std set contains (array select)')
        ex.stub(r'<Arc<.*(HashSet|BTreeSet)<.*>> as AsRef<.*>>::as_ref$', lambda ex_, st, c, A: A[0], 'Arc::as_ref')

    for meth in ('is_subset', 'is_disjoint', 'eq'):
        f = P.method('ast/value.rs', meth, nargs=2, arg0=r'&ast::value::Set$')
        ctx.use(f)
        for fa in (True, False):
            for fb in (True, False):
                ex = ctx.new_exec('core')
                install(ex, {})
                A_, autha, fa_ = mkset('a', fa)
                B_, authb, fb_ = mkset('b', fb)
                outs = ex.run(f, [Ref(0, ('local', 'A')), Ref(0, ('local', 'B'))], heap={'A': A_, 'B': B_})
                ctx.absorb(ex)
                name = f'Set::{meth}[self {"all-literal" if fa else "has non-literal"}, other {"all-literal" if fb else "has non-literal"}]'
                ctx.panic_summary(name, outs, ex, fa_ + fb_)
                truth = {'is_subset': z3.ForAll([x], z3.Implies(z3.Select(autha, x), z3.Select(authb, x))),
                         'is_disjoint': z3.ForAll([x], z3.Not(z3.And(z3.Select(autha, x), z3.Select(authb, x)))), 'eq': autha == authb}[meth]
                for i, o in enumerate(outs):
                    if o.kind != 'ret':
                        continue
                    def on_sat(m, meth=meth, fa=fa, fb=fb, name=name):
                        # concrete sets of each representation (elements as text; equal texts = equal values), every pair tried through the evaluator
                        lit_sets = [['1', '2'], ['1'], []]
                        mixed_sets = [['1', '{a: 1}'], ['{a: 1}'], ['1', '2', '[3]'], ['[3]', '{a: 1}']]
                        last = None
                        for sa in (lit_sets if fa else mixed_sets):
                            for sb in (lit_sets if fb else mixed_sets):
                                a, b = '[' + ', '.join(sa) + ']', '[' + ', '.join(sb) + ']'
                                if meth == 'is_subset':           # self.is_subset(other) is `other.containsAll(self)`
                                    text, want = f'({b}).containsAll({a})', ('bool', set(sa) <= set(sb))
                                elif meth == 'is_disjoint':
                                    text, want = f'({a}).containsAny({b})', ('bool', bool(set(sa) & set(sb)))
                                else:
                                    text, want = f'({a}) == ({b})', ('bool', set(sa) == set(sb))
                                if not sa or not sb:
                                    continue                      # the empty set literal does not typecheck in every position; covered by the others
                                got = native_outcome(ctx, text)
                                last = (text, got)
                                if tuple(got[:2]) != tuple(want):
                                    return ctx.violation(name, 'ast/value.rs: Set fast/authoritative agreement', f'`{text}`: real evaluator returns {got}, sets semantics prescribes {want}', {'op': 'peval', 'expr': text})
                        return ctx.mismatch(name, f'counterexample in the abstract set model, but the concrete set pairs tried evaluate as prescribed (last: `{last[0]}` = {last[1]})')
                    ctx.decide(f'{name}/path{i}', fa_ + fb_ + o.pc + [z3.Not(o.val.t == truth)], ex=ex, on_sat=on_sat,
                               sample={'path_condition': [str(c)[:80] for c in o.pc][:3], 'result': str(o.val.t)[:120]} if (fa, fb) == (True, False) else None)
    # contains(value)
    f = P.method('ast/value.rs', 'contains', nargs=2, arg0=r'&ast::value::Set$')
    ctx.use(f)
    for fa in (True, False):
        for vlit in (True, False):
            ex = ctx.new_exec('core')
            values = {}
            install(ex, values)
            A_, autha, fa_ = mkset('a', fa)
            v = z3.Const('v', V)
            if vlit:
                lit = SymV('VAL', v)
                val = Agg('struct', 'ast::value::Value', None, [Agg('variant', 'ast::value::ValueKind', 'Lit', [lit]), none()], ('value', 'loc'))
                facts = [is_lit(v)]
            else:
                val = Agg('struct', 'ast::value::Value', None, [Agg('variant', 'ast::value::ValueKind', 'Record', [Opaque('Arc<BTreeMap>', 'record')]), none()], ('value', 'loc'))
                facts = [z3.Not(is_lit(v))]
            values[id(val)] = v
            outs = ex.run(f, [Ref(0, ('local', 'A')), Ref(0, ('local', 'X'))], heap={'A': A_, 'X': val})
            ctx.absorb(ex)
            name = f'Set::contains[set {"all-literal" if fa else "has non-literal"}, value {"literal" if vlit else "non-literal"}]'
            ctx.panic_summary(name, outs, ex, fa_ + facts)
            for i, o in enumerate(outs):
                if o.kind == 'ret':
                    ctx.decide(f'{name}/path{i}', fa_ + facts + o.pc + [z3.Not(o.val.t == z3.Select(autha, v))], ex=ex)
    ctx.decide('Set kernels/witness', [z3.BoolVal(True)], expect='sat')
