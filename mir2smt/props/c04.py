"""C04 - hierarchy membership equals parent-reachability (engine M, bounded): the generic closure algorithms of transitive_closure.rs (compute_tc = Tarjan-style
cyclic_tc + enforce_dag_from_tc; enforce_tc_and_dag) executed from the MIR on graphs over N node ids plus one id without a record, with EVERY edge a symbolic boolean.
Node ids, maps, sets, stacks are concrete on every path (mir2smt/containers.py); the edge set is not: iteration over out-edges forks on edge presence, so the solver
decides all 2^(N*(N+1)) graphs of that size at once.  Oracle: reachability through direct-parent links, written as a formula."""
import z3
from ..executor import IntV, BoolV, Agg, Opaque, Ref, NotEncoded, UNIT
from ..models import ok, err, some, none
from .. import containers as C

T, F = z3.BoolVal(True), z3.BoolVal(False)


def graph(N, NK, tag='e'):
    return [[z3.Bool(f'{tag}_{i}_{j}') for j in range(NK)] for i in range(N)]


def direct_bits(N, NK):
    return [[z3.Bool(f'direct_{i}_{j}') for j in range(NK)] for i in range(N)]


def reach(E, N, NK):
    """R[i][j]: id j is reachable from node i through >= 1 parent links (ids without a record are leaves)"""
    R = [[E[i][j] for j in range(NK)] for i in range(N)]
    for _ in range(N):
        R = [[z3.Or(R[i][j], z3.Or([z3.And(R[i][m], E[m][j]) for m in range(N)])) for j in range(NK)] for i in range(N)]
    return R


def setup(ctx, N, NK, E):
    ex = ctx.new_exec('core')
    ex.max_recursion = N + 2
    ex.max_paths = 200000
    ex.max_steps = 50_000_000
    C.install(ex)
    key = lambda j: ex.const_int(j, 'u8')
    heap = {f'KEY{j}': key(j) for j in range(NK)}
    D = direct_bits(N, NK)
    nodes = C.cmap([Agg('tuple', None, None, [key(i), Agg('struct', '~tcnode', None, [key(i), Agg('array', None, None, [BoolV(E[i][j]) for j in range(NK)]), Agg('array', None, None, [BoolV(D[i][j]) for j in range(NK)])])]) for i in range(N)])
    heap['NODES'] = nodes

    def node(st, a):
        v = C.res(ex, st, a)
        return v if isinstance(v, Agg) and v.name == '~tcnode' else None
    ex.stub(r'<V as (transitive_closure::)?TCNode<K>>::get_key$', lambda ex_, st, c, A: (lambda n: None if n is None else n.fields[0])(node(st, A[0])), 'TCNode::get_key (node id)')

    def has_edge(ex_, st, c, A):
        n, k = node(st, A[0]), C.ckey(ex_, st, A[1])
        if n is None or k is None:
            return None
        return n.fields[1].fields[k]
    ex.stub(r'<V as (transitive_closure::)?TCNode<K>>::has_edge_to$', has_edge, 'TCNode::has_edge_to: the (symbolic) edge bit')

    def out_edges(ex_, st, c, A):
        n = node(st, A[0])
        if n is None:
            return None
        return C.sym_iter([(z3.simplify(n.fields[1].fields[j].t), Ref(0, ('local', f'KEY{j}'))) for j in range(NK)])
    ex.stub(r'<V as (transitive_closure::)?TCNode<K>>::out_edges$', out_edges, 'TCNode::out_edges: iterator over the ids whose (symbolic) edge bit is set')

    def direct_edges(ex_, st, c, A):
        # the direct parents are an arbitrary subset of the out-edges (for Entity: parents vs parents + indirect ancestors)
        n = node(st, A[0])
        if n is None:
            return None
        return C.sym_iter([(z3.simplify(z3.And(n.fields[1].fields[j].t, n.fields[2].fields[j].t)), Ref(0, ('local', f'KEY{j}'))) for j in range(NK)])
    ex.stub(r'<V as (transitive_closure::)?TCNode<K>>::direct_edges$', direct_edges, 'TCNode::direct_edges: iterator over an arbitrary (symbolic) subset of the out-edges')

    def add_edge(ex_, st, c, A):
        n, k = node(st, A[0]), C.ckey(ex_, st, A[1])
        if n is None or k is None:
            return None
        r = C.base_ref(ex_, st, A[0])
        row = n.fields[1].with_field(k, BoolV(T))
        return [([], UNIT, lambda s2: ex_.write(s2, r.fid, r.place, n.with_field(1, row)))]
    ex.stub(r'<V as (transitive_closure::)?TCNode<K>>::add_edge_to$', add_edge, 'TCNode::add_edge_to: sets the edge bit')
    ex.stub(r'^<K as Clone>::clone$', lambda ex_, st, c, A: C.res(ex_, st, A[0]), 'K::clone (node ids are machine integers)')

    def keq(ex_, st, c, A):
        a, b = C.ckey(ex_, st, A[0]), C.ckey(ex_, st, A[1])
        if a is None or b is None:
            return None
        return BoolV(z3.BoolVal((a == b) != c.endswith('ne')))
    ex.stub(r'^<&?K as PartialEq>::(eq|ne)$', keq, 'K equality (concrete node ids)')

    def ulte(ex_, st, c, A):
        a, b = C.ckey(ex_, st, A[0]), C.ckey(ex_, st, A[1])
        if a is None or b is None:
            return None
        op = c.rsplit('::', 1)[1]
        return BoolV(z3.BoolVal({'lt': a < b, 'le': a <= b, 'gt': a > b, 'ge': a >= b}[op]))
    ex.stub(r'^<&usize as PartialOrd>::(lt|le|gt|ge)$', ulte, 'usize comparison (concrete)')
    ex.stub(r'TcError::<K>::(missing_tc_edge|has_cycle)$', lambda ex_, st, c, A: Agg('struct', '~error:' + c.rsplit('::', 1)[1], None, list(A)), 'TcError constructors')
    return ex, heap


def final_edges(ex, o, N, NK):
    nodes = o.st.frames[0]['NODES']
    out = {}
    for e in nodes.fields:
        i = ex.concrete(e.fields[0].t)
        out[i] = [b.t for b in e.fields[1].fields[1].fields]
    return out


def replay(ctx, name, role, N, NK, E, model, mode, why):
    edges = [[i, j] for i in range(N) for j in range(NK) if z3.is_true(model.eval(E[i][j], model_completion=True))]
    D = direct_bits(N, NK)
    # enforce mode: which of the claimed ancestors are direct parents (the rest are stored as indirect ancestors); compute mode: every link is a parent
    direct = [e for e in edges if mode != 'enforce' or z3.is_true(model.eval(D[e[0]][e[1]], model_completion=True))]
    a = ctx.native.ask({'op': 'tc', 'nodes': N, 'keys': NK, 'edges': edges, 'direct': direct, 'mode': mode})
    adj = {i: {j for (x, j) in edges if x == i} for i in range(N)}
    R = {i: set(adj[i]) for i in range(N)}
    for _ in range(N + 1):
        for i in range(N):
            for m in list(R[i]):
                if m < N:
                    R[i] |= adj[m]
    cyc = any(i in R[i] for i in range(N))
    closed = all(R[i] == adj[i] for i in range(N))
    want_ok = (not cyc) if mode == 'compute' else (closed and not cyc)
    if 'ok' not in a:
        return ctx.mismatch(name, f'native tc failed: {a}')
    problems = []
    if a['ok'] != want_ok:
        problems.append(f'{"accepted" if a["ok"] else "rejected"} but the graph {"has a cycle" if cyc else ("is not transitively closed" if not closed else "is acyclic" + (" and closed" if mode == "enforce" else ""))}')
    elif a['ok']:
        for i in range(N):
            got = {j for j in range(NK) if a['desc'][i][j]}
            if got != R[i]:
                problems.append(f'ancestors of n{i} = {sorted(got)}, reachable through parent links = {sorted(R[i])}')
    if problems:
        return ctx.violation(name, role, f'{why}: store with ancestor links {edges} of which {direct} are direct parents ({N} entities, ids {N}..{NK - 1} without a record, TC mode {mode}): ' + '; '.join(problems[:2]),
                             {'op': 'tc', 'nodes': N, 'keys': NK, 'edges': edges, 'direct': direct, 'mode': mode, 'expected_ok': want_ok, 'expected_ancestors': {i: sorted(R[i]) for i in range(N)}})
    return ctx.mismatch(name, f'{why}; abstract counterexample with parent links {edges}, but the real store agrees with reachability')


def compute(ctx, N, NK, enforce_dag):
    P = ctx.prog('core')
    f = P.find_one(r'^compute_tc$') if hasattr(P, 'find_one') else [x for x in P.funcs_named('compute_tc') if x.blocks][0]
    ctx.use(f)
    E = graph(N, NK)
    ex, heap = setup(ctx, N, NK, E)
    outs = ex.run(f, [Ref(0, ('local', 'NODES')), BoolV(z3.BoolVal(enforce_dag))], heap=heap)
    ctx.absorb(ex)
    nm = f'compute_tc[{N} entities + {NK - N} id without a record, enforce_dag={enforce_dag}]'
    ctx.panic_summary(nm, outs, ex)
    rets = [o for o in outs if o.kind == 'ret']
    R = reach(E, N, NK)
    cyc = z3.Or([R[i][i] for i in range(N)])
    bad = []
    for o in rets:
        if not (isinstance(o.val, Agg) and o.val.variant in ('Ok', 'Err')):
            raise NotEncoded(f'{nm}: result {o.val!r}')
        if o.val.variant == 'Err':
            claim = cyc if enforce_dag else F
        else:
            fe = final_edges(ex, o, N, NK)
            claim = z3.And([fe[i][j] == R[i][j] for i in range(N) for j in range(NK)] + ([z3.Not(cyc)] if enforce_dag else []))
        bad.append(z3.And(o.pc + [z3.Not(claim)]))
    role = 'transitive_closure.rs: compute_tc computes exactly parent-reachability and rejects cycles'
    ctx.decide(f'{nm}/ancestors = reachability through parent links, cycle <=> error, on all {len(rets)} paths', [z3.Or(bad) if bad else F], ex=ex,
               sample={'paths': len(rets), 'ok_paths': sum(1 for o in rets if o.val.variant == 'Ok')},
               on_sat=lambda m: replay(ctx, nm, role, N, NK, E, m, 'compute', 'the computed ancestor relation differs from reachability'))
    ctx.decide(f'{nm}/paths-cover', [z3.Not(z3.Or([z3.And(o.pc) if o.pc else T for o in rets]))], ex=ex)
    ctx.decide(f'{nm}/witness-ok', [z3.Or([z3.And(o.pc) if o.pc else T for o in rets if o.val.variant == 'Ok'] or [F])], expect='sat', ex=ex)
    if enforce_dag:
        ctx.decide(f'{nm}/witness-cycle-rejected', [z3.Or([z3.And(o.pc) if o.pc else T for o in rets if o.val.variant == 'Err'] or [F])], expect='sat', ex=ex)
    return len(rets)


def enforce(ctx, N, NK):
    P = ctx.prog('core')
    f = [x for x in P.funcs_named('enforce_tc_and_dag') if x.blocks][0]
    ctx.use(f)
    E = graph(N, NK)
    ex, heap = setup(ctx, N, NK, E)
    outs = ex.run(f, [Ref(0, ('local', 'NODES'))], heap=heap)
    ctx.absorb(ex)
    nm = f'enforce_tc_and_dag[{N} entities + {NK - N} id without a record]'
    ctx.panic_summary(nm, outs, ex)
    rets = [o for o in outs if o.kind == 'ret']
    closed = z3.And([z3.Implies(z3.And(E[i][j], E[j][k]), E[i][k]) for i in range(N) for j in range(N) for k in range(NK)])
    acyclic = z3.And([z3.Not(E[i][i]) for i in range(N)])
    want = z3.And(closed, acyclic)
    bad = []
    for o in rets:
        if not (isinstance(o.val, Agg) and o.val.variant in ('Ok', 'Err')):
            raise NotEncoded(f'{nm}: result {o.val!r}')
        bad.append(z3.And(o.pc + [z3.BoolVal(o.val.variant == 'Ok') != want]))
    role = 'transitive_closure.rs: enforce_tc_and_dag accepts exactly transitively closed acyclic stores'
    ctx.decide(f'{nm}/accepted <=> transitively closed and acyclic, on all {len(rets)} paths', [z3.Or(bad) if bad else F], ex=ex, sample={'paths': len(rets)},
               on_sat=lambda m: replay(ctx, nm, role, N, NK, E, m, 'enforce', '`enforce already computed` accepts a store that is not closed / acyclic, or rejects one that is'))
    ctx.decide(f'{nm}/paths-cover', [z3.Not(z3.Or([z3.And(o.pc) if o.pc else T for o in rets]))], ex=ex)
    ctx.decide(f'{nm}/witness-accept', [z3.Or([z3.And(o.pc) if o.pc else T for o in rets if o.val.variant == 'Ok'] or [F])], expect='sat', ex=ex)
    ctx.decide(f'{nm}/witness-reject', [z3.Or([z3.And(o.pc) if o.pc else T for o in rets if o.val.variant == 'Err'] or [F])], expect='sat', ex=ex)
    return len(rets)


def families(ctx):
    sizes = [(1, 2), (2, 3), (3, 4)] + ([(4, 4)] if ctx.tier == 'thorough' else [])
    fam = []
    for N, NK in sizes:
        fam.append((f'enforce_tc_and_dag {N}+{NK - N}', lambda N=N, NK=NK: enforce(ctx, N, NK)))
        for dag in (True, False):
            fam.append((f'compute_tc {N}+{NK - N} enforce_dag={dag}', lambda N=N, NK=NK, dag=dag: compute(ctx, N, NK, dag)))
    return fam


def run(ctx):
    from . import c04_store
    ctx.run_families(c04_store.families(ctx) + families(ctx))
    ctx.bounds += ['store edits: ONE remove / add / upsert of one entity with arbitrary parents, from ANY closed acyclic store of <= 3 entities (+ one parent id without a record) => edit histories of any length over stores of that size',
                   'batches: add / upsert of TWO entities in one call (both orders, replacing and / or new) on stores of <= 2 entities + one id without a record (thorough: + two ids), and on a 3-entity chain store n2 -> n1 -> n0, n1 -> n3 (each of these links present or not, no others) replacing n0 and n1 in one call; larger batches are outside',
                   'stores of <= 3 entities plus one parent id without a record (thorough: also 4 entities), EVERY possible parent link among them symbolic: 2^(N*(N+1)) graphs per size decided in one query; '
                   'larger stores are outside the claim', 'recursion of cyclic_tc_internal / add_ancestors bounded by the number of entities (never reached: the executor aborts otherwise)']
    ctx.assumptions += ['std HashMap / HashSet / Vec / Range and slice::sort_by modelled on concrete keys (mir2smt/containers.py); maps and sets iterate in insertion order - one of the orders a hash container may produce, '
                        'so order-DEPENDENT bugs that need another order are outside the claim (the algorithms are specified order-independently)',
                        'a node is (id, row of edge bits); TCNode::{get_key, out_edges, has_edge_to, add_edge_to} are the four obvious operations on the row, direct_edges an arbitrary symbolic subset of it (for Entity: parents vs parents + indirect ancestors)',
                        'node ids are machine integers: equality and hashing of EntityUID are outside the claim',
                        'store edits run Entities::{remove,add,upsert}_entities, repair_tc, add_ancestors, enforce_dag_from_tc_for and the real Entity / TCNode-for-Arc<Entity> method bodies; the two HashSet<EntityUID> fields of an entity '
                        'are sets with symbolic membership; pre-state = canonical closed store (indirect ancestors = reachable and not a direct parent; the public constructors give new entities parents only); '
                        'update_entity_map is modelled (insert / overwrite / duplicate); batches of more than two entities per call, remove of several ids per call and TCComputation::{Assume,Enforce}AlreadyComputed through the edit entry points are outside']
    return ctx.finish('Solver-decided (bounded) correctness of the transitive-closure algorithms executed from the MIR of transitive_closure.rs and entities.rs on symbolic graphs: after compute_tc the ancestor relation is exactly reachability '
                      'through parent links (ids without a record are leaves), with enforce_dag a cycle is reported iff one exists; enforce_tc_and_dag accepts exactly the transitively closed acyclic stores; and one remove / add / upsert '
                      'from any closed acyclic store leaves ancestors = reachability through the parent links then in the store (no ancestor survives the loss of the only path that justified it), rejecting exactly the edits that create a cycle.')
