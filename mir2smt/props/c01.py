"""C01 - authorization decision logic (engine M): bucket loop step, PartialResponse::new wiring, Response::from."""
import z3
from ..framework import MachineryError
from ..executor import IntV, BoolV, Agg, Opaque, Ref, NotEncoded, UNIT
from ..models import ok, err, some, none
from . import iteralg

BUCKETS = ['true_permits', 'true_forbids', 'false_permits', 'false_forbids', 'residual_permits', 'residual_forbids']
FIELDS = ('satisfied_permits', 'false_permits', 'residual_permits', 'satisfied_forbids', 'false_forbids', 'residual_forbids', 'errors',
          'true_expr', 'false_expr', 'request')
COND = {'true': 'true', 'false': 'false', 'error': '(1 + 9223372036854775807) > 0', 'residual': 'unknown("u")', 'nonbool': '1 + 1'}


def policy_text(pols):
    """pols: list of (effect, outcome)"""
    def one(eff, out):
        if eff == 'permit_action_in_empty':
            return f'permit(principal, action in [], resource) when {{ {COND[out]} }};'
        return f'{eff}(principal, action, resource) when {{ {COND[out]} }};'
    return '\n'.join(one(eff, out) for eff, out in pols)


def expected_response(pols):
    ids = [f'policy{i}' for i in range(len(pols))]
    # `action in []` matches no request: such a policy is never satisfied (and never errors)
    pols = [(e, o) if e != 'permit_action_in_empty' else ('permit', 'false') for e, o in pols]
    tp = [i for i, (e, o) in zip(ids, pols) if e == 'permit' and o == 'true']
    tf = [i for i, (e, o) in zip(ids, pols) if e == 'forbid' and o == 'true']
    errs = [i for i, (e, o) in zip(ids, pols) if o in ('error', 'residual', 'nonbool')]
    return {'decision': 'Allow' if tp and not tf else 'Deny', 'reasons': sorted(tf if tf else tp), 'errors': sorted(errs)}


def replay_policies(ctx, obligation, role, pols, why):
    """run the real authorizer on a concretised policy set; VIOLATION only if the real response differs from C01's table"""
    got = ctx.native.ask({'op': 'authorize', 'policies': policy_text(pols)})
    exp = expected_response(pols)
    if 'decision' not in got:
        return ctx.mismatch(obligation, f'native authorize failed: {got}')
    got3 = {k: got[k] for k in ('decision', 'reasons', 'errors')}
    if got3 != exp:
        return ctx.violation(obligation, role, f'{why}; policies {pols}: real response {got3}, C01 prescribes {exp}',
                             {'op': 'authorize', 'policies': policy_text(pols), 'expected': exp, 'got': got3})
    return ctx.mismatch(obligation, f'{why}; but the real authorizer answers as prescribed for {pols}: {got3}')


# ---------------------------------------------------------------------------------------------- loop step

def loop_step(ctx):
    P = ctx.prog('core')
    f = P.method('authorizer.rs', 'is_authorized_core_internal')
    ctx.use(f)
    ex = ctx.new_exec('core')
    head = f.find_block(r'as Iterator>::next\(')
    OUT, SAT, EFF, MORE = z3.Int('OUT'), z3.Bool('SAT'), z3.Int('EFF'), z3.Bool('MORE')
    pol = Opaque('ast::policy::Policy', 'p')
    pid, ann = Opaque('ast::policy::PolicyID', 'pid'), Opaque('Arc<Annotations>', 'ann')
    resid, everr = Opaque('ast::expr::Expr', 'residual'), Opaque('EvaluationError', 'evalerr')
    EFFT = ex.variants_of('ast::policy::Effect')
    EST = ex.variants_of('authorizer::partial_response::ErrorState') or ex.variants_of('ErrorState')
    if EFFT is None or set(EFFT) != {'Permit', 'Forbid'} or EST is None:
        raise NotEncoded(f'Effect / ErrorState tables: {EFFT} {EST}')
    ex.stub(r'as Iterator>::next$', lambda ex, st, c, A: [([MORE], some(ex.new_cell(st, pol, 'p'))), ([z3.Not(MORE)], none())], 'Iterator::next over pset.policies(): arbitrary policy or end')
    ex.stub(r'Policy::id$', lambda ex, st, c, A: ex.new_cell(st, pid, 'pid'), 'Policy::id -> &pid')
    ex.stub(r'Policy::annotations_arc$', lambda ex, st, c, A: ex.new_cell(st, ann, 'ann'), 'Policy::annotations_arc')
    ex.stub(r'Evaluator::<.*>::partial_evaluate$',
            lambda ex, st, c, A: [([OUT == 0], ok(Agg('variant', 'Either', 'Left', [BoolV(SAT)]))), ([OUT == 1], ok(Agg('variant', 'Either', 'Right', [resid]))),
                                  ([OUT == 2], err(everr))], 'Evaluator::partial_evaluate: arbitrary outcome Ok(Left(b)) | Ok(Right(residual)) | Err(e)')
    ex.stub(r'Policy::effect$', lambda ex, st, c, A: [([EFF == i], Agg('variant', 'ast::policy::Effect', n, [])) for n, i in EFFT.items()], 'Policy::effect: arbitrary')
    ex.stub(r'Vec::<.*>::push$', lambda ex, st, c, A: UNIT, 'Vec::push (logged)')
    ex.stub(r'PartialResponse::new::<', lambda ex, st, c, A: Opaque('PartialResponse', 'PR'), 'PartialResponse::new (logged)')
    ex.invariants += [OUT >= 0, OUT <= 2, z3.Or([EFF == i for i in EFFT.values()])]
    outs = ex.run(f, None, start=head, stop=(head,))
    ctx.absorb(ex)
    ctx.panic_summary(f.name.split('::')[-1] + '@' + (f.file or '').split('/')[-1], outs, ex)
    dbg = {v: k for k, v in f.debug.items()}
    permit = EFF == EFFT['Permit']
    exp_bucket = z3.If(OUT == 0, z3.If(SAT, z3.If(permit, 0, 1), z3.If(permit, 2, 3)), z3.If(OUT == 1, z3.If(permit, 4, 5), z3.If(permit, 2, 3)))
    n_iter = 0
    for i, o in enumerate(outs):
        name = f'authorizer-loop/path{i}'
        if o.kind in ('panic', 'unreachable'):
            ctx.decide(name + ':panic', o.pc, kind='panic', ex=ex,
                       on_sat=lambda m: ('unreplayed', f'panic path {o.msg} feasible'))
            continue
        pushes = [c for c in o.log if c.tag.startswith('Vec::push')]
        if o.kind == 'ret':
            # loop exit: the seven vectors go to PartialResponse::new in this order
            calls = [c for c in o.log if c.tag.startswith('PartialResponse::new')]
            good = len(calls) == 1 and not pushes
            if good:
                a = calls[0].args
                want = ['true_permits', 'false_permits', 'residual_permits', 'true_forbids', 'false_forbids', 'residual_forbids', 'errors']
                good = [getattr(x, 'what', None) for x in a[:7]] == want
            claim = z3.BoolVal(bool(good))
            ctx.decide('authorizer-loop/exit: buckets handed to PartialResponse::new in declaration order', o.pc + [z3.Not(claim)], ex=ex,
                       sample={'call': repr(calls[0])[:400] if calls else None},
                       on_sat=lambda m: replay_policies(ctx, 'authorizer-loop/exit', 'authorizer.rs: arguments of PartialResponse::new',
                                                        [('permit', 'true'), ('forbid', 'false'), ('permit', 'error'), ('forbid', 'error')], 'bucket vectors reach PartialResponse::new in a different order'))
            continue
        if not o.kind.startswith('stop'):
            raise NotEncoded(f'loop step outcome {o.kind}')
        n_iter += 1
        claims = []
        bucket_pushes = []
        err_pushes = []
        for c in pushes:
            tgt = c.args[0]
            local = tgt.place[1] if isinstance(tgt, Ref) and tgt.place[0] == 'local' else None
            nm = dbg.get(local)
            if nm in BUCKETS:
                bucket_pushes.append((BUCKETS.index(nm), c.args[1]))
            elif nm == 'errors':
                err_pushes.append(c.args[1])
            else:
                claims.append(z3.BoolVal(False))
        # exactly one bucket push, into the bucket the (outcome, effect) pair names, carrying this policy's id
        claims.append(z3.BoolVal(len(bucket_pushes) == 1))
        if len(bucket_pushes) == 1:
            b, item = bucket_pushes[0]
            claims.append(exp_bucket == b)
            idok = isinstance(item, Agg) and len(item.fields) == 2 and getattr(item.fields[0], 'id', None) == pid.id
            claims.append(z3.BoolVal(bool(idok)))
            if idok and b in (2, 3):
                es = item.fields[1].fields[0]
                is_err = es.variant == 'Error' if isinstance(es, Agg) else None
                claims.append(z3.BoolVal(is_err is not None) if is_err is None else ((OUT == 2) == z3.BoolVal(is_err)))
            if idok and b in (4, 5):
                r = item.fields[1].fields[0]
                claims.append(z3.BoolVal(isinstance(r, Agg) and r.name == 'Arc' and getattr(r.fields[0], 'id', None) == resid.id))
        # errors: one PolicyEvaluationError{id: this id, error: the evaluation error} exactly when evaluation failed
        claims.append((OUT == 2) == z3.BoolVal(len(err_pushes) == 1))
        claims.append(z3.BoolVal(len(err_pushes) <= 1))
        if len(err_pushes) == 1:
            e = err_pushes[0]
            good = isinstance(e, Agg) and e.variant == 'PolicyEvaluationError' and getattr(e.fields[0], 'id', None) == pid.id and getattr(e.fields[1], 'id', None) == everr.id
            claims.append(z3.BoolVal(bool(good)))

        def on_sat(m, o=o):
            out = m.eval(OUT, model_completion=True).as_long()
            sat = z3.is_true(m.eval(SAT, model_completion=True))
            eff = 'permit' if m.eval(EFF, model_completion=True).as_long() == EFFT['Permit'] else 'forbid'
            oc = {0: 'true' if sat else 'false', 1: 'residual', 2: 'error'}[out]
            other = ('permit', 'true') if eff == 'forbid' else ('forbid', 'false')
            return replay_policies(ctx, name, 'authorizer.rs: bucket loop step', [(eff, oc), other], f'loop step for outcome={oc} effect={eff} files the policy wrongly')
        ctx.decide(name, o.pc + [z3.Not(z3.And(claims))], ex=ex, on_sat=on_sat,
                   sample={'path_condition': [str(c) for c in o.pc], 'pushes': [repr(c)[:200] for c in pushes]} if n_iter <= 2 else None)
    # every (outcome, satisfied, effect) combination is covered by some path, and each class is reachable
    ctx.decide('authorizer-loop/paths-cover-all-outcomes', [MORE, z3.Not(z3.Or([z3.And(o.pc) for o in outs if o.kind.startswith('stop')]))], ex=ex)
    for out, nm in ((0, 'value'), (1, 'residual'), (2, 'error')):
        ctx.decide(f'authorizer-loop/witness:{nm}', [MORE, OUT == out, z3.Or([z3.And(o.pc) for o in outs if o.kind.startswith('stop')])], expect='sat', ex=ex)


def loop_prefix(ctx):
    """from function entry to the loop head: no early exit, the seven vectors start empty, the loop runs over pset.policies()"""
    P = ctx.prog('core')
    f = P.method('authorizer.rs', 'is_authorized_core_internal')
    ctx.use(f)
    ex = ctx.new_exec('core')
    head = f.find_block(r'as Iterator>::next\(')
    ex.stub(r'Vec::<.*>::new$', lambda ex, st, c, A: Agg('struct', '~Vec::new', None, []), 'Vec::new (empty-vector marker)')
    ex.stub(r'PolicySet::policies$', lambda ex, st, c, A: Agg('struct', '~policies', None, [A[0]]), 'PolicySet::policies (term)')
    ex.stub(r'as IntoIterator>::into_iter$', lambda ex, st, c, A: A[0], 'IntoIterator::into_iter (identity)')
    ex.havoc_unknown = True       # code inserted before the loop that the executor does not know is treated as arbitrary (replay decides)
    args = ex.args_havoc(f)
    outs = ex.run(f, args, stop=(head,))
    ctx.absorb(ex)
    ctx.panic_summary(f.name.split('::')[-1] + '@' + (f.file or '').split('/')[-1], outs, ex)
    dbg = f.debug
    good = len(outs) >= 1
    for o in outs:
        if not o.kind.startswith('stop'):
            good = False
            continue
        env = o.st.frames[ex.root_fid]
        for nm in BUCKETS + ['errors']:
            v = env.get(dbg[nm])
            good = good and isinstance(v, Agg) and v.name == '~Vec::new'
        it = env.get(dbg['iter'])
        good = good and isinstance(it, Agg) and it.name == '~policies' and it.fields[0] is args[3]
    ctx.decide('authorizer-loop/prefix: entry reaches the loop with seven empty vectors over pset.policies(), no early exit',
               [z3.Not(z3.BoolVal(bool(good)))], ex=ex, sample={'outcomes': [o.kind for o in outs]},
               on_sat=lambda m: replay_policies(ctx, 'authorizer-loop/prefix', 'authorizer.rs: code before the bucket loop',
                                                [('forbid', 'true'), ('forbid', 'error')], 'the function does not enter the bucket loop with empty buckets over all policies'))


# ---------------------------------------------------------------------------------------------- PartialResponse::new

def pr_new(ctx):
    P = ctx.prog('core')
    f = P.method('authorizer/partial_response.rs', 'new', nargs=8)
    ctx.use(f)
    ex = ctx.new_exec('core')
    iteralg.install(ex)
    ex.stub(r'Expr::val::<', lambda ex, st, c, A: Agg('struct', 'Expr::val', None, [A[0]], ('v',)), 'Expr::val (opaque constructor)')
    dbg = {v: k for k, v in f.debug.items()}
    args = [Opaque(ty, dbg.get(n, n)) for n, ty in f.args]
    outs = ex.run(f, args)
    ctx.absorb(ex)
    ctx.panic_summary(f.name.split('::')[-1] + '@' + (f.file or '').split('/')[-1], outs, ex)
    rets = [o for o in outs if o.kind == 'ret']
    for o in outs:
        if o.kind != 'ret':
            ctx.decide('PartialResponse::new/panic-free', o.pc, kind='panic', ex=ex)
    want = {'satisfied_permits': 'true_permits', 'false_permits': 'false_permits', 'residual_permits': 'residual_permits', 'satisfied_forbids': 'true_forbids',
            'false_forbids': 'false_forbids', 'residual_forbids': 'residual_forbids', 'errors': 'errors'}
    for i, o in enumerate(rets):
        v = o.val
        good = isinstance(v, Agg) and v.fnames is not None and set(want) <= set(v.fnames)
        details = {}
        if good:
            for fld, src in want.items():
                t = v.field(fld)
                # collect(into_iter(<param>))
                try:
                    inner = t.fields[0].fields[0]
                    details[fld] = getattr(inner, 'what', repr(inner))
                    good = good and t.name == '~collect' and t.fields[0].name == '~into_iter' and inner.what == src
                except (AttributeError, IndexError):
                    good = False
            te, fe = v.field('true_expr'), v.field('false_expr')
            try:
                good = good and z3.is_true(te.fields[0].fields[0].t) and z3.is_false(fe.fields[0].fields[0].t)
            except (AttributeError, IndexError):
                good = False
        ctx.decide(f'PartialResponse::new/path{i}: each field collects the parameter of the same role', o.pc + [z3.Not(z3.BoolVal(bool(good)))], ex=ex,
                   sample={'fields': details},
                   on_sat=lambda m: replay_policies(ctx, 'PartialResponse::new', 'partial_response.rs: PartialResponse::new field wiring',
                                                    [('permit', 'true'), ('forbid', 'false'), ('permit', 'false'), ('forbid', 'error'), ('permit', 'error')], 'a field of PartialResponse is built from the wrong parameter'))
    ctx.decide('PartialResponse::new/witness', [z3.BoolVal(len(rets) >= 1)], expect='sat', ex=ex)


# ---------------------------------------------------------------------------------------------- Response::from(PartialResponse)

def make_pr(ex):
    maps = {n: Opaque('HashMap' if n != 'errors' else 'Vec<AuthorizationError>', n) for n in FIELDS}
    pr = Agg('struct', 'PartialResponse', None, [maps[n] for n in FIELDS], FIELDS)
    empty = {n: z3.Bool('empty_' + n) for n in FIELDS[:6]}
    by_id = {maps[n].id: n for n in FIELDS}

    def is_empty(ex, st, c, A):
        m = ex.read(st, A[0].fid, A[0].place) if isinstance(A[0], Ref) else A[0]
        n = by_id.get(getattr(m, 'id', None))
        if n is None or n not in empty:
            raise NotEncoded(f'is_empty on {m!r}')
        return BoolV(empty[n])
    ex.stub(r'HashMap::<.*>::is_empty$', is_empty, 'HashMap::is_empty: one free boolean per bucket')
    return pr, maps, empty, by_id


def bucket_elem(ids):
    """abstract element of a bucket: (key, payload); by reference for iter(), owned for into_iter()"""
    def elem_of(ex, st, bucket, owned):
        if bucket not in ids:
            ids[bucket] = (Opaque('ast::policy::PolicyID', f'id@{bucket}'), None)
        key = ids[bucket][0]
        if bucket == 'errors':
            return Opaque('AuthorizationError', 'err@errors')
        pty = {'satisfied': 'Arc<Annotations>', 'false': '(ErrorState, Arc<Annotations>)', 'residual': '(Arc<Expr>, Arc<Annotations>)'}[bucket.split('_')[0]]
        mk = ('payload', bucket)
        if mk not in ex.memo:
            ex.pending_cells = {}
            ex.memo[mk] = ex.fresh(pty, f'payload@{bucket}', st)
        pay = ex.memo[mk]
        if owned:
            return Agg('tuple', None, None, [key, pay])
        return Agg('tuple', None, None, [ex.new_cell(st, key, 'key'), ex.new_cell(st, pay, 'val')])
    return elem_of


def response_from(ctx):
    P = ctx.prog('core')
    f = P.method('authorizer/partial_response.rs', 'from', nargs=1, arg0=r'PartialResponse$')
    ctx.use(f)
    ex = ctx.new_exec('core')
    iteralg.install(ex, [(r'Response::new$', 'Response::new')])
    pr, maps, empty, by_id = make_pr(ex)
    ex.stub(r'construct_policy$', lambda ex, st, c, A: Agg('struct', 'Policy', None, list(A[0].fields), ('effect', 'id', 'expr', 'annotations')), 'construct_policy (logged constructor)')
    ex.stub(r'Policy::id$', lambda ex, st, c, A: (lambda p: p.field('id') if isinstance(p, Agg) and p.fnames and 'id' in p.fnames else (_ for _ in ()).throw(NotEncoded('Policy::id on ' + repr(p))))(ex.read(st, A[0].fid, A[0].place)), 'Policy::id of a constructed policy')
    ex.stub(r'EvaluationError::non_value$', lambda ex, st, c, A: Agg('struct', 'non_value', None, [A[0]], ('expr',)), 'EvaluationError::non_value (constructor)')
    ex.stub(r'as Clone>::clone$', lambda ex, st, c, A: None, 'clone')
    outs = ex.run(f, [pr])
    ctx.absorb(ex)
    ctx.panic_summary(f.name.split('::')[-1] + '@' + (f.file or '').split('/')[-1], outs, ex)
    ids = {}
    D = iteralg.Denoter(ex, lambda v: by_id.get(getattr(v, 'id', None)), bucket_elem(ids))
    e_sp, e_sf = empty['satisfied_permits'], empty['satisfied_forbids']
    DEC = ex.variants_of('authorizer::Decision') or ex.variants_of('Decision')
    for i, o in enumerate(outs):
        name = f'Response::from(PartialResponse)/path{i}'
        if o.kind != 'ret':
            ctx.decide(name + ':panic', o.pc, kind='panic', ex=ex)
            continue
        v = o.val
        if not (isinstance(v, Agg) and v.name == '~Response::new' and len(v.fields) == 3):
            raise NotEncoded(f'Response::from result {v!r}')
        dec, reasons, errors = v.fields
        claims = []
        # decision
        claims.append((z3.And(z3.Not(e_sp), e_sf)) == z3.BoolVal(dec.variant == 'Allow'))
        claims.append(z3.BoolVal(dec.variant in ('Allow', 'Deny')))
        # reasons = ids of satisfied forbids if any, else ids of satisfied permits
        rel = D.denote(o.st, reasons)
        want_sf = z3.Not(e_sf)
        for e in rel:
            key = ids[e.bucket][0]
            v = e.val
            if isinstance(v, Ref):
                v = ex.read(e.st, v.fid, v.place)
            claims.append(z3.BoolVal(getattr(v, 'id', None) == key.id))      # what is reported is the element's own id
        for bname in FIELDS[:6]:
            incl = z3.Or([z3.And(e.guard) if e.guard else z3.BoolVal(True) for e in rel if e.bucket == bname] or [z3.BoolVal(False)])
            if bname == 'satisfied_forbids':
                want = want_sf
            elif bname == 'satisfied_permits':
                want = z3.Not(want_sf)
            else:
                want = z3.BoolVal(False)
            # set equality: a non-empty bucket contributes its members exactly when C01 says so
            claims.append(z3.Implies(z3.Not(empty[bname]), incl == want))
        # errors = residual policies (as evaluation errors, by id) ++ recorded errors
        eel = D.denote(o.st, errors)
        seen = set()
        for e in eel:
            unguarded = not e.guard
            if e.bucket in ('residual_permits', 'residual_forbids'):
                val = e.val
                good = isinstance(val, Agg) and val.variant == 'PolicyEvaluationError' and getattr(val.fields[0], 'id', None) == ids[e.bucket][0].id
                claims.append(z3.BoolVal(bool(good and unguarded)))
            elif e.bucket == 'errors':
                claims.append(z3.BoolVal(isinstance(e.val, Opaque) and e.val.what == 'err@errors' and unguarded))
            else:
                claims.append(z3.BoolVal(False))
            seen.add(e.bucket)
        claims.append(z3.BoolVal(seen == {'residual_permits', 'residual_forbids', 'errors'} and len(eel) == 3))

        def on_sat(m, o=o):
            bits = {n: z3.is_true(m.eval(empty[n], model_completion=True)) for n in empty}
            pols = []
            for n, (eff, out) in {'satisfied_permits': ('permit', 'true'), 'satisfied_forbids': ('forbid', 'true'), 'false_permits': ('permit', 'false'),
                                  'false_forbids': ('forbid', 'error'), 'residual_permits': ('permit', 'residual'), 'residual_forbids': ('forbid', 'residual')}.items():
                if not bits[n]:
                    pols.append((eff, out))
            return replay_policies(ctx, name, 'partial_response.rs: impl From<PartialResponse> for Response (decision / reason / errors)', pols,
                                   f'response assembled from buckets (empty bits {bits}) disagrees with the C01 table')
        ctx.decide(name, o.pc + [z3.Not(z3.And(claims))], ex=ex, on_sat=on_sat,
                   sample={'path_condition': [str(c) for c in o.pc], 'decision': dec.variant, 'reasons_from': sorted({e.bucket for e in rel}), 'errors_from': sorted({e.bucket for e in eel})} if i < 3 else None)
    rets = [o for o in outs if o.kind == 'ret']
    ctx.decide('Response::from(PartialResponse)/paths-cover-all-bucket-states', [z3.Not(z3.Or([z3.And(o.pc) if o.pc else z3.BoolVal(True) for o in rets]))], ex=ex)
    ctx.decide('Response::from(PartialResponse)/witness:Allow', [z3.Or([z3.And(o.pc) for o in rets if o.val.fields[0].variant == 'Allow'])], expect='sat', ex=ex)
    ctx.decide('Response::from(PartialResponse)/witness:Deny', [z3.Or([z3.And(o.pc) for o in rets if o.val.fields[0].variant == 'Deny'])], expect='sat', ex=ex)


def policy_evaluation(ctx):
    """Evaluator::{partial_evaluate, evaluate, interpret}: how the value of a policy condition becomes satisfied / not / error"""
    from .common import SymValue
    from .c02 import install_value_stubs, as_type_error
    P = ctx.prog('core')
    for meth, nargs in (('partial_evaluate', 2), ('evaluate', 2), ('interpret', 3)):
        f = P.method('evaluator.rs', meth, nargs=nargs, arg0=r'&evaluator::Evaluator')
        ctx.use(f)
        ex = ctx.new_exec('core')
        install_value_stubs(ex)
        val = SymValue(ex, 'condition_value')
        resid, everr = Opaque('ast::expr::Expr', 'residual'), Opaque('EvaluationError', 'evalerr')
        OUT = z3.Int('PI')
        ex.invariants += [OUT >= 0, OUT <= 2]
        pol = Opaque('ast::policy::Policy', 'p')
        ex.stub(r'Policy::condition$', lambda ex, st, c, A: Agg('struct', '~condition', None, [ex.read(st, A[0].fid, A[0].place)]), 'Policy::condition (term)')
        ex.stub(r'Policy::env$', lambda ex, st, c, A: Agg('struct', '~env', None, [ex.read(st, A[0].fid, A[0].place)]), 'Policy::env (term)')
        ex.stub(r'Evaluator::<.*>::partial_interpret$',
                lambda ex, st, c, A: [([OUT == 0], ok(Agg('variant', 'ast::partial_value::PartialValue', 'Value', [val.v]))),
                                      ([OUT == 1], ok(Agg('variant', 'ast::partial_value::PartialValue', 'Residual', [resid]))), ([OUT == 2], err(everr))],
                'Evaluator::partial_interpret: arbitrary Ok(Value v) | Ok(Residual e) | Err(e)')
        ex.stub(r'EvaluationError::non_value$', lambda ex, st, c, A: Agg('struct', 'EvaluationError', None, [A[0]], ('non_value',)), 'EvaluationError::non_value (constructor)')
        ev = Opaque('evaluator::Evaluator', 'eval')
        if meth == 'interpret':
            e_arg, slots = Opaque('ast::expr::Expr', 'e'), Opaque('SlotEnv', 'slots')
            args, heap = [Ref(0, ('local', 'EV')), Ref(0, ('local', 'E')), Ref(0, ('local', 'S'))], {'EV': ev, 'E': e_arg, 'S': slots}
        else:
            args, heap = [Ref(0, ('local', 'EV')), Ref(0, ('local', 'P'))], {'EV': ev, 'P': pol}
        outs = ex.run(f, args, heap=heap)
        ctx.absorb(ex)
        ctx.panic_summary(f.name.split('::')[-1] + '@' + (f.file or '').split('/')[-1], outs, ex)
        is_bool = val.code == 0
        for i, o in enumerate(outs):
            name = f'Evaluator::{meth}/path{i}'
            if o.kind != 'ret':
                ctx.decide(name + ':panic', o.pc, kind='panic', ex=ex)
                continue
            v = o.val
            calls = [c for c in o.log if c.tag.startswith('Evaluator::partial_interpret')]
            wired = len(calls) == 1
            if wired and meth != 'interpret':
                a = calls[0].args
                x1 = ex.read(o.st, a[1].fid, a[1].place) if isinstance(a[1], Ref) else a[1]
                wired = isinstance(x1, Agg) and x1.name == '~condition' and x1.fields[0].id == pol.id and isinstance(a[2], Agg) and a[2].name == '~env' and a[2].fields[0].id == pol.id
            claims = [z3.BoolVal(bool(wired))]
            if v.variant == 'Ok':
                p0 = v.fields[0]
                if meth == 'partial_evaluate':
                    if p0.variant == 'Left':
                        claims.append(z3.And(OUT == 0, is_bool, p0.fields[0].t == val.b))
                    else:
                        claims.append(z3.And(OUT == 1, z3.BoolVal(getattr(p0.fields[0], 'id', None) == resid.id)))
                elif meth == 'evaluate':
                    claims.append(z3.And(OUT == 0, is_bool, p0.t == val.b))
                else:
                    claims.append(z3.And(OUT == 0, z3.BoolVal(getattr(p0, 'id', None) == val.v.id)))
            elif v.variant == 'Err':
                e0 = v.fields[0]
                if getattr(e0, 'id', None) == everr.id:
                    claims.append(OUT == 2)
                elif as_type_error(e0) is not None:
                    # a non-boolean condition value is an error, never "satisfied"
                    claims.append(z3.And(OUT == 0, z3.Not(is_bool), z3.BoolVal(meth != 'interpret')))
                elif isinstance(e0, Agg) and e0.fnames == ('non_value',):
                    claims.append(z3.And(OUT == 1, z3.BoolVal(meth != 'partial_evaluate' and getattr(e0.fields[0], 'id', None) == resid.id)))
                else:
                    claims.append(z3.BoolVal(False))
            else:
                claims.append(z3.BoolVal(False))

            def on_sat(m, meth=meth):
                return replay_policies(ctx, f'Evaluator::{meth}', f'evaluator.rs: Evaluator::{meth}', [('permit', 'true'), ('forbid', 'false'), ('permit', 'error'), ('forbid', 'nonbool')],
                                       'the value of a policy condition is mapped to satisfied / unsatisfied / error wrongly')
            ctx.decide(name, o.pc + [z3.Not(z3.And(claims))], ex=ex, on_sat=on_sat,
                       sample={'path_condition': [str(c)[:80] for c in o.pc][:5], 'returns': repr(v)[:160]} if i < 2 else None)
        rets = [o for o in outs if o.kind == 'ret']
        ctx.decide(f'Evaluator::{meth}/paths-cover', [z3.Not(z3.Or([z3.And(o.pc) if o.pc else z3.BoolVal(True) for o in rets]))], ex=ex)
        ctx.decide(f'Evaluator::{meth}/witness', [z3.Or([z3.And(o.pc) if o.pc else z3.BoolVal(True) for o in rets if o.val.variant == 'Ok'] or [z3.BoolVal(False)])], expect='sat', ex=ex)


def entry_wiring(ctx):
    """Authorizer::is_authorized = concretize(is_authorized_core(q, pset, entities)); is_authorized_core evaluates with an Evaluator built from the same request and store"""
    P = ctx.prog('core')
    f = P.method('authorizer.rs', 'is_authorized', nargs=4)
    g = P.method('authorizer.rs', 'is_authorized_core', nargs=4)
    h = P.method('authorizer/partial_response.rs', 'concretize', nargs=1)
    for fn in (f, g, h):
        ctx.use(fn)
    ex = ctx.new_exec('core')
    ex.stub(r'is_authorized_core_internal$', lambda ex, st, c, A: Agg('struct', '~internal', None, list(A)), 'is_authorized_core_internal (term)')
    ex.stub(r'Evaluator::<.*>::new$', lambda ex, st, c, A: Agg('struct', '~Evaluator::new', None, list(A)), 'Evaluator::new (term)')
    ex.stub(r'<.*PartialResponse as Into<.*Response>>::into$|<.*Response as From<.*PartialResponse>>::from$', lambda ex, st, c, A: Agg('struct', '~Response::from', None, list(A)), 'Response::from(PartialResponse) (term)')
    ex.stub(r'<.*Request as Clone>::clone$', lambda ex, st, c, A: ex.read(st, A[0].fid, A[0].place), 'Request::clone (identity)')
    auth = Opaque('Authorizer', 'authorizer')
    ext = ex.opaque_field(auth, None, 0, "&Extensions<'_>")
    q, pset, ents = Opaque('ast::request::Request', 'q'), Opaque('ast::policy_set::PolicySet', 'pset'), Opaque('entities::Entities', 'entities')
    outs = ex.run(f, [Ref(0, ('local', 'A')), q, Ref(0, ('local', 'PS')), Ref(0, ('local', 'ES'))], heap={'A': auth, 'PS': pset, 'ES': ents})
    ctx.absorb(ex)
    ctx.panic_summary(f.name.split('::')[-1] + '@' + (f.file or '').split('/')[-1], outs, ex)
    good = len(outs) == 1 and outs[0].kind == 'ret'
    detail = ''
    if good:
        v = outs[0].val
        detail = repr(v)[:400]
        try:
            inner = v.fields[0]                       # ~internal[&self, &eval, q, &pset]
            st = outs[0].st
            evv = ex.read(st, inner.fields[1].fid, inner.fields[1].place)
            good = v.name == '~Response::from' and inner.name == '~internal' and inner.fields[2].id == q.id \
                and ex.read(st, inner.fields[3].fid, inner.fields[3].place).id == pset.id \
                and evv.name == '~Evaluator::new' and evv.fields[0].id == q.id and ex.read(st, evv.fields[1].fid, evv.fields[1].place).id == ents.id
        except (AttributeError, IndexError, NotEncoded):
            good = False
    ctx.decide('Authorizer::is_authorized/wiring: concretize(internal(Evaluator::new(q, entities, ext), q, pset))', [z3.Not(z3.BoolVal(bool(good)))], ex=ex, sample={'result': detail},
               on_sat=lambda m: replay_policies(ctx, 'Authorizer::is_authorized', 'authorizer.rs: is_authorized / is_authorized_core wiring', [('permit', 'true'), ('forbid', 'error')], 'entry point wiring'))


def scope_condition(ctx):
    """the condition evaluated for a policy is principal-scope && (action-scope && (resource-scope && (when/unless conjunction or true))), and each scope
    constraint denotes the documented test (`action in []` is the empty membership test - false -, never `true`)"""
    import re as _re
    from .evalarm import EXPR_CTORS
    P = ctx.prog('core')

    def mkex():
        ex = ctx.new_exec('core')
        ex.havoc_unknown = True
        ex.stub(r'(^|::)Expr::(<.*>::)?(and|or|val|is_eq|is_in|is_entity_type|var|set|not)(::<.*>)?$',
                lambda ex_, st, c, A: Agg('struct', '~Expr::' + _re.search(r'Expr::(?:<.*>::)?(\w+)(::<.*>)?$', c).group(1), None, list(A)), 'Expr constructors (terms)')
        ex.stub(r'with_maybe_source_loc$', lambda ex_, st, c, A: A[0], 'Expr::with_maybe_source_loc (identity)')
        ex.stub(r'as Clone>::clone$', lambda ex_, st, c, A: None, 'clone')
        return ex

    def shape(ex, st, t):
        n = 0
        while isinstance(t, Ref) and n < 6:
            t = ex.read(st, t.fid, t.place)
            n += 1
        if isinstance(t, Agg) and t.name and t.name.startswith('~'):
            return (t.name[1:],) + tuple(shape(ex, st, a) for a in t.fields)
        if isinstance(t, Agg) and t.name == 'Arc':
            return shape(ex, st, t.fields[0])
        if isinstance(t, BoolV):
            return 'true' if z3.is_true(t.t) else ('false' if z3.is_false(t.t) else str(t.t))
        if isinstance(t, Agg) and t.variant:
            return t.variant
        if isinstance(t, Opaque):
            return t.what
        return repr(t)[:30]

    def decide(name, ex, outs, want_of_path, pols):
        ctx.panic_summary(name, outs, ex)
        n = 0
        for i, o in enumerate(outs):
            if o.kind != 'ret':
                continue
            n += 1
            got = shape(ex, o.st, o.val)
            want = want_of_path(o)
            ctx.decide(f'{name}/path{i}', o.pc + [z3.Not(z3.BoolVal(got == want))], ex=ex, sample={'built': str(got)[:300]},
                       on_sat=lambda m, pols=pols: replay_policies(ctx, name, 'ast/policy.rs: scope constraints / TemplateBody::condition', pols, 'the expression built for a policy scope is not the documented one'))
        ctx.decide(f'{name}/witness', [z3.BoolVal(n >= 1)], expect='sat', ex=ex)

    # (1) TemplateBody::condition
    f = P.method('ast/policy.rs', 'condition', nargs=1, arg0=r'&(ast::policy::)?TemplateBody$')
    ctx.use(f)
    ex = mkex()
    NS = z3.Bool('has_when_unless')
    for nm in ('principal', 'action', 'resource'):
        ex.stub(r'TemplateBody::' + nm + '_constraint_expr$', (lambda nm: lambda ex_, st, c, A: Agg('struct', f'~{nm}_scope', None, []))(nm), f'{nm} scope expression (term)')
    ex.stub(r'TemplateBody::non_scope_constraints$', lambda ex_, st, c, A: [([NS], some(ex_.new_cell(st, Agg('struct', '~when_unless', None, []), 'ns'))), ([z3.Not(NS)], none())], 'non_scope_constraints: present or not')
    ex.stub(r'TemplateBody::loc$', lambda ex_, st, c, A: none(), 'TemplateBody::loc')
    body = Agg('variant', 'ast::policy::TemplateBody', 'TemplateBody', [Opaque('TemplateBodyImpl', 'body')])
    outs = ex.run(f, [Ref(0, ('local', 'B'))], heap={'B': body})
    ctx.absorb(ex)

    def want_cond(o):
        has = any(str(c) == 'has_when_unless' for c in o.pc)
        return ('Expr::and', ('principal_scope',), ('Expr::and', ('action_scope',), ('Expr::and', ('resource_scope',), ('when_unless',) if has else ('Expr::val', 'true'))))
    decide('TemplateBody::condition', ex, outs, want_cond, [('forbid', 'true'), ('permit', 'true')])

    # (2) principal / resource constraints
    f = P.method('ast/policy.rs', 'as_expr', nargs=2, arg0=r'&.*PrincipalOrResourceConstraint$')
    ctx.use(f)
    for variant, nf in (('Any', 0), ('In', 1), ('Eq', 1), ('Is', 1), ('IsIn', 2)):
        ex = mkex()
        ex.stub(r'EntityReference::into_expr$', lambda ex_, st, c, A: Agg('struct', '~entity_ref', None, []), 'EntityReference::into_expr (term)')
        ex.stub(r'<.*Var as From<.*PrincipalOrResource>>::from$|<.*PrincipalOrResource as Into<.*Var>>::into$', lambda ex_, st, c, A: Agg('struct', '~the_var', None, []), 'PrincipalOrResource -> Var (term)')
        ex.stub(r'<.*SlotId as From<.*PrincipalOrResource>>::from$|<.*PrincipalOrResource as Into<.*SlotId>>::into$', lambda ex_, st, c, A: Agg('struct', '~slot', None, []), 'PrincipalOrResource -> SlotId (term)')
        ex.stub(r'<Arc<.*EntityType> as AsRef<.*>>::as_ref$', lambda ex_, st, c, A: A[0], 'Arc::as_ref')
        fields = {'Any': [], 'In': [Opaque('EntityReference', 'ref')], 'Eq': [Opaque('EntityReference', 'ref')], 'Is': [Opaque('Arc<EntityType>', 'type')],
                  'IsIn': [Opaque('Arc<EntityType>', 'type'), Opaque('EntityReference', 'ref')]}[variant]
        c_ = Agg('variant', 'ast::policy::PrincipalOrResourceConstraint', variant, fields)
        outs = ex.run(f, [Ref(0, ('local', 'C')), Opaque('ast::policy::PrincipalOrResource', 'which')], heap={'C': c_})
        ctx.absorb(ex)
        var = ('Expr::var', ('the_var',))
        want = {'Any': ('Expr::val', 'true'), 'Eq': ('Expr::is_eq', var, ('entity_ref',)), 'In': ('Expr::is_in', var, ('entity_ref',)), 'Is': ('Expr::is_entity_type', var, 'type'),
                'IsIn': ('Expr::and', ('Expr::is_entity_type', var, 'type'), ('Expr::is_in', var, ('entity_ref',)))}[variant]
        decide(f'PrincipalOrResourceConstraint::as_expr[{variant}]', ex, outs, lambda o, want=want: want, [('permit', 'true')])

    # (3) action constraint
    f = P.method('ast/policy.rs', 'as_expr', nargs=1, arg0=r'&.*ActionConstraint$')
    ctx.use(f)
    for variant in ('Any', 'In', 'Eq'):
        ex = mkex()
        ex.stub(r'ActionConstraint::euids_into_expr::<', lambda ex_, st, c, A: Agg('struct', '~set_of_all_listed_actions', None, [A[0]]), 'ActionConstraint::euids_into_expr (term over the iterator it is given)')
        ex.stub(r'(slice::<impl \[.*\]>|Vec::<.*>)::iter$', lambda ex_, st, c, A: Agg('struct', '~iter', None, [ex_.read(st, A[0].fid, A[0].place) if isinstance(A[0], Ref) else A[0]]), 'Vec::iter (term)')
        ex.stub(r'<Vec<.*> as Deref>::deref$', lambda ex_, st, c, A: A[0], 'Vec::deref')
        ex.stub(r'as Iterator>::cloned::<', lambda ex_, st, c, A: A[0], 'Iterator::cloned (identity on terms)')
        fields = {'Any': [], 'In': [Opaque('Vec<Arc<EntityUID>>', 'listed actions')], 'Eq': [Opaque('Arc<EntityUID>', 'the action')]}[variant]
        c_ = Agg('variant', 'ast::policy::ActionConstraint', variant, fields)
        outs = ex.run(f, [Ref(0, ('local', 'C'))], heap={'C': c_})
        ctx.absorb(ex)
        var = ('Expr::var', 'Action')
        want = {'Any': ('Expr::val', 'true'), 'In': ('Expr::is_in', var, ('set_of_all_listed_actions', ('iter', 'listed actions'))), 'Eq': ('Expr::is_eq', var, ('Expr::val', 'the action'))}[variant]
        decide(f'ActionConstraint::as_expr[{variant}]', ex, outs, lambda o, want=want: want, [('permit_action_in_empty', 'true'), ('forbid', 'false')])


def families(ctx):
    return [(fn.__name__, (lambda fn=fn: fn(ctx))) for fn in (entry_wiring, policy_evaluation, scope_condition, loop_prefix, loop_step, pr_new, response_from)]


def run(ctx):
    ctx.run_families(families(ctx))
    ctx.bounds += ['loop step: one iteration from an arbitrary (havocked) state => every loop length; decision tables: all 2^6 bucket-emptiness states',
                   'replay concretises outcomes as static policies: true/false literal, integer overflow (error), unknown("u") (residual)']
    ctx.assumptions += ['Evaluator::partial_evaluate, Policy::{id,effect,annotations_arc}, Iterator::next over the policy set: environment stubs returning arbitrary values',
                        'Vec::push / HashMap::{is_empty,iter} / Iterator adaptors: logged terms; closure bodies of the adaptors are executed from the MIR on one abstract element per bucket',
                        'which value each policy condition evaluates to is C02, not C01']
    return ctx.finish('Solver-decided decision logic of the authorizer, executed from the MIR of the current tree: one bucket-loop iteration from an arbitrary state (the 3x2 outcome x effect table, error reporting by id), '
                      'the wiring of the seven bucket vectors through PartialResponse::new, and decision / reasons / errors of Response::from(PartialResponse) over all bucket-emptiness states.')
