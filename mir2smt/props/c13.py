"""C13 - partial evaluation soundness: the response algebra of PartialResponse (engine M)."""
import itertools
import z3
from ..framework import MachineryError
from ..executor import IntV, BoolV, Agg, Opaque, Ref, NotEncoded, UNIT
from . import iteralg
from .c01 import make_pr, bucket_elem, FIELDS, policy_text, COND

SAT_B = {'satisfied_permits': ('permit', 'true'), 'false_permits': ('permit', 'false'), 'residual_permits': ('permit', 'residual'),
         'satisfied_forbids': ('forbid', 'true'), 'false_forbids': ('forbid', 'false'), 'residual_forbids': ('forbid', 'residual')}


def setup(ctx, meth):
    P = ctx.prog('core')
    f = P.method('authorizer/partial_response.rs', meth, nargs=1, arg0=r'&PartialResponse$')
    ctx.use(f)
    ex = ctx.new_exec('core')
    iteralg.install(ex)
    pr, maps, empty, by_id = make_pr(ex)
    ex.stub(r'construct_policy$', lambda ex, st, c, A: Agg('struct', 'Policy', None, list(A[0].fields), ('effect', 'id', 'expr', 'annotations')), 'construct_policy (logged constructor)')
    ex.stub(r'Policy::from_when_clause_annos$', lambda ex, st, c, A: Agg('struct', 'Policy', None, [A[0], A[2], A[1], A[4]], ('effect', 'id', 'expr', 'annotations')), 'Policy::from_when_clause_annos (logged constructor)')
    ex.stub(r'PolicySet::try_from_iter::<', lambda ex, st, c, A: Agg('struct', '~collect', None, list(A)), 'PolicySet::try_from_iter (as collect)')
    ex.stub(r'source_loc$', lambda ex, st, c, A: Opaque('Option<&Loc>', 'loc'), 'Expr::source_loc')
    outs = ex.run(f, [Ref(0, ('local', 'PR'))], heap={'PR': pr})
    ctx.absorb(ex)
    ctx.panic_summary(f.name.split('::')[-1] + '@' + (f.file or '').split('/')[-1], outs, ex)
    ids = {}
    D = iteralg.Denoter(ex, lambda v: by_id.get(getattr(v, 'id', None)), bucket_elem(ids))
    return f, ex, pr, maps, empty, outs, D, ids


def resolve(ex, st, v):
    n = 0
    while isinstance(v, Ref) and n < 8:
        v = ex.read(st, v.fid, v.place)
        n += 1
    return v


def pols_of_bits(bits):
    """concretise bucket emptiness bits: one policy per non-empty bucket; residuals are `unknown("uK")`"""
    pols = []
    for n, (eff, out) in SAT_B.items():
        if not bits[n]:
            pols.append((eff, out))
    return pols


def partial_text(pols):
    out = []
    for i, (eff, o) in enumerate(pols):
        cond = f'unknown("u{i}")' if o == 'residual' else COND[o]
        out.append(f'{eff}(principal, action, resource) when {{ {cond} }};')
    return '\n'.join(out)


def native_check(ctx, name, role, pols, why):
    """differential replay through the public API: partial response vs. every completion authorized from scratch"""
    text = partial_text(pols)
    unknowns = [i for i, (e, o) in enumerate(pols) if o == 'residual']
    base = ctx.native.ask({'op': 'authorize_partial', 'policies': text})
    if 'partial' not in base:
        return ctx.mismatch(name, f'native partial authorization failed: {base}')
    p = base['partial']
    problems = []
    for combo in itertools.product(['true', 'false', '1'], repeat=len(unknowns)):
        bind = {f'u{i}': v for i, v in zip(unknowns, combo)}
        conc_text = text
        for k, v in bind.items():
            conc_text = conc_text.replace(f'unknown("{k}")', v)
        conc = ctx.native.ask({'op': 'authorize', 'policies': conc_text})
        if p['decision'] is not None and p['decision'] != conc['decision']:
            problems.append(f'definite partial decision {p["decision"]} but completion {bind} gives {conc["decision"]}')
        if not set(p['must']) <= set(conc['reasons']):
            problems.append(f'must_be_determining {p["must"]} not within determining {conc["reasons"]} under {bind}')
        if not set(conc['reasons']) <= set(p['may']):
            problems.append(f'determining {conc["reasons"]} not within may_be_determining {p["may"]} under {bind}')
        for s in p['satisfied']:
            if s in conc['errors']:
                problems.append(f'definitely satisfied {s} errors under {bind}')
        for s in p['errored']:
            if s not in conc['errors']:
                problems.append(f'definitely errored {s} does not error under {bind}')
        re = ctx.native.ask({'op': 'authorize_partial', 'policies': text, 'bindings': bind})
        if 'reauthorized' in re:
            r = re['reauthorized']['concretized']
            if r['decision'] != conc['decision'] or sorted(r['reasons']) != sorted(conc['reasons']):
                problems.append(f'reauthorize under {bind} gives {r}, from scratch {conc}')
    if p['decision'] is None and unknowns:
        pass
    if problems:
        return ctx.violation(name, role, f'{why}; policies {pols}: ' + '; '.join(problems[:3]),
                             {'op': 'authorize_partial', 'policies': text, 'problems': problems[:6]})
    return ctx.mismatch(name, f'{why}; but the real partial authorizer is sound on {pols}')


def bits_of(m, empty):
    return {n: z3.is_true(m.eval(empty[n], model_completion=True)) for n in empty}


# ---------------------------------------------------------------------------------------------- decision()

def decision(ctx):
    f, ex, pr, maps, empty, outs, D, ids = setup(ctx, 'decision')
    e = empty
    e_sp, e_rp, e_sf, e_rf = e['satisfied_permits'], e['residual_permits'], e['satisfied_forbids'], e['residual_forbids']

    def allow(cp, cf):
        return z3.And(z3.Or(z3.Not(e_sp), cp), e_sf, z3.Not(cf))

    def valid(cp, cf):
        # a completion can make a residual permit / forbid satisfied only if there is one
        return z3.And(z3.Implies(cp, z3.Not(e_rp)), z3.Implies(cf, z3.Not(e_rf)))
    B = [z3.BoolVal(False), z3.BoolVal(True)]
    combos = [(cp, cf) for cp in B for cf in B]
    for i, o in enumerate(outs):
        name = f'PartialResponse::decision/path{i}'
        if o.kind != 'ret':
            ctx.decide(name + ':panic', o.pc, kind='panic', ex=ex)
            continue
        v = o.val
        if v.variant == 'Some':
            d = v.fields[0].variant
            # soundness: equal to the concrete decision of EVERY completion of the residual policies
            claim = z3.And([z3.Implies(valid(cp, cf), allow(cp, cf) == z3.BoolVal(d == 'Allow')) for cp, cf in combos])
            what = f'Some({d})'
        elif v.variant == 'None':
            # exactness: `None` only when two completions disagree
            claim = z3.And(z3.Or([z3.And(valid(cp, cf), allow(cp, cf)) for cp, cf in combos]),
                           z3.Or([z3.And(valid(cp, cf), z3.Not(allow(cp, cf))) for cp, cf in combos]))
            what = 'None'
        else:
            raise NotEncoded(f'decision result {v!r}')
        ctx.decide(f'{name}:{what}', o.pc + [z3.Not(claim)], ex=ex,
                   sample={'path_condition': [str(c) for c in o.pc], 'returns': what, 'claim': 'forall completions: same decision' if v.variant == 'Some' else 'two completions disagree'} if i < 3 else None,
                   on_sat=lambda m, what=what: native_check(ctx, name, 'partial_response.rs: PartialResponse::decision', pols_of_bits(bits_of(m, empty)),
                                                            f'decision() returns {what} for bucket state {bits_of(m, empty)}'))
    rets = [o for o in outs if o.kind == 'ret']
    ctx.decide('PartialResponse::decision/paths-cover-all-bucket-states', [z3.Not(z3.Or([z3.And(o.pc) for o in rets]))], ex=ex)
    for tag in ('Allow', 'Deny', None):
        conds = [z3.And(o.pc) for o in rets if (o.val.variant == 'None' and tag is None) or (o.val.variant == 'Some' and o.val.fields[0].variant == tag)]
        ctx.decide(f'PartialResponse::decision/witness:{tag}', [z3.Or(conds) if conds else z3.BoolVal(False)], expect='sat', ex=ex)


# ---------------------------------------------------------------------------------------------- may / must be determining

def determining(ctx, meth):
    f, ex, pr, maps, empty, outs, D, ids = setup(ctx, meth)
    e_sf, e_rf = empty['satisfied_forbids'], empty['residual_forbids']
    for i, o in enumerate(outs):
        name = f'PartialResponse::{meth}/path{i}'
        if o.kind != 'ret':
            ctx.decide(name + ':panic', o.pc, kind='panic', ex=ex)
            continue
        els = D.denote(o.st, o.val)
        claims = []
        for el in els:
            pol = el.val
            eff, kind = SAT_B[el.bucket][0], el.bucket.split('_')[0]
            good = isinstance(pol, Agg) and pol.fnames == ('effect', 'id', 'expr', 'annotations')
            if good:
                good = good and pol.field('effect').variant.lower() == eff
                good = good and getattr(resolve(ex, el.st, pol.field('id')), 'id', None) == ids[el.bucket][0].id
                x = resolve(ex, el.st, pol.field('expr'))
                if kind == 'satisfied':
                    good = good and getattr(x, 'what', None) == 'true_expr'
                elif kind == 'residual':
                    good = good and isinstance(x, Opaque) and 'payload@' + el.bucket in x.what
                else:
                    good = False
            claims.append(z3.BoolVal(bool(good)))
        for b in FIELDS[:6]:
            incl = z3.Or([z3.And(el.guard) if el.guard else z3.BoolVal(True) for el in els if el.bucket == b] or [z3.BoolVal(False)])
            if meth == 'must_be_determining':
                # a member may be reported only if it is determining under EVERY completion
                allowed = {'satisfied_permits': z3.And(e_sf, e_rf), 'satisfied_forbids': z3.BoolVal(True)}.get(b, z3.BoolVal(False))
                claims.append(z3.Implies(z3.And(z3.Not(empty[b]), incl), allowed))
            else:
                # every member that is determining under SOME completion must be reported
                required = {'satisfied_permits': e_sf, 'residual_permits': e_sf, 'satisfied_forbids': z3.BoolVal(True),
                            'residual_forbids': z3.BoolVal(True)}.get(b, z3.BoolVal(False))
                claims.append(z3.Implies(z3.And(z3.Not(empty[b]), required), incl))
        ctx.decide(name, o.pc + [z3.Not(z3.And(claims))], ex=ex,
                   sample={'path_condition': [str(c) for c in o.pc], 'buckets_reported': sorted({el.bucket for el in els})} if i < 2 else None,
                   on_sat=lambda m: native_check(ctx, name, f'partial_response.rs: PartialResponse::{meth}', pols_of_bits(bits_of(m, empty)),
                                                 f'{meth} for bucket state {bits_of(m, empty)}'))
    rets = [o for o in outs if o.kind == 'ret']
    ctx.decide(f'PartialResponse::{meth}/paths-cover-all-bucket-states', [z3.Not(z3.Or([z3.And(o.pc) if o.pc else z3.BoolVal(True) for o in rets]))], ex=ex)
    ctx.decide(f'PartialResponse::{meth}/witness', [z3.Or([z3.And(o.pc) if o.pc else z3.BoolVal(True) for o in rets])], expect='sat', ex=ex)


# ---------------------------------------------------------------------------------------------- definitely_* and the reauthorization policy set

def definitely(ctx):
    # definitely_errored: exactly the members of the false buckets whose ErrorState is Error, by their own id
    f, ex, pr, maps, empty, outs, D, ids = setup(ctx, 'definitely_errored')
    EST = ex.variants_of('authorizer::partial_response::ErrorState') or ex.variants_of('ErrorState')
    for i, o in enumerate(outs):
        name = f'PartialResponse::definitely_errored/path{i}'
        if o.kind != 'ret':
            ctx.decide(name + ':panic', o.pc, kind='panic', ex=ex)
            continue
        els = D.denote(o.st, o.val)
        claims = [z3.BoolVal({el.bucket for el in els} == {'false_permits', 'false_forbids'})]
        for el in els:
            if el.bucket not in ('false_permits', 'false_forbids'):
                continue
            pay = ex.memo[('payload', el.bucket)]          # (ErrorState, Arc<Annotations>)
            state = pay.fields[0]
            is_err = ex.is_variant(state, 'Error')
            claims.append(z3.And(el.guard) == is_err)
            claims.append(z3.BoolVal(getattr(resolve(ex, el.st, el.val), 'id', None) == ids[el.bucket][0].id))
        ctx.decide(name, o.pc + [z3.Not(z3.And(claims))], ex=ex, sample={'elements': [repr(e)[:160] for e in els]},
                   on_sat=lambda m: native_check(ctx, name, 'partial_response.rs: PartialResponse::definitely_errored',
                                                 [('permit', 'error'), ('forbid', 'false'), ('permit', 'false'), ('forbid', 'error')], 'definitely_errored reports the wrong members'))
    # definitely_satisfied: both satisfied buckets, nothing else
    f, ex, pr, maps, empty, outs, D, ids = setup(ctx, 'definitely_satisfied')
    for i, o in enumerate(outs):
        name = f'PartialResponse::definitely_satisfied/path{i}'
        if o.kind != 'ret':
            ctx.decide(name + ':panic', o.pc, kind='panic', ex=ex)
            continue
        els = D.denote(o.st, o.val)
        good = sorted(el.bucket for el in els if not el.guard) == ['satisfied_forbids', 'satisfied_permits'] and len(els) == 2
        for el in els:
            pol = el.val
            good = good and isinstance(pol, Agg) and pol.fnames == ('effect', 'id', 'expr', 'annotations') and pol.field('effect').variant.lower() == SAT_B[el.bucket][0] \
                and getattr(resolve(ex, el.st, pol.field('id')), 'id', None) == ids[el.bucket][0].id
        ctx.decide(name, o.pc + [z3.Not(z3.BoolVal(bool(good)))], ex=ex, sample={'elements': [repr(e)[:160] for e in els]},
                   on_sat=lambda m: native_check(ctx, name, 'partial_response.rs: PartialResponse::definitely_satisfied',
                                                 [('permit', 'true'), ('forbid', 'true'), ('permit', 'false'), ('forbid', 'residual')], 'definitely_satisfied reports the wrong members'))


def residual_policy_set(ctx):
    """the policy set `reauthorize` evaluates: one policy per member of every bucket, with the member's effect and id and the
    expression true / false / <its residual>"""
    f, ex, pr, maps, empty, outs, D, ids = setup(ctx, 'all_residual_policies')
    for i, o in enumerate(outs):
        name = f'PartialResponse::all_residual_policies/path{i}'
        if o.kind != 'ret':
            ctx.decide(name + ':panic', o.pc, kind='panic', ex=ex)
            continue
        els = D.denote(o.st, o.val)
        claims = []
        for b in FIELDS[:6]:
            mine = [el for el in els if el.bucket == b]
            # present under every guard (guards only split on the irrelevant source location)
            claims.append(z3.Or([z3.And(el.guard) if el.guard else z3.BoolVal(True) for el in mine] or [z3.BoolVal(False)]))
            for el in mine:
                pol = el.val
                kind = b.split('_')[0]
                good = isinstance(pol, Agg) and pol.fnames == ('effect', 'id', 'expr', 'annotations') and pol.field('effect').variant.lower() == SAT_B[b][0] \
                    and getattr(resolve(ex, el.st, pol.field('id')), 'id', None) == ids[b][0].id
                if good:
                    x = resolve(ex, el.st, pol.field('expr'))
                    want = {'satisfied': 'true_expr', 'false': 'false_expr'}.get(kind)
                    good = (getattr(x, 'what', None) == want) if want else (isinstance(x, Opaque) and 'payload@' + b in x.what)
                claims.append(z3.BoolVal(bool(good)))
        ctx.decide(name, o.pc + [z3.Not(z3.And(claims))], ex=ex, sample={'elements': [repr(e)[:200] for e in els[:4]]},
                   on_sat=lambda m: native_check(ctx, name, 'partial_response.rs: PartialResponse::all_residual_policies',
                                                 [('permit', 'true'), ('forbid', 'false'), ('permit', 'residual'), ('forbid', 'residual'), ('permit', 'false')],
                                                 'the policy set built for reauthorization misrepresents a bucket'))
    ctx.decide('PartialResponse::all_residual_policies/witness', [z3.BoolVal(any(o.kind == 'ret' for o in outs))], expect='sat', ex=ex)


def families(ctx):
    return [('decision', lambda: decision(ctx)), ('may_be_determining', lambda: determining(ctx, 'may_be_determining')),
            ('must_be_determining', lambda: determining(ctx, 'must_be_determining')), ('definitely', lambda: definitely(ctx)),
            ('residual_policy_set', lambda: residual_policy_set(ctx))] + residual_arms(ctx) + extra(ctx)


def extra(ctx):
    from . import c13_extra
    return c13_extra.families(ctx)


def residual_arms(ctx):
    """the evaluator arms whose handling of unknown operands is non-trivial (best-effort evaluation of the other operand, residual shapes);
    replayed natively by substituting every unknown and comparing the residual with the original expression"""
    from . import arms
    keep = ('And', 'Or', 'eval_if', 'UnaryApp', 'HasAttr', 'get_attr', 'BinaryApp[In]', 'BinaryApp[Eq]', 'BinaryApp[GetTag]', 'BinaryApp[HasTag]')
    return [(n, f) for n, f in arms.families(ctx) if any(k in n for k in keep)]


def run(ctx):
    ctx.run_families(families(ctx))
    from . import c13_extra
    ctx.guarded('native completion battery', lambda: c13_extra.completions_battery(ctx, 'native completion battery', 'partial authorization vs completions', 'native completion battery'))
    ctx.bounds += ['native completion battery (sampling): 13 policy sets with an unknown principal of a known type x 2 completions, 7 policy sets over 4 partial stores: a definite partial decision is the decision of every completion, '
                   're-authorization with the completion agrees with authorization from scratch (decision and determining policies)',
                   'all 2^6 bucket-emptiness states; completions quantified at bucket granularity (some residual permit / forbid becomes satisfied or none does)',
                   'replay: one policy per non-empty bucket, every binding of each unknown in {true, false, non-boolean}, reauthorize vs. authorization from scratch']
    ctx.assumptions += ['HashMap::is_empty / iter and iterator adaptors as logged terms; closure bodies executed from the MIR on one abstract member per bucket',
                        'construct_policy / Policy::from_when_clause_annos are logged constructors',
                        'evaluator arms with unknown operands: residual = the operator re-applied to the (best-effort) partially evaluated operands; replay substitutes every unknown and compares with the original expression',
                        'Expr::is_projectable node table, typed-unknown short-circuits, partial-store mode preserved by store edits; record projection through residual records, extension-call residuals, concretize_request and reauthorize end to end are NOT covered']
    return ctx.finish('Solver-decided soundness of the partial-response algebra, executed from the MIR of the current tree: decision() agrees with every completion of the residual policies and is None only '
                      'when two completions disagree; must_be_determining <= determining <= may_be_determining for every completion; definitely_errored / definitely_satisfied; the policy set reauthorize evaluates.')
