"""C19, second part - the input assembly of cedar-policy/src/ffi/utils.rs: every `parse` of the JSON interface is a thin route to one API constructor, and
`PolicySet::parse` / `StaticPolicySet::parse` / `TemplateLink::parse_and_add_to_set` assemble the policy set from the parts in a fixed way.
Each harness runs the real wrapper on opaque documents, with the API constructors as logged environment stubs that succeed or fail freely, and claims
  (a) which constructor is reached, with which arguments in which positions (ids under their own documents, schema / action handed over or not),
  (b) the wrapper succeeds iff every constructor it reached succeeded, and then returns that constructor's value (for sets: the set all parts were added to)."""
import itertools
import z3
from ..executor import IntV, BoolV, Agg, Opaque, Ref, NotEncoded, UNIT, FnItem
from ..models import ok, err, some, none, enum_cases
from .. import containers as C
from .c19 import strip, ident, pcs, T, F, battery_replay

FILE = 'cedar-policy/src/ffi/utils.rs'
U = 'ffi::utils::'


def the(ctx, rx, pred, what):
    fs = [f for f in ctx.prog('api').find(rx, FILE) if '{closure' not in f.name and pred(f)]
    if len(fs) != 1:
        raise LookupError(f'{what}: {len(fs)} candidates')
    ctx.use(fs[0])
    return fs[0]


def new_ex(ctx, paths=4000):
    ex = ctx.new_exec('api')
    ex.havoc_unknown = True
    ex.max_paths = paths
    C.install(ex)
    ex.stub(r'JsonValueWithNoDuplicateKeys as Into<.*>>::into$', lambda ex_, st, c, A: A[0], 'JSON wrapper -> serde_json::Value: the same document')
    return ex


def logger(ex, rx, tag, key, n_args, result, conv=None):
    """stub an API constructor: log the identities of its arguments under `key`, return result(st, A) -> [(conds, value)]"""
    def fn(ex_, st, c, A):
        st.notes['log'] = st.notes.get('log', []) + [(key,) + tuple(show(ex_, st, a) for a in A[:n_args])]
        return result(ex_, st, A)
    ex.stub(rx, fn, tag)


def show(ex, st, v, depth=3):
    """identity view of an argument: opaque id, or the shape of Option / tuple around opaque ids"""
    v = strip(ex, st, v)
    if isinstance(v, Opaque):
        return v.id
    if isinstance(v, Agg) and depth > 0:
        if v.variant in ('Some', 'None', 'Ok', 'Err'):
            return (v.variant,) + tuple(show(ex, st, x, depth - 1) for x in v.fields)
        if v.kind == 'tuple':
            return tuple(show(ex, st, x, depth - 1) for x in v.fields)
        if v.name in ('~vec', '~vec_iter', '~cmap', '~hmap', '~collected'):
            return (v.name,) + tuple(show(ex, st, x, depth - 1) for x in v.fields)
        if v.kind == 'struct' and len(v.fields) == 1:
            return show(ex, st, v.fields[0], depth - 1)
    if isinstance(v, BoolV):
        return ('bool', str(z3.simplify(v.t)))
    if isinstance(v, FnItem):
        return ('const', v.path)
    return ('?', type(v).__name__, getattr(v, 'name', None))


def result_variant(ex, o):
    v = strip(ex, o.st, o.val)
    if not (isinstance(v, Agg) and v.variant in ('Ok', 'Err')):
        raise NotEncoded(f'result {v!r}')
    return v


def finish(ctx, ex, nm, outs, claim_of, what, role, why):
    """claim_of(o, v) -> z3 claim for the path; one aggregated query"""
    import os
    if os.environ.get('C19_DEBUG'):
        print(nm, sorted(x for x in ex.stats['stubbed'] if x.startswith('HAVOC')))
    ctx.absorb(ex)
    ctx.panic_summary(nm, outs, ex)
    rets = [o for o in outs if o.kind == 'ret']
    bad = []
    for o in rets:
        v = result_variant(ex, o)
        bad.append(z3.And(o.pc + [z3.Not(claim_of(o, v))]))
    ctx.decide(f'{nm}/{what}', [z3.Or(bad) if bad else T], ex=ex, sample={'paths': len(rets)}, on_sat=lambda m: battery_replay(ctx, nm, role, why))
    ctx.decide(f'{nm}/paths-cover', [z3.Not(pcs(rets))], ex=ex)
    ctx.decide(f'{nm}/witness-ok', [pcs([o for o in rets if result_variant(ex, o).variant == 'Ok'])], expect='sat', ex=ex)
    ctx.decide(f'{nm}/witness-err', [pcs([o for o in rets if result_variant(ex, o).variant == 'Err'])], expect='sat', ex=ex)


def okerr(B, val, e='ErrReport'):
    return lambda ex_, st, A: [([B], ok(val)), ([z3.Not(B)], err(Opaque(e, 'constructor error')))]


def wrap_err_stubs(ex):
    # miette's `wrap_err*` keeps Ok and decorates Err; `Into<Report>` / `From` conversions of errors are terms
    def wrap(ex_, st, c, A):
        return [([cnd], ok(p[0]) if n == 'Ok' else err(Opaque('ErrReport', 'wrapped error'))) for cnd, n, p in enum_cases(ex_, st, A[0])]
    ex.stub(r'as (miette::)?(WrapErr|Context)<.*>>::(wrap_err|wrap_err_with|context|with_context)(::<.*>)?$', wrap, 'miette wrap_err: Ok passes through, Err is decorated')
    ex.stub(r'as Into<.*(ErrReport|Report)>>::into$|(ErrReport|Report) as From<.*>>::from$|^[\w:]*Report::new::<|^[\w:]*<impl ErrReport>::new::<', lambda ex_, st, c, A: Opaque('ErrReport', 'converted error'), 'error -> report (term)')


def id_clone_stub(ex):
    # `id.clone()` feeds the error message only; the clone is a different object, so an API call on the clone instead of the id is a (reported) difference
    ex.stub(r'Option<(api::)?(id::)?PolicyId> as Clone>::clone$', lambda ex_, st, c, A: [([cnd], some(Opaque('api::PolicyId', 'clone of the id (for the message)')) if n == 'Some' else none()) for cnd, n, p in enum_cases(ex_, st, A[0])],
            'Option<PolicyId>::clone: used for the error message')


# ------------------------------------------------------------------------------------------------------------------ leaf wrappers

def leaf_entityuid(ctx):
    f = the(ctx, r'>::parse$', lambda f: len(f.args) == 2 and f.args[0][1].endswith('utils::EntityUid'), 'EntityUid::parse')
    ex = new_ex(ctx)
    wrap_err_stubs(ex)
    B = z3.Bool('from_json_ok')
    doc, val = Opaque('JsonValueWithNoDuplicateKeys', 'uid document'), Opaque('api::EntityUid', 'the uid')
    logger(ex, r'id::EntityUid::from_json$|api::EntityUid::from_json$', 'EntityUid::from_json(json), logged', 'from_json', 1, okerr(B, val))
    outs = ex.run(f, [Agg('struct', U + 'EntityUid', None, [doc]), Opaque('Option<&str>', 'category')])
    nm = 'utils::EntityUid::parse'

    def claim(o, v):
        lg = o.st.notes.get('log', [])
        if v.variant == 'Ok':
            return z3.And(B, z3.BoolVal(lg == [('from_json', doc.id)] and ident(ex, o.st, v.fields[0]) == val.id))
        return z3.Not(B)
    finish(ctx, ex, nm, outs, claim, 'EntityUid::from_json on the document, its value or its failure', 'ffi/utils.rs: EntityUid::parse', 'the uid is not the API parse of the document')


def leaf_context(ctx):
    f = the(ctx, r'>::parse$', lambda f: len(f.args) == 3 and f.args[0][1].endswith('utils::Context'), 'Context::parse')
    for hs, ha in itertools.product((False, True), repeat=2):
        ex = new_ex(ctx)
        wrap_err_stubs(ex)
        B = z3.Bool('from_json_ok')
        doc, val = Opaque('JsonValueWithNoDuplicateKeys', 'context document'), Opaque('api::Context', 'the context')
        sch, act = Opaque('api::Schema', 'schema'), Opaque('api::EntityUid', 'action')
        logger(ex, r'api::Context::from_json_value$', 'Context::from_json_value(json, schema and action), logged', 'from_json_value', 2, okerr(B, val, 'ContextJsonError'))
        st_pre = {}
        outs = ex.run(f, [Agg('struct', U + 'Context', None, [doc]), some(sch) if hs else none(), some(act) if ha else none()])
        nm = f'utils::Context::parse[schema {"given" if hs else "absent"}, action {"given" if ha else "absent"}]'
        want = ('from_json_value', doc.id, ('Some', (sch.id, act.id)) if hs and ha else ('None',))

        def claim(o, v, want=want, val=val, B=B, ex=ex):
            lg = o.st.notes.get('log', [])
            if v.variant == 'Ok':
                return z3.And(B, z3.BoolVal(lg == [want] and ident(ex, o.st, v.fields[0]) == val.id))
            return z3.And(z3.Not(B), z3.BoolVal(lg == [want]))
        finish(ctx, ex, nm, outs, claim, 'Context::from_json_value on the document with (schema, action) iff both are given', 'ffi/utils.rs: Context::parse', 'the context is not parsed against the schema and action given')


def leaf_entities(ctx):
    f = the(ctx, r'>::parse$', lambda f: len(f.args) == 2 and f.args[0][1].endswith('utils::Entities'), 'Entities::parse')
    for hs in (False, True):
        ex = new_ex(ctx)
        wrap_err_stubs(ex)
        B = z3.Bool('from_json_ok')
        doc, val, sch = Opaque('JsonValueWithNoDuplicateKeys', 'entities document'), Opaque('api::Entities', 'the entities'), Opaque('api::Schema', 'schema')
        logger(ex, r'api::Entities::from_json_value$', 'Entities::from_json_value(json, schema), logged', 'from_json_value', 2, okerr(B, val, 'EntitiesError'))
        outs = ex.run(f, [Agg('struct', U + 'Entities', None, [doc]), some(sch) if hs else none()])
        nm = f'utils::Entities::parse[schema {"given" if hs else "absent"}]'
        want = ('from_json_value', doc.id, ('Some', sch.id) if hs else ('None',))

        def claim(o, v, want=want, val=val, B=B, ex=ex):
            lg = o.st.notes.get('log', [])
            if v.variant == 'Ok':
                return z3.And(B, z3.BoolVal(lg == [want] and ident(ex, o.st, v.fields[0]) == val.id))
            return z3.And(z3.Not(B), z3.BoolVal(lg == [want]))
        finish(ctx, ex, nm, outs, claim, 'Entities::from_json_value on the document with the schema given', 'ffi/utils.rs: Entities::parse', 'the entities are not parsed against the schema given')


def leaf_policy(ctx, kind):
    """utils::Policy::parse / utils::Template::parse: Cedar text -> X::parse(id, text), JSON -> X::from_json(id, json)"""
    f = the(ctx, r'>::parse$', lambda f: len(f.args) == 2 and f.args[0][1].endswith('utils::' + kind) and 'Option<id::PolicyId>' in f.args[1][1].replace('std::option::', '').replace('api::', ''), f'{kind}::parse')
    for variant, has_id in itertools.product(('Cedar', 'Json'), (False, True)):
        ex = new_ex(ctx)
        wrap_err_stubs(ex)
        B = z3.Bool('constructor_ok')
        doc = Opaque('String' if variant == 'Cedar' else 'JsonValueWithNoDuplicateKeys', 'policy document')
        pid, val = Opaque('api::PolicyId', 'the id'), Opaque('api::' + kind, 'the parsed ' + kind.lower())
        id_clone_stub(ex)
        logger(ex, rf'api::{kind}::parse::<', f'{kind}::parse(id, text), logged', 'parse', 2, okerr(B, val, 'ParseErrors'))
        logger(ex, rf'api::{kind}::from_json$', f'{kind}::from_json(id, json), logged', 'from_json', 2, okerr(B, val, 'PolicyFromJsonError'))
        outs = ex.run(f, [Agg('variant', U + kind, variant, [doc]), some(pid) if has_id else none()])
        nm = f'utils::{kind}::parse[{variant}, id {"given" if has_id else "absent"}]'
        want = ('parse' if variant == 'Cedar' else 'from_json', ('Some', pid.id) if has_id else ('None',), doc.id)

        def claim(o, v, want=want, val=val, B=B, ex=ex):
            lg = o.st.notes.get('log', [])
            if v.variant == 'Ok':
                return z3.And(B, z3.BoolVal(lg == [want] and ident(ex, o.st, v.fields[0]) == val.id))
            return z3.And(z3.Not(B), z3.BoolVal(lg == [want]))
        finish(ctx, ex, nm, outs, claim, f'the API constructor for this syntax, on (the id given, the document)', f'ffi/utils.rs: {kind}::parse', f'the {kind.lower()} is not the API parse of the document under the id given')


def leaf_schema(ctx):
    f = the(ctx, r'>::parse_schema_fragment$', lambda f: len(f.args) == 1, 'Schema::parse_schema_fragment')
    for variant in ('Cedar', 'Json'):
        ex = new_ex(ctx)
        wrap_err_stubs(ex)
        B = z3.Bool('constructor_ok')
        doc = Opaque('String' if variant == 'Cedar' else 'JsonValueWithNoDuplicateKeys', 'schema document')
        frag, warn = Opaque('api::SchemaFragment', 'the fragment'), Opaque('warnings', 'the warnings')
        ex.stub(r'<(std::string::)?String as Deref>::deref$', lambda ex_, st, c, A: A[0], 'String -> &str (same text)')
        logger(ex, r'SchemaFragment::from_cedarschema_str$', 'SchemaFragment::from_cedarschema_str(text), logged', 'from_cedarschema_str', 1,
               lambda ex_, st, A: [([B], ok(Agg('tuple', None, None, [frag, warn]))), ([z3.Not(B)], err(Opaque('CedarSchemaError', 'schema error')))])
        logger(ex, r'SchemaFragment::from_json_value$', 'SchemaFragment::from_json_value(json), logged', 'from_json_value', 1, okerr(B, frag, 'SchemaError'))
        outs = ex.run(f, [Agg('variant', U + 'Schema', variant, [doc])])
        nm = f'utils::Schema::parse_schema_fragment[{variant}]'
        want = ('from_cedarschema_str' if variant == 'Cedar' else 'from_json_value', doc.id)

        def claim(o, v, want=want, B=B, ex=ex, frag=frag):
            lg = o.st.notes.get('log', [])
            if v.variant == 'Ok':
                tup = strip(ex, o.st, v.fields[0])
                return z3.And(B, z3.BoolVal(lg == [want] and isinstance(tup, Agg) and ident(ex, o.st, tup.fields[0]) == frag.id))
            return z3.And(z3.Not(B), z3.BoolVal(lg == [want]))
        finish(ctx, ex, nm, outs, claim, 'the API schema constructor for this syntax, on the document', 'ffi/utils.rs: Schema::parse_schema_fragment', 'the schema is not the API parse of the document')
    # Schema::parse = fragment, then TryInto<Schema>
    f = the(ctx, r'>::parse$', lambda f: len(f.args) == 1 and f.args[0][1].endswith('utils::Schema'), 'Schema::parse')
    ex = new_ex(ctx)
    wrap_err_stubs(ex)
    B1, B2 = z3.Bool('fragment_ok'), z3.Bool('try_into_ok')
    doc = Opaque(U + 'Schema', 'schema document')
    frag, warn, sch = Opaque('api::SchemaFragment', 'the fragment'), Opaque('warnings', 'the warnings'), Opaque('api::Schema', 'the schema')
    logger(ex, r'utils::Schema::parse_schema_fragment$', 'parse_schema_fragment (own obligation), logged', 'fragment', 1,
           lambda ex_, st, A: [([B1], ok(Agg('tuple', None, None, [frag, warn]))), ([z3.Not(B1)], err(Opaque('ErrReport', 'schema error')))])
    logger(ex, r'SchemaFragment as TryInto<.*Schema>>::try_into$', 'SchemaFragment -> Schema, logged', 'try_into', 1, okerr(B2, sch, 'SchemaError'))
    outs = ex.run(f, [doc])
    nm = 'utils::Schema::parse'

    def claim(o, v):
        lg = o.st.notes.get('log', [])
        if v.variant == 'Ok':
            tup = strip(ex, o.st, v.fields[0])
            return z3.And(B1, B2, z3.BoolVal(lg == [('fragment', doc.id), ('try_into', frag.id)] and isinstance(tup, Agg) and ident(ex, o.st, tup.fields[0]) == sch.id and ident(ex, o.st, tup.fields[1]) == warn.id))
        return z3.Not(z3.And(B1, B2))
    finish(ctx, ex, nm, outs, claim, 'the schema of the parsed fragment, with the fragment warnings', 'ffi/utils.rs: Schema::parse', 'the schema is not built from the parsed fragment')


# ------------------------------------------------------------------------------------------------------------------ assembly

def template_add(ctx):
    f = the(ctx, r'>::parse_and_add_to_set$', lambda f: len(f.args) == 3 and f.args[0][1].endswith('utils::Template'), 'Template::parse_and_add_to_set')
    for has_id in (False, True):
        ex = new_ex(ctx)
        wrap_err_stubs(ex)
        B1, B2 = z3.Bool('parse_ok'), z3.Bool('add_ok')
        doc, pid, tmpl, pset = Opaque(U + 'Template', 'template document'), Opaque('api::PolicyId', 'the id'), Opaque('api::Template', 'the template'), Opaque('api::PolicySet', 'the set')
        id_clone_stub(ex)
        logger(ex, r'utils::Template::parse$', 'Template::parse(doc, id) (own obligation), logged', 'parse', 2, okerr(B1, tmpl))
        logger(ex, r'api::PolicySet::add_template$', 'PolicySet::add_template(set, template), logged', 'add_template', 2, lambda ex_, st, A: [([B2], ok(UNIT)), ([z3.Not(B2)], err(Opaque('PolicySetError', 'add error')))])
        cell_holder = {}
        outs = ex.run(f, [doc, some(pid) if has_id else none(), Opaque('&mut api::PolicySet', 'set ref')], pre=[])
        # the third argument is a reference: identify the set by the reference value itself
        nm = f'utils::Template::parse_and_add_to_set[id {"given" if has_id else "absent"}]'

        def claim(o, v, ex=ex, B1=B1, B2=B2, doc=doc, pid=pid, tmpl=tmpl, has_id=has_id):
            lg = o.st.notes.get('log', [])
            p = ('parse', doc.id, ('Some', pid.id) if has_id else ('None',))
            if v.variant == 'Ok':
                return z3.And(B1, B2, z3.BoolVal(len(lg) == 2 and lg[0] == p and lg[1][0] == 'add_template' and lg[1][2] == tmpl.id))
            return z3.And(z3.Not(z3.And(B1, B2)), z3.BoolVal(lg[:1] == [p] and all(x[0] != 'add_template' or x[2] == tmpl.id for x in lg)))
        finish(ctx, ex, nm, outs, claim, 'the template parsed under the id given is the one added to the set', 'ffi/utils.rs: Template::parse_and_add_to_set', 'a template is added under the wrong id or not at all')


def link_add(ctx, sizes=(0, 1, 2)):
    f = the(ctx, r'>::parse_and_add_to_set$', lambda f: len(f.args) == 2 and f.args[0][1].endswith('utils::TemplateLink'), 'TemplateLink::parse_and_add_to_set')
    for n in sizes:
        ex = new_ex(ctx)
        wrap_err_stubs(ex)
        tid, nid = Opaque('api::PolicyId', 'template id'), Opaque('api::PolicyId', 'new id')
        slots = [Opaque('api::SlotId', f'slot {i}') for i in range(n)]
        docs = [Opaque(U + 'EntityUid', f'value document {i}') for i in range(n)]
        vals = [Opaque('api::EntityUid', f'value {i}') for i in range(n)]
        OK = [z3.Bool(f'value_{i}_parses') for i in range(n)]
        LINK = z3.Bool('link_ok')
        values = Agg('struct', '~hmap', None, [Agg('tuple', None, None, [slots[i], docs[i]]) for i in range(n)])
        link = Agg('struct', U + 'TemplateLink', None, [tid, nid, values], ('template_id', 'new_id', 'values'))
        idx = {d.id: i for i, d in enumerate(docs)}

        def uid_parse(ex_, st, c, A):
            i = idx.get(ident(ex_, st, A[0]))
            if i is None:
                return None
            st.notes['log'] = st.notes.get('log', []) + [('uid_parse', i)]
            return [([OK[i]], ok(vals[i])), ([z3.Not(OK[i])], err(Opaque('ErrReport', f'value {i} error')))]
        ex.stub(r'utils::EntityUid::parse$', uid_parse, 'EntityUid::parse of a slot value (own obligation), logged')
        ex.stub(r'<(std::collections::)?HashMap<.*> as IntoIterator>::into_iter$', lambda ex_, st, c, A: Agg('struct', '~vec_iter', None, list(A[0].fields)) if isinstance(A[0], Agg) and A[0].name == '~hmap' else None, 'map into_iter (given order)')

        logger(ex, r'api::PolicySet::link$', 'PolicySet::link(set, template id, new id, values), logged', 'link', 4, lambda ex_, st, A: [([LINK], ok(UNIT)), ([z3.Not(LINK)], err(Opaque('PolicySetError', 'link error')))])
        outs = ex.run(f, [link, Opaque('&mut api::PolicySet', 'set ref')])
        nm = f'utils::TemplateLink::parse_and_add_to_set[{n} slot values]'

        def claim(o, v, ex=ex, n=n, OK=OK, LINK=LINK, tid=tid, nid=nid, slots=slots, vals=vals):
            lg = [x for x in o.st.notes.get('log', []) if x[0] == 'link']
            allok = z3.And(OK + [LINK])
            want = ('~hmap',) + tuple((slots[i].id, vals[i].id) for i in range(n))
            if v.variant == 'Ok':
                return z3.And(allok, z3.BoolVal(len(lg) == 1 and lg[0][2] == tid.id and lg[0][3] == nid.id and lg[0][4] == want))
            return z3.And(z3.Not(allok), z3.BoolVal(all(x[2] == tid.id and x[3] == nid.id and x[4] == want for x in lg)))
        finish(ctx, ex, nm, outs, claim, 'link(template id, new id, {slot: parsed value}) with every value under its own slot; any value error fails the link', 'ffi/utils.rs: TemplateLink::parse_and_add_to_set',
               'a link is made with the wrong ids or slot values')


def static_set(ctx, sizes=(0, 1, 2)):
    f = the(ctx, r'>::parse$', lambda f: len(f.args) == 1 and f.args[0][1].endswith('StaticPolicySet'), 'StaticPolicySet::parse')
    # Concatenated
    ex = new_ex(ctx)
    wrap_err_stubs(ex)
    B, TM = z3.Bool('from_str_ok'), z3.Bool('has_templates')
    text, pset = Opaque('String', 'policy text'), Opaque('api::PolicySet', 'the parsed set')
    ex.stub(r'<(std::string::)?String as Deref>::deref$', lambda ex_, st, c, A: A[0], 'String -> &str (same text)')
    logger(ex, r'api::PolicySet as FromStr>::from_str$', 'PolicySet::from_str(text), logged', 'from_str', 1, okerr(B, pset, 'ParseErrors'))
    ex.stub(r'api::PolicySet::templates$', lambda ex_, st, c, A: Opaque('templates iterator', 'templates of the set') if ident(ex_, st, A[0]) == pset.id else None, 'PolicySet::templates (iterator term)')
    ex.stub(r' as Iterator>::count$', lambda ex_, st, c, A: [([TM], IntV(z3.IntVal(1), 'usize')), ([z3.Not(TM)], IntV(z3.IntVal(0), 'usize'))], 'number of templates: zero or not')
    ex.stub(r'miette::Report::msg|ErrReport::msg', lambda ex_, st, c, A: Opaque('ErrReport', 'template-in-static-set error'), 'miette!(..) (term)')
    outs = ex.run(f, [Agg('variant', U + 'StaticPolicySet', 'Concatenated', [text])])
    nm = 'utils::StaticPolicySet::parse[Concatenated]'

    def claim(o, v):
        lg = o.st.notes.get('log', [])
        if v.variant == 'Ok':
            return z3.And(B, z3.Not(TM), z3.BoolVal(lg == [('from_str', text.id)] and ident(ex, o.st, v.fields[0]) == pset.id))
        return z3.Or(z3.Not(B), TM)
    finish(ctx, ex, nm, outs, claim, 'PolicySet::from_str on the text (ids as the API assigns them); a template in it is refused', 'ffi/utils.rs: StaticPolicySet::parse', 'policy text is not parsed as the API parses it')
    # Set / Map
    for variant in ('Set', 'Map'):
        for n in sizes:
            ex = new_ex(ctx)
            wrap_err_stubs(ex)
            docs = [Opaque(U + 'Policy', f'policy document {i}') for i in range(n)]
            ids = [Opaque('api::PolicyId', f'id {i}') for i in range(n)]
            pols = [Opaque('api::Policy', f'policy {i}') for i in range(n)]
            OK = [z3.Bool(f'policy_{i}_parses') for i in range(n)]
            FROM = z3.Bool('from_policies_ok')
            pset = Opaque('api::PolicySet', 'the set')
            idx = {d.id: i for i, d in enumerate(docs)}
            if variant == 'Set':
                arg = Agg('variant', U + 'StaticPolicySet', 'Set', [Agg('struct', '~vec', None, list(docs))])
            else:
                arg = Agg('variant', U + 'StaticPolicySet', 'Map', [Agg('struct', '~hmap', None, [Agg('tuple', None, None, [ids[i], docs[i]]) for i in range(n)])])
            ex.stub(r'<(std::collections::)?HashMap<.*> as IntoIterator>::into_iter$', lambda ex_, st, c, A: Agg('struct', '~vec_iter', None, list(A[0].fields)) if isinstance(A[0], Agg) and A[0].name == '~hmap' else None, 'map into_iter (given order)')

            def pol_parse(ex_, st, c, A, idx=idx, OK=OK, pols=pols):
                i = idx.get(ident(ex_, st, A[0]))
                if i is None:
                    return None
                st.notes['log'] = st.notes.get('log', []) + [('policy_parse', i, show(ex_, st, A[1]))]
                return [([OK[i]], ok(pols[i])), ([z3.Not(OK[i])], err(Opaque('ErrReport', f'policy {i} error')))]
            ex.stub(r'utils::Policy::parse$', pol_parse, 'Policy::parse(doc, id) (own obligation), logged')
            logger(ex, r'api::PolicySet::from_policies::<', 'PolicySet::from_policies(policies), logged', 'from_policies', 1, okerr(FROM, pset, 'PolicySetError'))
            outs = ex.run(f, [arg])
            nm = f'utils::StaticPolicySet::parse[{variant} of {n}]'

            def claim(o, v, ex=ex, n=n, OK=OK, FROM=FROM, ids=ids, pols=pols, pset=pset, variant=variant):
                lg = o.st.notes.get('log', [])
                parses = sorted(x for x in lg if x[0] == 'policy_parse')
                want_parses = [('policy_parse', i, ('Some', ids[i].id) if variant == 'Map' else ('None',)) for i in range(n)]
                fp = [x for x in lg if x[0] == 'from_policies']
                allok = z3.And(OK + [FROM])
                if v.variant == 'Ok':
                    good = parses == want_parses and len(fp) == 1 and fp[0][1][0] in ('~vec', '~vec_iter') and list(fp[0][1][1:]) == [p.id for p in pols] and ident(ex, o.st, v.fields[0]) == pset.id
                    return z3.And(allok, z3.BoolVal(bool(good)))
                return z3.And(z3.Not(allok), z3.BoolVal(parses == want_parses))
            finish(ctx, ex, nm, outs, claim, 'every document parsed under its own id (none for an array), from_policies on all of them; any error fails the set', 'ffi/utils.rs: StaticPolicySet::parse',
                   'a static policy is parsed under the wrong id or dropped')


def policy_set(ctx, shapes=((0, 0), (1, 0), (1, 1), (2, 1), (1, 2), (2, 2))):
    f = the(ctx, r'>::parse$', lambda f: len(f.args) == 1 and f.args[0][1].endswith('utils::PolicySet'), 'PolicySet::parse')
    for nt, nl in shapes:
        ex = new_ex(ctx, 20000)
        wrap_err_stubs(ex)
        stat = Opaque(U + 'StaticPolicySet', 'static policies document')
        tids = [Opaque('api::PolicyId', f'template id {i}') for i in range(nt)]
        tdocs = [Opaque(U + 'Template', f'template document {i}') for i in range(nt)]
        ldocs = [Opaque(U + 'TemplateLink', f'link document {i}') for i in range(nl)]
        S_OK = z3.Bool('static_ok')
        T_OK = [z3.Bool(f'template_{i}_ok') for i in range(nt)]
        L_OK = [z3.Bool(f'link_{i}_ok') for i in range(nl)]
        pset, fresh = Opaque('api::PolicySet', 'the static set'), Opaque('api::PolicySet', 'an empty set')
        arg = Agg('struct', U + 'PolicySet', None, [stat, Agg('struct', '~hmap', None, [Agg('tuple', None, None, [tids[i], tdocs[i]]) for i in range(nt)]), Agg('struct', '~vec', None, list(ldocs))],
                  ('static_policies', 'templates', 'template_links'))
        ex.stub(r'<(std::collections::)?HashMap<.*> as IntoIterator>::into_iter$', lambda ex_, st, c, A: Agg('struct', '~vec_iter', None, list(A[0].fields)) if isinstance(A[0], Agg) and A[0].name == '~hmap' else None, 'map into_iter (given order)')
        logger(ex, r'(^|::)StaticPolicySet::parse$', 'StaticPolicySet::parse (own obligation), logged', 'static', 1,
               lambda ex_, st, A: [([S_OK], ok(pset)), ([z3.Not(S_OK)], err(Agg('struct', '~vec', None, [Opaque('ErrReport', 'static error')])))])
        ex.stub(r'api::PolicySet::new$', lambda ex_, st, c, A: fresh, 'PolicySet::new (the empty set used after a static error)')
        ex.stub(r'Vec::<.*ErrReport>::append$', lambda ex_, st, c, A: vec_append(ex_, st, A), 'Vec::append')
        tix = {d.id: i for i, d in enumerate(tdocs)}
        lix = {d.id: i for i, d in enumerate(ldocs)}

        def t_add(ex_, st, c, A, tix=tix, T_OK=T_OK):
            i = tix.get(ident(ex_, st, A[0]))
            if i is None:
                return None
            st.notes['log'] = st.notes.get('log', []) + [('template', i, show(ex_, st, A[1]), ident(ex_, st, A[2]))]
            return [([T_OK[i]], ok(UNIT)), ([z3.Not(T_OK[i])], err(Opaque('ErrReport', f'template {i} error')))]
        ex.stub(r'utils::Template::parse_and_add_to_set$', t_add, 'Template::parse_and_add_to_set(doc, id, set) (own obligation), logged')

        def l_add(ex_, st, c, A, lix=lix, L_OK=L_OK):
            i = lix.get(ident(ex_, st, A[0]))
            if i is None:
                return None
            st.notes['log'] = st.notes.get('log', []) + [('link', i, ident(ex_, st, A[1]))]
            return [([L_OK[i]], ok(UNIT)), ([z3.Not(L_OK[i])], err(Opaque('ErrReport', f'link {i} error')))]
        ex.stub(r'utils::TemplateLink::parse_and_add_to_set$', l_add, 'TemplateLink::parse_and_add_to_set(doc, set) (own obligation), logged')
        outs = ex.run(f, [arg])
        nm = f'utils::PolicySet::parse[{nt} templates, {nl} links]'

        def claim(o, v, ex=ex, nt=nt, nl=nl, S_OK=S_OK, T_OK=T_OK, L_OK=L_OK, tids=tids, pset=pset, stat=stat):
            lg = o.st.notes.get('log', [])
            allok = z3.And([S_OK] + T_OK + L_OK)
            if v.variant == 'Ok':
                want = [('static', stat.id)] + [('template', i, ('Some', tids[i].id), pset.id) for i in range(nt)] + [('link', i, pset.id) for i in range(nl)]
                return z3.And(allok, z3.BoolVal(lg == want and ident(ex, o.st, v.fields[0]) == pset.id))
            return z3.Not(allok)
        finish(ctx, ex, nm, outs, claim, 'static policies first, then every template under its own id, then every link, all into the one set that is returned; any error fails the whole set',
               'ffi/utils.rs: PolicySet::parse', 'the policy set is not assembled from all its parts')


def vec_append(ex, st, A):
    a, b = strip(ex, st, A[0]), strip(ex, st, A[1])
    if not (isinstance(a, Agg) and a.name == '~vec' and isinstance(b, Agg) and b.name == '~vec'):
        return None
    ra, rb = C.base_ref(ex, st, A[0]), C.base_ref(ex, st, A[1])

    def upd(s2):
        ex.write(s2, ra.fid, ra.place, Agg('struct', '~vec', None, list(a.fields) + list(b.fields)))
        ex.write(s2, rb.fid, rb.place, Agg('struct', '~vec', None, []))
    return [([], UNIT, upd)]


def families(ctx):
    th = ctx.tier == 'thorough'
    sizes = (0, 1, 2, 3) if th else (0, 1, 2)
    shapes = ((0, 0), (1, 0), (1, 1), (2, 1), (1, 2), (2, 2), (3, 2), (2, 3)) if th else ((0, 0), (1, 0), (1, 1), (2, 1), (1, 2), (2, 2))
    return [('utils leaf wrappers', lambda: (leaf_entityuid(ctx), leaf_context(ctx), leaf_entities(ctx), leaf_policy(ctx, 'Policy'), leaf_policy(ctx, 'Template'), leaf_schema(ctx))),
            ('utils template / link', lambda: (template_add(ctx), link_add(ctx, sizes))),
            ('utils static policy set', lambda: static_set(ctx, sizes)),
            ('utils policy set', lambda: policy_set(ctx, shapes))]
