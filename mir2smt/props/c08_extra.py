"""C08 (extension) - what `==` means on policies and templates.  PolicySet::{add, add_template, merge_policyset} decide "the same object again or a conflicting id" with `==`,
so the (derive / educe generated) equality must compare every semantic component: id, annotations, effect, the three scope constraints and the condition - only the
source location is allowed to be ignored.  The generated `eq` bodies are executed from the MIR with the component equalities as free booleans."""
import re
import z3
from ..executor import IntV, BoolV, Agg, Opaque, Ref, NotEncoded, UNIT

# struct -> (file, line-independent locator regex on the first parameter type, fields that equality may ignore)
STRUCTS = [('TemplateBodyImpl', r'&(ast::policy::)?TemplateBodyImpl$', {'loc'}),
           ('Template', r'&(ast::policy::)?Template$', set()),
           ('Policy', r'&(ast::policy::)?Policy$', set()),
           ('StaticPolicy', r'&(ast::policy::)?StaticPolicy$', set())]

PAIRS = [  # (label, a, b, equal?, template?)
    ('identical text', '@k("v") permit(principal, action, resource) when { principal == resource };', '@k("v") permit(principal, action, resource) when { principal == resource };', True, False),
    ('only layout differs', 'permit(principal,action,resource) when {1<2};', 'permit ( principal , action , resource )\nwhen { 1 < 2 } ;', True, False),
    ('annotation value differs', '@k("v") permit(principal, action, resource);', '@k("w") permit(principal, action, resource);', False, False),
    ('annotation key differs', '@k("v") permit(principal, action, resource);', '@j("v") permit(principal, action, resource);', False, False),
    ('one has an annotation', '@k("v") permit(principal, action, resource);', 'permit(principal, action, resource);', False, False),
    ('effect differs', 'permit(principal, action, resource);', 'forbid(principal, action, resource);', False, False),
    ('principal constraint differs', 'permit(principal == U::"a", action, resource);', 'permit(principal == U::"b", action, resource);', False, False),
    ('action constraint differs', 'permit(principal, action == Action::"a", resource);', 'permit(principal, action == Action::"b", resource);', False, False),
    ('resource constraint differs', 'permit(principal, action, resource in R::"a");', 'permit(principal, action, resource == R::"a");', False, False),
    ('condition differs', 'permit(principal, action, resource) when { 1 < 2 };', 'permit(principal, action, resource) when { 1 < 3 };', False, False),
    ('condition present vs absent', 'permit(principal, action, resource) when { true };', 'permit(principal, action, resource);', False, False),
    ('templates: annotation value differs', '@k("v") permit(principal == ?principal, action, resource);', '@k("w") permit(principal == ?principal, action, resource);', False, True),
    ('templates: slot position differs', 'permit(principal == ?principal, action, resource);', 'permit(principal in ?principal, action, resource);', False, True),
    ('templates: identical', '@k("v") permit(principal == ?principal, action, resource in ?resource);', '@k("v") permit(principal == ?principal, action, resource in ?resource);', True, True),
]


def eq_battery(ctx, name, role, why):
    for label, a, b, want, tmpl in PAIRS:
        r = ctx.native.ask({'op': 'policy_eq', 'a': a, 'b': b, 'template': tmpl})
        if 'equal' not in r:
            return ctx.mismatch(name, f'policy_eq probe `{label}`: {r}')
        if r['equal'] != want:
            return ctx.violation(name, role, f'{why}; natively: two {"templates" if tmpl else "policies"} with the same id where {label} compare {"equal" if r["equal"] else "different"}',
                                 {'op': 'policy_eq', 'a': a, 'b': b, 'template': tmpl, 'expected_equal': want})
    return ('unreplayed', f'{why}; but the {len(PAIRS)} equality probes through cedar_policy::{{Policy,Template}} behave as specified')


def struct_fields(src_root, name):
    """field names of `struct name { .. }` in ast/policy.rs, in declaration order (cfg-gated fields of features that are off in the dump are dropped)"""
    import os
    text = open(os.path.join(src_root, 'cedar-policy-core/src/ast/policy.rs')).read()
    m = re.search(r'pub struct ' + name + r'\s*\{(.*?)\n\}', text, re.S)
    if not m:
        mt = re.search(r'pub struct ' + name + r'\s*\(([^;]*)\);', text)
        if mt:
            return [str(i) for i in range(len([x for x in mt.group(1).split(',') if x.strip()]))]
        raise NotEncoded(f'struct {name} not found')
    out, skip = [], False
    for line in m.group(1).split('\n'):
        t = line.strip()
        if t.startswith('#[cfg(feature'):
            skip = 'partial-eval' not in t and 'tpe' not in t
            continue
        mm = re.match(r'^(?:pub(?:\([a-z]+\))?\s+)?(\w+)\s*:', t)
        if mm and not t.startswith('//'):
            if not skip:
                out.append(mm.group(1))
            skip = False
    return out


def structural_eq(ctx):
    P = ctx.prog('core')
    for sname, arg_rx, may_ignore in STRUCTS:
        cands = [f for f in P.find(r'>::eq$', 'cedar-policy-core/src/ast/policy.rs') if len(f.args) == 2 and re.search(arg_rx, f.args[0][1])]
        if len(cands) != 1:
            raise LookupError(f'eq of {sname}: {len(cands)} candidates')
        f = cands[0]
        ctx.use(f)
        ex = ctx.new_exec('core')
        fields = struct_fields(ex.src_root, sname)
        a, b = Opaque('ast::policy::' + sname, 'left'), Opaque('ast::policy::' + sname, 'right')
        FEQ = {}

        def field_of(r):
            """index of the field of `left` / `right` a reference points into"""
            n = 0
            while isinstance(r, Ref) and n < 6:
                p = r.place
                while p[0] in ('field', 'downcast', 'deref') and p[0] != 'field':
                    p = p[1]
                if p[0] == 'field' and p[1] in (('local', 'A'), ('local', 'B')):
                    return p[2], p[1][1]
                return None
            return None

        def component_eq(ex_, st, c, A):
            ia, ib = field_of(A[0]), field_of(A[1])
            if ia is None or ib is None or ia[0] != ib[0] or {ia[1], ib[1]} != {'A', 'B'}:
                return None
            v = FEQ.setdefault(ia[0], z3.Bool(f'{fields[ia[0]] if ia[0] < len(fields) else ia[0]}_equal'))
            return BoolV(v if c.endswith('eq') else z3.Not(v))
        ex.stub(r' as PartialEq(<.*>)?>::(eq|ne)$', component_eq, 'component equality (field i of left vs field i of right): free boolean, logged')
        outs = ex.run(f, [Ref(0, ('local', 'A')), Ref(0, ('local', 'B'))], heap={'A': a, 'B': b})
        ctx.absorb(ex)
        nm = f'{sname}::eq'
        ctx.panic_summary(nm, outs, ex)
        rets = [o for o in outs if o.kind == 'ret']
        must = [i for i, n in enumerate(fields) if n not in may_ignore]
        # scalar fields (Effect) are compared inline through their discriminants: give them a boolean too
        def feq(i):
            if i in FEQ:
                return FEQ[i]
            fa, fb = a.over.get((None, i)), b.over.get((None, i))
            if isinstance(fa, Opaque) and isinstance(fb, Opaque):
                try:
                    return ex.disc_term(fa) == ex.disc_term(fb)
                except NotEncoded:
                    pass
            return None
        comps = {i: feq(i) for i in must}
        missing = [fields[i] for i, v in comps.items() if v is None]
        want = z3.And([v for v in comps.values() if v is not None])
        role = f'ast/policy.rs: equality of {sname} compares every semantic component'
        why = f'`==` on {sname} ignores a component other than the source location'
        for i, o in enumerate(rets):
            if not isinstance(o.val, BoolV):
                raise NotEncoded(f'{nm}: result {o.val!r}')
            ctx.decide(f'{nm}/path{i}', o.pc + [z3.Not(o.val.t == want)], ex=ex, sample={'fields': fields, 'ignored': sorted(may_ignore), 'path_condition': [str(c)[:60] for c in o.pc][:8], 'result': str(o.val.t)[:60]} if i == 0 else None,
                       on_sat=lambda mm, nm=nm, role=role, why=why: eq_battery(ctx, nm, role, why))
        # every semantic component takes part: none was skipped altogether
        ctx.decide(f'{nm}/every semantic component is compared (not compared: {missing or "none"})', [z3.BoolVal(bool(missing))], ex=ex, on_sat=lambda mm, nm=nm, role=role, why=why: eq_battery(ctx, nm, role, why))
        ctx.decide(f'{nm}/paths-cover', [z3.Not(z3.Or([z3.And(o.pc) if o.pc else z3.BoolVal(True) for o in rets]))], ex=ex)
        ctx.decide(f'{nm}/witness-equal', [z3.Or([z3.And(o.pc + [o.val.t]) for o in rets])], expect='sat', ex=ex)
        ctx.decide(f'{nm}/witness-different', [z3.Or([z3.And(o.pc + [z3.Not(o.val.t)]) for o in rets])], expect='sat', ex=ex)


def battery_selftest(ctx):
    return eq_battery(ctx, 'equality battery', 'ast/policy.rs: equality of policies and templates', 'native equality battery')


def families(ctx):
    return [('structural equality of policies and templates', lambda: structural_eq(ctx)), ('equality battery', lambda: battery_selftest(ctx))]
