"""C19 - the JSON / FFI front end gives exactly the API answers (engine M, the wrapper code of cedar-policy/src/ffi/is_authorized.rs only; serde is out of reach).
Decided from the MIR of the cedar-policy crate (its own dump; calls into the parser, the authorizer and cedar-policy-core are environment stubs):
  * ffi::is_authorized / stateful_is_authorized: when the call parses, the answer is Success with the conversion of `Authorizer::is_authorized(request, policies, entities)`
    on exactly the three parsed components - nothing else; otherwise Failure carrying the parse errors;
  * From<api::Response> for ffi::Response: same decision, the reasons and the errors of the API response, all of them;
  * AuthorizationCall::parse: principal, action, resource and context reach Request::new in their own positions, the schema is handed over iff `validate_request`,
    entities are parsed against the schema, any component error makes the whole call fail.
A native battery sends the same inputs through cedar_policy::ffi::is_authorized_json and through the Rust API and compares decision, reasons and erroring policy ids."""
import re
import z3
from ..executor import IntV, BoolV, Agg, Opaque, Ref, NotEncoded, UNIT
from ..models import ok, err, some, none, enum_cases
from .. import containers as C

T, F = z3.BoolVal(True), z3.BoolVal(False)
FILE = 'cedar-policy/src/ffi/is_authorized.rs'


def strip(ex, st, v, n=10):
    while n > 0:
        n -= 1
        if isinstance(v, Ref):
            v = ex.read(st, v.fid, v.place)
        elif isinstance(v, Agg) and v.name in ('Arc', 'Box') and len(v.fields) == 1:
            v = v.fields[0]
        else:
            break
    return v


def ident(ex, st, v):
    return getattr(strip(ex, st, v), 'id', None)


def pcs(outs):
    return z3.Or([z3.And(o.pc) if o.pc else T for o in outs]) if outs else F


# ---------------------------------------------------------------------------------------------------------------- native battery

POLICIES = {'p0': 'permit(principal == User::"alice", action, resource);', 'p1': 'forbid(principal, action == Action::"delete", resource);',
            'p2': 'permit(principal, action, resource) when { context.n + 9223372036854775807 > 0 };', 'p3': 'permit(principal in Group::"admins", action, resource);'}
ENTITIES = [{'uid': {'type': 'User', 'id': 'alice'}, 'attrs': {}, 'parents': []}, {'uid': {'type': 'User', 'id': 'bob'}, 'attrs': {}, 'parents': [{'type': 'Group', 'id': 'admins'}]},
            {'uid': {'type': 'Group', 'id': 'admins'}, 'attrs': {}, 'parents': []}]
REQUESTS = [('alice', 'view', {'n': 0}), ('alice', 'delete', {'n': 0}), ('bob', 'view', {'n': 0}), ('bob', 'delete', {'n': 1}), ('carol', 'view', {'n': 1}), ('carol', 'view', {'n': 0})]


SCHEMA_CEDAR = 'entity Group; entity User in [Group]; entity Doc; action view, delete appliesTo { principal: [User], resource: [Doc], context: { n: Long } };'
SCHEMA_JSON = {'': {'entityTypes': {'Group': {}, 'User': {'memberOfTypes': ['Group']}, 'Doc': {}},
                    'actions': {a: {'appliesTo': {'principalTypes': ['User'], 'resourceTypes': ['Doc'], 'context': {'type': 'Record', 'attributes': {'n': {'type': 'Long'}}}}} for a in ('view', 'delete')}}}
EST_P0 = {'effect': 'permit', 'principal': {'op': '==', 'entity': {'type': 'User', 'id': 'alice'}}, 'action': {'op': 'All'}, 'resource': {'op': 'All'}, 'conditions': []}
TEMPLATES = {'t0': {'cedar': 'permit(principal == ?principal, action, resource);'}, 't1': {'cedar': 'forbid(principal, action == Action::"delete", resource in ?resource);'}}
EST_T0 = {'effect': 'permit', 'principal': {'op': '==', 'slot': '?principal'}, 'action': {'op': 'All'}, 'resource': {'op': 'All'}, 'conditions': []}


def uidj(t, i):
    return {'type': t, 'id': i}


def shape_cases():
    """policy-set / schema shapes of the JSON interface: text | array | id map, Cedar | JSON policies, templates + links, schema Cedar | JSON | none, validate on / off"""
    concat = {'kind': 'concat', 'text': ' '.join(POLICIES.values())}
    pmap = {'kind': 'map', 'items': {k: {'cedar': v} for k, v in POLICIES.items()}}
    pmap_json = {'kind': 'map', 'items': {'j0': {'json': EST_P0}, 'p1': {'cedar': POLICIES['p1']}}}
    one_set = {'kind': 'set', 'items': [{'cedar': POLICIES['p0']}]}
    two_set = {'kind': 'set', 'items': [{'cedar': POLICIES['p0']}, {'cedar': POLICIES['p1']}]}   # both get the default id: the API refuses it too
    bad_map = {'kind': 'map', 'items': {'b': {'cedar': 'permit(principal, action);'}}}
    tmpl_in_static = {'kind': 'concat', 'text': TEMPLATES['t0']['cedar']}
    links = [{'templateId': 't0', 'newId': 'l0', 'values': {'?principal': uidj('User', 'bob')}}, {'templateId': 't1', 'newId': 'l1', 'values': {'?resource': uidj('Doc', 'd')}}]
    out = []
    for st in (concat, pmap, pmap_json, one_set, two_set, bad_map, tmpl_in_static):
        out.append({'static': st, 'templates': {}, 'links': [], 'schema': None, 'validate': True})
    out.append({'static': pmap, 'templates': TEMPLATES, 'links': links, 'schema': None, 'validate': True})
    out.append({'static': {'kind': 'set', 'items': []}, 'templates': {'t0': {'json': EST_T0}}, 'links': links[:1], 'schema': None, 'validate': True})
    out.append({'static': pmap, 'templates': TEMPLATES, 'links': [{'templateId': 'nope', 'newId': 'l0', 'values': {}}], 'schema': None, 'validate': True})
    out.append({'static': pmap, 'templates': TEMPLATES, 'links': [links[0], dict(links[0])], 'schema': None, 'validate': True})          # the same link id twice
    out.append({'static': pmap, 'templates': {'p0': TEMPLATES['t0']}, 'links': [], 'schema': None, 'validate': True})                     # template id = a static policy id
    for sch in ({'cedar': SCHEMA_CEDAR}, {'json': SCHEMA_JSON}, {'cedar': 'entity ;'}):
        for v in (True, False):
            out.append({'static': pmap, 'templates': TEMPLATES, 'links': links, 'schema': sch, 'validate': v})
    return out


SHAPE_REQUESTS = [('User', 'alice', 'view', {'n': 0}), ('User', 'bob', 'delete', {'n': 1}), ('User', 'alice', 'view', {'n': 'x'}), ('Doc', 'alice', 'view', {'n': 0}), ('User', 'carol', 'delete', {})]


def run_battery(ctx):
    """returns (first disagreement or None, number of comparisons); a disagreement is (text, replay recipe)"""
    n = 0
    # 1. the original stateless / stateful comparison with a fixed policy map
    for p, a, cx in REQUESTS:
        for stateful in (False, True):
            q = {'op': 'ffi_authorize', 'policies': POLICIES, 'entities': ENTITIES, 'principal': {'type': 'User', 'id': p}, 'action': {'type': 'Action', 'id': a}, 'resource': {'type': 'Doc', 'id': 'd'}, 'context': cx, 'stateful': stateful}
            r = ctx.native.ask(q)
            if 'api' not in r or 'ffi' not in r:
                raise MachineryProblem(f'ffi_authorize probe {p}/{a}/{cx}: {r}')
            n += 1
            if r['api'] != r['ffi']:
                return (f'request {p} / {a} / context {cx} ({"stateful" if stateful else "stateless"}): the Rust API answers {r["api"]}, the JSON interface {r["ffi"]}', q), n
    # 2. every input shape against the API
    for case in shape_cases():
        for pt, p, a, cx in SHAPE_REQUESTS:
            q = dict(case, op='ffi_shapes', principal=uidj(pt, p), action=uidj('Action', a), resource=uidj('Doc', 'd'), context=cx, entities=ENTITIES)
            r = ctx.native.ask(q)
            if 'api' not in r or 'ffi' not in r:
                raise MachineryProblem(f'ffi_shapes probe: {r}')
            n += 1
            api, ffi = dict(r['api']), dict(r['ffi'])
            api.pop('why', None), ffi.pop('n_errors', None)
            if api != ffi:
                return (f'policy set shape {case["static"]["kind"]} / {len(case["templates"])} templates / {len(case["links"])} links / schema {list(case["schema"])[0] if case["schema"] else "none"} / validate {case["validate"]}, '
                        f'request {pt}::{p} {a} {cx}: the Rust API answers {r["api"]}, the JSON interface {r["ffi"]}', q), n
    # 2b. validation, conversions, parse checks, formatting against the API calls they stand for
    for q in other_entry_cases():
        r = ctx.native.ask(q)
        if 'api' not in r or 'ffi' not in r:
            raise MachineryProblem(f'{q["op"]} probe {q.get("what", "")}: {str(r)[:300]}')
        n += 1
        api, ffi = dict(r['api']), dict(r['ffi'])
        api.pop('why', None)
        if api != ffi:
            return (f'{q["op"]} {q.get("what", "")} on {str({k: v for k, v in q.items() if k not in ("op", "what")})[:300]}: the Rust API gives {str(r["api"])[:300]}, the JSON interface {str(r["ffi"])[:300]}', q), n
    # 3. histories of registrations and stateful calls against a name -> document model
    for hist in histories():
        bad, k = run_history(ctx, hist)
        n += k
        if bad:
            return bad, n
    return None, n


def other_entry_cases():
    bad_pols = {'v0': 'permit(principal, action == Action::"view", resource) when { context.n == "one" };', 'v1': 'permit(principal == User::"alice", action, resource) when { principal.nope };',
                'v2': 'permit(principal, action == Action::"delete", resource) when { context.n > 0 };', 'v3': 'forbid(principal, action, resource) when { resource in Group::"admins" };'}
    out = []
    for st in ({'kind': 'map', 'items': {k: {'cedar': v} for k, v in bad_pols.items()}}, {'kind': 'concat', 'text': ' '.join(bad_pols.values())}, {'kind': 'map', 'items': {k: {'cedar': v} for k, v in POLICIES.items()}},
               {'kind': 'set', 'items': [{'cedar': bad_pols['v1']}]}, {'kind': 'map', 'items': {'b': {'cedar': 'permit(principal, action);'}}}):
        for sch in ({'cedar': SCHEMA_CEDAR}, {'json': SCHEMA_JSON}, {'cedar': 'entity ;'}):
            out.append({'op': 'ffi_validate', 'static': st, 'templates': {}, 'links': [], 'schema': sch})
    out.append({'op': 'ffi_validate', 'static': {'kind': 'set', 'items': []}, 'templates': {'t0': {'cedar': 'permit(principal == ?principal, action, resource) when { principal.nope };'}},
                'links': [{'templateId': 't0', 'newId': 'l0', 'values': {'?principal': uidj('User', 'bob')}}, {'templateId': 't0', 'newId': 'l1', 'values': {'?principal': uidj('User', 'alice')}}], 'schema': {'cedar': SCHEMA_CEDAR}})
    for tm in ({'t0': {'cedar': 'permit(principal == ?principal, action, resource) when { principal.nope };'}}, {'t0': {'cedar': 'permit(principal == ?principal, action == Action::"view", resource) when { context.n == "one" };'}, 't1': TEMPLATES['t1']},
               {'t0': TEMPLATES['t0']}):
        out.append({'op': 'ffi_validate', 'static': {'kind': 'set', 'items': []}, 'templates': tm, 'links': [], 'schema': {'cedar': SCHEMA_CEDAR}})       # templates only: they are validated too
    pol_docs = [{'cedar': POLICIES['p0']}, {'cedar': POLICIES['p2']}, {'json': EST_P0}, {'cedar': 'permit(principal, action);'}, {'cedar': TEMPLATES['t0']['cedar']}, {'json': {'effect': 'permit'}},
                {'cedar': '@id("x") permit(principal, action, resource) when { [1, 2].contains(1) && "a" like "a*" };'}, {'cedar': 'permit(principal, action, resource) when { true };'},
                {'cedar': 'forbid(principal, action, resource) when { true } unless { false };'}]
    for d in pol_docs:
        out.append({'op': 'ffi_convert', 'what': 'policy_to_json', 'doc': d})
        out.append({'op': 'ffi_convert', 'what': 'policy_to_text', 'doc': d})
    for d in (TEMPLATES['t0'], TEMPLATES['t1'], {'json': EST_T0}, {'cedar': POLICIES['p0']}, {'cedar': 'permit(principal == ?resource, action, resource);'}):
        out.append({'op': 'ffi_convert', 'what': 'template_to_json', 'doc': d})
        out.append({'op': 'ffi_convert', 'what': 'template_to_text', 'doc': d})
    schemas = [{'cedar': SCHEMA_CEDAR}, {'json': SCHEMA_JSON}, {'cedar': 'entity ;'}, {'cedar': 'entity A in [B];'}, {'json': {'': {'entityTypes': {}, 'actions': {}}}}, {'cedar': 'namespace N { entity E { a: Long, b?: Set<String> }; action a appliesTo { principal: [E], resource: [E] }; }'}]
    for d in schemas:
        for w in ('schema_to_json', 'schema_to_text', 'check_parse_schema'):
            out.append({'op': 'ffi_convert', 'what': w, 'doc': d})
    for case in shape_cases()[:12]:
        out.append(dict(case, op='ffi_convert', what='check_parse_policy_set'))
    ents_bad_type = [{'uid': {'type': 'User', 'id': 'x'}, 'attrs': {'extra': 1}, 'parents': []}]
    ents_bad_shape = [{'uid': {'type': 'User'}, 'attrs': {}, 'parents': []}]
    for ents in (ENTITIES, ents_bad_type, ents_bad_shape, []):
        for sch in (None, {'cedar': SCHEMA_CEDAR}, {'json': SCHEMA_JSON}, {'cedar': 'entity ;'}):
            out.append({'op': 'ffi_convert', 'what': 'check_parse_entities', 'entities': ents, 'schema': sch})
    act = lambda a: {'__entity': uidj('Action', a)}
    for cx in ({'n': 0}, {'n': 'x'}, {}, {'n': 1, 'm': 2}, {'n': {'__entity': uidj('User', 'alice')}}):
        for a in (None, act('view'), act('nope'), {'__entity': {'type': 'Action'}}):
            for sch in (None, {'cedar': SCHEMA_CEDAR}, {'json': SCHEMA_JSON}, {'cedar': 'entity ;'}):
                out.append({'op': 'ffi_convert', 'what': 'check_parse_context', 'context': cx, 'action': a, 'schema': sch})
    ent = lambda t, i: {'__entity': uidj(t, i)}
    for p_, a_, r_ in ((ent('User', 'alice'), act('view'), ent('Doc', 'd')), (ent('Doc', 'd'), act('view'), ent('Doc', 'd')), (ent('User', 'alice'), act('view'), ent('User', 'bob')), (ent('User', 'alice'), act('nope'), ent('Doc', 'd')),
                       (ent('Group', 'g'), act('delete'), ent('Doc', 'd')), ({'__entity': {'type': 'User'}}, act('view'), ent('Doc', 'd'))):
        for sch in ({'cedar': SCHEMA_CEDAR}, {'json': SCHEMA_JSON}, {'cedar': 'entity ;'}):
            out.append({'op': 'ffi_convert', 'what': 'check_parse_scope_variables', 'principal': p_, 'action': a_, 'resource': r_, 'schema': sch})
    for text in (' '.join(POLICIES.values()), 'permit(principal,action,resource)when{context.n>0&&principal in Group::"admins"};', 'permit(principal, action);', '// c\npermit(principal, action, resource);'):
        for lw, iw in ((80, 2), (20, 4), (40, 0), (1, 1)):
            out.append({'op': 'ffi_convert', 'what': 'format', 'text': text, 'line_width': lw, 'indent_width': iw})
    return out


class MachineryProblem(Exception):
    pass


def ffi_policies(static_map):
    return {'staticPolicies': dict(static_map)}


def histories():
    """step lists: ('pp', name, policy map | None (= a document that does not parse)), ('ps', name, schema text | None), ('az', policy set name, schema name | None, validate)"""
    A = {'p0': POLICIES['p0']}
    B = {'p1': POLICIES['p1'], 'p3': POLICIES['p3']}
    Cc = dict(POLICIES)
    S2 = 'entity Group; entity User in [Group]; entity Doc; action view appliesTo { principal: [User], resource: [Doc], context: { n: Long } };'   # no `delete`
    return [
        [('az', 'a', None, True)],
        [('pp', 'a', A), ('az', 'a', None, True), ('az', 'b', None, True)],
        [('pp', 'a', A), ('pp', 'a', B), ('az', 'a', None, True)],                                            # re-registration replaces
        [('pp', 'a', A), ('pp', 'b', B), ('az', 'a', None, True), ('az', 'b', None, True), ('pp', 'b', Cc), ('az', 'b', None, True), ('az', 'a', None, True)],
        [('pp', 'a', A), ('pp', 'a', None), ('az', 'a', None, True)],                                         # a failed registration leaves the old entry
        [('pp', 'a', None), ('az', 'a', None, True)],
        [('pp', 'a', Cc), ('ps', 's', SCHEMA_CEDAR), ('az', 'a', 's', True), ('az', 'a', 's', False), ('az', 'a', 't', True), ('az', 'a', None, True)],
        [('pp', 'a', Cc), ('ps', 's', SCHEMA_CEDAR), ('ps', 's', S2), ('az', 'a', 's', True), ('az', 'a', 's', False)],   # schema re-registration
        [('pp', 'a', Cc), ('ps', 's', S2), ('ps', 's', None), ('az', 'a', 's', True)],
        [('pp', 's', Cc), ('ps', 's', SCHEMA_CEDAR), ('az', 's', 's', True)],                                  # the same name in both caches
        [('pp', ' a', Cc), ('pp', 'A', A), ('ps', ' s ', SCHEMA_CEDAR), ('az', ' a', ' s ', True), ('az', 'a', None, True), ('az', 'A', 's', True), ('az', 'A', None, True)],   # names are taken literally
        [('pp', '', B), ('ps', '', S2), ('az', '', '', True), ('az', '', None, False)],
        [('pp', 'a', Cc), ('ps', 'a', S2), ('pp', 'a', A), ('az', 'a', 'a', True), ('ps', 'a', SCHEMA_CEDAR), ('az', 'a', 'a', True)],
    ]


def run_history(ctx, hist):
    """model: two dicts name -> document, updated on a registration that parses; each stateful call is compared with the stateless call on the model's documents
    (for every request of HIST_REQUESTS), an unregistered name must fail"""
    BAD_POL, BAD_SCHEMA = {'staticPolicies': 'permit(principal, action);'}, 'entity ;'
    pols, schemas = {}, {}
    steps, expect = [], []
    for st in hist:
        if st[0] == 'pp':
            doc = ffi_policies(st[2]) if st[2] is not None else BAD_POL
            steps.append({'do': 'preparse_policy_set', 'name': st[1], 'policies': doc})
            expect.append(('reg', st[2] is not None))
            if st[2] is not None:
                pols[st[1]] = doc
        elif st[0] == 'ps':
            doc = st[2] if st[2] is not None else BAD_SCHEMA
            steps.append({'do': 'preparse_schema', 'name': st[1], 'schema': doc})
            expect.append(('reg', st[2] is not None))
            if st[2] is not None:
                schemas[st[1]] = doc
        else:
            _, pn, sn, validate = st
            for p, a, cx in REQUESTS:
                base = {'principal': uidj('User', p), 'action': uidj('Action', a), 'resource': uidj('Doc', 'd'), 'context': cx, 'entities': ENTITIES, 'validateRequest': validate}
                call = dict(base, preparsedPolicySetId=pn)
                if sn is not None:
                    call['preparsedSchemaName'] = sn
                known = pn in pols and (sn is None or sn in schemas)
                stateless = None
                if known:
                    stateless = dict(base, policies=pols[pn])
                    if sn is not None:
                        stateless['schema'] = schemas[sn]
                steps.append({'do': 'authorize', 'call': call, 'stateless': stateless})
                expect.append(('az', known, (pn, sn, validate, p, a, cx)))
    q = {'op': 'ffi_history', 'steps': steps}
    r = ctx.native.ask(q)
    if 'answers' not in r or len(r['answers']) != len(steps):
        raise MachineryProblem(f'ffi_history: {str(r)[:300]}')
    n = 0
    for i, (e, a) in enumerate(zip(expect, r['answers'])):
        n += 1
        where = f'history {[(s[0], s[1]) + ((("ok" if s[2] is not None else "unparsable"),) if s[0] != "az" else s[2:]) for s in hist]}, step {i}'
        if e[0] == 'reg':
            if (a.get('type') == 'success') != e[1]:
                return (f'{where}: registration answers {a}, the document {"parses" if e[1] else "does not parse"}', q), n
        else:
            sf, sl = dict(a['stateful']), dict(a['stateless'] or {})
            sf.pop('n_errors', None), sl.pop('n_errors', None)
            if not e[1]:
                if not sf.get('failure'):
                    return (f'{where} (call {e[2]}): a name that is not registered, but the stateful call answers {a["stateful"]}', q), n
            elif sf != sl:
                return (f'{where} (call {e[2]}): the stateful call answers {a["stateful"]}, the stateless call on the registered documents {a["stateless"]}', q), n
    return None, n


def battery_replay(ctx, name, role, why):
    cache = ctx.__dict__.setdefault('_c19_battery', {})
    if 'r' not in cache:
        try:
            cache['r'] = run_battery(ctx)
        except MachineryProblem as e:
            cache['r'] = None
            return ctx.mismatch(name, str(e))
    if cache['r'] is None:
        return ctx.mismatch(name, 'the native battery did not run')
    bad, n = cache['r']
    if bad:
        return ctx.violation(name, role, f'{why}; natively: {bad[0]}', bad[1])
    return ('unreplayed', f'{why}; but the {n} FFI / API / history comparisons of the battery agree')


def battery_selftest(ctx):
    return battery_replay(ctx, 'native battery', 'ffi/is_authorized.rs: JSON interface vs Rust API', 'native FFI battery')


# ---------------------------------------------------------------------------------------------------------------- obligations

def entry(ctx, fname):
    P = ctx.prog('api')
    fs = [f for f in P.find(fname + '$', FILE) if len(f.args) == 1 and f.ret.endswith('AuthorizationAnswer') and '{closure' not in f.name]
    if len(fs) != 1:
        raise LookupError(f'{fname}: {len(fs)} candidates')
    f = fs[0]
    ctx.use(f)
    ex = ctx.new_exec('api')
    ex.havoc_unknown = True
    C.install(ex)
    PARSED = z3.Bool('call_parses')
    rq, ps, es = Opaque('api::Request', 'parsed request'), Opaque('api::PolicySet', 'parsed policies'), Opaque('api::Entities', 'parsed entities')
    resp, out = Opaque('api::Response', 'API response'), Opaque('ffi::is_authorized::Response', 'converted response')
    errs = Agg('struct', '~vec', None, [Opaque('ErrReport', 'parse error 0'), Opaque('ErrReport', 'parse error 1')])
    warn = Agg('struct', '~vec', None, [])

    def parse(ex_, st, c, A):
        WW = 'ffi::utils::WithWarnings'
        return [([PARSED], Agg('struct', WW, None, [ok(Agg('tuple', None, None, [rq, ps, es])), warn], ('t', 'warnings'))),
                ([z3.Not(PARSED)], Agg('struct', WW, None, [err(errs), warn], ('t', 'warnings')))]
    ex.stub(r'AuthorizationCall::parse$', parse, 'the call parses into (request, policies, entities) or into a list of errors')

    def with_authorizer(ex_, st, c, A):
        return ex_.call_closure(st, A[1], [ex_.new_cell(st, Opaque('api::Authorizer', 'the authorizer'), 'auth')])
    ex.stub(r'LocalKey::<.*Authorizer>::with::<', with_authorizer, 'thread-local AUTHORIZER.with(f): f applied to the authorizer')

    def authz(ex_, st, c, A):
        st.notes['authz'] = st.notes.get('authz', []) + [(ident(ex_, st, A[1]), ident(ex_, st, A[2]), ident(ex_, st, A[3]))]
        return resp
    ex.stub(r'Authorizer::is_authorized$', authz, 'Authorizer::is_authorized(request, policies, entities): the API response, logged')
    ex.stub(r'api::Response as Into<.*Response>>::into$', lambda ex_, st, c, A: out if ident(ex_, st, A[0]) == resp.id else None, 'Response -> ffi Response (own obligation)')
    ex.stub(r'ErrReport as Into<.*DetailedError>>::into$', lambda ex_, st, c, A: Agg('struct', '~detailed', None, [A[0]]), 'error report -> DetailedError (term)')
    outs = ex.run(f, [Opaque('ffi::is_authorized::AuthorizationCall', 'the call')])
    ctx.absorb(ex)
    nm = f'ffi::{fname}'
    ctx.panic_summary(nm, outs, ex)
    rets = [o for o in outs if o.kind == 'ret']
    bad = []
    for o in rets:
        v = o.val
        good = False
        if isinstance(v, Agg) and v.variant == 'Success':
            calls = o.st.notes.get('authz', [])
            good = calls == [(rq.id, ps.id, es.id)] and ident(ex, o.st, v.fields[0]) == out.id
            claim = z3.And(PARSED, z3.BoolVal(bool(good)))
        elif isinstance(v, Agg) and v.variant == 'Failure':
            es_ = strip(ex, o.st, v.fields[0])
            carried = isinstance(es_, Agg) and [ident(ex, o.st, x.fields[0]) if isinstance(x, Agg) and x.name == '~detailed' else None for x in es_.fields] == [e.id for e in errs.fields]
            claim = z3.And(z3.Not(PARSED), z3.BoolVal(bool(carried and not o.st.notes.get('authz'))))
        else:
            raise NotEncoded(f'{nm}: answer {v!r}')
        bad.append(z3.And(o.pc + [z3.Not(claim)]))
    ctx.decide(f'{nm}/Success = the converted API response on the parsed components, Failure = the parse errors', [z3.Or(bad) if bad else T], ex=ex, sample={'paths': len(rets)},
               on_sat=lambda m: battery_replay(ctx, nm, f'ffi/is_authorized.rs: {fname}', 'the JSON entry point does not return the API response for the parsed inputs'))
    ctx.decide(f'{nm}/paths-cover', [z3.Not(pcs(rets))], ex=ex)
    ctx.decide(f'{nm}/witness-success', [pcs([o for o in rets if o.val.variant == 'Success'])], expect='sat', ex=ex)
    ctx.decide(f'{nm}/witness-failure', [pcs([o for o in rets if o.val.variant == 'Failure'])], expect='sat', ex=ex)


def response_conversion(ctx):
    P = ctx.prog('api')
    fs = [f for f in P.find(r'>::from$', FILE) if len(f.args) == 1 and f.args[0][1].endswith('api::Response') and f.ret.endswith('is_authorized::Response')]
    if len(fs) != 1:
        raise LookupError(f'From<api::Response>: {len(fs)} candidates')
    f = fs[0]
    ctx.use(f)
    for dec in ('Allow', 'Deny'):
        ex = ctx.new_exec('api')
        ex.havoc_unknown = True
        # the two collected sets are kept as terms: a set collected from an iterator holds exactly the iterator's
        # items (the reasons come out of a set and are distinct; equal errors collapse, which drops no information)
        ex.stub(r' as Iterator>::collect::<(std::collections::)?HashSet<', lambda ex_, st, c, A: Agg('struct', '~collected', None, list(A[0].fields)) if isinstance(A[0], Agg) and A[0].name == '~vec_iter' else None,
                'collect into a HashSet: the set of the iterator items (term)')
        C.install(ex)
        reasons = [Opaque('PolicyId', f'reason {i}') for i in range(2)]
        errors = [Opaque('api::err::AuthorizationError', f'error {i}') for i in range(2)]
        diag = Opaque('api::Diagnostics', 'diagnostics')
        resp = Agg('struct', 'api::Response', None, [Agg('variant', 'authorizer::Decision', dec, []), diag], ('decision', 'diagnostics'))
        ex.stub(r'Diagnostics::into_components$', lambda ex_, st, c, A: Agg('tuple', None, None, [Agg('struct', '~vec_iter', None, list(reasons)), Agg('struct', '~vec_iter', None, list(errors))]) if ident(ex_, st, A[0]) == diag.id else None,
                'Diagnostics::into_components: two reasons, two errors')
        ex.stub(r'AuthorizationError as Into<.*AuthorizationError>>::into$', lambda ex_, st, c, A: Agg('struct', '~ffi_error', None, [A[0]]), 'API error -> FFI error (term: policy id and message carried over)')

        def new(ex_, st, c, A):
            st.notes['new'] = list(A)
            return Opaque('ffi::is_authorized::Response', 'ffi response')
        ex.stub(r'is_authorized::Response::new$', new, 'ffi Response::new(decision, reasons, errors), logged')
        outs = ex.run(f, [resp])
        ctx.absorb(ex)
        nm = f'From<api::Response> for ffi::Response[{dec}]'
        ctx.panic_summary(nm, outs, ex)
        rets = [o for o in outs if o.kind == 'ret']
        bad = []
        for o in rets:
            A = o.st.notes.get('new')
            good = A is not None and len(A) == 3
            if good:
                d, rs, es_ = strip(ex, o.st, A[0]), strip(ex, o.st, A[1]), strip(ex, o.st, A[2])
                good = isinstance(d, Agg) and d.variant == dec
                good = good and isinstance(rs, Agg) and sorted(getattr(strip(ex, o.st, x), 'id', -1) for x in rs.fields) == sorted(r.id for r in reasons)
                good = good and isinstance(es_, Agg) and [ident(ex, o.st, x.fields[0]) if isinstance(x, Agg) and x.name == '~ffi_error' else None for x in es_.fields] == [e.id for e in errors]
            bad.append(z3.And(o.pc + [z3.BoolVal(not good)]))
        ctx.decide(f'{nm}/same decision, all reasons, all errors', [z3.Or(bad) if bad else T], ex=ex,
                   on_sat=lambda m: battery_replay(ctx, nm, 'ffi/is_authorized.rs: From<Response>', 'the FFI response drops or alters the decision, a reason or an error'))
        ctx.decide(f'{nm}/witness', [pcs(rets)], expect='sat', ex=ex)


def call_parse(ctx):
    P = ctx.prog('api')
    fs = [f for f in P.find(r'>::parse$', FILE) if len(f.args) == 1 and f.args[0][1].endswith('AuthorizationCall') and 'Stateful' not in f.args[0][1] and 'Partial' not in f.args[0][1]]
    if len(fs) != 1:
        raise LookupError(f'AuthorizationCall::parse: {len(fs)} candidates')
    f = fs[0]
    ctx.use(f)
    for has_schema in (False, True):
        ex = ctx.new_exec('api')
        ex.havoc_unknown = True
        ex.max_paths = 2000
        C.install(ex)
        comp = {k: Opaque('ffi::utils::' + t, k + ' (JSON)') for k, t in (('principal', 'EntityUid'), ('action', 'EntityUid'), ('resource', 'EntityUid'), ('context', 'Context'), ('entities', 'Entities'), ('policies', 'PolicySet'))}
        parsed = {k: Opaque('api::' + t, k) for k, t in (('principal', 'EntityUid'), ('action', 'EntityUid'), ('resource', 'EntityUid'), ('context', 'Context'), ('entities', 'Entities'), ('policies', 'PolicySet'), ('schema', 'Schema'), ('request', 'Request'))}
        OKB = {k: z3.Bool(f'{k}_parses') for k in ('schema', 'principal', 'action', 'resource', 'context', 'entities', 'policies', 'request')}
        VALIDATE = z3.Bool('validate_request')
        jschema = Opaque('ffi::utils::Schema', 'schema (JSON)')
        call = Agg('struct', 'ffi::is_authorized::AuthorizationCall', None, [comp['principal'], comp['action'], comp['resource'], comp['context'], some(jschema) if has_schema else none(), BoolV(VALIDATE), comp['policies'], comp['entities']],
                   ('principal', 'action', 'resource', 'context', 'schema', 'validate_request', 'policies', 'entities'))
        cidx = {v.id: k for k, v in comp.items()}

        def parse_any(ex_, st, c, A):
            k = cidx.get(ident(ex_, st, A[0]))
            if k is None and ident(ex_, st, A[0]) == jschema.id:
                return [([OKB['schema']], ok(Agg('tuple', None, None, [parsed['schema'], Agg('struct', '~vec_iter', None, [])]))), ([z3.Not(OKB['schema'])], err(Opaque('ErrReport', 'schema error')))]
            if k is None:
                return None
            if k in ('context', 'entities'):
                # the schema argument must be the parsed schema when there is one
                sch = strip(ex_, st, A[1])
                st.notes[k + '_schema'] = (sch.variant, ident(ex_, st, sch.fields[0]) if isinstance(sch, Agg) and sch.variant == 'Some' else None) if isinstance(sch, Agg) else '?'
                if k == 'context':
                    act = strip(ex_, st, A[2])
                    st.notes['context_action'] = ident(ex_, st, act.fields[0]) if isinstance(act, Agg) and act.variant == 'Some' else None
            if k == 'policies':
                return [([OKB[k]], ok(parsed[k])), ([z3.Not(OKB[k])], err(Agg('struct', '~vec', None, [Opaque('ErrReport', 'policy error')])))]
            return [([OKB[k]], ok(parsed[k])), ([z3.Not(OKB[k])], err(Opaque('ErrReport', k + ' error')))]
        ex.stub(r'utils::(EntityUid|Context|Entities|PolicySet|Schema)::parse$', parse_any, 'parse of one component of the call: the parsed value or an error, logged')

        def req_new(ex_, st, c, A):
            sch = strip(ex_, st, A[4])
            st.notes['request_new'] = [ident(ex_, st, A[0]), ident(ex_, st, A[1]), ident(ex_, st, A[2]), ident(ex_, st, A[3]),
                                       (sch.variant, ident(ex_, st, sch.fields[0]) if isinstance(sch, Agg) and sch.variant == 'Some' else None) if isinstance(sch, Agg) else '?']
            return [([OKB['request']], ok(parsed['request'])), ([z3.Not(OKB['request'])], err(Opaque('RequestValidationError', 'invalid request')))]
        ex.stub(r'api::Request::new$', req_new, 'Request::new(principal, action, resource, context, schema): the request or a validation error, logged')
        ex.stub(r'as Into<.*(ErrReport|Report)>>::into$|as From<.*>>::from$', lambda ex_, st, c, A: Opaque('ErrReport', 'converted error') if 'Report' in c else None, 'error -> report (term)')
        outs = ex.run(f, [call])
        ctx.absorb(ex)
        nm = f'AuthorizationCall::parse[{"with" if has_schema else "without"} schema]'
        ctx.panic_summary(nm, outs, ex)
        rets = [o for o in outs if o.kind == 'ret']
        all_ok = z3.And([OKB[k] for k in OKB if has_schema or k != 'schema'])
        bad = []
        for o in rets:
            v = strip(ex, o.st, o.val)
            t = strip(ex, o.st, v.fields[0]) if isinstance(v, Agg) and v.fields else None
            if not (isinstance(t, Agg) and t.variant in ('Ok', 'Err')):
                raise NotEncoded(f'{nm}: result {v!r}')
            if t.variant == 'Ok':
                tup = strip(ex, o.st, t.fields[0])
                good = isinstance(tup, Agg) and [ident(ex, o.st, x) for x in tup.fields] == [parsed['request'].id, parsed['policies'].id, parsed['entities'].id]
                rn = o.st.notes.get('request_new')
                good = good and rn is not None and rn[:4] == [parsed[k].id for k in ('principal', 'action', 'resource', 'context')]
                want_schema = ('Some', parsed['schema'].id) if has_schema else ('None', None)
                schema_claim = T
                if good:
                    good = o.st.notes.get('entities_schema') == want_schema and o.st.notes.get('context_schema') == want_schema and o.st.notes.get('context_action') == parsed['action'].id
                    if has_schema:
                        schema_claim = z3.If(VALIDATE, z3.BoolVal(rn[4] == ('Some', parsed['schema'].id)), z3.BoolVal(rn[4] == ('None', None)))
                    else:
                        schema_claim = z3.BoolVal(rn[4] == ('None', None))
                claim = z3.And(all_ok, z3.BoolVal(bool(good)), schema_claim)
            else:
                claim = z3.Not(all_ok)
            bad.append(z3.And(o.pc + [z3.Not(claim)]))
        ctx.decide(f'{nm}/components in their own positions, schema iff validate_request, any error fails the call', [z3.Or(bad) if bad else T], ex=ex, sample={'paths': len(rets)},
                   on_sat=lambda m: battery_replay(ctx, nm, 'ffi/is_authorized.rs: AuthorizationCall::parse', 'the call is assembled from the wrong components'))
        ctx.decide(f'{nm}/paths-cover', [z3.Not(pcs(rets))], ex=ex)
        ctx.decide(f'{nm}/witness-ok', [pcs([o for o in rets if strip(ex, o.st, strip(ex, o.st, o.val).fields[0]).variant == 'Ok'])], expect='sat', ex=ex)
        ctx.decide(f'{nm}/witness-err', [pcs([o for o in rets if strip(ex, o.st, strip(ex, o.st, o.val).fields[0]).variant == 'Err'])], expect='sat', ex=ex)


# ---------------------------------------------------------------------------------------------------------------- the stateful cache

def cache_stubs(ex, log_key='cache_ops', lookup=None):
    """The two thread-local caches as abstract maps.  `KEY.with(f)` applies f to the cache cell; borrow / borrow_mut / deref are the identity;
    insert and get are logged with the cache they act on (told apart by the value type in the callee name).
    lookup(kind, key_id) -> [(conds, Option value)] gives the abstract content."""
    def kind_of(c):
        return 'policies' if 'PolicySet' in c else 'schemas' if 'Schema' in c else None

    cells = {}

    def with_(ex_, st, c, A):
        k = kind_of(c)
        if k is None:
            return None
        if k not in cells:
            cells[k] = Opaque(f'~cache', f'the {k} cache')
        return ex_.call_closure(st, A[1], [ex_.new_cell(st, cells[k], 'cache_' + k)])
    ex.stub(r'LocalKey::<(std::cell::)?RefCell<(std::collections::)?HashMap<(std::string::)?String, .*>>>::with::<', with_, 'thread-local CACHE.with(f): f applied to the cache cell')
    ex.stub(r'RefCell::<(std::collections::)?HashMap<.*>>::borrow(_mut)?$', lambda ex_, st, c, A: Agg('struct', '~guard', None, [A[0]]), 'RefCell::borrow / borrow_mut: a guard around the same cell')

    def deref(ex_, st, c, A):
        g = strip_to(ex_, st, A[0], '~guard')
        return g.fields[0] if g is not None else None
    ex.stub(r'<(std::cell::)?Ref(Mut)?<.*HashMap<.*>> as Deref(Mut)?>::deref(_mut)?$', deref, 'guard deref: the cell')

    def insert(ex_, st, c, A):
        k = kind_of(c)
        if k is None or ident(ex_, st, A[0]) != cells.get(k, Opaque('x', 'x')).id:
            return None
        st.notes[log_key] = st.notes.get(log_key, []) + [('insert', k, ident(ex_, st, A[1]), ident(ex_, st, A[2]))]
        return Opaque('Option', 'previous entry (dropped)')
    ex.stub(r'HashMap::<(std::string::)?String, .*>::insert$', insert, 'cache insert(name, value): logged')

    def get(ex_, st, c, A):
        k = kind_of(c)
        if k is None or ident(ex_, st, A[0]) != cells.get(k, Opaque('x', 'x')).id:
            return None
        kid = ident(ex_, st, A[1])
        st.notes[log_key] = st.notes.get(log_key, []) + [('get', k, kid)]
        return lookup(k, kid) if lookup else None
    ex.stub(r'HashMap::<(std::string::)?String, .*>::get::<', get, 'cache get(name): the abstract content, logged')
    return cells


def strip_to(ex, st, v, name, n=10):
    while n > 0:
        n -= 1
        if isinstance(v, Ref):
            v = ex.read(st, v.fid, v.place)
        elif isinstance(v, Agg) and v.name == name:
            return v
        else:
            return None
    return None


def preparse(ctx, kind):
    P = ctx.prog('api')
    fname = 'preparse_policy_set' if kind == 'policies' else 'preparse_schema'
    fs = [f for f in P.find(fname + '$', FILE) if len(f.args) == 2 and '{closure' not in f.name]
    if len(fs) != 1:
        raise LookupError(f'{fname}: {len(fs)} candidates')
    f = fs[0]
    ctx.use(f)
    ex = ctx.new_exec('api')
    ex.havoc_unknown = True
    C.install(ex)
    OKP = z3.Bool('parses')
    name = Opaque('String', 'the name')
    doc = Opaque('ffi::utils::' + ('PolicySet' if kind == 'policies' else 'Schema'), 'the document (JSON)')
    parsed = Opaque('api::' + ('PolicySet' if kind == 'policies' else 'Schema'), 'the parsed document')
    if kind == 'policies':
        ex.stub(r'utils::PolicySet::parse$', lambda ex_, st, c, A: [([OKP], ok(parsed)), ([z3.Not(OKP)], err(Agg('struct', '~vec', None, [Opaque('ErrReport', 'policy error')])))] if ident(ex_, st, A[0]) == doc.id else None,
                'PolicySet::parse: the parsed set or errors')
    else:
        ex.stub(r'utils::Schema::parse$', lambda ex_, st, c, A: [([OKP], ok(Agg('tuple', None, None, [parsed, Agg('struct', '~vec_iter', None, [])]))), ([z3.Not(OKP)], err(Opaque('ErrReport', 'schema error')))] if ident(ex_, st, A[0]) == doc.id else None,
                'Schema::parse: the parsed schema (and warnings) or an error')
    ex.stub(r'ErrReport as Into<.*DetailedError>>::into$', lambda ex_, st, c, A: Agg('struct', '~detailed', None, [A[0]]), 'error report -> DetailedError (term)')
    cache_stubs(ex)
    outs = ex.run(f, [name, doc])
    ctx.absorb(ex)
    nm = f'ffi::{fname}'
    ctx.panic_summary(nm, outs, ex)
    rets = [o for o in outs if o.kind == 'ret']
    bad = []
    for o in rets:
        v = strip(ex, o.st, o.val)
        ops = o.st.notes.get('cache_ops', [])
        if isinstance(v, Agg) and v.variant == 'Success':
            claim = z3.And(OKP, z3.BoolVal(ops == [('insert', kind, name.id, parsed.id)]))
        elif isinstance(v, Agg) and v.variant == 'Failure':
            claim = z3.And(z3.Not(OKP), z3.BoolVal(ops == []))
        else:
            raise NotEncoded(f'{nm}: answer {v!r}')
        bad.append(z3.And(o.pc + [z3.Not(claim)]))
    ctx.decide(f'{nm}/Success = cache[name] := the parsed document and nothing else; Failure leaves both caches alone', [z3.Or(bad) if bad else T], ex=ex, sample={'paths': len(rets)},
               on_sat=lambda m: history_replay(ctx, nm, f'ffi/is_authorized.rs: {fname}', 'registration does not store exactly the parsed document under the given name'))
    ctx.decide(f'{nm}/paths-cover', [z3.Not(pcs(rets))], ex=ex)
    ctx.decide(f'{nm}/witness-success', [pcs([o for o in rets if strip(ex, o.st, o.val).variant == 'Success'])], expect='sat', ex=ex)
    ctx.decide(f'{nm}/witness-failure', [pcs([o for o in rets if strip(ex, o.st, o.val).variant == 'Failure'])], expect='sat', ex=ex)


def stateful_parse(ctx):
    P = ctx.prog('api')
    fs = [f for f in P.find(r'>::parse$', FILE) if len(f.args) == 1 and f.args[0][1].endswith('StatefulAuthorizationCall')]
    if len(fs) != 1:
        raise LookupError(f'StatefulAuthorizationCall::parse: {len(fs)} candidates')
    f = fs[0]
    ctx.use(f)
    for has_name in (False, True):
        ex = ctx.new_exec('api')
        ex.havoc_unknown = True
        ex.max_paths = 4000
        C.install(ex)
        comp = {k: Opaque('ffi::utils::' + t, k + ' (JSON)') for k, t in (('principal', 'EntityUid'), ('action', 'EntityUid'), ('resource', 'EntityUid'), ('context', 'Context'), ('entities', 'Entities'))}
        parsed = {k: Opaque('api::' + t, k) for k, t in (('principal', 'EntityUid'), ('action', 'EntityUid'), ('resource', 'EntityUid'), ('context', 'Context'), ('entities', 'Entities'), ('request', 'Request'))}
        cached = {'policies': Opaque('api::PolicySet', 'cached policy set'), 'schemas': Opaque('api::Schema', 'cached schema')}
        clones = {'policies': Opaque('api::PolicySet', 'clone of the cached policy set'), 'schemas': Opaque('api::Schema', 'clone of the cached schema')}
        OKB = {k: z3.Bool(f'{k}_parses') for k in ('principal', 'action', 'resource', 'context', 'entities', 'request')}
        HIT = {'policies': z3.Bool('policy_set_registered'), 'schemas': z3.Bool('schema_registered')}
        VALIDATE = z3.Bool('validate_request')
        pname, sname = Opaque('String', 'policy set name'), Opaque('String', 'schema name')
        call = Agg('struct', 'ffi::is_authorized::StatefulAuthorizationCall', None, [comp['principal'], comp['action'], comp['resource'], comp['context'], some(sname) if has_name else none(), BoolV(VALIDATE), pname, comp['entities']],
                   ('principal', 'action', 'resource', 'context', 'preparsed_schema_name', 'validate_request', 'preparsed_policy_set_id', 'entities'))
        cidx = {v.id: k for k, v in comp.items()}
        want_key = {'policies': pname.id, 'schemas': sname.id}

        def lookup(k, kid, ex=ex):
            if kid != want_key[k]:
                raise NotEncoded(f'{k} cache read under another name')
            return [([HIT[k]], some(cached[k])), ([z3.Not(HIT[k])], none())]
        cache_stubs(ex, lookup=lookup)
        ex.stub(r'Option::<&.*(PolicySet|Schema)>::cloned$', lambda ex_, st, c, A: [([cnd], some(clones['policies' if ident(ex_, st, p[0]) == cached['policies'].id else 'schemas']) if n == 'Some' else none()) for cnd, n, p in enum_cases(ex_, st, A[0])],
                'Option<&T>::cloned on a cache hit: a clone of the cached value')

        def parse_any(ex_, st, c, A):
            k = cidx.get(ident(ex_, st, A[0]))
            if k is None:
                return None
            if k in ('context', 'entities'):
                sch = strip(ex_, st, A[1])
                st.notes[k + '_schema'] = (sch.variant, ident(ex_, st, sch.fields[0]) if isinstance(sch, Agg) and sch.variant == 'Some' else None) if isinstance(sch, Agg) else '?'
                if k == 'context':
                    act = strip(ex_, st, A[2])
                    st.notes['context_action'] = ident(ex_, st, act.fields[0]) if isinstance(act, Agg) and act.variant == 'Some' else None
            return [([OKB[k]], ok(parsed[k])), ([z3.Not(OKB[k])], err(Opaque('ErrReport', k + ' error')))]
        ex.stub(r'utils::(EntityUid|Context|Entities)::parse$', parse_any, 'parse of one component of the call: the parsed value or an error, logged')

        def req_new(ex_, st, c, A):
            sch = strip(ex_, st, A[4])
            st.notes['request_new'] = [ident(ex_, st, A[0]), ident(ex_, st, A[1]), ident(ex_, st, A[2]), ident(ex_, st, A[3]),
                                       (sch.variant, ident(ex_, st, sch.fields[0]) if isinstance(sch, Agg) and sch.variant == 'Some' else None) if isinstance(sch, Agg) else '?']
            return [([OKB['request']], ok(parsed['request'])), ([z3.Not(OKB['request'])], err(Opaque('RequestValidationError', 'invalid request')))]
        ex.stub(r'api::Request::new$', req_new, 'Request::new(principal, action, resource, context, schema): the request or a validation error, logged')
        ex.stub(r'as Into<.*(ErrReport|Report)>>::into$|as From<.*>>::from$', lambda ex_, st, c, A: Opaque('ErrReport', 'converted error') if 'Report' in c else None, 'error -> report (term)')
        ex.stub(r'miette::Report::msg|ErrReport::msg', lambda ex_, st, c, A: Opaque('ErrReport', 'not-found error'), 'miette!(..) (term)')
        outs = ex.run(f, [call])
        ctx.absorb(ex)
        nm = f'StatefulAuthorizationCall::parse[{"with" if has_name else "without"} schema name]'
        ctx.panic_summary(nm, outs, ex)
        rets = [o for o in outs if o.kind == 'ret']
        all_ok = z3.And([OKB[k] for k in OKB] + [HIT['policies']] + ([HIT['schemas']] if has_name else []))
        bad = []
        for o in rets:
            v = strip(ex, o.st, o.val)
            t = strip(ex, o.st, v.fields[0]) if isinstance(v, Agg) and v.fields else None
            if not (isinstance(t, Agg) and t.variant in ('Ok', 'Err')):
                raise NotEncoded(f'{nm}: result {v!r}')
            ops = o.st.notes.get('cache_ops', [])
            frame = all(op[0] == 'get' for op in ops)
            if t.variant == 'Ok':
                tup = strip(ex, o.st, t.fields[0])
                good = isinstance(tup, Agg) and [ident(ex, o.st, x) for x in tup.fields] == [parsed['request'].id, clones['policies'].id, parsed['entities'].id]
                rn = o.st.notes.get('request_new')
                good = good and rn is not None and rn[:4] == [parsed[k].id for k in ('principal', 'action', 'resource', 'context')]
                want_schema = ('Some', clones['schemas'].id) if has_name else ('None', None)
                schema_claim = T
                if good:
                    good = o.st.notes.get('entities_schema') == want_schema and o.st.notes.get('context_schema') == want_schema and o.st.notes.get('context_action') == parsed['action'].id
                    schema_claim = z3.If(VALIDATE, z3.BoolVal(rn[4] == want_schema), z3.BoolVal(rn[4] == ('None', None)))
                claim = z3.And(all_ok, z3.BoolVal(bool(good and frame)), schema_claim)
            else:
                claim = z3.And(z3.Not(all_ok), z3.BoolVal(frame))
            bad.append(z3.And(o.pc + [z3.Not(claim)]))
        ctx.decide(f'{nm}/policies = cache[policy set name], schema = cache[schema name], the rest as in the stateless call; the caches are only read', [z3.Or(bad) if bad else T], ex=ex, sample={'paths': len(rets)},
                   on_sat=lambda m: history_replay(ctx, nm, 'ffi/is_authorized.rs: StatefulAuthorizationCall::parse', 'the stateful call is not assembled from the registered documents'))
        ctx.decide(f'{nm}/paths-cover', [z3.Not(pcs(rets))], ex=ex)
        ctx.decide(f'{nm}/witness-ok', [pcs([o for o in rets if strip(ex, o.st, strip(ex, o.st, o.val).fields[0]).variant == 'Ok'])], expect='sat', ex=ex)
        ctx.decide(f'{nm}/witness-err', [pcs([o for o in rets if strip(ex, o.st, strip(ex, o.st, o.val).fields[0]).variant == 'Err'])], expect='sat', ex=ex)


def partial_parse(ctx):
    """PartialAuthorizationCall::parse: principal / action / resource are optional; the request is assembled with the builder (each given component in its own setter,
    the context always), validated against the schema iff one is given and validate_request is set"""
    import itertools
    P = ctx.prog('api')
    fs = [f for f in P.find(r'>::parse$', FILE) if len(f.args) == 1 and f.args[0][1].endswith('PartialAuthorizationCall')]
    if len(fs) != 1:
        raise LookupError(f'PartialAuthorizationCall::parse: {len(fs)} candidates')
    f = fs[0]
    ctx.use(f)
    for has_schema, (hp, ha, hr) in itertools.product((False, True), itertools.product((False, True), repeat=3)):
        ex = ctx.new_exec('api')
        ex.havoc_unknown = True
        ex.max_paths = 6000
        given = {'principal': hp, 'action': ha, 'resource': hr}
        comp = {k: Opaque('ffi::utils::' + t, k + ' (JSON)') for k, t in (('principal', 'EntityUid'), ('action', 'EntityUid'), ('resource', 'EntityUid'), ('context', 'Context'), ('entities', 'Entities'), ('policies', 'PolicySet'))}
        parsed = {k: Opaque('api::' + t, k) for k, t in (('principal', 'EntityUid'), ('action', 'EntityUid'), ('resource', 'EntityUid'), ('context', 'Context'), ('entities', 'Entities'), ('policies', 'PolicySet'), ('schema', 'Schema'), ('request', 'Request'))}
        names = [k for k in ('principal', 'action', 'resource') if given[k]] + ['context', 'entities', 'policies', 'request'] + (['schema'] if has_schema else [])
        OKB = {k: z3.Bool(f'{k}_parses') for k in names}
        VALIDATE = z3.Bool('validate_request')
        jschema = Opaque('ffi::utils::Schema', 'schema (JSON)')
        call = Agg('struct', 'ffi::is_authorized::PartialAuthorizationCall', None, [some(comp[k]) if given[k] else none() for k in ('principal', 'action', 'resource')] + [comp['context'], some(jschema) if has_schema else none(), BoolV(VALIDATE), comp['policies'], comp['entities']],
                   ('principal', 'action', 'resource', 'context', 'schema', 'validate_request', 'policies', 'entities'))
        cidx = {v.id: k for k, v in comp.items()}

        def parse_any(ex_, st, c, A):
            k = cidx.get(ident(ex_, st, A[0]))
            if k is None and ident(ex_, st, A[0]) == jschema.id:
                return [([OKB['schema']], ok(Agg('tuple', None, None, [parsed['schema'], Agg('struct', '~vec_iter', None, [])]))), ([z3.Not(OKB['schema'])], err(Opaque('ErrReport', 'schema error')))]
            if k is None:
                return None
            if k in ('context', 'entities'):
                sch = strip(ex_, st, A[1])
                st.notes[k + '_schema'] = (sch.variant, ident(ex_, st, sch.fields[0]) if isinstance(sch, Agg) and sch.variant == 'Some' else None) if isinstance(sch, Agg) else '?'
                if k == 'context':
                    act = strip(ex_, st, A[2])
                    st.notes['context_action'] = (act.variant, ident(ex_, st, act.fields[0]) if isinstance(act, Agg) and act.variant == 'Some' else None) if isinstance(act, Agg) else '?'
            if k == 'policies':
                return [([OKB[k]], ok(parsed[k])), ([z3.Not(OKB[k])], err(Agg('struct', '~vec', None, [Opaque('ErrReport', 'policy error')])))]
            return [([OKB[k]], ok(parsed[k])), ([z3.Not(OKB[k])], err(Opaque('ErrReport', k + ' error')))]
        ex.stub(r'utils::(EntityUid|Context|Entities|PolicySet|Schema)::parse$', parse_any, 'parse of one component of the call: the parsed value or an error, logged')
        ex.stub(r'api::Request::builder$', lambda ex_, st, c, A: Agg('struct', '~builder', None, []), 'Request::builder()')

        def setter(ex_, st, c, A):
            b = strip(ex_, st, A[0])
            if not (isinstance(b, Agg) and b.name == '~builder'):
                return None
            what = c.rsplit('::', 1)[1]
            return Agg('struct', '~builder', None, list(b.fields) + [Agg('tuple', None, None, [Opaque('setter', what), A[1]])])
        ex.stub(r'api::RequestBuilder::<.*>::(principal|action|resource|context|schema)$', setter, 'RequestBuilder setters: logged in the builder')

        def build(ex_, st, c, A):
            b = strip(ex_, st, A[0])
            if not (isinstance(b, Agg) and b.name == '~builder'):
                return None
            st.notes['built'] = [(strip(ex_, st, e.fields[0]).what, ident(ex_, st, e.fields[1])) for e in b.fields]
            if 'UnsetSchema' in c:
                return parsed['request']
            return [([OKB['request']], ok(parsed['request'])), ([z3.Not(OKB['request'])], err(Opaque('RequestValidationError', 'invalid request')))]
        ex.stub(r'api::RequestBuilder::<.*>::build$', build, 'RequestBuilder::build: the request (validated when a schema was set), logged')
        ex.stub(r'as Into<.*(ErrReport|Report)>>::into$|as From<.*>>::from$', lambda ex_, st, c, A: Opaque('ErrReport', 'converted error') if 'Report' in c else None, 'error -> report (term)')
        C.install(ex)
        outs = ex.run(f, [call])
        ctx.absorb(ex)
        nm = f'PartialAuthorizationCall::parse[{"with" if has_schema else "without"} schema; given: {", ".join(k for k in given if given[k]) or "nothing"}]'
        ctx.panic_summary(nm, outs, ex)
        rets = [o for o in outs if o.kind == 'ret']
        bad = []

        def res(o):
            v = strip(ex, o.st, o.val)
            t = strip(ex, o.st, v.fields[0]) if isinstance(v, Agg) and v.fields else None
            if not (isinstance(t, Agg) and t.variant in ('Ok', 'Err')):
                raise NotEncoded(f'{nm}: result {v!r}')
            return t
        for o in rets:
            t = res(o)
            if t.variant == 'Ok':
                tup = strip(ex, o.st, t.fields[0])
                built = o.st.notes.get('built') or []
                want = [(k, parsed[k].id) for k in ('principal', 'action', 'resource') if given[k]] + [('context', parsed['context'].id)]
                want_schema = ('Some', parsed['schema'].id) if has_schema else ('None', None)
                good = isinstance(tup, Agg) and [ident(ex, o.st, x) for x in tup.fields] == [parsed['request'].id, parsed['policies'].id, parsed['entities'].id]
                good = good and [b for b in built if b[0] != 'schema'] == want and o.st.notes.get('entities_schema') == want_schema and o.st.notes.get('context_schema') == want_schema
                good = good and o.st.notes.get('context_action') == (('Some', parsed['action'].id) if ha else ('None', None))
                with_schema = ('schema', parsed['schema'].id) in built
                others = z3.And([OKB[k] for k in names if k != 'request'])
                if has_schema:
                    claim = z3.And(others, z3.BoolVal(bool(good)), z3.If(VALIDATE, z3.And(z3.BoolVal(with_schema), OKB['request']), z3.BoolVal(not with_schema)))
                else:
                    claim = z3.And(others, z3.BoolVal(bool(good and not with_schema)))
            else:
                # failure: some component failed (the request only counts when it is validated)
                claim = z3.Not(z3.And([OKB[k] for k in names if k != 'request'] + ([z3.Or(z3.Not(VALIDATE), OKB['request'])] if has_schema else [])))
            bad.append(z3.And(o.pc + [z3.Not(claim)]))
        ctx.decide(f'{nm}/given components through their own setters, context always, schema iff given and validate_request; any error fails the call', [z3.Or(bad) if bad else T], ex=ex, sample={'paths': len(rets)},
                   on_sat=lambda m, nm=nm: battery_replay(ctx, nm, 'ffi/is_authorized.rs: PartialAuthorizationCall::parse', 'the partial call is assembled from the wrong components'))
        ctx.decide(f'{nm}/paths-cover', [z3.Not(pcs(rets))], ex=ex)
        ctx.decide(f'{nm}/witness-ok', [pcs([o for o in rets if res(o).variant == 'Ok'])], expect='sat', ex=ex)
        ctx.decide(f'{nm}/witness-err', [pcs([o for o in rets if res(o).variant == 'Err'])], expect='sat', ex=ex)


def history_replay(ctx, name, role, why):
    return battery_replay(ctx, name, role, why)


def cache_frame(ctx):
    """who touches the two caches: a scan of the dump (every body / promoted constant that names PREPARSED_*), decided as a trivial query so that it is counted and reported"""
    P = ctx.prog('api')
    users = {'PREPARSED_POLICY_SETS': set(), 'PREPARSED_SCHEMAS': set()}
    txt = P.text
    starts = [m.start() for m in re.finditer(r'^(?:fn|const|static|promoted\[\d+\] in) ', txt, re.M)] + [len(txt)]
    for a_, b_ in zip(starts, starts[1:]):
        head = txt[a_:txt.find('\n', a_)]
        item = re.sub(r'^(?:fn|const|static) (?:mut )?', '', head)
        if re.match(r'^(ffi::is_authorized::)?PREPARSED_', item):
            continue            # the thread_local! machinery of the static itself
        body = txt[a_:b_]
        for k in users:
            if re.search(r'= const [\w:]*' + k + r';', body):
                owner = re.split(r'::promoted\[|::\{closure|\(', item)[0]
                users[k].add(owner.split('>::')[-1] if '>::' in owner else owner.split('::')[-1])
    want = {'PREPARSED_POLICY_SETS': {'preparse_policy_set', 'parse'}, 'PREPARSED_SCHEMAS': {'preparse_schema', 'parse'}}
    for k in users:
        ctx.decide(f'cache frame/{k} is named only by its registration function and by StatefulAuthorizationCall::parse (dump scan: {sorted(users[k])})', [z3.BoolVal(users[k] != want[k])], sample={'users': sorted(users[k])},
                   on_sat=lambda m, k=k: ctx.mismatch(f'cache frame/{k}', f'other code touches the cache: {sorted(users[k])} - the step obligations no longer cover every access'))


def families(ctx):
    from . import c19_utils, c19_routes, c19_cli
    return c19_cli.families(ctx) + c19_routes.families(ctx) + [('ffi::is_authorized', lambda: entry(ctx, 'is_authorized::is_authorized')), ('ffi::stateful_is_authorized', lambda: entry(ctx, 'stateful_is_authorized')),
            ('response conversion', lambda: response_conversion(ctx)), ('call parse', lambda: call_parse(ctx)),
            ('preparse policies', lambda: preparse(ctx, 'policies')), ('preparse schema', lambda: preparse(ctx, 'schemas')), ('stateful parse', lambda: stateful_parse(ctx)),
            ('cache frame', lambda: cache_frame(ctx)), ('partial call parse', lambda: partial_parse(ctx))] + c19_utils.families(ctx)


def run(ctx):
    ctx.prog('api')
    ctx.run_families(families(ctx))
    ctx.guarded('native battery', lambda: battery_selftest(ctx))
    from . import c19_cli
    ctx.guarded('native CLI battery', lambda: c19_cli.cli_selftest(ctx))
    n_shapes, n_hist = len(shape_cases()), len(histories())
    ctx.bounds += ['wrapper code only: each harness runs ONE function of cedar-policy/src/ffi/{is_authorized,utils,validate,check_parse,convert,format}.rs from its MIR on opaque documents; whatever it calls outside ffi/ (and the ffi function with its own obligation) is an environment stub that returns a value or an error freely',
                   f'collections: 0..{3 if ctx.tier == "thorough" else 2} static policies / slot values, up to {"3 templates + 2 links or 2 + 3" if ctx.tier == "thorough" else "2 templates + 2 links"} per policy set, 2 reasons + 2 errors in a response; larger collections are outside the symbolic claim',
                   'stateful cache: one inductive step - a registration or a stateful call from an ARBITRARY cache state (the two maps are abstract: lookups hit or miss freely); together with the cache-frame scan this covers histories of any length',
                   f'native battery: {2 * len(REQUESTS)} fixed-map comparisons, {n_shapes} input shapes x {len(SHAPE_REQUESTS)} requests against the Rust API, {n_hist} registration / call histories against a name -> document model x {len(REQUESTS)} requests']
    ctx.assumptions += ['serde (JSON -> call structs, answer -> JSON) is NOT encoded: field renaming, defaults (validateRequest = true) and untagged-enum resolution are exercised by the native battery only',
                        'Authorizer::is_authorized, Request::new, {Policy, Template, PolicySet, Schema, SchemaFragment, Entities, Context, EntityUid} constructors and PolicySet::{add_template, link, from_policies} are environment stubs '
                        '(their own meaning is C01..C18); miette wrap_err / Report conversions keep Ok and replace the error',
                        'HashMap iteration order is taken as the given order (the claims do not depend on it except that templates are added before links, which the code does by construction)',
                        'the dump is built with features partial-eval,tpe,protobufs: ValidationMode has the single value Strict there, so the settings reach the validator as a compile-time constant',
                        'CLI: `authorize`, `execute_request`, `validate` and `CedarExitCode::report` are executed from the MIR of the cedar-policy-cli library; clap argument parsing, file reading (PoliciesArgs::get_policy_set, '
                        'get_schema, load_entities, RequestArgs::get_request) and the wording of messages are environment stubs; println! is a logged stub; the native CLI battery runs the real `cedar` binary built from the tree',
                        'cedar-wasm (a re-export), the translate-policy / translate-schema / format / link / evaluate ... sub-commands of the CLI and is_authorized_partial are NOT covered: see DESIGN.md section 4, C19']
    return ctx.finish('Solver-decided wiring of the JSON / FFI authorization front end, executed from the MIR of the cedar-policy crate: (1) is_authorized / stateful_is_authorized answer Success with the conversion of '
                      'Authorizer::is_authorized on exactly the parsed (request, policies, entities), else Failure with the parse errors; (2) the response conversion keeps decision, every reason, every error; (3) AuthorizationCall::parse and '
                      'StatefulAuthorizationCall::parse put principal / action / resource / context in their positions, parse context and entities against the schema, hand the schema to Request::new iff validate_request, fail on any component error; '
                      '(4) preparse_* store exactly the parsed document under the given name and nothing on failure, the stateful call reads policies and schema under the names given and never writes, and nothing else names the caches; '
                      '(5) every utils.rs parse routes to the API constructor for its syntax with the id / schema / action given, and PolicySet / StaticPolicySet / TemplateLink assembly adds every part under its own id into the one returned set; '
                      '(6) validate returns every error and warning of Validator::new(schema).validate(policies, mode) under its own policy id, the conversions return the API text / JSON of the parsed document (schemas re-checked), the parse checks '
                      'succeed iff the API parse (and context validation) does, format calls the formatter with the widths given; '
                      '(7) CLI: `cedar authorize` exits 0 and prints ALLOW iff the API response allows, exits 2 and prints DENY iff it denies, exits 1 without a decision iff an input did not load, prints every error and (--verbose) every reason; '
                      'it authorizes exactly the loaded request / policies / entities, read against the named schema; `cedar validate` exits 0 / 3 / 1 by the validation result (with --deny-warnings and --level honoured). '
                      'A native battery compares the JSON interface with the Rust API over all accepted input shapes and replays cache histories against a reference model.')
