"""C17 - entity manifests (engine M, analysis side only).  The sufficiency statement itself (authorizing over the sliced store equals authorizing over the full
store) needs the typechecker, the slicer and the evaluator in one query and is not decided.  Decided, from the MIR of cedar-policy-core built with the
`entity-manifest` feature:
  * the per-node calculus of `entity_manifest_from_expr`: for every expression node kind, with the results of the recursive calls as abstract tokens, the
    result requires (global trie) everything every child requires - no child is dropped - plus what the node itself reads: the attribute path for `.`/`has`,
    the full type of both operands of ==, in, contains*, of the operand of isEmpty, the ancestors of the left operand of `in` with respect to the right one;
    and the resulting access paths are the ones the value of the node can come from (if: both branches; set / record literals: their members; booleans: none);
  * the six operations on analysis results (`empty_paths`, `union`, `from_root`, `get_or_has_attr`, `with_ancestors_required`, `full_type_required`) do to the
    global trie and the paths what the calculus assumes of them.
A native battery computes the manifest of validated policy sets, slices the store and compares the authorization response over the slice with the full store."""
import z3
from ..executor import IntV, BoolV, Agg, Opaque, Ref, NotEncoded, UNIT
from ..models import ok, err, some, none
from .. import containers as C
from .c06 import nodes, ast_expr, strip, EK

T, F = z3.BoolVal(True), z3.BoolVal(False)
FILE = 'cedar-policy-core/src/validator/entity_manifest.rs'
AFILE = 'cedar-policy-core/src/validator/entity_manifest/analysis.rs'
EMAR = 'validator::entity_manifest::analysis::EntityManifestAnalysisResult'
WAP = 'validator::entity_manifest::analysis::WrappedAccessPaths'


# ---------------------------------------------------------------------------------------------------------------- the abstract domain

class Dom:
    """global requirements = a set of atoms, paths = a term; both attached to opaque values by identity"""

    def __init__(self):
        self.G, self.P = {}, {}

    def g(self, atoms, what='global trie'):
        o = Opaque('validator::entity_manifest::RootAccessTrie', what)
        self.G[o.id] = frozenset(atoms)
        return o

    def p(self, term, what='paths'):
        o = Opaque(WAP, what)
        self.P[o.id] = term
        return o

    def res(self, atoms, pterm):
        return Agg('struct', EMAR, None, [self.g(atoms), self.p(pterm)], ('global_trie', 'resulting_paths'))

    def gterm(self, ex, st, v):
        v = strip(ex, st, v)
        if isinstance(v, Opaque) and v.id in self.G:
            return self.G[v.id]
        raise NotEncoded(f'global trie {v!r} is not a value of the calculus')

    def pterm(self, ex, st, v):
        v = strip(ex, st, v)
        if isinstance(v, Opaque) and v.id in self.P:
            return self.P[v.id]
        if isinstance(v, Agg) and v.variant == 'Empty':
            return ('empty',)
        if isinstance(v, Agg) and v.variant == 'Union':
            return ('union', self.pterm(ex, st, v.fields[0]), self.pterm(ex, st, v.fields[1]))
        if isinstance(v, Agg) and v.variant == 'SetLiteral':
            return ('set', self.pterm(ex, st, v.fields[0]))
        if isinstance(v, Agg) and v.variant == 'RecordLiteral':
            m = strip(ex, st, v.fields[0])
            if isinstance(m, Agg) and m.name == '~hmap':
                return ('record', tuple(sorted(((getattr(strip(ex, st, e.fields[0]), 'id', '?'), self.pterm(ex, st, e.fields[1])) for e in m.fields), key=str)))
        raise NotEncoded(f'paths {v!r} are not a value of the calculus')

    def of(self, ex, st, v):
        v = strip(ex, st, v)
        if isinstance(v, Agg) and v.name and v.name.endswith('EntityManifestAnalysisResult') and len(v.fields) == 2:
            return self.gterm(ex, st, v.fields[0]), self.pterm(ex, st, v.fields[1])
        raise NotEncoded(f'analysis result {v!r}')


def pnorm(p):
    """the set of simple paths a paths-term stands for (unions flattened, attribute access distributed over them)"""
    k = p[0]
    if k == 'empty':
        return frozenset()
    if k == 'union':
        return pnorm(p[1]) | pnorm(p[2])
    if k == 'attr':
        return frozenset(('attr', x, p[2]) for x in pnorm(p[1]))
    if k == 'set':
        return frozenset([('set', pnorm(p[1]))])
    if k == 'record':
        return frozenset([('record', tuple((a, pnorm(b)) for a, b in p[1]))])
    return frozenset([p])


def gnorm(atoms):
    out = set()
    for a in atoms:
        if a[0] == 'paths':
            out |= {('paths', x) for x in pnorm(a[1])}
        elif a[0] == 'full':
            out |= {('full', x, a[2]) for x in pnorm(a[1])}
        elif a[0] == 'anc':
            out |= {('anc', x, gnorm(a[2])) for x in pnorm(a[1])}
        elif a[0] == 'toanc':
            out |= {('toanc', x) for x in pnorm(a[1])}
        else:
            out.add(a)
    return frozenset(out)


def install_ops(ex, D):
    """the operations on analysis results, with the meaning the calculus gives them (each has its own obligation below)"""
    of = lambda ex_, st, v: D.of(ex_, st, v)
    ex.stub(r'EntityManifestAnalysisResult::empty_paths$', lambda ex_, st, c, A: (lambda g, p: D.res(g, ('empty',)))(*of(ex_, st, A[0])), 'empty_paths: same requirements, no resulting paths')
    ex.stub(r'EntityManifestAnalysisResult::union$', lambda ex_, st, c, A: (lambda a, b: D.res(a[0] | b[0], ('union', a[1], b[1])))(of(ex_, st, A[0]), of(ex_, st, A[1])), 'union: both requirements, both paths')
    ex.stub(r'EntityManifestAnalysisResult as Default>::default$', lambda ex_, st, c, A: D.res([], ('empty',)), 'default: nothing required, no paths')
    ex.stub(r'EntityManifestAnalysisResult::get_or_has_attr$', lambda ex_, st, c, A: (lambda g, p, a: D.res(g | {('paths', ('attr', p, a))}, ('attr', p, a)))(*of(ex_, st, A[0]), getattr(strip(ex_, st, A[1]), 'id', '?')),
            'get_or_has_attr(a): the paths extended by a, and required')
    ex.stub(r'EntityManifestAnalysisResult::full_type_required$', lambda ex_, st, c, A: (lambda g, p, ty: D.res(g | {('full', p, ty)}, ('empty',)))(*of(ex_, st, A[0]), getattr(strip(ex_, st, A[1]), 'id', '?')),
            'full_type_required(ty): everything of type ty under the paths required; no resulting paths')
    ex.stub(r'EntityManifestAnalysisResult::with_ancestors_required$', lambda ex_, st, c, A: (lambda g, p, anc: D.res(g | {('anc', p, anc)}, p))(*of(ex_, st, A[0]), D.gterm(ex_, st, A[1])),
            'with_ancestors_required(t): the ancestors of the paths required with respect to t')
    ex.stub(r'WrappedAccessPaths::to_ancestor_access_trie$', lambda ex_, st, c, A: D.g([('toanc', D.pterm(ex_, st, A[0]))], 'ancestor trie'), 'to_ancestor_access_trie: the paths as ancestor candidates')
    ex.stub(r'RootAccessTrie as Default>::default$', lambda ex_, st, c, A: D.g([]), 'RootAccessTrie::default: nothing required')
    ex.stub(r'RootAccessTrie::union$', lambda ex_, st, c, A: D.g(D.gterm(ex_, st, A[0]) | D.gterm(ex_, st, A[1])), 'RootAccessTrie::union')

    def from_root(ex_, st, c, A):
        r = strip(ex_, st, A[0])
        def shape(v):
            v = strip(ex_, st, v)
            if isinstance(v, Agg):
                return (v.variant or v.name,) + tuple(shape(f) for f in v.fields)
            return getattr(v, 'id', repr(v))
        root = ('root', shape(r))
        return D.res([('paths', root)], root)
    ex.stub(r'EntityManifestAnalysisResult::from_root$', from_root, 'from_root(r): the entity r itself is required and is the resulting path')


# ---------------------------------------------------------------------------------------------------------------- per-node calculus

def node_check(ctx, label, build, battery):
    P = ctx.prog('coreem')
    fs = [f for f in P.funcs_named('entity_manifest_from_expr') if f.blocks]
    if len(fs) != 1:
        raise LookupError(f'entity_manifest_from_expr: {len(fs)} candidates')
    f = fs[0]
    ctx.use(f)
    ex = ctx.new_exec('coreem')
    ex.havoc_unknown = True
    ex.max_paths = 4000
    D = Dom()
    kids = [Opaque('ast::expr::Expr<Option<Type>>', f'child{i}') for i in range(3)]
    tys = [Opaque('validator::types::Type', f'type of child{i}') for i in range(3)]
    pay = {'attr': Opaque('smol_str::SmolStr', 'attr'), 'pattern': Opaque('ast::pattern::Pattern', 'pattern'), 'entity_type': Opaque('ast::entity::EntityType', 'entity type'), 'key0': Opaque('smol_str::SmolStr', 'key0'),
           'key1': Opaque('smol_str::SmolStr', 'key1'), 'fn_name': Opaque('ast::name::Name', 'function name'), 'var': Agg('variant', 'ast::expr::Var', 'Resource', []),
           'slot': Agg('struct', 'ast::policy::SlotId', None, [Agg('variant', 'ast::policy::ValidSlotId', 'Principal', [])])}
    this = ast_expr(build(kids, pay))
    kidx = {k.id: i for i, k in enumerate(kids)}
    gid = lambda ex_, st, v: getattr(strip(ex_, st, v), 'id', None)

    def rec(ex_, st, c, A):
        i = kidx.get(gid(ex_, st, A[0]))
        if i is None:
            return None
        st.notes['visited'] = st.notes.get('visited', []) + [i]
        return ok(D.res([('g', i), ('paths', ('p', i))], ('p', i)))
    ex.stub(r'(^|::)entity_manifest_from_expr$', rec, 'recursive call on child i: an abstract result (requirements g_i, which include its own paths p_i)')
    ex.stub(r'Expr::<.*>::expr_kind$', lambda ex_, st, c, A: (lambda r: Ref(r.fid, ('field', r.place, 0, 'expr_kind')))(C.base_ref(ex_, st, A[0])), 'Expr::expr_kind (field accessor)')
    ex.stub(r'Expr::<.*>::data$', lambda ex_, st, c, A: (lambda i: None if i is None else ex_.new_cell(st, some(tys[i]), 'ty'))(kidx.get(gid(ex_, st, A[0]))), 'Expr::data: the type annotation of child i')
    ex.stub(r'SlotId::is_principal$', lambda ex_, st, c, A: BoolV(T), 'SlotId::is_principal (the node is ?principal)')
    ex.stub(r'SlotId::is_resource$', lambda ex_, st, c, A: BoolV(F), 'SlotId::is_resource')
    ex.stub(r'<Arc<.*> as Deref>::deref$', lambda ex_, st, c, A: (lambda v: ex_.new_cell(st, v.fields[0], 'arc_inner') if isinstance(v, Agg) and v.name == 'Arc' else None)(deref1(ex_, st, A[0])), 'Arc::deref')
    ex.stub(r'SmolStr as Clone>::clone$|EntityUID as Clone>::clone$', lambda ex_, st, c, A: strip(ex_, st, A[0]), 'clone: the same object')
    ex.stub(r'HashMap::<(smol_str::)?SmolStr, Box<WrappedAccessPaths>>::new$', lambda ex_, st, c, A: Agg('struct', '~hmap', None, []), 'HashMap::new (record literal paths)')

    def hm_insert(ex_, st, c, A):
        m = strip(ex_, st, A[0])
        if not (isinstance(m, Agg) and m.name == '~hmap'):
            return None
        r = C.base_ref(ex_, st, A[0])
        new = Agg('struct', '~hmap', None, list(m.fields) + [Agg('tuple', None, None, [A[1], A[2]])])
        return [([], none(), lambda s2: ex_.write(s2, r.fid, r.place, new))]
    ex.stub(r'HashMap::<(smol_str::)?SmolStr, Box<WrappedAccessPaths>>::insert$', hm_insert, 'HashMap::insert (record literal paths; the keys of a record literal are distinct)')
    ex.stub(r'BTreeMap::<.*>::iter$', lambda ex_, st, c, A: (lambda m: Agg('struct', '~vec_iter', None, [Agg('tuple', None, None, [ex_.new_cell(st, e.fields[0], 'k'), ex_.new_cell(st, e.fields[1], 'v')]) for e in m.fields]) if isinstance(m, Agg) and m.name == '~btree' else None)(strip(ex_, st, A[0])),
            'BTreeMap::iter over the record members')
    install_ops(ex, D)
    C.install(ex)
    outs = ex.run(f, [Ref(0, ('local', 'THIS'))], heap={'THIS': this})
    ctx.absorb(ex)
    nm = f'entity_manifest_from_expr[{label}]'
    ctx.panic_summary(nm, outs, ex)
    rets = [o for o in outs if o.kind == 'ret']
    kind = strip(ex, rets[0].st, this.fields[0]) if rets else None
    want = expected(kind, pay, tys) if kind is not None else None
    bad, last = [], None
    for o in rets:
        v = strip(ex, o.st, o.val)
        if not (isinstance(v, Agg) and v.variant in ('Ok', 'Err')):
            raise NotEncoded(f'{nm}: result {v!r}')
        if want == 'unsupported':
            good = v.variant == 'Err'
        elif v.variant == 'Err':
            good = False
        else:
            g, p = D.of(ex, o.st, v.fields[0])
            last = (sorted(gnorm(g), key=str), sorted(pnorm(p), key=str))
            good = gnorm(g) == gnorm(want[0]) and pnorm(p) == pnorm(want[1])
        bad.append(z3.And(o.pc + [z3.BoolVal(not good)]))
    ctx.decide(f'{nm}/requires what every child requires and what the node reads; resulting paths as the calculus prescribes', [z3.Or(bad) if bad else T], ex=ex,
               sample={'expected': str((sorted(gnorm(want[0]), key=str), sorted(pnorm(want[1]), key=str)) if want != 'unsupported' else want)[:300], 'computed': str(last)[:300]},
               on_sat=lambda m: battery(ctx, nm, 'validator/entity_manifest.rs: entity_manifest_from_expr', f'the manifest of a `{label}` node misses data the node needs'))
    ctx.decide(f'{nm}/paths-cover', [z3.Not(z3.Or([z3.And(o.pc) if o.pc else T for o in rets] or [F]))], ex=ex)
    ctx.decide(f'{nm}/witness', [z3.Or([z3.And(o.pc) if o.pc else T for o in rets] or [F])], expect='sat', ex=ex)


def deref1(ex, st, v, n=6):
    while n > 0 and isinstance(v, Ref):
        v = ex.read(st, v.fid, v.place)
        n -= 1
    return v


def expected(kind, pay, tys):
    """the calculus: (global requirements, resulting paths) of a node from those of its children c0, c1, c2 (g_i, p_i)"""
    G = lambda *i: {('g', k) for k in i} | {('paths', ('p', k)) for k in i}
    Pi = lambda i: ('p', i)
    v = kind.variant
    if v == 'If':
        return G(0, 1, 2), ('union', Pi(1), Pi(2))
    if v in ('And', 'Or'):
        return G(0, 1), ('empty',)
    if v == 'UnaryApp':
        op = kind.fields[0].variant
        if op == 'IsEmpty':
            return G(0) | {('full', Pi(0), tys[0].id)}, ('empty',)
        return G(0), ('empty',)
    if v == 'BinaryApp':
        op = kind.fields[0].variant
        if op in ('Less', 'LessEq', 'Add', 'Sub', 'Mul'):
            return G(0, 1), ('empty',)
        if op in ('GetTag', 'HasTag'):
            return 'unsupported'
        g = G(0, 1) | {('full', Pi(0), tys[0].id), ('full', Pi(1), tys[1].id)}
        if op == 'In':
            g |= {('anc', Pi(0), frozenset([('toanc', Pi(1))]))}
        return g, ('empty',)
    if v == 'ExtensionFunctionApp':
        return G(0, 1), ('union', Pi(0), Pi(1))
    if v in ('Like', 'Is'):
        return G(0), ('empty',)
    if v == 'Set':
        return G(0, 1), ('set', ('union', Pi(0), Pi(1)))
    if v == 'Record':
        return G(0, 1), ('record', tuple(sorted(((pay['key0'].id, Pi(0)), (pay['key1'].id, Pi(1))), key=str)))
    if v == 'GetAttr':
        return G(0) | {('paths', ('attr', Pi(0), pay['attr'].id))}, ('attr', Pi(0), pay['attr'].id)
    if v == 'HasAttr':
        return G(0) | {('paths', ('attr', Pi(0), pay['attr'].id))}, ('empty',)
    if v == 'Var':
        root = ('root', ('Var', ('Resource',)))
        return {('paths', root)}, root
    if v == 'Slot':
        root = ('root', ('Var', ('Principal',)))
        return {('paths', root)}, root
    raise NotEncoded(f'no calculus rule for {v}')



# ---------------------------------------------------------------------------------------------------------------- the operations on analysis results

def op_check(ctx, opname, battery):
    """one method of EntityManifestAnalysisResult executed on an opaque result: what it does to the global trie (through RootAccessTrie::union / add_wrapped_access_paths,
    logged) and to the paths is what the per-node calculus assumes"""
    P = ctx.prog('coreem')
    fs = [f for f in P.find(rf'EntityManifestAnalysisResult>?::{opname}$|>::{opname}$', AFILE) if '{closure' not in f.name and f.args and 'EntityManifestAnalysisResult' in (f.args[0][1] + f.ret)]
    fs = [f for f in fs if ('EntityManifestAnalysisResult' in f.args[0][1]) or opname == 'from_root']
    if len(fs) != 1:
        raise LookupError(f'EntityManifestAnalysisResult::{opname}: {len(fs)} candidates')
    f = fs[0]
    ctx.use(f)
    ex = ctx.new_exec('coreem')
    ex.havoc_unknown = True
    g0, p0 = Opaque('validator::entity_manifest::RootAccessTrie', 'global trie of self'), Opaque(WAP, 'paths of self')
    g1, p1 = Opaque('validator::entity_manifest::RootAccessTrie', 'global trie of other'), Opaque(WAP, 'paths of other')
    me = Agg('struct', EMAR, None, [g0, p0], ('global_trie', 'resulting_paths'))
    other = Agg('struct', EMAR, None, [g1, p1], ('global_trie', 'resulting_paths'))
    attr, ty, anc, root = Opaque('smol_str::SmolStr', 'attr'), Opaque('validator::types::Type', 'type'), Opaque('validator::entity_manifest::RootAccessTrie', 'ancestors trie'), Opaque('validator::entity_manifest::EntityRoot', 'root')
    gid = lambda ex_, st, v: getattr(strip(ex_, st, v), 'id', None)

    def log(st, *x):
        st.notes['log'] = st.notes.get('log', []) + [x]

    def g_union(ex_, st, c, A):
        r = Opaque('validator::entity_manifest::RootAccessTrie', 'union of tries')
        log(st, 'union', gid(ex_, st, A[0]), gid(ex_, st, A[1]), r.id)
        return r
    ex.stub(r'RootAccessTrie>?::union$', g_union, 'RootAccessTrie::union(a, b): a fresh trie, logged')

    def add_paths(ex_, st, c, A):
        flag = strip(ex_, st, A[2])
        log(st, 'add_paths', gid(ex_, st, A[0]), gid(ex_, st, A[1]), str(z3.simplify(flag.t)) if isinstance(flag, BoolV) else '?', gid(ex_, st, A[3]) if gid(ex_, st, A[3]) == anc.id else ('default' if isinstance(strip(ex_, st, A[3]), Opaque) and strip(ex_, st, A[3]).what == 'default trie' else '?'))
        return UNIT
    ex.stub(r'RootAccessTrie>?::add_wrapped_access_paths$', add_paths, 'RootAccessTrie::add_wrapped_access_paths(&mut trie, paths, is_ancestor, ancestors): logged')
    ex.stub(r'RootAccessTrie as Default>::default$', lambda ex_, st, c, A: Opaque('validator::entity_manifest::RootAccessTrie', 'default trie'), 'RootAccessTrie::default')

    def p_attr(ex_, st, c, A):
        r = Opaque(WAP, 'paths extended by the attribute')
        log(st, 'paths.attr', gid(ex_, st, A[0]), gid(ex_, st, A[1]), r.id)
        return r
    ex.stub(r'WrappedAccessPaths>?::get_or_has_attr$', p_attr, 'WrappedAccessPaths::get_or_has_attr: fresh paths, logged')

    def p_full(ex_, st, c, A):
        r = Opaque('validator::entity_manifest::RootAccessTrie', 'full-type trie of the paths')
        log(st, 'paths.full', gid(ex_, st, A[0]), gid(ex_, st, A[1]), r.id)
        return r
    ex.stub(r'WrappedAccessPaths>?::full_type_required$', p_full, 'WrappedAccessPaths::full_type_required(ty): a trie, logged')

    def to_trie(ex_, st, c, A):
        r = Opaque('validator::entity_manifest::RootAccessTrie', 'trie of the root path')
        pth = strip(ex_, st, A[0])
        log(st, 'path.to_trie', gid(ex_, st, pth.fields[0]) if isinstance(pth, Agg) and pth.fields else '?', r.id)
        return r
    ex.stub(r'AccessPath>?::to_root_access_trie$', to_trie, 'AccessPath::to_root_access_trie: a trie, logged')
    ex.stub(r'AccessPath as Clone>::clone$', lambda ex_, st, c, A: strip(ex_, st, A[0]), 'AccessPath::clone')

    def swap(ex_, st, c, A):
        a, b = A[0], A[1]
        va, vb = ex_.read(st, a.fid, a.place), ex_.read(st, b.fid, b.place)
        def eff(s2):
            ex_.write(s2, a.fid, a.place, vb)
            ex_.write(s2, b.fid, b.place, va)
        return [([], UNIT, eff)]
    ex.stub(r'^(std|core)::mem::swap::<', swap, 'mem::swap')
    C.install(ex)
    args = {'empty_paths': [me], 'union': [me, other], 'from_root': [root], 'get_or_has_attr': [me, Ref(0, ('local', 'ATTR'))], 'with_ancestors_required': [me, Ref(0, ('local', 'ANC'))], 'full_type_required': [me, Ref(0, ('local', 'TY'))]}[opname]
    outs = ex.run(f, args, heap={'ATTR': attr, 'ANC': anc, 'TY': ty})
    ctx.absorb(ex)
    nm = f'EntityManifestAnalysisResult::{opname}'
    ctx.panic_summary(nm, outs, ex)
    rets = [o for o in outs if o.kind == 'ret']
    bad, last = [], None
    for o in rets:
        v = strip(ex, o.st, o.val)
        lg = o.st.notes.get('log', [])
        good = isinstance(v, Agg) and len(v.fields) == 2
        if good:
            G, Pv = gid(ex, o.st, v.fields[0]), strip(ex, o.st, v.fields[1])
            is_empty = isinstance(Pv, Agg) and Pv.variant == 'Empty'
            last = {'global': G, 'paths': repr(Pv)[:80], 'log': lg}
            if opname == 'empty_paths':
                good = G == g0.id and is_empty and lg == []
            elif opname == 'union':
                good = len(lg) == 1 and lg[0][:3] == ('union', g0.id, g1.id) and G == lg[0][3] and isinstance(Pv, Agg) and Pv.variant == 'Union' and [gid(ex, o.st, x) for x in Pv.fields] == [p0.id, p1.id]
            elif opname == 'from_root':
                pth = strip(ex, o.st, Pv.fields[0]) if isinstance(Pv, Agg) and Pv.variant == 'AccessPath' else None
                steps = strip(ex, o.st, pth.fields[1]) if isinstance(pth, Agg) and len(pth.fields) == 2 else None
                good = len(lg) == 1 and lg[0][0] == 'path.to_trie' and lg[0][1] == root.id and G == lg[0][2] and isinstance(pth, Agg) and gid(ex, o.st, pth.fields[0]) == root.id and isinstance(steps, Agg) and steps.name == '~vec' and not steps.fields
            elif opname == 'get_or_has_attr':
                good = len(lg) == 2 and lg[0][:3] == ('paths.attr', p0.id, attr.id) and lg[1] == ('add_paths', g0.id, lg[0][3], 'False', 'default') and G == g0.id and getattr(Pv, 'id', None) == lg[0][3]
            elif opname == 'with_ancestors_required':
                good = lg == [('add_paths', g0.id, p0.id, 'False', anc.id)] and G == g0.id and getattr(Pv, 'id', None) == p0.id
            elif opname == 'full_type_required':
                good = len(lg) == 2 and lg[0][:3] == ('paths.full', p0.id, ty.id) and lg[1][:3] == ('union', g0.id, lg[0][3]) and G == lg[1][3] and is_empty
        bad.append(z3.And(o.pc + [z3.BoolVal(not good)]))
    ctx.decide(f'{nm}/global trie and paths as the calculus assumes', [z3.Or(bad) if bad else T], ex=ex, sample={'result': str(last)[:300]},
               on_sat=lambda m: battery(ctx, nm, f'validator/entity_manifest/analysis.rs: {opname}', 'an operation on analysis results loses requirements'))
    ctx.decide(f'{nm}/paths-cover', [z3.Not(z3.Or([z3.And(o.pc) if o.pc else T for o in rets] or [F]))], ex=ex)
    ctx.decide(f'{nm}/witness', [z3.Or([z3.And(o.pc) if o.pc else T for o in rets] or [F])], expect='sat', ex=ex)


# ---------------------------------------------------------------------------------------------------------------- native battery

M_SCHEMA = ('entity Group; entity User in [Group] { level: Long, manager?: User, profile: { nick: String, home: Doc } }; entity Folder in [Folder] { up: Folder }; '
            'entity Doc in [Folder] { owner: User, public: Bool, readers: Set<User>, folder: Folder }; '
            'action view, edit appliesTo { principal: [User], resource: [Doc], context: { n: Long, via: User } };')
M_ENTS = [{'uid': {'type': 'User', 'id': 'alice'}, 'attrs': {'level': 3, 'manager': {'__entity': {'type': 'User', 'id': 'carol'}}, 'profile': {'nick': 'al', 'home': {'__entity': {'type': 'Doc', 'id': 'd2'}}}}, 'parents': [{'type': 'Group', 'id': 'g'}]},
          {'uid': {'type': 'User', 'id': 'bob'}, 'attrs': {'level': 1, 'profile': {'nick': 'bo', 'home': {'__entity': {'type': 'Doc', 'id': 'd1'}}}}, 'parents': []},
          {'uid': {'type': 'User', 'id': 'carol'}, 'attrs': {'level': 5, 'profile': {'nick': 'ca', 'home': {'__entity': {'type': 'Doc', 'id': 'd1'}}}}, 'parents': [{'type': 'Group', 'id': 'g'}]},
          {'uid': {'type': 'Group', 'id': 'g'}, 'attrs': {}, 'parents': []}, {'uid': {'type': 'Folder', 'id': 'root'}, 'attrs': {'up': {'__entity': {'type': 'Folder', 'id': 'root'}}}, 'parents': []},
          {'uid': {'type': 'Folder', 'id': 'f'}, 'attrs': {'up': {'__entity': {'type': 'Folder', 'id': 'z'}}}, 'parents': [{'type': 'Folder', 'id': 'root'}]}, {'uid': {'type': 'Folder', 'id': 'z'}, 'attrs': {'up': {'__entity': {'type': 'Folder', 'id': 'z'}}}, 'parents': []},
          {'uid': {'type': 'Doc', 'id': 'd1'}, 'attrs': {'owner': {'__entity': {'type': 'User', 'id': 'alice'}}, 'public': False, 'readers': [{'__entity': {'type': 'User', 'id': 'bob'}}], 'folder': {'__entity': {'type': 'Folder', 'id': 'f'}}}, 'parents': [{'type': 'Folder', 'id': 'f'}]},
          {'uid': {'type': 'Doc', 'id': 'd2'}, 'attrs': {'owner': {'__entity': {'type': 'User', 'id': 'bob'}}, 'public': True, 'readers': [], 'folder': {'__entity': {'type': 'Folder', 'id': 'root'}}}, 'parents': []}]
M_POLICIES = ['permit(principal, action, resource) when { resource.owner == principal };', 'permit(principal in Group::"g", action, resource in Folder::"root");',
              'permit(principal, action, resource) when { resource.owner.level > 2 && principal.level < context.n };', 'forbid(principal, action, resource) unless { resource.public || resource.readers.contains(principal) };',
              'permit(principal, action, resource) when { principal has manager && principal.manager.level > 4 };', 'permit(principal, action, resource) when { principal.profile.home == resource };',
              'permit(principal, action, resource) when { (if resource.public then resource.owner else principal).level >= 1 };', 'permit(principal, action, resource) when { context.via in Group::"g" && resource in [Folder::"f", Folder::"root"] };',
              'permit(principal, action, resource) when { [principal, resource.owner].contains(context.via) };', 'permit(principal, action, resource) when { {a: resource.owner, b: principal}.a.profile.nick like "a*" };',
              'permit(principal, action, resource) when { resource.readers.containsAny([principal, context.via]) };', 'permit(principal, action, resource) when { resource.readers.isEmpty() || principal.profile == resource.owner.profile };',
              'permit(principal == User::"alice", action == Action::"view", resource) when { User::"carol".level > principal.level };',
              'permit(principal, action, resource) when { resource in resource.folder.up || resource in resource.folder };', 'permit(principal, action, resource) when { resource in resource.folder || resource in resource.folder.up };',
              'permit(principal, action, resource) when { resource in [resource.folder.up, resource.folder] };', 'permit(principal, action, resource) when { resource in (if resource.public then resource.folder.up else resource.folder) };',
              'permit(principal, action, resource) when { resource in resource.folder.up.up }; permit(principal, action, resource) when { resource in resource.folder.up };', 'forbid(principal, action, resource) when { resource in resource.folder.up.up || resource in resource.folder };',
              'permit(principal, action, resource) when { principal has manager };', 'forbid(principal, action, resource) unless { principal has manager || resource.owner has manager };']


def manifest_cases():
    out = []
    for i, p in enumerate(M_POLICIES):
        sets = [p, p + ' ' + M_POLICIES[(i + 5) % len(M_POLICIES)]]
        for ps in sets:
            for u in ('alice', 'bob'):
                for d in ('d1', 'd2'):
                    out.append({'op': 'manifest_slice', 'schema': M_SCHEMA, 'policies': ps, 'entities': M_ENTS, 'principal': f'User::"{u}"', 'action': 'Action::"view"', 'resource': f'Doc::"{d}"', 'context': {'n': 4, 'via': {'__entity': {'type': 'User', 'id': 'carol'}}}})
    return out


def battery(ctx, name, role, why):
    cache = ctx.__dict__.setdefault('_c17_battery', {})
    if 'r' not in cache:
        cache['r'] = None
        n = 0
        for q in manifest_cases():
            a = ctx.native.ask(q)
            if 'full' not in a or 'sliced' not in a:
                return ctx.mismatch(name, f'manifest_slice probe `{q["policies"][:60]}`: {str(a)[:300]}')
            n += 1
            if a['full'] != a['sliced']:
                cache['r'] = (f'policies `{q["policies"]}`, request {q["principal"]} view {q["resource"]}: over the full store {a["full"]}, over the store sliced by the manifest {a["sliced"]} (slice keeps {a.get("kept")})', q)
                break
        cache['n'] = n
    if cache['r']:
        return ctx.violation(name, role, f'{why}; natively: {cache["r"][0]}', cache['r'][1])
    return ('unreplayed', f'{why}; but the {cache.get("n")} sliced-vs-full comparisons of the battery agree')


def node_families(ctx):
    fam = []
    for label, build in nodes():
        fam.append((f'manifest of a {label} node', lambda label=label, build=build: node_check(ctx, label, build, battery)))
    return fam


def families(ctx):
    from . import c17_trie
    ops = ['empty_paths', 'union', 'from_root', 'get_or_has_attr', 'with_ancestors_required', 'full_type_required']
    return node_families(ctx) + [(f'analysis result operation {o}', lambda o=o: op_check(ctx, o, battery)) for o in ops] + c17_trie.families(ctx, battery)


def run(ctx):
    ctx.prog('coreem')
    ctx.run_families(families(ctx))
    ctx.guarded('native battery', lambda: battery(ctx, 'native battery', 'entity manifest: sliced store vs full store', 'native slicing battery'))
    ctx.bounds += ['one expression node of each kind (if, &&, ||, 3 unary and 12 binary operators, attribute access, has, like, is, set and record with 2 members, extension call with 2 arguments, variable, slot) with the analysis results '
                   'of its children as abstract tokens => expressions of any depth at the level of the calculus', f'native battery: {len(manifest_cases())} (policy set, request) cases over an 8-entity store: manifest, slice, authorization over the slice vs the full store']
    ctx.assumptions += ['the operations on analysis results (empty_paths, union, from_root, get_or_has_attr, with_ancestors_required, full_type_required, to_ancestor_access_trie, RootAccessTrie::union) carry the meaning stated in their stub tags: '
                        'requirements are sets of atoms, paths are terms compared modulo union / empty; the six methods of EntityManifestAnalysisResult are decided against that meaning in terms of RootAccessTrie::{union, add_wrapped_access_paths}, '
                        'WrappedAccessPaths::{get_or_has_attr, full_type_required} and AccessPath::to_root_access_trie, whose own bodies are NOT decided - except the recursive union of tries: AccessTrie::union_mut (children and ancestors tries of both sides merged, ancestor mark = either side), '
                        'union_fields_mut and RootAccessTrie::union_mut (every key of either side survives; maps of <= 2 + <= 2 keys, 7 shapes, values opaque, HashMap entry API as a concrete-key model)',
                        'NOT decided: that the calculus is sufficient for evaluation (a paper argument, RFC 74), the typechecker that annotates the expressions, compute_entity_manifest (per request environment), the slicer / loader '
                        '(entity_manifest/slicing.rs, loader.rs), entity tags (rejected as unsupported by the analysis)']
    return ctx.finish('Solver-decided per-node calculus of the entity-manifest analysis (entity_manifest_from_expr executed from the MIR of cedar-policy-core built with the entity-manifest feature): at every node kind the manifest requires '
                      'everything every child requires plus what the node itself reads (attribute paths, full types of compared operands, ancestors for `in`), and the resulting access paths are those the node value can come from; '
                      'entity tags are rejected; the recursive union of access tries loses nothing (one node, and the two map-merging loops on small maps). Plus a native battery comparing authorization over the manifest-sliced store with the full store.')
