"""One arm of the evaluator's big `match` at a time (engine M): `Expr::expr_kind()` is stubbed to return a node of a
pinned variant whose sub-expressions are opaque; the recursive `Evaluator::partial_interpret` calls are stubbed by an
arbitrary outcome per sub-expression (a Value of any kind / a residual / an error) and logged.  By structural induction
the per-node obligations give the operator's semantics for expressions of any depth."""
import re
import z3
from ..executor import IntV, BoolV, Agg, Opaque, Ref, NotEncoded, UNIT, StrV
from ..models import ok, err, some, none
from .common import SymValue, KINDS, cedar_value
from .c02 import install_value_stubs, StrLit, as_type_error

EXPR_CTORS = r'(^|::)Expr::(and|or|val|ite_arc|ite|unary_app|binary_app|get_attr|has_attr|like|is_entity_type|set|record|record_arc|call_extension_fn|get_tag|has_tag|unknown|not|is_eq)(::<.*>)?$'


class Sub:
    """a sub-expression with an arbitrary evaluation outcome"""

    def __init__(s, h, name):
        s.name = name
        s.expr = Opaque('ast::expr::Expr', name)
        s.arc = Agg('struct', 'Arc', None, [s.expr], ('inner',))
        s.out = z3.Int(f'out_{name}')          # 0 value, 1 residual, 2 error
        s.val = SymValue(h.ex, f'val_{name}')
        s.res = Opaque('ast::expr::Expr', f'res_{name}')
        s.err = Opaque('EvaluationError', f'err_{name}')
        h.ex.invariants.append(z3.And(s.out >= 0, s.out <= 2))

    def ins(s):
        return {f'{s.name}_out': s.out, **s.val.ins(s.name)}

    @staticmethod
    def decl(name):
        return [(f'{name}_out', 'u8')] + SymValue.input_decl(name)


class Harness:
    def __init__(self, ctx, ex, func):
        self.ctx, self.ex, self.f = ctx, ex, func
        self.subs = {}
        self.by_expr, self.by_val, self.by_res, self.by_err = {}, {}, {}, {}
        install_value_stubs(ex)
        ex.stub(r'Evaluator::<.*>::partial_interpret$', self._pi, 'Evaluator::partial_interpret on a sub-expression: arbitrary Ok(Value v) | Ok(Residual r) | Err(e), logged')
        ex.stub(EXPR_CTORS, lambda ex, st, c, A: Agg('struct', '~Expr::' + re.search(EXPR_CTORS, c).group(2), None, list(A)), 'Expr::{and,or,val,ite,..} residual constructors (terms)')
        ex.stub(r'<.*Expr as From<(?:[\w:]*::)?Value>>::from$', lambda ex, st, c, A: Agg('struct', '~Expr::from_value', None, list(A)), 'Expr::from(Value) (term)')
        ex.stub(r'(^|::)Expr::(<.*>::)?source_loc$', lambda ex, st, c, A: Opaque('Option<&Loc>', 'loc'), 'Expr::source_loc (opaque)')
        ex.stub(r'<(smol_str::)?SmolStr as Deref>::deref$', lambda ex, st, c, A: A[0], 'SmolStr::deref (the string itself)')
        ex.stub(r'<LazyLock<.*Name> as Deref>::deref$', lambda ex, st, c, A: ex.new_cell(st, Opaque('ast::name::Name', 'static name'), 'name'), 'static Name (opaque)')
        ex.stub(r'<Arc<.*Expr> as AsRef<.*>>::as_ref$', lambda ex, st, c, A: Ref(A[0].fid, ('field', A[0].place, 0, '?')), 'Arc<Expr>::as_ref')

    def sub(self, name):
        s = Sub(self, name)
        self.subs[name] = s
        self.by_expr[s.expr.id] = s
        self.by_val[s.val.v.id] = s
        self.by_res[s.res.id] = s
        self.by_err[s.err.id] = s
        return s

    def _resolve(self, st, v):
        n = 0
        while isinstance(v, Ref) and n < 8:
            v = self.ex.read(st, v.fid, v.place)
            n += 1
        if isinstance(v, Agg) and v.name == 'Arc':
            v = v.fields[0]
        return v

    def _pi(self, ex, st, callee, A):
        e = self._resolve(st, A[1])
        s = self.by_expr.get(getattr(e, 'id', None))
        if s is None:
            if ex.havoc_unknown:
                return Opaque('std::result::Result<ast::partial_value::PartialValue, evaluator::err::EvaluationError>', 'evaluation of an expression outside the node')
            raise NotEncoded(f'partial_interpret of an unknown expression {e!r}')
        PV = 'ast::partial_value::PartialValue'
        return [([s.out == 0], ok(Agg('variant', PV, 'Value', [s.val.v]))), ([s.out == 1], ok(Agg('variant', PV, 'Residual', [s.res]))), ([s.out == 2], err(s.err))]

    def evaluated(self, o):
        """names of the sub-expressions evaluated on this path, in order"""
        out = []
        for c in o.log:
            if c.tag.startswith('Evaluator::partial_interpret'):
                e = self._resolve(o.st, c.args[1])
                out.append(self.by_expr[e.id].name if getattr(e, 'id', None) in self.by_expr else '?')
        return out

    # ---- outcome classification (python-level descriptors; terms only for booleans)
    def describe(self, o):
        v = o.val
        if o.kind != 'ret':
            return ('panic', o.msg)
        if not isinstance(v, Agg):
            return ('opaque', repr(v)[:60])
        if v.variant == 'Err':
            e = v.fields[0]
            if getattr(e, 'id', None) in self.by_err:
                return ('err_of', self.by_err[e.id].name)
            te = as_type_error(e)
            if te is not None:
                about = self.by_val.get(getattr(te[1], 'id', None))
                exp = te[0]
                expn = exp.variant.lower() if isinstance(exp, Agg) and exp.variant else 'advice'
                return ('type_error', expn, about.name if about else '?')
            if isinstance(e, Agg) and e.variant and 'EvaluationError' in (e.name or ''):
                return ('error', e.variant)
            return ('other_err', repr(e)[:60])
        pv = v.fields[0]
        if pv.variant == 'Value':
            val = pv.fields[0]
            if getattr(val, 'id', None) in self.by_val:
                return ('value_of', self.by_val[val.id].name)
            try:
                lit = val.fields[0].fields[0]
                if lit.variant == 'Bool':
                    return ('bool', lit.fields[0].t)
                if lit.variant == 'Long':
                    return ('long', lit.fields[0].t)
            except (AttributeError, IndexError):
                pass
            return ('value', val)
        if pv.variant == 'Residual':
            return ('residual', self.shape(o.st, pv.fields[0]))
        return ('other', repr(pv)[:60])

    def shape(self, st, t):
        """python tuple shape of a residual expression term"""
        t = self._resolve(st, t) if isinstance(t, Ref) else t
        if isinstance(t, Agg) and t.name == 'Arc':
            return self.shape(st, t.fields[0])
        if isinstance(t, Opaque):
            if t.id in self.by_val:
                return ('val', self.by_val[t.id].name)
            if t.id in self.by_res:
                return ('res', self.by_res[t.id].name)
            if t.id in self.by_expr:
                return ('orig', self.by_expr[t.id].name)
            return ('opaque', t.what)
        if isinstance(t, Agg) and t.name and t.name.startswith('~Expr::'):
            return (t.name[7:],) + tuple(self.shape(st, a) for a in t.fields)
        if isinstance(t, BoolV):
            return ('lit', 'true' if z3.is_true(t.t) else ('false' if z3.is_false(t.t) else str(t.t)))
        if isinstance(t, Agg) and t.kind == 'struct' and t.name and 'Value' in t.name:
            if getattr(t, 'id', None):
                pass
        if getattr(t, 'id', None) in self.by_val:
            return ('val', self.by_val[t.id].name)
        if isinstance(t, Opaque) or hasattr(t, 'id'):
            if t.id in self.by_val:
                return ('val', self.by_val[t.id].name)
        if isinstance(t, Agg) and t.variant:
            return ('enum', t.variant)
        return ('?', repr(t)[:40])


def operand_text(c, name, unknown_name=None):
    """Cedar text of a sub-expression realising the outcome chosen by the model"""
    o = c[f'{name}_out']
    if o == 0:
        return cedar_value(c[f'{name}_kind'], c[f'{name}_b'], c[f'{name}_n'])
    if o == 1:
        return f'unknown("{unknown_name or name}")'
    return '(9223372036854775807 + 1)'
