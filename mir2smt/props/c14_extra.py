"""Further C14 obligations (engine M): the can-error table of residuals (what lets `<residual> && false` be simplified to `false`)."""
import z3
from ..executor import IntV, BoolV, Agg, Opaque, Ref, NotEncoded, UNIT
from ..models import ok, err, some, none

# residual children per ResidualKind variant (field positions in declaration order)
CHILDREN = {'Var': [], 'If': [0, 1, 2], 'And': [0, 1], 'Or': [0, 1], 'UnaryApp': [1], 'BinaryApp': [1, 2], 'GetAttr': [0], 'HasAttr': [0], 'Like': [0], 'Is': [0]}
# node kinds whose OWN evaluation step can fail on well-typed input (language semantics): integer overflow, missing entity, extension errors
OWN_STEP_BIN = {'Add', 'Sub', 'Mul', 'GetTag'}
OWN_STEP_UN = {'Neg'}


def can_error(ctx):
    P = ctx.prog('core')
    f = P.method('tpe/residual.rs', 'can_error_assuming_well_formed', nargs=1)
    ctx.use(f)
    ex = ctx.new_exec('core')
    resid = Opaque('tpe::residual::Residual', 'residual')
    RT, KT = ex.variants_of('tpe::residual::Residual'), ex.variants_of('tpe::residual::ResidualKind')
    BOP, UOP = ex.variants_of('ast::ops::BinaryOp'), ex.variants_of('ast::ops::UnaryOp')
    if not (RT and KT and BOP and UOP):
        raise NotEncoded('enum tables')
    kind = ex.opaque_field(resid, 'Partial', 0, 'tpe::residual::ResidualKind')
    child = {}
    ANY = z3.Bool('some_member_can_error')

    def rec(ex_, st, c, A):
        r = A[0]
        n = 0
        while isinstance(r, Ref) and n < 6:
            r = ex_.read(st, r.fid, r.place)
            n += 1
        if r.id not in child:
            child[r.id] = z3.Bool(f'can_error_child_{len(child)}')
        return BoolV(child[r.id])
    # the function is entered once for the node; calls to itself are the recursive ones on children
    calls = {'n': 0}

    def self_call(ex_, st, c, A):
        return rec(ex_, st, c, A)          # the run itself does not go through dispatch: every dispatched call is a recursive one
    ex.stub(r'Residual::can_error_assuming_well_formed$', self_call, 'recursive call on a child: free boolean per child residual')
    ex.stub(r'as Iterator>::any::<', lambda ex_, st, c, A: BoolV(ANY), 'Iterator::any over the members of a set / record residual: free boolean')
    ex.stub(r'(slice::<impl \[.*\]>|Vec::<.*>|BTreeMap::<.*>)::iter$|as Deref>::deref$', lambda ex_, st, c, A: None, 'pass')
    ex.havoc_unknown = True
    outs = ex.run(f, [Ref(0, ('local', 'R'))], heap={'R': resid})
    ctx.absorb(ex)
    ctx.panic_summary('can_error_assuming_well_formed', outs, ex)
    rd, kd = ex.disc_term(resid), ex.disc_term(kind)

    def child_bool(variant, idx):
        arc = ex.opaque_field(kind, variant, idx, 'Arc<tpe::residual::Residual>')
        cell = ex.memo.get(('derefv', arc.id))
        if cell is None:
            return None
        return child.get(cell.id)
    # expected answer
    cases = [(rd == RT['Concrete'], z3.BoolVal(False)), (rd == RT['Error'], z3.BoolVal(True))]
    part = rd == RT['Partial']
    for v, idxs in CHILDREN.items():
        cond = z3.And(part, kd == KT[v])
        kids = [child_bool(v, i) for i in idxs]
        kids_or = z3.Or([k for k in kids if k is not None] or [z3.BoolVal(False)])
        missing = any(k is None for k in kids)
        if v == 'BinaryApp':
            op = ex.opaque_field(kind, 'BinaryApp', 0, 'ast::ops::BinaryOp')
            own = z3.Or([ex.disc_term(op) == BOP[o] for o in OWN_STEP_BIN])
            cases.append((cond, z3.Or(own, kids_or), missing))
        elif v == 'UnaryApp':
            op = ex.opaque_field(kind, 'UnaryApp', 0, 'ast::ops::UnaryOp')
            own = z3.Or([ex.disc_term(op) == UOP[o] for o in OWN_STEP_UN])
            cases.append((cond, z3.Or(own, kids_or), missing))
        elif v == 'GetAttr':
            cases.append((cond, z3.BoolVal(True), False))
        else:
            cases.append((cond, kids_or, missing))
    cases.append((z3.And(part, kd == KT['ExtensionFunctionApp']), z3.BoolVal(True)))
    for v in ('Set', 'Record'):
        cases.append((z3.And(part, kd == KT[v]), ANY))
    for i, o in enumerate(outs):
        if o.kind != 'ret':
            continue
        claims = []
        for c in cases:
            cond, want = c[0], c[1]
            missing = c[2] if len(c) > 2 else False
            if missing:
                # a child of this kind was never consulted on ANY path: then the answer must not be `false` for it ... expressed as: this case is infeasible here or the answer is true
                claims.append(z3.Implies(cond, o.val.t))
            else:
                claims.append(z3.Implies(cond, o.val.t == want))

        def on_sat(m):
            from .c14 import views_replay
            # `<residual> && false` may be simplified to `false` only if the residual cannot error: probe operands whose evaluation can fail on a completion
            pols = ('forbid(principal, action, resource) when { principal.r has x && resource != R::"r" };\n'
                    'forbid(principal, action, resource) when { (principal.n + 1 > 0) && resource != R::"r" };\n'
                    'forbid(principal, action, resource) when { (principal.r.x > 0) && resource != R::"r" };\n'
                    'forbid(principal, action, resource) when { (if principal.n > 0 then true else false) && resource != R::"r" };\n'
                    'forbid(principal, action, resource) when { (principal.n > 0 || true) && resource != R::"r" };\npermit(principal, action, resource);')
            # the same operands where the dropped error changes the DECISION: `unless { L && false }` forbids, `when { L || true }` permits - unless L errors
            for lhs in ('principal.r has x', 'principal.n + 1 > 0', 'principal.r.x > 0', 'principal.hasTag("t")', '!(principal.r has x)', 'principal.r has x == true', '(principal.r has x) || principal.n > 0',
                        'principal has r && principal.r has x', 'principal.n > 0 || true'):
                for probe in ('forbid(principal, action, resource) unless { (%s) && resource != R::"r" };\npermit(principal, action, resource);' % lhs,
                              'permit(principal, action, resource) when { (%s) || resource == R::"r" };' % lhs):
                    rr = views_replay(ctx, 'can_error_assuming_well_formed', 'tpe/residual.rs: Residual::can_error_assuming_well_formed', 'the can-error table lets an error-capable residual be dropped', policies=probe)
                    if rr[0] != 'encoding_mismatch':
                        return rr
                    ctx.mismatches.pop()
            r = views_replay(ctx, 'can_error_assuming_well_formed', 'tpe/residual.rs: Residual::can_error_assuming_well_formed', 'the can-error table lets an error-capable residual be dropped', policies=pols)
            if r[0] == 'encoding_mismatch':
                ctx.mismatches.pop()
                return ('unreplayed', 'can-error table differs from the language semantics; the public-API probes do not exhibit it')
            return r
        ctx.decide(f'can_error_assuming_well_formed/path{i}', o.pc + [z3.Not(z3.And(claims))], ex=ex, on_sat=on_sat,
                   sample={'path_condition': [str(c)[:70] for c in o.pc][:5], 'returns': str(o.val.t)[:80]} if i < 3 else None)
    rets = [o for o in outs if o.kind == 'ret']
    ctx.decide('can_error_assuming_well_formed/paths-cover', [z3.Not(z3.Or([z3.And(o.pc) if o.pc else z3.BoolVal(True) for o in rets]))], ex=ex)
    ctx.decide('can_error_assuming_well_formed/witness', [z3.Or([z3.And(o.pc) if o.pc else z3.BoolVal(True) for o in rets])], expect='sat', ex=ex)


def families(ctx):
    return [('can_error_table', lambda: can_error(ctx))]


def entity_consistency(ctx):
    """PartialEntity::check_consistency: a concrete entity is accepted exactly when every KNOWN component (attributes, ancestor SET, tags) is equal to
    the concrete entity's - in particular the known ancestors must be the whole ancestor set, not a subset"""
    P = ctx.prog('core')
    f = P.method('tpe/entities.rs', 'check_consistency', nargs=2, arg0=r'&.*PartialEntity$')
    ctx.use(f)
    for known in [(a, n, t) for a in (False, True) for n in (False, True) for t in (False, True)]:
        ex = ctx.new_exec('core')
        ex.havoc_unknown = True
        ex.from_wrappers.add('EntityConsistencyError')
        attrs, anc, tags = Opaque('BTreeMap<SmolStr, Value>', 'known attrs'), Opaque('HashSet<EntityUID>', 'known ancestors'), Opaque('BTreeMap<SmolStr, Value>', 'known tags')
        pe = Agg('struct', 'tpe::entities::PartialEntity', None, [Opaque('ast::entity::EntityUID', 'uid'), some(attrs) if known[0] else none(), some(anc) if known[1] else none(),
                                                                   some(tags) if known[2] else none()], ('uid', 'attrs', 'ancestors', 'tags'))
        ent = Opaque('ast::entity::Entity', 'concrete entity')
        AV = {'attrs': z3.Bool('attr_values_known'), 'tags': z3.Bool('tag_values_known')}
        EQ = {'attrs': z3.Bool('attrs_equal'), 'anc': z3.Bool('ancestor_sets_equal'), 'tags': z3.Bool('tags_equal')}
        ex.stub(r'Entity::attrs$', lambda ex_, st, c, A: Agg('struct', '~attrs', None, []), 'Entity::attrs (term)')
        ex.stub(r'Entity::tags$', lambda ex_, st, c, A: Agg('struct', '~tags', None, []), 'Entity::tags (term)')
        ex.stub(r'Entity::ancestors$', lambda ex_, st, c, A: Agg('struct', '~ancestors', None, []), 'Entity::ancestors (term)')
        ex.stub(r'as Iterator>::cloned::<|as Iterator>::collect::<', lambda ex_, st, c, A: A[0], 'iterator cloned / collect (identity on terms)')

        def as_values(ex_, st, c, A):
            which = 'attrs' if isinstance(A[0], Agg) and A[0].name == '~attrs' else 'tags'
            return [([AV[which]], ok(Agg('struct', '~values', None, [A[0]]))), ([z3.Not(AV[which])], err(Opaque('SmolStr', 'unknown-valued key')))]
        ex.stub(r'(^|::)as_values::<', as_values, 'as_values: all values concrete, or the name of an unknown-valued one')

        def map_ne(ex_, st, c, A):
            o = A[1]
            n = 0
            while isinstance(o, Ref) and n < 6:
                o = ex_.read(st, o.fid, o.place)
                n += 1
            which = 'attrs' if isinstance(o, Agg) and o.fields and isinstance(o.fields[0], Agg) and o.fields[0].name == '~attrs' else 'tags'
            return BoolV(z3.Not(EQ[which]))
        ex.stub(r'<&?BTreeMap<.*> as PartialEq>::ne$', map_ne, 'BTreeMap inequality: free boolean per component, logged')

        def set_ne(ex_, st, c, A):
            o = A[1]
            n = 0
            while isinstance(o, Ref) and n < 6:
                o = ex_.read(st, o.fid, o.place)
                n += 1
            if not (isinstance(o, Agg) and o.name == '~ancestors'):
                raise NotEncoded(f'ancestor comparison against {o!r}')
            return BoolV(z3.Not(EQ['anc']))
        ex.stub(r'<&?(std::collections::)?HashSet<.*> as PartialEq>::ne$', set_ne, 'HashSet inequality between the known ancestors and ALL concrete ancestors: free boolean, logged')
        outs = ex.run(f, [Ref(0, ('local', 'PE')), Ref(0, ('local', 'EN'))], heap={'PE': pe, 'EN': ent})
        ctx.absorb(ex)
        tagk = ''.join('1' if k else '0' for k in known)
        ctx.panic_summary(f'PartialEntity::check_consistency[known={tagk}]', outs, ex)
        want_ok = z3.And(*([z3.And(AV['attrs'], EQ['attrs'])] if known[0] else []), *([EQ['anc']] if known[1] else []), *([z3.And(AV['tags'], EQ['tags'])] if known[2] else []))
        for i, o in enumerate(outs):
            if o.kind != 'ret':
                continue
            is_ok = o.val.variant == 'Ok'
            # every known component must have been compared through the set / map equality (nothing weaker)
            used = {'anc': any(c.tag.startswith('HashSet inequality') for c in o.log)}
            claims = [z3.BoolVal(is_ok) == want_ok]
            if is_ok and known[1]:
                claims.append(z3.BoolVal(used['anc']))

            def on_sat(m):
                a = ctx.native.ask({'op': 'tpe_views', 'policies': 'permit(principal, action, resource);', 'extra_parent': True})
                r = a.get('reauthorize_extra_parent')
                if r is not None and 'error' not in r:
                    return ctx.violation('PartialEntity::check_consistency', 'tpe/entities.rs: PartialEntity::check_consistency', f'a concrete entity with an ancestor the partial entity does not list is accepted: {r}',
                                         {'op': 'tpe_views', 'policies': 'permit(principal, action, resource);', 'extra_parent': True})
                return ('unreplayed', 'consistency check differs from the specification; the public-API probe (extra ancestor) is still rejected')
            ctx.decide(f'PartialEntity::check_consistency[known={tagk}]/path{i}', o.pc + [z3.Not(z3.And(claims))], ex=ex, on_sat=on_sat,
                       sample={'path_condition': [str(c)[:60] for c in o.pc][:5], 'result': o.val.variant} if tagk == '111' and i < 2 else None)
        rets = [o for o in outs if o.kind == 'ret']
        ctx.decide(f'PartialEntity::check_consistency[known={tagk}]/paths-cover', [z3.Not(z3.Or([z3.And(o.pc) if o.pc else z3.BoolVal(True) for o in rets]))], ex=ex)
    ctx.decide('PartialEntity::check_consistency/witness', [z3.BoolVal(True)], expect='sat')


def families(ctx):
    return [('can_error_table', lambda: can_error(ctx)), ('entity_consistency', lambda: entity_consistency(ctx))]
