"""C20, index-arithmetic kernels of the error-rendering path (engine M): functions that are full of `#[expect(clippy::indexing_slicing)]` with a prose invariant.
  * fuzzy_match::levenshtein_distance (the "did you mean ..." help of validation / schema errors): words of <= 3 characters each, every character an arbitrary
    Unicode scalar value (so its UTF-8 length 1..4 is symbolic too): no index out of bounds, no arithmetic overflow, and the result is the edit distance.
  * est::expr ExtFuncCall printer (method-style / function-style extension calls with 0..2 arguments): no index out of bounds.
Counterexamples are replayed through cedar_policy_core::fuzzy_match::fuzzy_search / the EST printer under catch_unwind."""
import itertools
import z3
from ..executor import IntV, BoolV, Agg, Opaque, Ref, NotEncoded, UNIT, Diverge
from ..models import ok, err, some, none
from .. import containers as C

T, F = z3.BoolVal(True), z3.BoolVal(False)


def utf8_len(c):
    return 1 + z3.If(c >= 0x80, 1, 0) + z3.If(c >= 0x800, 1, 0) + z3.If(c >= 0x10000, 1, 0)


def levenshtein(ctx, n1, n2):
    P = ctx.prog('core')
    fs = [f for f in P.funcs_named('levenshtein_distance') if f.blocks] or [f for f in P.find(r'(^|::)levenshtein_distance$', 'cedar-policy-core/src/fuzzy_match.rs')]
    if len(fs) != 1:
        raise LookupError(f'levenshtein_distance: {len(fs)} candidates')
    f = fs[0]
    ctx.use(f)
    ex = ctx.new_exec('core')
    ex.max_paths = 200000
    ex.max_steps = 20_000_000
    words = [Opaque('&str', 'word1'), Opaque('&str', 'word2')]
    chars = [[z3.Int(f'c{k}_{i}') for i in range(n)] for k, n in ((1, n1), (2, n2))]
    pre = [z3.And(c >= 0, c <= 0x10FFFF, z3.Or(c < 0xD800, c > 0xDFFF)) for w in chars for c in w]
    widx = {w.id: k for k, w in enumerate(words)}
    wid = lambda ex_, st, v: widx.get(getattr(C.res(ex_, st, v), 'id', None))
    ex.stub(r'core::str::<impl str>::chars$', lambda ex_, st, c, A: (lambda k: None if k is None else Agg('struct', '~vec_iter', None, [IntV(x, 'char') for x in chars[k]]))(wid(ex_, st, A[0])), 'str::chars: the characters of the word (arbitrary scalar values)')

    def str_len(ex_, st, c, A):
        k = wid(ex_, st, A[0])
        if k is None:
            return None
        total = z3.Sum([utf8_len(x) for x in chars[k]]) if chars[k] else z3.IntVal(0)
        n = len(chars[k])
        # the byte length as a concrete number per alternative (buffers sized by it must have a concrete size)
        return [([total == t], IntV(z3.IntVal(t), 'usize')) for t in range(n, 4 * n + 1)]
    ex.stub(r'core::str::<impl str>::len$', str_len, 'str::len: the UTF-8 length (1..4 bytes per character), one alternative per value')

    def from_elem(ex_, st, c, A):
        n = ex_.concrete(C.res(ex_, st, A[1]).t) if isinstance(C.res(ex_, st, A[1]), IntV) else None
        if n is None:
            raise NotEncoded('vec![x; n] with a symbolic n')
        return Agg('struct', '~vec', None, [A[0]] * n)
    ex.stub(r'^(std|alloc)::vec::from_elem::<', from_elem, 'vec![x; n] with a concrete n')

    def umin(ex_, st, c, A):
        a, b = C.res(ex_, st, A[0]), C.res(ex_, st, A[1])
        if isinstance(a, IntV) and isinstance(b, IntV):
            return IntV(z3.simplify(z3.If(a.t <= b.t, a.t, b.t)), a.ty)
        return None
    ex.stub(r'^(std|core)::cmp::min::<(usize|u32|u64|i64|isize)>$', umin, 'cmp::min on integers')
    C.install(ex)
    outs = ex.run(f, [words[0], words[1]], pre=pre)
    ctx.absorb(ex)
    nm = f'levenshtein_distance[{n1} x {n2} characters]'
    ctx.panic_summary(nm, outs, ex, pre, replay=lambda m: lev_replay(ctx, nm, chars, m))
    rets = [o for o in outs if o.kind == 'ret']
    # reference: the textbook recurrence over the character equalities
    ref = [[None] * (n1 + 1) for _ in range(n2 + 1)]
    for i in range(n1 + 1):
        ref[0][i] = z3.IntVal(i)
    for j in range(n2 + 1):
        ref[j][0] = z3.IntVal(j)
    mn = lambda a, b: z3.If(a <= b, a, b)
    for j in range(1, n2 + 1):
        for i in range(1, n1 + 1):
            ref[j][i] = z3.If(chars[0][i - 1] == chars[1][j - 1], ref[j - 1][i - 1], 1 + mn(mn(ref[j][i - 1], ref[j - 1][i]), ref[j - 1][i - 1]))
    bad = []
    for o in rets:
        v = C.res(ex, o.st, o.val)
        if not isinstance(v, IntV):
            raise NotEncoded(f'{nm}: result {v!r}')
        bad.append(z3.And(o.pc + [v.t != ref[n2][n1]]))
    ctx.decide(f'{nm}/the result is the edit distance', pre + [z3.Or(bad) if bad else F], ex=ex, sample={'paths': len(rets)}, on_sat=lambda m: lev_replay(ctx, nm, chars, m, want=ref[n2][n1]))
    ctx.decide(f'{nm}/paths-cover', pre + [z3.Not(z3.Or([z3.And(o.pc) if o.pc else T for o in outs if o.kind in ('ret', 'panic')] or [F]))], ex=ex)
    ctx.decide(f'{nm}/witness', pre + [z3.Or([z3.And(o.pc) if o.pc else T for o in rets] or [F])], expect='sat', ex=ex)


def lev_replay(ctx, name, chars, m, want=None):
    val = lambda x: m.eval(x, model_completion=True).as_long()
    w = [''.join(chr(val(c)) for c in word) for word in chars]
    a = ctx.native.ask({'op': 'fuzzy', 'key': w[0], 'word': w[1]})
    if 'panic' in a:
        return ctx.violation(name, 'fuzzy_match.rs: levenshtein_distance (help text of validation errors)', f'computing the edit distance of {w[0]!r} and {w[1]!r} panics: {a["panic"][:160]}', {'op': 'fuzzy', 'key': w[0], 'word': w[1]})
    if want is not None and 'distance' in a and a['distance'] != val(want):
        return ctx.violation(name, 'fuzzy_match.rs: levenshtein_distance', f'edit distance of {w[0]!r} and {w[1]!r}: {a["distance"]}, expected {val(want)}', {'op': 'fuzzy', 'key': w[0], 'word': w[1]})
    return ctx.mismatch(name, f'abstract counterexample ({w[0]!r}, {w[1]!r}) but the real function answers {a}')


def ext_printer(ctx, n):
    """est::expr: `impl BoundedDisplay for ExtFuncCall` - prints `recv.f(args)` for method-style extension functions and `f(args)` otherwise; the call may have any
    number of arguments (the EST comes from JSON: the arity is not checked before printing), the style lookup may find either style or nothing"""
    P = ctx.prog('core')
    fs = [f for f in P.find(r'>::fmt$', 'cedar-policy-core/src/est/expr.rs') if len(f.args) == 3 and f.args[0][1].endswith('ExtFuncCall') and '{closure' not in f.name]
    if len(fs) != 1:
        raise LookupError(f'ExtFuncCall BoundedDisplay::fmt: {len(fs)} candidates')
    f = fs[0]
    ctx.use(f)
    ex = ctx.new_exec('core')
    ex.havoc_unknown = True
    ex.max_paths = 2000
    STYLE = z3.Int('style')           # 0 = method style, 1 = function style, 2 = not an extension function known to this build
    W1, W2 = z3.Bool('receiver_prints'), z3.Bool('write_ok')
    pre = [STYLE >= 0, STYLE <= 2]
    call, name = Opaque('est::expr::ExtFuncCall', 'the call'), Opaque('smol_str::SmolStr', 'function name')
    args = Agg('struct', '~vec', None, [Opaque('est::expr::Expr', f'argument {i}') for i in range(n)])
    heap = {'CALL': call, 'NAME': name, 'ARGS': args, 'W': Opaque('impl Write', 'the writer')}
    ex.stub(r'ExtFuncCall::try_components$', lambda ex_, st, c, A: ok(Agg('tuple', None, None, [Ref(0, ('local', 'NAME')), Ref(0, ('local', 'ARGS'))])), f'ExtFuncCall::try_components: the function name and {n} arguments (INVARIANT: exactly one key)')
    ex.stub(r'Extensions::<.*>::all_available$|Extensions::<.*>::all_funcs$|Extensions::all_available$|Extensions::all_funcs$', lambda ex_, st, c, A: Opaque('extensions', 'extension functions'), 'the extension functions of this build')
    CS = 'ast::extension::CallStyle'
    ex.stub(r' as Iterator>::find_map::<', lambda ex_, st, c, A: [([STYLE == 0], some(Agg('variant', CS, 'MethodStyle', []))), ([STYLE == 1], some(Agg('variant', CS, 'FunctionStyle', []))), ([STYLE == 2], none())],
            'style lookup by name: method style / function style / unknown name')
    ex.stub(r'(^|::)maybe_with_parens::<', lambda ex_, st, c, A: [([W1], ok(UNIT)), ([z3.Not(W1)], err(Opaque('std::fmt::Error', 'fmt error')))], 'maybe_with_parens (printing the receiver): ok or a writer error')
    ex.stub(r'slice::<impl \[.*\]>::iter$', lambda ex_, st, c, A: Opaque('slice::Iter', 'iterator over the arguments'), 'slice::iter')
    ex.stub(r' as (itertools::)?Itertools>::join$', lambda ex_, st, c, A: Opaque('String', 'joined arguments'), 'Itertools::join')
    ex.stub(r' as (std::fmt::)?Write>::write_fmt$', lambda ex_, st, c, A: [([W2], ok(UNIT)), ([z3.Not(W2)], err(Opaque('std::fmt::Error', 'fmt error')))], 'write!: ok or a writer error')

    def index_from(ex_, st, c, A):
        v = C.res(ex_, st, A[0])
        r = C.res(ex_, st, A[1])
        if not (isinstance(v, Agg) and v.name == '~vec'):
            return None
        start = C.res(ex_, st, r.fields[0]) if isinstance(r, Agg) and r.fields else None
        k = ex_.concrete(start.t) if isinstance(start, IntV) else None
        if k is None:
            return None
        if k > len(v.fields):
            return Diverge(f'range start index {k} out of range for slice of length {len(v.fields)}')
        return ex_.new_cell(st, Agg('struct', '~vec', None, list(v.fields[k:])), 'subslice')
    ex.stub(r'<\[.*\] as (std::ops::)?Index<(std::ops::)?RangeFrom<usize>>>::index$', index_from, '&s[k..] (out of range = panic)')
    C.install(ex)
    outs = ex.run(f, [Ref(0, ('local', 'CALL')), Ref(0, ('local', 'W')), Opaque('Option<usize>', 'depth limit')], heap=heap, pre=pre)
    ctx.absorb(ex)
    nm = f'EST printer of an extension call[{n} arguments]'
    ctx.panic_summary(nm, outs, ex, pre, replay=lambda m: printer_replay(ctx, nm, n, m.eval(STYLE, model_completion=True).as_long()))
    rets = [o for o in outs if o.kind == 'ret']
    ctx.decide(f'{nm}/paths-cover', pre + [z3.Not(z3.Or([z3.And(o.pc) if o.pc else T for o in outs if o.kind in ('ret', 'panic')] or [F]))], ex=ex)
    ctx.decide(f'{nm}/witness', pre + [z3.Or([z3.And(o.pc) if o.pc else T for o in rets] or [F])], expect='sat', ex=ex)


def printer_replay(ctx, name, n, style):
    fn = {0: 'isIpv4', 1: 'ip', 2: 'notAnExtensionFunction'}[style]
    est = {'effect': 'permit', 'principal': {'op': 'All'}, 'action': {'op': 'All'}, 'resource': {'op': 'All'}, 'conditions': [{'kind': 'when', 'body': {fn: [{'Value': '1.2.3.4'}] * n}}]}
    a = ctx.native.ask({'op': 'est_print', 'policy': est})
    if 'panic' in a:
        return ctx.violation(name, 'est/expr.rs: BoundedDisplay for ExtFuncCall', f'printing the JSON policy with the condition {{"{fn}": [{n} arguments]}} panics: {a["panic"][:160]}', {'op': 'est_print', 'policy': est})
    return ctx.mismatch(name, f'abstract panic path ({n} arguments, style {style}) but printing the JSON policy gives {str(a)[:200]}')


# ---------------------------------------------------------------------------------------------------------------- extension constructors on adversarial strings (native only)
# The string parsers of the extension constructors sit behind the `regex` crate, which engine M cannot encode; the unwraps after a regex match rely on what the regex
# let through (ASCII digits of a bounded length).  This battery is sampling, not a solver verdict: every constructor on strings derived from valid ones by replacing
# digits with non-ASCII decimal digits, stretching numbers, moving signs / separators - none may panic.

ALT_DIGITS = ['\u0667', '\uff17', '\u096d', '\u00b2', '\U0001d7d5']        # ARABIC-INDIC 7, FULLWIDTH 7, DEVANAGARI 7, SUPERSCRIPT 2, MATHEMATICAL BOLD 7
EXT_BASE = {'datetime': ['2024-01-01', '2024-01-01T01:02:03Z', '2024-01-01T01:02:03.456Z', '2024-01-01T01:02:03+0130', '2024-01-01T01:02:03.456-2359', '0000-01-01', '9999-12-31T23:59:59.999+2359'],
            'duration': ['1d2h3m4s5ms', '-1d', '0ms', '9223372036854775807ms', '106751991167d', '1h1h', '2562047788015h', '153722867280912m'],
            'decimal': ['1.5', '-1.5', '0.0001', '922337203685477.5807', '-922337203685477.5808', '1.00000', '00001.1'],
            'ip': ['1.2.3.4', '1.2.3.4/24', '::1', '::1/128', 'ffff::/0', '255.255.255.255/32', '1.2.3.4/032', '::ffff:1.2.3.4']}


def ext_strings(fn):
    out = []
    for b in EXT_BASE[fn]:
        out.append(b)
        for i, ch in enumerate(b):
            if ch.isdigit():
                out += [b[:i] + d + b[i + 1:] for d in ALT_DIGITS[:2]]
                if i in (0, len(b) - 1) or not b[i - 1].isdigit():
                    out += [b[:i] + d + b[i + 1:] for d in ALT_DIGITS[2:]]
        out += [b + b, b[:-1], b[1:], ' ' + b, b + ' ', '+' + b, '-' + b, b.replace('1', '1' * 25, 1), b.replace('.', '..'), b.replace(':', '::'), b.replace('-', '--'), b.upper(), b + '\u0000', b.replace('2', '\u0662')]
    out += ['', '-', '.', ':', 'T', 'Z', '/', 'd', 'ms', '\u0667', '\U0001d7d5' * 4 + '-01-01', '99999999999999999999999999d', '1' * 400]
    seen, uniq = set(), []
    for x in out:
        if x not in seen:
            seen.add(x)
            uniq.append(x)
    return uniq


def ext_parse_battery(ctx, name='native battery: extension constructors on adversarial strings'):
    n = 0
    for fn in EXT_BASE:
        for arg in ext_strings(fn):
            a = ctx.native.ask({'op': 'ext_parse', 'fn': fn, 'arg': arg})
            n += 1
            if 'panic' in a:
                return ctx.violation(name, f'extensions/{ {"ip": "ipaddr"}.get(fn, fn) }.rs: constructor `{fn}` on a string (native battery)', f'`{fn}({arg!r})` panics: {a["panic"][:200]}', {'op': 'ext_parse', 'fn': fn, 'arg': arg})
            if 'ok' not in a and 'err' not in a:
                return ctx.mismatch(name, f'ext_parse probe {fn}({arg!r}): {str(a)[:200]}')
    ctx.extra['ext_parse_battery'] = n
    return ('unreplayed', f'{n} constructor applications, none panics')


def families(ctx):
    L = 3 if ctx.tier == 'thorough' else 2
    fam = [(f'levenshtein {a} x {b}', lambda a=a, b=b: levenshtein(ctx, a, b)) for a, b in itertools.product(range(L + 1), repeat=2)]
    if ctx.tier != 'thorough':
        fam += [('levenshtein 3 x 1', lambda: levenshtein(ctx, 3, 1)), ('levenshtein 1 x 3', lambda: levenshtein(ctx, 1, 3))]
    fam += [(f'EST printer of an extension call, {n} arguments', lambda n=n: ext_printer(ctx, n)) for n in (0, 1, 2, 3)]
    return fam
