"""C06, leaves of the format conversions that are small enough to execute: like-patterns between the AST (`ast::Pattern`: wildcards and characters) and the JSON format
(`est::PatternElem`: wildcards and literal strings), and entity uids between the AST and the PST.  Two-run round trips on the real conversion functions."""
import itertools
import z3
from ..executor import IntV, BoolV, Agg, Opaque, Ref, NotEncoded, UNIT
from ..models import ok, err, some, none
from .. import containers as C
from .c06 import strip, arc, HAVOC, battery_replay

T, F = z3.BoolVal(True), z3.BoolVal(False)
APE, EPE = 'ast::pattern::PatternElem', 'est::expr::PatternElem'
EFILE = 'cedar-policy-core/src/est/expr.rs'
PFILE = 'cedar-policy-core/src/pst/ast_conversions.rs'


def pattern_round_trip(ctx, shape):
    """shape: a string over {'*', 'c'}: the AST pattern; characters are symbolic"""
    P = ctx.prog('core')
    f1 = [f for f in P.find(r'>::from$', EFILE) if len(f.args) == 1 and f.args[0][1].endswith('ast::pattern::Pattern') and 'Vec<' in f.ret and 'PatternElem' in f.ret]
    f2 = [f for f in P.find(r'>::from$', EFILE) if len(f.args) == 1 and 'PatternElem]' in f.args[0][1] and f.ret.endswith('ast::pattern::Pattern')]
    if len(f1) != 1 or len(f2) != 1:
        raise LookupError(f'pattern conversions: {len(f1)} / {len(f2)} candidates')
    f1, f2 = f1[0], f2[0]
    ctx.use(f1), ctx.use(f2)
    chars = [z3.Int(f'ch{i}') for i in range(len(shape))]
    pre = [z3.And(c >= 0, c <= 0x10FFFF) for c in chars]
    elems = [Agg('variant', APE, 'Wildcard', []) if s == '*' else Agg('variant', APE, 'Char', [IntV(chars[i], 'char')]) for i, s in enumerate(shape)]
    pat = Opaque('ast::pattern::Pattern', 'the pattern')

    def mk():
        ex = ctx.new_exec('core')
        ex.havoc_unknown = HAVOC
        ex.max_paths = 2000
        ex.stub(r'ast::Pattern::iter$|pattern::Pattern::iter$', lambda ex_, st, c, A: Agg('struct', '~vec_iter', None, [ex_.new_cell(st, e, 'pe') for e in elems]) if getattr(strip(ex_, st, A[0]), 'id', None) == pat.id else None,
                'Pattern::iter: the elements of the pattern')
        ex.stub(r'<char as (smol_str::)?ToSmolStr>::to_smolstr$', lambda ex_, st, c, A: Agg('struct', '~text', None, [C.res(ex_, st, A[0])]), 'char::to_smolstr: the one-character string')
        ex.stub(r'SmolStr::as_str$|<(smol_str::)?SmolStr as Deref>::deref$', lambda ex_, st, c, A: A[0], 'SmolStr as str')
        ex.stub(r'core::str::<impl str>::chars$', lambda ex_, st, c, A: (lambda t: Agg('struct', '~vec_iter', None, list(t.fields)) if isinstance(t, Agg) and t.name == '~text' else None)(strip(ex_, st, A[0])), 'str::chars of a known string')

        def to_pattern(ex_, st, c, A):
            v = strip(ex_, st, A[0])
            if isinstance(v, Agg) and v.name == '~vec':
                st.notes['pattern_from'] = list(v.fields)
                return Opaque('ast::pattern::Pattern', 'rebuilt pattern')
            return None
        ex.stub(r'Pattern as From<Vec<.*PatternElem>>>::from$', to_pattern, 'Pattern::from(Vec<PatternElem>): logged')
        C.install(ex)
        return ex
    ex = mk()
    outs = ex.run(f1, [pat], pre=pre)
    ctx.absorb(ex)
    nm = f'like pattern AST -> JSON elements -> AST[{shape or "empty"}]'
    ctx.panic_summary(nm + ' (to JSON)', outs, ex, pre)
    rets = [o for o in outs if o.kind == 'ret']
    if len(rets) != 1:
        raise NotEncoded(f'{nm}: AST -> JSON gave {len(rets)} results')
    mid = rets[0].val
    ex2 = mk()
    outs2 = ex2.run(f2, [Ref(0, ('local', 'ELEMS'))], heap={'ELEMS': deep(ex, rets[0].st, mid)}, pre=pre)
    ctx.absorb(ex2)
    ctx.panic_summary(nm + ' (back to AST)', outs2, ex2, pre)
    rets2 = [o for o in outs2 if o.kind == 'ret']
    bad, last = [], None
    for o in rets2:
        got = o.st.notes.get('pattern_from')
        conj = [z3.BoolVal(got is not None and len(got) == len(shape))]
        if got is not None and len(got) == len(shape):
            for i, g in enumerate(got):
                g = strip(ex2, o.st, g)
                if shape[i] == '*':
                    conj.append(z3.BoolVal(isinstance(g, Agg) and g.variant == 'Wildcard'))
                else:
                    cv = strip(ex2, o.st, g.fields[0]) if isinstance(g, Agg) and g.variant == 'Char' and g.fields else None
                    conj.append(cv.t == chars[i] if isinstance(cv, IntV) else F)
        last = repr(got)[:160]
        bad.append(z3.And(o.pc + [z3.Not(z3.And(conj))]))
    ctx.decide(f'{nm}/the same sequence of wildcards and characters', pre + [z3.Or(bad) if bad else T], ex=ex2, sample={'json elements': repr(mid)[:200], 'rebuilt from': last},
               on_sat=lambda m: battery_replay(ctx, nm, 'est/expr.rs: like-pattern conversion', f'a like pattern of shape `{shape}` does not survive AST -> JSON -> AST'))
    ctx.decide(f'{nm}/paths-cover', pre + [z3.Not(z3.Or([z3.And(o.pc) if o.pc else T for o in rets2] or [F]))], ex=ex2)
    ctx.decide(f'{nm}/witness', pre + [z3.Or([z3.And(o.pc) if o.pc else T for o in rets2] or [F])], expect='sat', ex=ex2)


def deep(ex, st, v, n=12):
    if n == 0:
        return v
    if isinstance(v, Ref):
        return deep(ex, st, ex.read(st, v.fid, v.place), n - 1)
    if isinstance(v, Agg):
        return Agg(v.kind, v.name, v.variant, [deep(ex, st, f, n - 1) for f in v.fields], getattr(v, 'fnames', None))
    return v


def pst_uid_round_trip(ctx):
    """ast::EntityUID -> pst::EntityUID -> ast::EntityUID: the type and the RAW id text (what Eid::new takes) travel unchanged"""
    P = ctx.prog('core')
    f1 = [f for f in P.find(r'>::from$', PFILE) if len(f.args) == 1 and f.args[0][1].endswith('entity::EntityUID') and 'pst' not in f.args[0][1] and f.ret.endswith('pst::expr::EntityUID')]
    f2 = [f for f in P.find(r'>::from$', PFILE) if len(f.args) == 1 and f.args[0][1].endswith('pst::expr::EntityUID') and f.ret.endswith('entity::EntityUID') and 'pst' not in f.ret]
    if len(f1) != 1 or len(f2) != 1:
        raise LookupError(f'PST EntityUID conversions: {len(f1)} / {len(f2)} candidates')
    f1, f2 = f1[0], f2[0]
    ctx.use(f1), ctx.use(f2)
    uid, ty, eid = Opaque('ast::entity::EntityUID', 'the uid'), Opaque('ast::entity::EntityType', 'its type'), Opaque('ast::entity::Eid', 'its id')
    raw, pty = Opaque('smol_str::SmolStr', 'the raw id text'), Opaque('pst::EntityType', 'its type (PST)')
    gid = lambda ex_, st, v: getattr(strip(ex_, st, v), 'id', None)

    def mk():
        ex = ctx.new_exec('core')
        ex.havoc_unknown = HAVOC
        ex.stub(r'EntityUID::components$', lambda ex_, st, c, A: Agg('tuple', None, None, [ty, eid]) if gid(ex_, st, A[0]) == uid.id else None, 'EntityUID::components: (type, id)')
        ex.stub(r'Eid::into_smolstr$', lambda ex_, st, c, A: raw if gid(ex_, st, A[0]) == eid.id else None, 'Eid::into_smolstr: the raw id text')
        ex.stub(r'EntityType as Into<.*pst.*EntityType>>::into$|pst::.*EntityType as From<.*ast.*EntityType>>::from$', lambda ex_, st, c, A: pty if gid(ex_, st, A[0]) == ty.id else None, 'entity type -> PST (own conversion, token)')
        ex.stub(r'pst::(expr::)?EntityType as Into<.*EntityType>>::into$|entity::EntityType as From<pst::.*EntityType>>::from$', lambda ex_, st, c, A: ty if gid(ex_, st, A[0]) == pty.id else None, 'PST entity type -> AST (token)')

        def eid_new(ex_, st, c, A):
            st.notes['eid_new'] = gid(ex_, st, A[0])
            return eid if gid(ex_, st, A[0]) == raw.id else Opaque('ast::entity::Eid', 'an id made from other text')
        ex.stub(r'Eid::new::<', eid_new, 'Eid::new(text): the id with that raw text, logged')

        def from_components(ex_, st, c, A):
            st.notes['from_components'] = (gid(ex_, st, A[0]), gid(ex_, st, A[1]))
            return Opaque('ast::entity::EntityUID', 'rebuilt uid')
        ex.stub(r'EntityUID::from_components$', from_components, 'EntityUID::from_components(type, id, loc): logged')
        C.install(ex)
        return ex
    ex = mk()
    outs = ex.run(f1, [uid])
    ctx.absorb(ex)
    nm = 'entity uid AST -> PST -> AST'
    ctx.panic_summary(nm + ' (to PST)', outs, ex)
    rets = [o for o in outs if o.kind == 'ret']
    if len(rets) != 1:
        raise NotEncoded(f'{nm}: AST -> PST gave {len(rets)} results')
    ex2 = mk()
    outs2 = ex2.run(f2, [deep(ex, rets[0].st, rets[0].val)])
    ctx.absorb(ex2)
    ctx.panic_summary(nm + ' (back to AST)', outs2, ex2)
    rets2 = [o for o in outs2 if o.kind == 'ret']
    bad = [z3.And(o.pc + [z3.BoolVal(o.st.notes.get('from_components') != (ty.id, eid.id))]) for o in rets2]
    ctx.decide(f'{nm}/the same type and the same raw id text', [z3.Or(bad) if bad else T], ex=ex2, sample={'pst': repr(rets[0].val)[:200]},
               on_sat=lambda m: battery_replay(ctx, nm, 'pst/ast_conversions.rs: EntityUID conversion', 'an entity uid does not survive AST -> PST -> AST', 'PST'))
    ctx.decide(f'{nm}/witness', [z3.Or([z3.And(o.pc) if o.pc else T for o in rets2] or [F])], expect='sat', ex=ex2)


def families(ctx):
    L = 4 if ctx.tier == 'thorough' else 3
    shapes = [''.join(p) for n in range(L + 1) for p in itertools.product('*c', repeat=n)]
    return [(f'like pattern {s or "empty"}', lambda s=s: pattern_round_trip(ctx, s)) for s in shapes] + [('PST entity uid', lambda: pst_uid_round_trip(ctx))]
