"""C16 - level validation implements the level calculus at every node (engine M).  The sufficiency statement itself (authorizing over the
level-n slice equals authorizing over the full store) needs the evaluator and a slicer in one query and is not decided; what is decided is
that the checker computes, at every node kind, the level the calculus prescribes, reports `maximum level exceeded` exactly when a dereference
target's level is >= the maximum, visits every child, and that acceptance is monotone in the maximum."""
import z3
from ..executor import IntV, BoolV, Agg, Opaque, Ref, NotEncoded, UNIT
from ..models import ok, err, some, none

EK = 'ast::expr::ExprKind'
TY = 'validator::types::Type'


class H:
    def __init__(self, ctx, fname, nargs):
        P = ctx.prog('core')
        self.ctx = ctx
        self.f = P.method('validator/level_validate.rs', fname, nargs=nargs)
        ctx.use(self.f)
        self.ex = ex = ctx.new_exec('core')
        ex.havoc_unknown = True     # callees this module does not know (e.g. introduced by a change) return arbitrary values; the native battery decides
        self.subs = {}
        self.MAX = ex.fresh_int('u32', 'max_level')
        self.IS_ACTION = z3.Bool('literal_is_the_action')
        ex.invariants.append(self.MAX.t <= 1000)
        self.this = Opaque('ast::expr::Expr<Option<Type>>', 'this_expr')
        self.node = None
        self.checker = Agg('struct', 'LevelChecker', None, [Opaque('&PolicyID', 'policy id'), Agg('struct', 'EntityDerefLevel', None, [self.MAX], ('level',)), Opaque('HashSet<ValidationError>', 'errors')],
                           ('policy_id', 'max_level', 'level_checking_errors'))

        def expr_kind(ex_, st, c, A):
            e = self.res(st, A[0])
            if getattr(e, 'id', None) == self.this.id:
                return ex_.new_cell(st, self.node, 'node')
            raise NotEncoded(f'expr_kind of {e!r}')
        ex.stub(r'Expr::<.*>::expr_kind$', expr_kind, 'Expr::expr_kind of the node under analysis: pinned variant with opaque children')

        def data(ex_, st, c, A):
            e = self.res(st, A[0])
            s = self.by_id.get(getattr(e, 'id', None))
            if s is None:
                raise NotEncoded(f'data of {e!r}')
            d = s['data']
            ent = some(Agg('variant', TY, 'Entity', [Agg('variant', 'validator::types::EntityKind', 'Entity', [Opaque('EntityLUB', 'lub')])]))
            rec = some(Agg('variant', TY, 'Record', [Opaque('Attributes', 'attrs'), Opaque('OpenTag', 'open')]))
            tru = some(Agg('variant', TY, 'Bool', [Agg('variant', 'validator::types::BoolType', 'True', [])]))
            fls = some(Agg('variant', TY, 'Bool', [Agg('variant', 'validator::types::BoolType', 'False', [])]))
            return [([d == 0], ex_.new_cell(st, ent, 'ty')), ([d == 1], ex_.new_cell(st, rec, 'ty')), ([d == 2], ex_.new_cell(st, none(), 'ty')), ([d == 3], ex_.new_cell(st, tru, 'ty')), ([d == 4], ex_.new_cell(st, fls, 'ty'))]
        ex.stub(r'Expr::<.*>::data$', data, 'Expr::data (the type annotation): entity-typed | record-typed | none | singleton True | singleton False')
        ex.stub(r'(EntityUID|EntityType)::is_action$', lambda ex_, st, c, A: BoolV(z3.Bool('literal_has_an_action_type')), 'EntityUID / EntityType::is_action: free boolean')
        ex.stub(r'LevelChecker::<.*>::check_expr_level$', lambda ex_, st, c, A: UNIT, 'recursive check_expr_level on a child (logged)')

        def target(ex_, st, c, A):
            e = self.res(st, A[1])
            s = self.by_id.get(getattr(e, 'id', None))
            if s is None:
                raise NotEncoded(f'target level of {e!r}')
            return Agg('struct', 'EntityDerefLevel', None, [s['level']], ('level',))
        ex.stub(r'LevelChecker::<.*>::check_entity_deref_target_level$', target, 'recursive check_entity_deref_target_level on a child: arbitrary level (logged)')
        ex.stub(r'HashSet::<.*ValidationError>::insert$', lambda ex_, st, c, A: BoolV(z3.Bool('fresh_error')), 'level_checking_errors.insert (logged)')
        ex.stub(r'ValidationError::(maximum_level_exceeded|literal_dereference_target|internal_invariant_violation)$',
                lambda ex_, st, c, A: Agg('struct', '~error:' + c.rsplit('::', 1)[1], None, list(A)), 'ValidationError constructors (class + arguments)')
        ex.stub(r'Expr::<.*>::source_loc$', lambda ex_, st, c, A: none(), 'Expr::source_loc')
        ex.stub(r'RequestEnv::<.*>::action_entity_uid$', lambda ex_, st, c, A: some(ex_.new_cell(st, Opaque('EntityUID', 'the action'), 'act')), "RequestEnv::action_entity_uid")
        ex.stub(r'<std::option::Option<&.*EntityUID> as PartialEq>::ne$', lambda ex_, st, c, A: BoolV(z3.Not(self.IS_ACTION)), 'literal == action entity: free boolean')
        ex.stub(r'<Arc<.*EntityUID> as AsRef<.*>>::as_ref$', lambda ex_, st, c, A: A[0], 'Arc::as_ref')
        ex.stub(r'<(smol_str::)?SmolStr as Clone>::clone$', lambda ex_, st, c, A: self.res(st, A[0]), 'SmolStr::clone')
        ex.stub(r'<(smol_str::)?SmolStr as Deref>::deref$|SmolStr::as_str$', lambda ex_, st, c, A: A[0], 'SmolStr as str')
        self.by_id = {}

    def res(self, st, v):
        n = 0
        while isinstance(v, Ref) and n < 8:
            v = self.ex.read(st, v.fid, v.place)
            n += 1
        if isinstance(v, Agg) and v.name == 'Arc':
            v = v.fields[0]
        return v

    def sub(self, name):
        e = Opaque('ast::expr::Expr<Option<Type>>', name)
        s = {'name': name, 'expr': e, 'arc': Agg('struct', 'Arc', None, [e], ('inner',)), 'data': z3.Int(f'data_{name}'), 'level': self.ex.fresh_int('u32', f'level_{name}')}
        self.ex.invariants += [z3.And(s['data'] >= 0, s['data'] <= 4), s['level'].t <= 1000]
        self.subs[name] = s
        self.by_id[e.id] = s
        return s

    def run(self, node, extra_args):
        self.node = node
        heap = {'LC': self.checker, 'E': self.this, 'ENV': Opaque("RequestEnv<'_>", 'env')}
        args = [Ref(0, ('local', 'LC')), Ref(0, ('local', 'E'))] + extra_args + [Ref(0, ('local', 'ENV'))]
        outs = self.ex.run(self.f, args, heap=heap)
        self.ctx.absorb(self.ex)
        return outs

    def visits(self, o):
        """[(function, child name, access path as tuple)] in order"""
        out = []
        for c in o.log:
            if c.tag.startswith('recursive check_expr_level'):
                e = self.res(o.st, c.args[1])
                out.append(('expr', self.by_id.get(getattr(e, 'id', None), {}).get('name', '?')))
            elif c.tag.startswith('recursive check_entity_deref_target_level'):
                e = self.res(o.st, c.args[1])
                path = c.args[2]
                p = tuple(getattr(self.res(o.st, x), 'what', '?') for x in path.fields) if isinstance(path, Agg) and path.name == '~vec' else ('?',)
                out.append(('target', self.by_id.get(getattr(e, 'id', None), {}).get('name', '?'), p))
        return out

    def errors(self, o):
        out = []
        for c in o.log:
            if c.tag.startswith('level_checking_errors.insert'):
                e = c.args[1]
                out.append((e.name[7:] if isinstance(e, Agg) and e.name.startswith('~error:') else '?', e))
        return out


W = 'permit(principal, action, resource) when { %s };'
# (condition, minimal level at which RFC 76 accepts it; None = rejected at every level: literal dereference target)
BATTERY = [('principal.name == "x"', 1), ('principal.manager.name == "x"', 2), ('principal.manager.manager.name == "x"', 3), ('{a: principal.manager}.a.name == "x"', 2),
           ('(if principal.name == "x" then principal.manager else principal).name == "y"', 2), ('principal in resource.owner.manager', 2), ('principal.manager.hasTag("t")', 2),
           ('principal.hasTag("t") && principal.getTag("t") == "x"', 1), ('principal.manager.hasTag("t") && principal.manager.getTag("t") == "x"', 2), ('principal.info.boss.name == "x"', 2),
           ('context.who.manager.name == "x"', 2), ('principal in Group::"g"', 1), ('User::"a".name == "x"', None), ('principal has manager && principal.manager has manager', 2),
           ('[principal.manager.name].contains("x")', 2), ('{a: principal.manager.name}.a == "x"', 2), ('principal.info.n == 1 || principal.manager.manager.name == "x"', 3),
           ('ip("1.2.3.4").isInRange(ip("1.2.3.0/24")) && principal.manager.name == "x"', 2), ('principal.manager.name like "x*"', 2), ('principal.manager is User', 1), ('!(principal.manager.name == "x")', 2),
           ('principal in [principal.manager.manager]', 2), ('true', 0),
           # `has` on a record-valued target still dereferences the entity the record comes from; operands that are statically false are still evaluated
           ('principal.info has boss', 1), ('principal.manager.info has boss', 2), ('{a: principal.manager.info}.a has n', 2), ('principal.info has boss && principal.info.boss.name == "x"', 2),
           ('(principal.manager.name == "x" && false) || principal.name == "x"', 2), ('(principal.manager.manager.name == "x" && false) || principal.name == "x"', 3), ('(false && principal.manager.manager.name == "x") || principal.name == "x"', 1),
           ('(principal.manager.name == "x" || true) && principal.name == "x"', 2), ('if (principal.manager.name == "x" && false) then true else principal.name == "x"', 2)]


SCHEMA2 = ('entity User in [Group] { manager: User, name: String, info: { boss: User, n: Long } } tags String; entity Group { owner: User }; entity Photo { owner: User }; '
           'action write; action view, edit in [write] appliesTo { principal: User, resource: Photo, context: { who: User } };')
# full policies over a schema with two actions that share all their types (and an action group): (policy, minimal accepted level or None)
BATTERY2 = [('permit(principal, action == Action::"edit", resource) when { principal.manager.manager.name == "x" };', 3),
            ('permit(principal, action == Action::"view", resource) when { principal.manager.manager.name == "x" };', 3),
            ('permit(principal, action, resource) when { action == Action::"edit" && principal.manager.manager.name == "x" };', 3),
            ('permit(principal, action, resource) when { action == Action::"view" && principal.manager.manager.name == "x" };', 3),
            ('permit(principal, action, resource) when { Action::"edit" in Action::"write" };', None),
            ('permit(principal, action == Action::"edit", resource) when { Action::"view" in Action::"write" };', None),
            ('permit(principal, action, resource) when { action in Action::"write" };', 1),
            ('permit(principal, action, resource) when { (if (principal.manager.manager.name == "x" || true) then principal.name else "y") == "x" };', 3),
            ('permit(principal, action, resource) when { (if (true || principal.manager.manager.name == "x") then principal.name else "y") == "x" };', 1),
            ('permit(principal, action, resource) when { (principal.manager.manager.name == "x" || true) && principal.name == "x" };', 3)]


def battery_replay(ctx, name, why):
    """native confirmation through cedar_policy::Validator::validate_with_level: each policy of the battery must pass exactly from its RFC-76 level upwards"""
    probes = [({'op': 'validate_level', 'policy': W % cond}, cond, lvl) for cond, lvl in BATTERY] + [({'op': 'validate_level', 'policy': pol, 'schema': SCHEMA2}, pol, lvl) for pol, lvl in BATTERY2]
    for rq, cond, lvl in probes:
        a = ctx.native.ask(rq)
        if 'passes_at_level' not in a:
            return ctx.mismatch(name, f'validate_level failed on `{cond}`: {a}')
        want = [lvl is not None and n >= lvl for n in range(5)]
        if not a['typechecks']:
            return ctx.mismatch(name, f'battery policy `{cond}` does not typecheck')
        if a['passes_at_level'] != want:
            return ctx.violation(name, 'validator/level_validate.rs: level calculus', f'{why}; `{cond}` passes level validation at levels {a["passes_at_level"]} (index = max level 0..4), RFC 76 prescribes {want}',
                                 dict(rq, expected=want, got=a['passes_at_level']))
    return ('unreplayed', f'{why}; but the battery of {len(probes)} level-validation probes behaves as RFC 76 prescribes')


def battery_selftest(ctx):
    return battery_replay(ctx, 'native battery', 'native level-validation battery')


def driver_loop(ctx):
    """Validator::validate_policy_with_level: every (request environment, typechecked policy) pair that did not fail typechecking is level-checked - with ITS environment"""
    P = ctx.prog('core')
    f = P.method('validator/level_validate.rs', 'validate_policy_with_level', nargs=4)
    ctx.use(f)
    ex = ctx.new_exec('core')
    ex.havoc_unknown = True
    ex.max_paths = 600
    PC = 'validator::typecheck::PolicyCheck'
    KIND = [z3.Int(f'check{i}_kind') for i in range(2)]           # 0 Success, 1 Irrelevant, 2 Fail
    ex.invariants += [z3.And(k >= 0, k <= 2) for k in KIND]
    envs = [Opaque("validator::types::RequestEnv<'_>", f'request environment {i}') for i in range(2)]
    exprs = [Opaque('ast::expr::Expr<Option<Type>>', f'typed condition {i}') for i in range(2)]
    ex.stub(r'Validator::validate_policy$', lambda ex_, st, c, A: Agg('tuple', None, None, [Opaque('iter', 'type errors'), Opaque('iter', 'warnings')]), 'Validator::validate_policy (errors / warnings, payload)')
    ex.stub(r'Typechecker::<.*>::new$|Typechecker::new$', lambda ex_, st, c, A: Opaque('Typechecker', 'typechecker'), 'Typechecker::new')

    def by_env(ex_, st, c, A):
        # one alternative per combination of outcomes for two request environments
        alts = []
        for k0 in range(3):
            for k1 in range(3):
                items = []
                for i, k in enumerate((k0, k1)):
                    chk = [Agg('variant', PC, 'Success', [exprs[i]]), Agg('variant', PC, 'Irrelevant', [Opaque('Vec<ValidationError>', 'errs'), exprs[i]]), Agg('variant', PC, 'Fail', [Opaque('Vec<ValidationError>', 'errs')])][k]
                    items.append(Agg('tuple', None, None, [envs[i], chk]))
                alts.append(([KIND[0] == k0, KIND[1] == k1], Agg('struct', '~vec_iter', None, items)))
        return alts
    ex.stub(r'Typechecker::<.*>::typecheck_by_request_env$|Typechecker::typecheck_by_request_env$', by_env, 'typecheck_by_request_env: two request environments, each Success | Irrelevant | Fail with its typed condition')
    ex.stub(r'Template::id$', lambda ex_, st, c, A: ex_.new_cell(st, Opaque('PolicyID', 'id'), 'id'), 'Template::id')
    ex.stub(r'HashSet::<.*ValidationError>::new$', lambda ex_, st, c, A: Opaque('HashSet<ValidationError>', 'level errors'), 'HashSet::new (level errors)')

    def cel(ex_, st, c, A):
        e, env = A[1], A[2]
        ie = {x.id: i for i, x in enumerate(exprs)}.get(getattr(_res(ex_, st, e), 'id', None))
        iv = {x.id: i for i, x in enumerate(envs)}.get(getattr(_res(ex_, st, env), 'id', None))
        st.notes.setdefault('checked', []).append((ie, iv))
        return UNIT
    ex.stub(r'LevelChecker::<.*>::check_expr_level$|LevelChecker::check_expr_level$', cel, 'check_expr_level(typed condition i, environment j): logged (own obligations per node kind)')
    ex.stub(r' as Iterator>::chain::<', lambda ex_, st, c, A: Opaque('iter', 'all errors'), 'errors.chain(level errors) (payload)')
    outs = ex.run(f, [Ref(0, ('local', 'V')), Ref(0, ('local', 'P')), Opaque('ValidationMode', 'mode'), ex.fresh_int('u32', 'max_level')], heap={'V': Opaque('validator::Validator', 'validator'), 'P': Opaque('ast::policy::Template', 'policy')})
    ctx.absorb(ex)
    nm = 'validate_policy_with_level'
    ctx.panic_summary(nm, outs, ex)
    rets = [o for o in outs if o.kind == 'ret']
    for i, o in enumerate(rets):
        got = sorted(o.st.notes.get('checked', []), key=str)
        claims = []
        for k0 in range(3):
            for k1 in range(3):
                want = sorted([(j, j) for j, k in enumerate((k0, k1)) if k != 2], key=str)
                claims.append(z3.Implies(z3.And(KIND[0] == k0, KIND[1] == k1), z3.BoolVal(got == want)))
        ctx.decide(f'{nm}/path{i}', o.pc + [z3.Not(z3.And(claims))], ex=ex, sample={'path_condition': [str(c) for c in o.pc][:4], 'level-checked (condition, environment)': [str(x) for x in got]} if i < 2 else None,
                   on_sat=lambda m: battery_replay(ctx, nm, 'the level check is not run on every request environment that typechecks'))
    ctx.decide(f'{nm}/paths-cover', [z3.Not(z3.Or([z3.And(o.pc) if o.pc else z3.BoolVal(True) for o in rets]))], ex=ex)
    ctx.decide(f'{nm}/witness', [z3.Or([z3.And(o.pc) if o.pc else z3.BoolVal(True) for o in rets])], expect='sat', ex=ex)


def _res(ex, st, v, n=8):
    while isinstance(v, Ref) and n > 0:
        v = ex.read(st, v.fid, v.place)
        n -= 1
    return v


def binop(name):
    return Agg('variant', 'ast::ops::BinaryOp', name, [])


def check_node(ctx, label, fname, nargs, build, extra_args, cases):
    """cases(h) -> [(cond, visits, error classes (set), level term or None)]"""
    h = H(ctx, fname, nargs)
    node = build(h)
    outs = h.run(node, extra_args(h))
    ctx.panic_summary(f'{fname}[{label}]', outs, h.ex)
    cs = cases(h)
    for i, o in enumerate(outs):
        if o.kind != 'ret':
            continue
        vis, errs = h.visits(o), h.errors(o)
        claims = []
        for cond, want_vis, want_errs, want_level in cs:
            ok_struct = sorted(map(str, vis)) == sorted(map(str, want_vis)) and sorted(e[0] for e in errs) == sorted(want_errs)
            lvl = z3.BoolVal(True)
            if want_level is not None:
                r = o.val
                lvl = (r.fields[0].t == want_level) if isinstance(r, Agg) and r.name and 'EntityDerefLevel' in r.name else z3.BoolVal(False)
            # the reported level in a maximum_level_exceeded error is target + 1 and the maximum is the checker's
            for cls, e in errs:
                if cls == 'maximum_level_exceeded':
                    try:
                        lvl = z3.And(lvl, e.fields[2].fields[0].t == h.MAX.t)
                    except (AttributeError, IndexError):
                        lvl = z3.BoolVal(False)
            claims.append(z3.Implies(cond, z3.And(z3.BoolVal(bool(ok_struct)), lvl)))
        ctx.decide(f'{fname}[{label}]/path{i}', o.pc + [z3.Not(z3.And(claims))], ex=h.ex,
                   sample={'path_condition': [str(c)[:70] for c in o.pc][:5], 'children_visited': [str(v) for v in vis], 'errors': [e[0] for e in errs]} if i < 2 else None,
                   on_sat=lambda m, nm=f'{fname}[{label}]': battery_replay(ctx, nm, 'the level checker deviates from the level calculus at this node kind'))
    rets = [o for o in outs if o.kind == 'ret']
    ctx.decide(f'{fname}[{label}]/paths-cover', [z3.Not(z3.Or([z3.And(o.pc) if o.pc else z3.BoolVal(True) for o in rets]))], ex=h.ex)
    ctx.decide(f'{fname}[{label}]/spec-cases-partition', list(h.ex.invariants) + [z3.Not(z3.PbEq([(c[0], 1) for c in cs], 1))])
    ctx.decide(f'{fname}[{label}]/witness', [z3.Or([z3.And(o.pc) if o.pc else z3.BoolVal(True) for o in rets])], expect='sat', ex=h.ex)


T = z3.BoolVal(True)


def expr_level_nodes(ctx):
    F, N = 'check_expr_level', 3
    noargs = lambda h: []
    # leaves
    for v, pay in (('Lit', [Opaque('Literal', 'lit')]), ('Var', [Opaque('Var', 'var')]), ('Slot', [Opaque('SlotId', 'slot')]), ('Unknown', [Opaque('Unknown', 'u')])):
        check_node(ctx, v, F, N, lambda h, v=v, pay=pay: Agg('variant', EK, v, pay), noargs, lambda h: [(T, [], [], None)])
    check_node(ctx, 'If', F, N, lambda h: Agg('variant', EK, 'If', [h.sub('test')['arc'], h.sub('then')['arc'], h.sub('else')['arc']]), noargs,
               lambda h: [(T, [('expr', 'test'), ('expr', 'then'), ('expr', 'else')], [], None)])
    for v in ('And', 'Or'):
        check_node(ctx, v, F, N, lambda h, v=v: Agg('variant', EK, v, [h.sub('left')['arc'], h.sub('right')['arc']]), noargs, lambda h: [(T, [('expr', 'left'), ('expr', 'right')], [], None)])
    check_node(ctx, 'UnaryApp', F, N, lambda h: Agg('variant', EK, 'UnaryApp', [Opaque('UnaryOp', 'op'), h.sub('arg')['arc']]), noargs, lambda h: [(T, [('expr', 'arg')], [], None)])
    for op in ('HasTag', 'GetTag', 'In'):
        # a dereference: target level of the left operand with an empty access path; error iff that level >= max; right operand visited
        check_node(ctx, f'BinaryApp {op}', F, N, lambda h, op=op: Agg('variant', EK, 'BinaryApp', [binop(op), h.sub('arg1')['arc'], h.sub('arg2')['arc']]), noargs,
                   lambda h: [(h.subs['arg1']['level'].t >= h.MAX.t, [('target', 'arg1', ()), ('expr', 'arg2')], ['maximum_level_exceeded'], None),
                              (h.subs['arg1']['level'].t < h.MAX.t, [('target', 'arg1', ()), ('expr', 'arg2')], [], None)])
    for op in ('Eq', 'Less', 'LessEq', 'Add', 'Sub', 'Mul', 'Contains', 'ContainsAll', 'ContainsAny'):
        check_node(ctx, f'BinaryApp {op}', F, N, lambda h, op=op: Agg('variant', EK, 'BinaryApp', [binop(op), h.sub('arg1')['arc'], h.sub('arg2')['arc']]), noargs,
                   lambda h: [(T, [('expr', 'arg1'), ('expr', 'arg2')], [], None)])
    for v in ('HasAttr', 'GetAttr'):
        def cases(h):
            d, L = h.subs['e']['data'], h.subs['e']['level'].t
            return [(z3.And(d == 0, L >= h.MAX.t), [('target', 'e', ())], ['maximum_level_exceeded'], None), (z3.And(d == 0, L < h.MAX.t), [('target', 'e', ())], [], None),
                    (d == 1, [('expr', 'e')], [], None), (d >= 2, [], ['internal_invariant_violation'], None)]
        check_node(ctx, v, F, N, lambda h, v=v: Agg('variant', EK, v, [h.sub('e')['arc'], Opaque('SmolStr', 'attr')]), noargs, cases)
    check_node(ctx, 'Like', F, N, lambda h: Agg('variant', EK, 'Like', [h.sub('e')['arc'], Opaque('Pattern', 'pat')]), noargs, lambda h: [(T, [('expr', 'e')], [], None)])
    check_node(ctx, 'Is', F, N, lambda h: Agg('variant', EK, 'Is', [h.sub('e')['arc'], Opaque('EntityType', 'ty')]), noargs, lambda h: [(T, [('expr', 'e')], [], None)])
    # containers with two members: every member is visited
    check_node(ctx, 'ExtensionFunctionApp (2 args)', F, N,
               lambda h: Agg('variant', EK, 'ExtensionFunctionApp', [Opaque('Name', 'fn'), Agg('struct', 'Arc', None, [Agg('struct', '~vec', None, [h.sub('a0')['expr'], h.sub('a1')['expr']])])]), noargs,
               lambda h: [(T, [('expr', 'a0'), ('expr', 'a1')], [], None)])
    check_node(ctx, 'Set (2 members)', F, N, lambda h: Agg('variant', EK, 'Set', [Agg('struct', 'Arc', None, [Agg('struct', '~vec', None, [h.sub('a0')['expr'], h.sub('a1')['expr']])])]), noargs,
               lambda h: [(T, [('expr', 'a0'), ('expr', 'a1')], [], None)])
    check_node(ctx, 'Record (2 fields)', F, N,
               lambda h: Agg('variant', EK, 'Record', [Agg('struct', 'Arc', None, [Agg('struct', '~btree', None, [Agg('tuple', None, None, [Opaque('SmolStr', 'k0'), h.sub('a0')['expr']]),
                                                                                                                   Agg('tuple', None, None, [Opaque('SmolStr', 'k1'), h.sub('a1')['expr']])])])]), noargs,
               lambda h: [(T, [('expr', 'a0'), ('expr', 'a1')], [], None)])


def target_level_nodes(ctx):
    F, N = 'check_entity_deref_target_level', 4
    path0 = lambda h: [Agg('struct', '~vec', None, [])]
    path1 = lambda h: [Agg('struct', '~vec', None, [Opaque('SmolStr', 'p0')])]
    Z = z3.IntVal(0)
    check_node(ctx, 'Var', F, N, lambda h: Agg('variant', EK, 'Var', [Opaque('Var', 'var')]), path0, lambda h: [(T, [], [], Z)])
    check_node(ctx, 'Slot', F, N, lambda h: Agg('variant', EK, 'Slot', [Opaque('SlotId', 'slot')]), path0, lambda h: [(T, [], ['literal_dereference_target'], Z)])
    check_node(ctx, 'Lit entity', F, N, lambda h: Agg('variant', EK, 'Lit', [Agg('variant', 'ast::literal::Literal', 'EntityUID', [Agg('struct', 'Arc', None, [Opaque('EntityUID', 'uid')])])]), path0,
               lambda h: [(h.IS_ACTION, [], [], Z), (z3.Not(h.IS_ACTION), [], ['literal_dereference_target'], Z)])
    check_node(ctx, 'If', F, N, lambda h: Agg('variant', EK, 'If', [h.sub('test')['arc'], h.sub('then')['arc'], h.sub('else')['arc']]), path1,
               lambda h: [(T, [('expr', 'test'), ('target', 'then', ('p0',)), ('target', 'else', ('p0',))], [],
                           z3.If(h.subs['then']['level'].t >= h.subs['else']['level'].t, h.subs['then']['level'].t, h.subs['else']['level'].t))])

    def ga_cases(h):
        d, L = h.subs['e']['data'], h.subs['e']['level'].t
        return [(d == 0, [('target', 'e', ('p0',))], [], L + 1), (d == 1, [('target', 'e', ('p0', 'attr'))], [], L), (d >= 2, [], ['internal_invariant_violation'], Z)]
    check_node(ctx, 'GetAttr', F, N, lambda h: Agg('variant', EK, 'GetAttr', [h.sub('e')['arc'], Opaque('SmolStr', 'attr')]), path1, ga_cases)
    check_node(ctx, 'BinaryApp GetTag', F, N, lambda h: Agg('variant', EK, 'BinaryApp', [binop('GetTag'), h.sub('arg1')['arc'], h.sub('arg2')['arc']]), path1,
               lambda h: [(T, [('target', 'arg1', ('p0',)), ('expr', 'arg2')], [], h.subs['arg1']['level'].t + 1)])
    for v, pay in (('And', 2), ('Or', 2), ('UnaryApp', 0), ('Like', 0), ('Is', 0), ('HasAttr', 0)):
        def b(h, v=v):
            if v in ('And', 'Or'):
                return Agg('variant', EK, v, [h.sub('left')['arc'], h.sub('right')['arc']])
            if v == 'UnaryApp':
                return Agg('variant', EK, v, [Opaque('UnaryOp', 'op'), h.sub('arg')['arc']])
            return Agg('variant', EK, v, [h.sub('e')['arc'], Opaque('X', 'x')])
        check_node(ctx, f'{v} (not an entity-typed expression)', F, N, b, path0, lambda h: [(T, [], ['internal_invariant_violation'], Z)])


def families(ctx):
    return [('check_expr_level per node kind', lambda: expr_level_nodes(ctx)), ('check_entity_deref_target_level per node kind', lambda: target_level_nodes(ctx)),
            ('validate_policy_with_level driver', lambda: driver_loop(ctx))]


def run(ctx):
    ctx.run_families(families(ctx))
    ctx.guarded('native battery', lambda: battery_selftest(ctx))
    ctx.bounds += ['validate_policy_with_level: two request environments, each Success | Irrelevant | Fail', 'one node of each kind with arbitrary child levels (<= 1000) and an arbitrary maximum (<= 1000); containers with two members; structural induction gives expressions of any depth']
    ctx.assumptions += ['recursive calls on children return arbitrary levels (logged); Expr::data (the typechecker annotation) is entity / record / other; the RFC-76 induction from the per-node calculus to '
                        'slice sufficiency is a paper argument, NOT decided here; record-literal dereference targets (access-path lookup) are not covered']
    return ctx.finish('Solver-decided per-node level calculus of LevelChecker::{check_expr_level, check_entity_deref_target_level}, executed from the MIR of the current tree: every child of every node kind is visited by the right '
                      'checker with the right access path, dereferences (. / has on entities, hasTag, getTag, in) report `maximum level exceeded` exactly when the target level >= the maximum (hence acceptance is monotone in the maximum), '
                      'attribute access on entities and getTag add one level, if-then-else takes the maximum, literals other than the action are rejected as dereference targets.')
