"""Cedar-syntax schemas with hand-written JSON equivalents for the native battery of C09 (op `schema_syntax`)."""

CEDAR_A = '''
entity Group tags Long;
entity User in [Group] { n: Long, o?: Long, s: String, b: Bool, ls: Set<Long>, r: { x: Long, y?: String }, m: User, t: datetime, sr: Set<{ k: String }> } tags String;
entity Folder in [Folder];
entity Doc in [Folder] { owner: User, "odd key"?: Bool, "pad "?: Long, " lead": String };
entity Color enum ["red", "green"];
type Ctx = { flag: Bool, who?: User };
action readers;
action view in [readers] appliesTo { principal: [User, Group], resource: [Doc, Folder], context: Ctx };
action edit, "delete doc" in [readers] appliesTo { resource: [Doc], principal: [User], context: { n: Long, c: Color } };
action noop;
'''
LONG, STRING, BOOL = {'type': 'EntityOrCommon', 'name': 'Long'}, {'type': 'EntityOrCommon', 'name': 'String'}, {'type': 'EntityOrCommon', 'name': 'Bool'}
E_ = lambda n: {'type': 'EntityOrCommon', 'name': n}
REC = lambda attrs: {'type': 'Record', 'attributes': attrs}
OPT = lambda t: dict(t, required=False)
JSON_A = {'': {
    'commonTypes': {'Ctx': REC({'flag': BOOL, 'who': OPT(E_('User'))})},
    'entityTypes': {
        'Group': {'tags': LONG},
        'User': {'memberOfTypes': ['Group'], 'shape': REC({'n': LONG, 'o': OPT(LONG), 's': STRING, 'b': BOOL, 'ls': {'type': 'Set', 'element': LONG}, 'r': REC({'x': LONG, 'y': OPT(STRING)}), 'm': E_('User'), 't': E_('datetime'),
                                                           'sr': {'type': 'Set', 'element': REC({'k': STRING})}}), 'tags': STRING},
        'Folder': {'memberOfTypes': ['Folder']},
        'Doc': {'memberOfTypes': ['Folder'], 'shape': REC({'owner': E_('User'), 'odd key': OPT(BOOL), 'pad ': OPT(LONG), ' lead': STRING})},
        'Color': {'enum': ['red', 'green']}},
    'actions': {
        'readers': {},
        'view': {'memberOf': [{'id': 'readers'}], 'appliesTo': {'principalTypes': ['User', 'Group'], 'resourceTypes': ['Doc', 'Folder'], 'context': E_('Ctx')}},
        'edit': {'memberOf': [{'id': 'readers'}], 'appliesTo': {'principalTypes': ['User'], 'resourceTypes': ['Doc'], 'context': REC({'n': LONG, 'c': E_('Color')})}},
        'delete doc': {'memberOf': [{'id': 'readers'}], 'appliesTo': {'principalTypes': ['User'], 'resourceTypes': ['Doc'], 'context': REC({'n': LONG, 'c': E_('Color')})}},
        'noop': {}}}}
W = 'permit(principal, action, resource) when { %s };'
PROBES_A = [W % c for c in ['principal.n + 1 == 2', 'principal.o == 1', 'principal has o && principal.o == 1', 'principal.r.x == 1', 'principal.r.y == "a"', 'principal.r has y && principal.r.y == "a"', 'principal.ls.contains(1)',
                            'principal.ls.contains("a")', 'principal.m.m.n == 1', 'principal.t < datetime("2024-01-01")', 'principal.s like "a*"', 'principal.b', 'principal.sr.contains({k: "a"})', 'principal.sr.contains({k: 1})',
                            'principal.hasTag("x") && principal.getTag("x") == "v"', 'principal.hasTag("x") && principal.getTag("x") == 1', 'resource.owner == principal', 'resource has "odd key" && resource["odd key"]',
                            'resource["odd key"]', 'resource has "pad " && resource["pad "] == 1', 'resource has pad && resource.pad == 1', 'resource[" lead"] == "x"', 'resource.lead == "x"', 'principal.zz == 1', 'context.flag', 'context.n == 1', 'context has who && context.who == principal', 'context.c == Color::"red"', 'context.c == Color::"purple"']] + \
    ['permit(principal is User, action == Action::"view", resource is Doc) when { context.flag && resource.owner == principal };', 'permit(principal is Group, action == Action::"view", resource is Folder) when { context has who };',
     'permit(principal is Group, action == Action::"view", resource) when { principal.hasTag("x") && principal.getTag("x") > 0 };', 'permit(principal is Group, action == Action::"view", resource) when { principal.hasTag("x") && principal.getTag("x") == "s" };',
     'permit(principal is Group, action == Action::"edit", resource);', 'permit(principal, action == Action::"edit", resource is Folder);', 'permit(principal, action == Action::"delete doc", resource) when { context.n > 0 };',
     'permit(principal, action in Action::"readers", resource) when { resource in Folder::"f" };', 'permit(principal in Group::"g", action, resource in Folder::"f");', 'permit(principal in Folder::"f", action, resource);',
     'permit(principal, action == Action::"noop", resource);', 'permit(principal, action == Action::"nonexistent", resource);', 'permit(principal == Color::"red", action, resource);', 'permit(principal is Color, action, resource);',
     'permit(principal, action in [Action::"view", Action::"edit"], resource) when { principal has n };', 'permit(principal, action == Action::"view", resource) when { context.n == 1 };']
ENTS_A = [[{'uid': {'type': 'User', 'id': 'u'}, 'attrs': {'n': 1, 's': 'x', 'b': True, 'ls': [1], 'r': {'x': 1}, 'm': {'type': 'User', 'id': 'u'}, 't': '2024-01-01', 'sr': [{'k': 'a'}]}, 'parents': [{'type': 'Group', 'id': 'g'}], 'tags': {'k': 'v'}},
           {'uid': {'type': 'Group', 'id': 'g'}, 'attrs': {}, 'parents': []}],
          [{'uid': {'type': 'User', 'id': 'u'}, 'attrs': {'n': 1, 's': 'x', 'b': True, 'ls': [1], 'r': {'x': 1}, 'm': {'type': 'User', 'id': 'u'}, 't': '2024-01-01'}, 'parents': []}],          # sr missing
          [{'uid': {'type': 'User', 'id': 'u'}, 'attrs': {'n': 1, 's': 'x', 'b': True, 'ls': [1], 'r': {'x': 1, 'z': 2}, 'm': {'type': 'User', 'id': 'u'}, 't': '2024-01-01', 'sr': []}, 'parents': []}],      # extra record field
          [{'uid': {'type': 'Doc', 'id': 'd'}, 'attrs': {'owner': {'type': 'User', 'id': 'u'}, ' lead': 'x'}, 'parents': [{'type': 'Group', 'id': 'g'}]}],           # Doc cannot be in a Group
          [{'uid': {'type': 'Doc', 'id': 'd'}, 'attrs': {'owner': {'type': 'User', 'id': 'u'}, 'odd key': False, 'pad ': 1, ' lead': 'x'}, 'parents': [{'type': 'Folder', 'id': 'f'}]}, {'uid': {'type': 'Folder', 'id': 'f'}, 'attrs': {}, 'parents': [{'type': 'Folder', 'id': 'f2'}]}],
          [{'uid': {'type': 'Group', 'id': 'g'}, 'attrs': {}, 'parents': [], 'tags': {'k': 1}}], [{'uid': {'type': 'Group', 'id': 'g'}, 'attrs': {}, 'parents': [], 'tags': {'k': 'v'}}], [{'uid': {'type': 'Doc', 'id': 'd'}, 'attrs': {'owner': {'type': 'User', 'id': 'u'}, 'lead': 'x'}, 'parents': []}],
          [{'uid': {'type': 'Color', 'id': 'red'}, 'attrs': {}, 'parents': []}], [{'uid': {'type': 'Color', 'id': 'purple'}, 'attrs': {}, 'parents': []}],
          [{'uid': {'type': 'User', 'id': 'u'}, 'attrs': {'n': 1, 's': 'x', 'b': True, 'ls': [1], 'r': {'x': 1}, 'm': {'type': 'User', 'id': 'u'}, 't': '2024-01-01', 'sr': []}, 'parents': [], 'tags': {'k': 1}}]]

CEDAR_B = '''
namespace Shop {
  type Money = { cents: Long, cur: String };
  entity Customer in [Tier] { balance: Money, history: Set<Money> };
  entity Tier;
  entity Item { price: Money, seller?: Shop::Customer };
  action buy appliesTo { principal: [Customer], resource: [Item], context: { budget: Money } };
  action browse appliesTo { principal: [Customer, Tier], resource: [Item] };
}
entity Auditor;
action audit appliesTo { principal: [Auditor], resource: [Shop::Item, Shop::Customer] };
'''
MONEY = REC({'cents': LONG, 'cur': STRING})
JSON_B = {'Shop': {'commonTypes': {'Money': MONEY},
                   'entityTypes': {'Customer': {'memberOfTypes': ['Tier'], 'shape': REC({'balance': E_('Money'), 'history': {'type': 'Set', 'element': E_('Money')}})}, 'Tier': {},
                                   'Item': {'shape': REC({'price': E_('Money'), 'seller': OPT(E_('Shop::Customer'))})}},
                   'actions': {'buy': {'appliesTo': {'principalTypes': ['Customer'], 'resourceTypes': ['Item'], 'context': REC({'budget': E_('Money')})}},
                               'browse': {'appliesTo': {'principalTypes': ['Customer', 'Tier'], 'resourceTypes': ['Item']}}}},
          '': {'entityTypes': {'Auditor': {}}, 'actions': {'audit': {'appliesTo': {'principalTypes': ['Auditor'], 'resourceTypes': ['Shop::Item', 'Shop::Customer']}}}}}
PROBES_B = ['permit(principal, action == Shop::Action::"buy", resource) when { context.budget.cents >= resource.price.cents && resource.price.cur == context.budget.cur };',
            'permit(principal, action == Shop::Action::"buy", resource) when { resource has seller && resource.seller.balance.cents > 0 };', 'permit(principal, action == Shop::Action::"buy", resource) when { resource.seller == principal };',
            'permit(principal is Shop::Tier, action == Shop::Action::"browse", resource);', 'permit(principal is Shop::Tier, action == Shop::Action::"buy", resource);', 'permit(principal in Shop::Tier::"gold", action, resource);',
            'permit(principal, action == Action::"audit", resource is Shop::Customer) when { resource.history.contains({cents: 1, cur: "x"}) };', 'permit(principal, action == Action::"audit", resource is Shop::Item) when { resource.price.cents == "1" };',
            'permit(principal is Auditor, action == Shop::Action::"browse", resource);', 'permit(principal, action == Action::"buy", resource);', 'permit(principal, action, resource) when { principal.balance.cur == "EUR" };']
ENTS_B = [[{'uid': {'type': 'Shop::Customer', 'id': 'c'}, 'attrs': {'balance': {'cents': 1, 'cur': 'x'}, 'history': []}, 'parents': [{'type': 'Shop::Tier', 'id': 'gold'}]}],
          [{'uid': {'type': 'Shop::Customer', 'id': 'c'}, 'attrs': {'balance': {'cents': 1}, 'history': []}, 'parents': []}], [{'uid': {'type': 'Shop::Item', 'id': 'i'}, 'attrs': {'price': {'cents': 1, 'cur': 'x'}, 'seller': {'type': 'Shop::Customer', 'id': 'c'}}, 'parents': []}],
          [{'uid': {'type': 'Shop::Item', 'id': 'i'}, 'attrs': {'price': {'cents': 1, 'cur': 'x'}, 'seller': {'type': 'Auditor', 'id': 'a'}}, 'parents': []}], [{'uid': {'type': 'Auditor', 'id': 'a'}, 'attrs': {}, 'parents': [{'type': 'Shop::Tier', 'id': 'gold'}]}]]

# appliesTo clauses that must be refused in the Cedar syntax (the JSON syntax cannot even express them)
REFUSED = ['entity A; action a appliesTo { principal: [A] };', 'entity A; action a appliesTo { resource: [A] };', 'entity A; action a appliesTo { principal: [A], principal: [A], resource: [A] };',
           'entity A; action a appliesTo { principal: [A], resource: [A], context: {}, context: {} };', 'entity A; action a appliesTo { principal: [], resource: [A] };', 'entity A; action a appliesTo { principal: [A], resource: [] };',
           'entity A; action a appliesTo { principal: [A], resource: [A], resource: [A] };']

CASES = [{'cedar': CEDAR_A, 'json': JSON_A, 'probes': PROBES_A, 'entities': ENTS_A, 'refused': REFUSED}, {'cedar': CEDAR_B, 'json': JSON_B, 'probes': PROBES_B, 'entities': ENTS_B, 'refused': []}]
