"""C14, the partial entity store is transitively closed however it is built - tpe/entities.rs: PartialEntities::{from_entities_map, from_entities, from_json_value,
from_concrete}.  The TPE evaluator decides `e in a` from the ancestor set of e alone (C04 decides that compute_tc yields reachability), so every constructor that
takes parents as the caller gives them has to close the relation; only a store converted from concrete `Entities` (already closed, C04) may skip it.
  from_entities_map(map, schema, close):  Ok  =>  every entity validated, concrete-ancestor check passed, and - when `close` - compute_tc ran and succeeded BEFORE
      the actions were inserted; a failing step fails the construction and nothing after it runs;
  from_entities / from_json_value: call from_entities_map with close = true on exactly the map collect_unique built from the caller's entities;
  from_concrete: the only caller allowed to pass close = false.
Replay: native battery `tpe_store` - a three-level hierarchy given with direct parents only through from_partial_entities / from_json_value / from_concrete:
the TPE decision of fully concrete requests equals the concrete authorizer's."""
import z3
from ..executor import IntV, BoolV, Agg, Opaque, Ref, NotEncoded, UNIT
from ..models import ok, err, some, none
from .. import containers as C

T, F = z3.BoolVal(True), z3.BoolVal(False)
FILE = 'tpe/entities.rs'


def strip(ex, st, v, n=10):
    while n > 0 and isinstance(v, Ref):
        v = ex.read(st, v.fid, v.place)
        n -= 1
    return v


def ident(ex, st, v):
    return getattr(strip(ex, st, v), 'id', None)


STORE_SCHEMA = 'entity Group in [Group]; entity User in [Group]; entity Doc in [Group]; action view appliesTo { principal: [User], resource: [Doc] };'
# direct parents only: alice -> staff -> root ; doc -> shared -> root
STORE_ENTS = [{'uid': {'type': 'User', 'id': 'alice'}, 'attrs': {}, 'parents': [{'type': 'Group', 'id': 'staff'}]}, {'uid': {'type': 'Group', 'id': 'staff'}, 'attrs': {}, 'parents': [{'type': 'Group', 'id': 'root'}]},
              {'uid': {'type': 'Group', 'id': 'root'}, 'attrs': {}, 'parents': []}, {'uid': {'type': 'Doc', 'id': 'doc'}, 'attrs': {}, 'parents': [{'type': 'Group', 'id': 'shared'}]},
              {'uid': {'type': 'Group', 'id': 'shared'}, 'attrs': {}, 'parents': [{'type': 'Group', 'id': 'root'}]}, {'uid': {'type': 'User', 'id': 'bob'}, 'attrs': {}, 'parents': []}]
STORE_POLS = ['permit(principal in Group::"root", action, resource);', 'permit(principal, action, resource) when { principal in Group::"root" };', 'permit(principal, action, resource); forbid(principal, action, resource in Group::"root");',
              'permit(principal in Group::"staff", action, resource in Group::"shared");', 'permit(principal, action, resource) when { principal in [Group::"shared", Group::"root"] && resource in Group::"root" };',
              'permit(principal, action, resource) unless { principal in Group::"root" };']


def battery(ctx, name, role, why):
    cache = ctx.__dict__.setdefault('_c14_store_battery', {})
    if 'r' not in cache:
        cache['r'] = None
        n = 0
        for pol in STORE_POLS:
            for user in ('alice', 'bob'):
                q = {'op': 'tpe_store', 'schema': STORE_SCHEMA, 'entities': STORE_ENTS, 'policies': pol, 'principal': f'User::"{user}"', 'action': 'Action::"view"', 'resource': 'Doc::"doc"'}
                a = ctx.native.ask(q)
                if 'concrete' not in a or 'routes' not in a:
                    return ctx.mismatch(name, f'tpe_store probe: {str(a)[:300]}')
                n += 1
                for route, got in sorted(a['routes'].items()):
                    if got != a['concrete'] and cache['r'] is None:
                        cache['r'] = (f'`{pol}` for {user}: the concrete authorizer says {a["concrete"]}, TPE over the store built by PartialEntities::{route} from the same entities (direct parents only) says {got}', q)
        cache['n'] = n
    if cache['r']:
        return ctx.violation(name, role, f'{why}; natively: {cache["r"][0]}', cache['r'][1])
    return ('unreplayed', f'{why}; but TPE over the stores built by from_partial_entities / from_json_value / from_concrete agrees with the concrete authorizer on the {cache.get("n")} cases of the battery')


def entities_map(ctx):
    P = ctx.prog('core')
    f = P.method(FILE, 'from_entities_map', nargs=3)
    ctx.use(f)
    ex = ctx.new_exec('core')
    ex.havoc_unknown = True
    VAL, ANC, TC, CLOSE = z3.Bool('every_entity_validates'), z3.Bool('concrete_ancestor_check_passes'), z3.Bool('compute_tc_succeeds'), z3.Bool('close_flag')
    M = Opaque('HashMap<EntityUID, PartialEntity>', 'the entity map')

    def log(st, what):
        st.notes['log'] = st.notes.get('log', []) + [what]

    def step(name, cond, okv=UNIT, errv=None):
        def go(ex_, st, c, A):
            return [([cond], ok(okv), lambda s2: log(s2, (name, True))), ([z3.Not(cond)], err(errv or Opaque('Error', f'{name} error')), lambda s2: log(s2, (name, False)))]
        return go
    ex.stub(r'Values<.*PartialEntity> as Iterator>::try_for_each::<|try_for_each::<.*from_entities_map', step('validate', VAL), 'entities.values().try_for_each(validate): free outcome, logged')
    ex.stub(r'HashMap::<.*PartialEntity.*>::values$', lambda ex_, st, c, A: Opaque('Values<EntityUID, PartialEntity>', 'values'), 'HashMap::values')
    ex.stub(r'validate_concrete_ancestors_concrete$', step('ancestors-concrete', ANC), 'validate_concrete_ancestors_concrete: free outcome, logged')
    ex.stub(r'PartialEntities::compute_tc$', step('compute_tc', TC), 'PartialEntities::compute_tc: free outcome, logged')

    def actions(ex_, st, c, A):
        log(st, ('insert_actions', True))
        return UNIT
    ex.stub(r'PartialEntities::insert_actions$', actions, 'PartialEntities::insert_actions: logged')
    C.install(ex)
    outs = ex.run(f, [M, Ref(0, ('local', 'SCHEMA')), BoolV(CLOSE)], heap={'SCHEMA': Opaque('ValidatorSchema', 'schema')})
    ctx.absorb(ex)
    nm = 'PartialEntities::from_entities_map'
    ctx.panic_summary(nm, outs, ex)
    rets = [o for o in outs if o.kind == 'ret']
    bad, okp, errp = [], [], []
    for o in rets:
        v = strip(ex, o.st, o.val)
        lg = o.st.notes.get('log', [])
        if not (isinstance(v, Agg) and v.variant in ('Ok', 'Err')):
            raise NotEncoded(f'{nm}: result {v!r}')
        pc = z3.And(o.pc) if o.pc else T
        names = [x[0] for x in lg]
        if v.variant == 'Ok':
            okp.append(pc)
            want = ['validate', 'ancestors-concrete'] + ['compute_tc'] + ['insert_actions']
            closed = names == want and all(x[1] for x in lg)
            unclosed = names == ['validate', 'ancestors-concrete', 'insert_actions'] and all(x[1] for x in lg)
            # accepted: with the flag the closure was computed (before the actions are added); without it the three other steps ran
            bad.append(z3.And(pc, z3.Not(z3.Or(z3.BoolVal(closed), z3.And(z3.Not(CLOSE), z3.BoolVal(unclosed))))))
            # the store that is returned is built from the map that was given
            inner = strip(ex, o.st, v.fields[0])
            held = strip(ex, o.st, inner.fields[0]) if isinstance(inner, Agg) and inner.fields else None
            if getattr(held, 'id', None) != M.id:
                bad.append(pc)
        else:
            errp.append(pc)
            # a failure: the last logged step failed and nothing ran after it
            bad.append(z3.And(pc, z3.BoolVal(not (lg and lg[-1][1] is False and all(x[1] for x in lg[:-1])))))
    role = 'tpe/entities.rs: PartialEntities::from_entities_map'
    why = 'a partial entity store is built without validating its entities or without closing the ancestor relation'
    ctx.decide(f'{nm}/Ok => validated, ancestors checked, and with the flag the closure computed before the actions; a failing step fails the construction', [z3.Or(bad) if bad else F], ex=ex, sample={'paths': len(rets)},
               on_sat=lambda m: battery(ctx, nm, role, why))
    ctx.decide(f'{nm}/with the flag, Ok needs compute_tc to succeed', [CLOSE, z3.Not(TC), z3.Or(okp or [F])], ex=ex, on_sat=lambda m: battery(ctx, nm, role, why))
    ctx.decide(f'{nm}/paths-cover', [z3.Not(z3.Or(okp + errp or [F]))], ex=ex)
    ctx.decide(f'{nm}/witness-ok-closed', [CLOSE, z3.Or(okp or [F])], expect='sat', ex=ex)
    ctx.decide(f'{nm}/witness-err', [z3.Or(errp or [F])], expect='sat', ex=ex)


def constructor(ctx, fname, nargs, must_close, json=False):
    """the public constructors: which flag reaches from_entities_map, on which map"""
    P = ctx.prog('core')
    f = P.method(FILE, fname, nargs=nargs)
    ctx.use(f)
    ex = ctx.new_exec('core')
    ex.havoc_unknown = True
    UNIQ, MAPOK = z3.Bool('no_duplicate_uids'), z3.Bool('from_entities_map_succeeds')
    MAP = Opaque('HashMap<EntityUID, PartialEntity>', 'the map collect_unique built')
    ARG = Opaque('impl Iterator<Item = PartialEntity>', 'the entities given by the caller')

    def log(st, what):
        st.notes['log'] = st.notes.get('log', []) + [what]

    def collect_unique(ex_, st, c, A):
        src = ident(ex_, st, A[0])
        return [([UNIQ], ok(MAP), lambda s2: log(s2, ('collect_unique', src))), ([z3.Not(UNIQ)], err(Opaque('EntitiesError', 'duplicate')), lambda s2: log(s2, ('collect_unique-failed', src)))]
    ex.stub(r'PartialEntities::collect_unique::<|PartialEntities::collect_unique$', collect_unique, 'collect_unique(entities): a map, or a duplicate error (free), logged with its argument')

    def from_map(ex_, st, c, A):
        flag = strip(ex_, st, A[2])
        ft = flag.t if isinstance(flag, BoolV) else None
        if ft is None:
            raise NotEncoded(f'{fname}: flag {flag!r}')
        m = ident(ex_, st, A[0])
        return [([MAPOK], ok(Opaque('PartialEntities', 'the store')), lambda s2: log(s2, ('from_entities_map', m, ft))), ([z3.Not(MAPOK)], err(Opaque('EntitiesError', 'map error')), lambda s2: log(s2, ('from_entities_map', m, ft)))]
    ex.stub(r'PartialEntities::from_entities_map$', from_map, 'from_entities_map(map, schema, flag): free outcome, logged with map and flag')
    if json:
        # the JSON route: deserialization and per-entity parsing are free; what reaches collect_unique is the parsed list
        DES, PARSE = z3.Bool('the_document_deserializes'), z3.Bool('every_entity_parses')
        ex.stub(r'serde_json::from_value::<', lambda ex_, st, c, A: [([DES], ok(Opaque('Vec<EntityJson>', 'entity documents'))), ([z3.Not(DES)], err(Opaque('serde_json::Error', 'bad document')))], 'serde_json::from_value: free')
        ex.stub(r'as Iterator>::collect::<Result<Vec<.*PartialEntity', lambda ex_, st, c, A: [([PARSE], ok(Opaque('Vec<PartialEntity>', 'parsed entities'))), ([z3.Not(PARSE)], err(Opaque('EntitiesError', 'parse error')))], 'entities.into_iter().map(parse_ejson).collect(): free')
        ex.stub(r'Vec<.*PartialEntity> as IntoIterator>::into_iter$', lambda ex_, st, c, A: ARG, 'parsed.into_iter(): the entities handed to collect_unique')
    C.install(ex)
    heap = {'SCHEMA': Opaque('ValidatorSchema', 'schema')}
    outs = ex.run(f, [ARG if not json else Opaque('serde_json::Value', 'the JSON document'), Ref(0, ('local', 'SCHEMA'))], heap=heap)
    ctx.absorb(ex)
    nm = f'PartialEntities::{fname}'
    ctx.panic_summary(nm, outs, ex)
    rets = [o for o in outs if o.kind == 'ret']
    bad, okp = [], []
    for o in rets:
        v = strip(ex, o.st, o.val)
        lg = o.st.notes.get('log', [])
        pc = z3.And(o.pc) if o.pc else T
        if not (isinstance(v, Agg) and v.variant in ('Ok', 'Err')):
            raise NotEncoded(f'{nm}: result {v!r}')
        if v.variant == 'Ok':
            okp.append(pc)
            calls = [x for x in lg if x[0] == 'from_entities_map']
            good = len(calls) == 1 and lg[0] == ('collect_unique', ARG.id) and calls[0][1] == MAP.id
            bad.append(z3.And(pc, z3.Not(z3.And(z3.BoolVal(good), calls[0][2] if (good and must_close) else T))))
    role = f'tpe/entities.rs: PartialEntities::{fname}'
    why = f'PartialEntities::{fname} builds a store whose ancestor relation is not closed (or not from the entities it was given)'
    ctx.decide(f'{nm}/Ok => from_entities_map ran on the map of exactly the given entities, with the closure requested', [z3.Or(bad) if bad else F], ex=ex, sample={'paths': len(rets)}, on_sat=lambda m: battery(ctx, nm, role, why))
    ctx.decide(f'{nm}/witness-ok', [z3.Or(okp or [F])], expect='sat', ex=ex)


def families(ctx):
    return [('PartialEntities::from_entities_map', lambda: entities_map(ctx)), ('PartialEntities::from_entities', lambda: constructor(ctx, 'from_entities', 2, True)),
            ('PartialEntities::from_json_value', lambda: constructor(ctx, 'from_json_value', 2, True, json=True))]
