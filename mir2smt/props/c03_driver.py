"""C03, the fold over request environments - validator/typecheck.rs: Typechecker::typecheck_policy.  `Validator::validate` decides on the error SET this function
fills (not on the boolean it returns), so soundness needs: every error found in ANY request environment ends up in the set - also in environments where the policy
has type False (`A && B` with `B : False` still evaluates `A`) - and the policy is reported impossible only if it has type False in every environment.
Two linked environments, each Success | Irrelevant(errors) | Fail(errors) (free)."""
import z3
from ..executor import IntV, BoolV, Agg, Opaque, Ref, NotEncoded, UNIT
from .. import containers as C

T, F = z3.BoolVal(True), z3.BoolVal(False)
PC = 'validator::typecheck::PolicyCheck'


def strip(ex, st, v, n=10):
    while n > 0 and isinstance(v, Ref):
        v = ex.read(st, v.fid, v.place)
        n -= 1
    return v


def fold(ctx, battery):
    P = ctx.prog('core')
    f = P.method('validator/typecheck.rs', 'typecheck_policy', nargs=4)
    ctx.use(f)
    ex = ctx.new_exec('core')
    ex.havoc_unknown = True
    ex.max_paths = 600
    KIND = [z3.Int(f'environment{i}_outcome') for i in range(2)]           # 0 Success, 1 Irrelevant, 2 Fail
    EMPTY = [z3.Bool(f'environment{i}_has_no_errors') for i in range(2)]
    pre = [z3.And(k >= 0, k <= 2) for k in KIND]
    envs = [Opaque("validator::types::RequestEnv<'_>", f'request environment {i}') for i in range(2)]
    errs = [Opaque('Vec<ValidationError>', f'errors of environment {i}') for i in range(2)]
    gid = lambda ex_, st, v: getattr(strip(ex_, st, v), 'id', None)
    ex.stub(r'Template::condition$', lambda ex_, st, c, A: Opaque('ast::expr::Expr', 'condition'), 'Template::condition')
    ex.stub(r'Template::id$', lambda ex_, st, c, A: ex_.new_cell(st, Opaque('PolicyID', 'id'), 'id'), 'Template::id')
    ex.stub(r'Template::loc$', lambda ex_, st, c, A: ex_.new_cell(st, Opaque('Option<Loc>', 'loc'), 'loc'), 'Template::loc')
    ex.stub(r'ValidatorSchema::unlinked_request_envs$', lambda ex_, st, c, A: Agg('struct', '~vec_iter', None, [Opaque('RequestEnv', 'the unlinked environment')]), 'unlinked_request_envs: one unlinked environment')
    ex.stub(r'Typechecker::<.*>::link_request_env$|Typechecker::link_request_env$', lambda ex_, st, c, A: Agg('struct', '~vec_iter', None, list(envs)), 'link_request_env: two linked environments')
    ex.stub(r'Box<dyn Iterator<.*>> as Iterator>::next$', lambda ex_, st, c, A: None, 'next')

    def single(ex_, st, c, A):
        i = {e.id: k for k, e in enumerate(envs)}.get(gid(ex_, st, A[1]))
        if i is None:
            return None
        te = Opaque('ast::expr::Expr<Option<Type>>', f'typed condition {i}')
        return [([KIND[i] == 0], Agg('variant', PC, 'Success', [te])), ([KIND[i] == 1], Agg('variant', PC, 'Irrelevant', [errs[i], te])), ([KIND[i] == 2], Agg('variant', PC, 'Fail', [errs[i]]))]
    ex.stub(r'Typechecker::<.*>::single_env_typechecking$|Typechecker::single_env_typechecking$', single, 'single_env_typechecking(environment i): Success | Irrelevant(errors) | Fail(errors), free')
    ex.stub(r'Vec::<.*ValidationError>::is_empty$', lambda ex_, st, c, A: (lambda i: None if i is None else BoolV(EMPTY[i]))({e.id: k for k, e in enumerate(errs)}.get(gid(ex_, st, A[0]))), 'errors.is_empty(): free')

    def extend(ex_, st, c, A):
        i = {e.id: k for k, e in enumerate(errs)}.get(gid(ex_, st, A[1]))
        if i is None:
            return None
        st.notes['extended'] = st.notes.get('extended', []) + [i]
        return UNIT
    ex.stub(r'HashSet<.*ValidationError.*> as Extend<.*>>::extend::<|HashSet::<.*ValidationError.*>::extend', extend, 'type_errors.extend(errors of environment i): logged')

    def warn(ex_, st, c, A):
        st.notes['impossible'] = True
        return BoolV(T)
    ex.stub(r'HashSet::<.*ValidationWarning.*>::insert$', warn, 'warnings.insert(impossible policy): logged')
    ex.stub(r'ValidationWarning::impossible_policy$', lambda ex_, st, c, A: Opaque('ValidationWarning', 'impossible policy'), 'the impossible-policy warning')
    ex.stub(r'Option::<.*Loc>::cloned$|PolicyID as Clone>::clone$', lambda ex_, st, c, A: Opaque('x', 'clone'), 'clone')
    C.install(ex)
    heap = {'TC': Opaque('validator::typecheck::Typechecker', 'typechecker'), 'P': Opaque('ast::policy::Template', 'policy'), 'E': Opaque('HashSet<ValidationError>', 'type errors'), 'W': Opaque('HashSet<ValidationWarning>', 'warnings')}
    outs = ex.run(f, [Ref(0, ('local', 'TC')), Ref(0, ('local', 'P')), Ref(0, ('local', 'E')), Ref(0, ('local', 'W'))], heap=heap, pre=pre)
    ctx.absorb(ex)
    nm = 'typecheck_policy (fold over request environments)'
    ctx.panic_summary(nm, outs, ex, pre)
    rets = [o for o in outs if o.kind == 'ret']
    bad, cover = [], []
    for o in rets:
        pc = z3.And(o.pc) if o.pc else T
        cover.append(pc)
        got = sorted(o.st.notes.get('extended', []))
        imp = bool(o.st.notes.get('impossible'))
        v = strip(ex, o.st, o.val)
        if not isinstance(v, BoolV):
            raise NotEncoded(f'{nm}: result {v!r}')
        for k0 in range(3):
            for k1 in range(3):
                ks = (k0, k1)
                here = z3.And(pc, KIND[0] == k0, KIND[1] == k1)
                want = [i for i, k in enumerate(ks) if k != 0]          # the errors of every environment that is not a plain success reach the set
                allsucc = z3.And([T if k == 0 else (EMPTY[i] if k == 1 else F) for i, k in enumerate(ks)])
                bad.append(z3.And(here, z3.Not(z3.And(z3.BoolVal(got == want), z3.BoolVal(imp == all(k == 1 for k in ks)), v.t == allsucc))))
    role = 'validator/typecheck.rs: Typechecker::typecheck_policy'
    why = 'errors found in some request environment do not reach the error set validation decides on (or the impossible-policy warning is wrong)'
    ctx.decide(f'{nm}/the errors of every environment reach the error set; impossible iff False in every environment; returns whether all succeeded', pre + [z3.Or(bad) if bad else T], ex=ex, sample={'paths': len(rets)}, on_sat=lambda m: battery(ctx, nm, role, why))
    ctx.decide(f'{nm}/paths-cover', pre + [z3.Not(z3.Or(cover or [F]))], ex=ex)
    ctx.decide(f'{nm}/witness-irrelevant-with-errors', pre + [KIND[0] == 1, z3.Not(EMPTY[0]), z3.Or(cover or [F])], expect='sat', ex=ex)


def families(ctx, battery):
    return [('typecheck_policy fold', lambda: fold(ctx, battery))]
