"""C09, a narrow slice - the Cedar schema syntax is given its meaning by translating the parsed declarations into the JSON schema data model
(validator/cedar_schema/to_json_schema.rs); the two syntaxes denote the same schema only if that translation puts every part of a declaration where the JSON
syntax has it.  Neither parser is encodable (LALRPOP + regex, serde); the translation functions are, one declaration part at a time:
  convert_app_decls   the `appliesTo { principal: [..], resource: [..], context: .. }` clause, a sequence of 1..3 parts in ANY order (every sequence over
                      {context, principal with types, principal without, resource with types, resource without} of length <= 3): accepted iff exactly one principal
                      part and one resource part, both with types, and at most one context; then principal_types are the types of the principal part, resource_types
                      those of the resource part (never swapped), context the converted context part or the empty default; every other sequence is refused;
  cedar_type_to_json_type   Set<T> -> Set of the converted T; a name -> EntityOrCommon with that name; a record -> a closed Record with the converted attributes;
  convert_attr_decl   name, `?` (required flag, symbolic) and the converted type of an attribute;
  convert_context_decl   a named context -> a reference to that common type; a literal context -> a closed record of the converted attributes;
  convert_entity_decl    `entity N0, N1 in [P0, P1] { .. } tags T` (with and without tags): every declared name gets the entity type with exactly these parent types,
                      this shape and these tags; refused only when a name is reserved.
Recursive conversions are stubs returning tokens (structural induction).  A native battery (op `schema_syntax`) compares Cedar-syntax schemas with hand-written
JSON equivalents through everything the public Schema API exposes, and round-trips both printers."""
import itertools
import z3
from ..executor import IntV, BoolV, Agg, Opaque, Ref, NotEncoded, UNIT
from ..models import ok, err, some, none
from .. import containers as C
from .c06 import strip, shape

T, F = z3.BoolVal(True), z3.BoolVal(False)
FILE = 'validator/cedar_schema/to_json_schema.rs'
NODE = 'parser::node::Node'
AST = 'validator::cedar_schema::ast::'


def node(x, loc=None):
    return Agg('struct', NODE, None, [x, loc if loc is not None else none()], ('node', 'loc'))


def nonempty(items):
    return Agg('struct', 'nonempty::NonEmpty', None, [items[0], Agg('struct', '~vec', None, list(items[1:]))], ('head', 'tail'))


def install_nonempty(ex):
    def items(ex_, st, v):
        v = C.res(ex_, st, v)
        if isinstance(v, Agg) and v.name == 'nonempty::NonEmpty':
            t = C.res(ex_, st, v.fields[1])
            return [v.fields[0]] + list(t.fields)
        return None
    ex.stub(r'nonempty::NonEmpty<.*> as IntoIterator>::into_iter$', lambda ex_, st, c, A: (lambda it: None if it is None else Agg('struct', '~vec_iter', None, it))(items(ex_, st, A[0])), 'NonEmpty::into_iter: head then tail')

    def ne_iter(ex_, st, c, A):
        it = items(ex_, st, A[0])
        if it is None:
            return None
        r = C.base_ref(ex_, st, A[0])
        refs = [Ref(r.fid, ('field', r.place, 0, 'head'))] + [Ref(r.fid, ('field', ('field', r.place, 1, 'tail'), i, '?')) for i in range(len(it) - 1)]
        return Agg('struct', '~vec_iter', None, refs)
    ex.stub(r'nonempty::NonEmpty::<.*>::iter$', ne_iter, 'NonEmpty::iter: references to head then tail')
    ex.stub(r'nonempty::Iter<.*> as Iterator>::cloned::<', lambda ex_, st, c, A: (lambda it: Agg('struct', '~vec_iter', None, [C.res(ex_, st, x) for x in it.fields]) if isinstance(it, Agg) and it.name == '~vec_iter' else None)(C.res(ex_, st, A[0])), 'NonEmpty iter().cloned(): the elements')
    ex.stub(r'nonempty::NonEmpty::<.*>::first$', lambda ex_, st, c, A: (lambda r: Ref(r.fid, ('field', r.place, 0, 'head')))(C.base_ref(ex_, st, A[0])), 'NonEmpty::first')


KINDS = ['context', 'principal', 'principal-empty', 'resource', 'resource-empty']


def app_decls(ctx, seq):
    P = ctx.prog('core')
    f = P.method(FILE, 'convert_app_decls', nargs=3)
    ctx.use(f)
    ex = ctx.new_exec('core')
    ex.havoc_unknown = True
    ex.max_paths = 2000
    paths = {}           # (position, j) -> Path token
    names = {}           # Path id -> RawName token
    ctxs, conv = {}, {}
    decls = []
    for i, kd in enumerate(seq):
        if kd == 'context':
            ctxs[i] = Opaque('Either<Path, Node<Vec<Node<Annotated<AttrDecl>>>>>', f'context part at {i}')
            conv[ctxs[i].id] = Opaque('validator::json_schema::AttributesOrContext', f'converted context part at {i}')
            decls.append(node(Agg('variant', AST + 'AppDecl', 'Context', [ctxs[i]])))
        else:
            pr = 'Principal' if kd.startswith('principal') else 'Resource'
            if kd.endswith('empty'):
                tys = none()
            else:
                ps = [Opaque(AST + 'Path', f'type {j} of the {pr.lower()} part at {i}') for j in range(2)]
                for j, p_ in enumerate(ps):
                    paths[(i, j)] = p_
                    names[p_.id] = Opaque('validator::raw_name::RawName', f'name of type {j} of the {pr.lower()} part at {i}')
                tys = some(nonempty(ps))
            decls.append(node(Agg('variant', AST + 'AppDecl', 'PR', [Agg('struct', AST + 'PRAppDecl', None, [node(Agg('variant', AST + 'PR', pr, [])), tys], ('kind', 'entity_tys'))])))
    gid = lambda ex_, st, v: getattr(strip(ex_, st, v), 'id', None)
    ex.stub(r'convert_context_decl$', lambda ex_, st, c, A: conv.get(gid(ex_, st, A[0])), 'convert_context_decl(part): its conversion (token)')
    ex.stub(r'RawName as From<.*Path>>::from$|Path as Into<.*RawName>>::into$', lambda ex_, st, c, A: names.get(gid(ex_, st, A[0])), 'Path -> RawName (token)')
    ex.stub(r'Path as Clone>::clone$', lambda ex_, st, c, A: strip(ex_, st, A[0]), 'Path::clone')
    ex.stub(r'ToJsonSchemaError::\w+(::<.*>)?$', lambda ex_, st, c, A: Agg('struct', '~error', None, [Opaque('str', c.split('::')[1].split('<')[0] if '::' in c else c)]), 'ToJsonSchemaError constructors: the error kind')
    ex.stub(r'ToJsonSchemaError as Into<ToJsonSchemaErrors>>::into$|ToJsonSchemaErrors as From<ToJsonSchemaError>>::from$', lambda ex_, st, c, A: A[0], 'a single error as an error list')
    DEFAULT = Opaque('validator::json_schema::AttributesOrContext', 'the empty default context')
    ex.stub(r'AttributesOrContext<.*> as Default>::default$|Option::<.*AttributesOrContext<.*>>::unwrap_or_default$', lambda ex_, st, c, A: (DEFAULT if c.endswith('default') and 'unwrap_or' not in c else
            (lambda o: o.fields[0] if isinstance(o, Agg) and o.variant == 'Some' else DEFAULT)(strip(ex_, st, A[0]))), 'the default (empty) context')
    install_nonempty(ex)
    C.install(ex)
    heap = {'NAME': Opaque('smol_str::SmolStr', 'action name')}
    outs = ex.run(f, [Ref(0, ('local', 'NAME')), none(), node(nonempty(decls))], heap=heap)
    ctx.absorb(ex)
    nm = f'appliesTo parts [{", ".join(seq)}]'
    ctx.panic_summary(nm, outs, ex)
    rets = [o for o in outs if o.kind == 'ret']
    if len(rets) != 1:
        raise NotEncoded(f'{nm}: {len(rets)} returning paths on a concrete sequence')
    v = strip(ex, rets[0].st, rets[0].val)
    # reference: what the clause means
    np_, nr, nc = sum(k.startswith('principal') for k in seq), sum(k.startswith('resource') for k in seq), seq.count('context')
    accept = np_ == 1 and nr == 1 and nc <= 1 and 'principal-empty' not in seq and 'resource-empty' not in seq
    good = False
    detail = ''
    if isinstance(v, Agg) and v.variant == 'Ok':
        spec = strip(ex, rets[0].st, v.fields[0])
        fl = {n: strip(ex, rets[0].st, x) for n, x in zip(spec.fnames or (), spec.fields)} if isinstance(spec, Agg) else {}
        ids = lambda vec: [gid(ex, rets[0].st, e) for e in getattr(vec, 'fields', ())]
        if accept:
            ip, ir = seq.index('principal'), seq.index('resource')
            want_p = [names[paths[(ip, j)].id].id for j in range(2)]
            want_r = [names[paths[(ir, j)].id].id for j in range(2)]
            want_c = conv[ctxs[seq.index('context')].id].id if nc else DEFAULT.id
            good = ids(fl.get('principal_types')) == want_p and ids(fl.get('resource_types')) == want_r and getattr(fl.get('context'), 'id', None) == want_c
            detail = f'principal_types {fl.get("principal_types")!r}, resource_types {fl.get("resource_types")!r}, context {fl.get("context")!r}'
        else:
            detail = 'accepted'
    elif isinstance(v, Agg) and v.variant == 'Err':
        good = not accept
        detail = f'refused: {v.fields[0]!r}'
    else:
        raise NotEncoded(f'{nm}: result {v!r}')
    pc = z3.And(rets[0].pc) if rets[0].pc else T
    ctx.decide(f'{nm}/' + ('accepted with the principal types, resource types and context of the respective parts' if accept else 'refused'), [pc, z3.BoolVal(not good)], ex=ex, sample={'result': detail[:300]},
               on_sat=lambda m: battery(ctx, nm, 'validator/cedar_schema/to_json_schema.rs: convert_app_decls', f'the appliesTo clause with the parts [{", ".join(seq)}] is translated wrongly ({detail[:200]})'))


def is_type_type(v):
    """json_schema::Type::Type { ty, loc } (the executor names an enum struct-variant that has the name of its enum after the enum)"""
    return isinstance(v, Agg) and (v.variant == 'Type' or (v.variant is None and v.fnames == ('ty', 'loc')))


def type_nodes(ctx):
    """cedar_type_to_json_type / convert_attr_decl / convert_context_decl, one node each"""
    P = ctx.prog('core')
    TV, JT = 'validator::json_schema::TypeVariant', 'validator::json_schema::Type'
    gid = lambda ex_, st, v: getattr(strip(ex_, st, v), 'id', None)

    def run(fname, arg, stubs, nargs=1):
        f = P.method(FILE, fname, nargs=nargs)
        ctx.use(f)
        ex = ctx.new_exec('core')
        ex.havoc_unknown = True
        for rx, fn, tag in stubs:
            ex.stub(rx, fn, tag)
        ex.stub(r'Annotations as Into<.*>>::into$|Annotations as From<.*>>::from$', lambda ex_, st, c, A: A[0], 'annotations carried over (token)')
        install_nonempty(ex)
        C.install(ex)
        outs = ex.run(f, [arg])
        ctx.absorb(ex)
        rets = [o for o in outs if o.kind == 'ret']
        return ex, outs, rets

    def claim(nm, ex, outs, rets, pred, why):
        ctx.panic_summary(nm, outs, ex)
        bad = []
        for o in rets:
            pc = z3.And(o.pc) if o.pc else T
            if __import__('os').environ.get('C09_DEBUG'):
                print('DBG', nm, repr(strip(ex, o.st, o.val))[:500])
            bad.append(z3.And(pc, z3.Not(pred(ex, o))))
        ctx.decide(f'{nm}/translated as the JSON syntax has it', [z3.Or(bad) if bad else T], ex=ex, sample={'paths': len(rets)}, on_sat=lambda m: battery(ctx, nm, 'validator/cedar_schema/to_json_schema.rs: ' + nm.split(' ')[0], why))
        ctx.decide(f'{nm}/witness', [z3.Or([z3.And(o.pc) if o.pc else T for o in rets] or [F])], expect='sat', ex=ex)

    def variant_of(ex, o):
        v = strip(ex, o.st, o.val)          # json_schema::Type::Type { ty, loc }
        if not is_type_type(v):
            return None, v
        return strip(ex, o.st, v.fields[0]), v

    # Set<T>
    inner, inner_j = Opaque(AST + 'Type', 'element type'), Opaque(JT, 'converted element type')
    rec = (r'cedar_type_to_json_type$', lambda ex_, st, c, A: inner_j if gid(ex_, st, strip(ex_, st, A[0]).fields[0] if isinstance(strip(ex_, st, A[0]), Agg) else A[0]) == inner.id else None, 'recursive conversion of the element type (token)')
    ex, outs, rets = run('cedar_type_to_json_type', node(Agg('variant', AST + 'Type', 'Set', [Agg('struct', 'Box', None, [node(inner)])])), [rec])
    claim('cedar_type_to_json_type Set<T>', ex, outs, rets, lambda ex, o: z3.BoolVal((lambda tv: isinstance(tv, Agg) and tv.variant == 'Set' and gid(ex, o.st, tv.fields[0]) == inner_j.id)(variant_of(ex, o)[0])),
          'Set<T> is not translated to a set of the translated T')
    # a name
    path, raw = Opaque(AST + 'Path', 'the type name'), Opaque('validator::raw_name::RawName', 'the type name as RawName')
    ex, outs, rets = run('cedar_type_to_json_type', node(Agg('variant', AST + 'Type', 'Ident', [path])), [(r'RawName as From<.*Path>>::from$|Path as Into<.*RawName>>::into$', lambda ex_, st, c, A: raw if gid(ex_, st, A[0]) == path.id else None, 'Path -> RawName (token)')])
    claim('cedar_type_to_json_type name', ex, outs, rets, lambda ex, o: z3.BoolVal((lambda tv: isinstance(tv, Agg) and tv.variant == 'EntityOrCommon' and gid(ex, o.st, tv.fields[0]) == raw.id)(variant_of(ex, o)[0])),
          'a type name is not translated to an entity-or-common-type reference with that name')
    # a record of 2 attributes
    attrs = [Opaque('Node<Annotated<AttrDecl>>', f'attribute {i}') for i in range(2)]
    conv = {a.id: Agg('tuple', None, None, [Opaque('smol_str::SmolStr', f'name of attribute {i}'), Opaque('validator::json_schema::TypeOfAttribute', f'converted attribute {i}')]) for i, a in enumerate(attrs)}
    cad = (r'convert_attr_decl$', lambda ex_, st, c, A: conv.get(gid(ex_, st, A[0])), 'convert_attr_decl(attribute i): (name, converted type) tokens')

    def is_closed_record(ex, o, tv):
        if not (isinstance(tv, Agg) and tv.variant == 'Record'):
            return False
        rt = strip(ex, o.st, tv.fields[0])
        fl = {n: strip(ex, o.st, x) for n, x in zip(rt.fnames or (), rt.fields)}
        m, add = fl.get('attributes'), fl.get('additional_attributes')
        ents = [strip(ex, o.st, e) for e in getattr(m, 'fields', ())]
        got = sorted((gid(ex, o.st, e.fields[0]), gid(ex, o.st, e.fields[1])) for e in ents if isinstance(e, Agg) and len(e.fields) == 2)
        want = sorted((gid(ex, o.st, t.fields[0]), gid(ex, o.st, t.fields[1])) for t in conv.values())
        return got == want and isinstance(add, BoolV) and z3.is_false(z3.simplify(add.t))
    from .c06 import install_maps
    recstubs = [cad, (r'BTreeMap<.*> as FromIterator<.*>>::from_iter::<', lambda ex_, st, c, A: (lambda it: Agg('struct', '~btree', None, list(it.fields)) if isinstance(it, Agg) and it.name in ('~vec_iter', '~vec') else None)(strip(ex_, st, A[0])), 'BTreeMap::from_iter over the converted attributes')]
    ex, outs, rets = run('cedar_type_to_json_type', node(Agg('variant', AST + 'Type', 'Record', [Agg('struct', '~vec', None, attrs)])), recstubs)
    claim('cedar_type_to_json_type record', ex, outs, rets, lambda ex, o: z3.BoolVal(is_closed_record(ex, o, variant_of(ex, o)[0])), 'a record type is not translated to a closed record of its translated attributes')
    # convert_attr_decl: name, required, type
    REQ = z3.Bool('the_attribute_is_required')
    aname, aty, aty_j, ann = Opaque('smol_str::SmolStr', 'attribute name'), Opaque(AST + 'Type', 'attribute type'), Opaque(JT, 'converted attribute type'), Opaque('Annotations', 'annotations')
    decl = node(Agg('struct', AST + 'Annotated', None, [Agg('struct', AST + 'AttrDecl', None, [node(aname), BoolV(REQ), node(aty)], ('name', 'required', 'ty')), ann], ('data', 'annotations')))
    rec2 = (r'cedar_type_to_json_type$', lambda ex_, st, c, A: aty_j if gid(ex_, st, strip(ex_, st, A[0]).fields[0]) == aty.id else None, 'conversion of the attribute type (token)')
    ex, outs, rets = run('convert_attr_decl', decl, [rec2])

    def attr_ok(ex, o):
        v = strip(ex, o.st, o.val)
        if not (isinstance(v, Agg) and len(v.fields) == 2):
            return F
        toa = strip(ex, o.st, v.fields[1])
        fl = {n: strip(ex, o.st, x) for n, x in zip(toa.fnames or (), toa.fields)} if isinstance(toa, Agg) else {}
        if gid(ex, o.st, v.fields[0]) != aname.id or gid(ex, o.st, fl.get('ty')) != aty_j.id or not isinstance(fl.get('required'), BoolV):
            return F
        return fl['required'].t == REQ
    claim('convert_attr_decl', ex, outs, rets, attr_ok, 'an attribute declaration loses its name, its `?` or its type')
    # convert_context_decl: named / literal
    cpath = Opaque(AST + 'Path', 'the context type name')
    craw = Opaque('validator::raw_name::RawName', 'the context type name as RawName')
    ex, outs, rets = run('convert_context_decl', Agg('variant', 'Either', 'Left', [cpath]), [(r'RawName as From<.*Path>>::from$|Path as Into<.*RawName>>::into$', lambda ex_, st, c, A: craw if gid(ex_, st, A[0]) == cpath.id else None, 'Path -> RawName (token)'),
                                                                                              (r'Path::loc$', lambda ex_, st, c, A: ex_.new_cell(st, none(), 'loc'), 'Path::loc: none')])

    def ctx_named(ex, o):
        v = strip(ex, o.st, o.val)
        t = strip(ex, o.st, v.fields[0]) if isinstance(v, Agg) and v.fields else None
        if not (isinstance(t, Agg) and t.variant == 'CommonTypeRef'):
            return F
        fl = {n: x for n, x in zip(t.fnames or (), t.fields)}
        return z3.BoolVal(gid(ex, o.st, fl.get('type_name')) == craw.id)
    claim('convert_context_decl named', ex, outs, rets, ctx_named, 'a named context is not translated to a reference to that common type')
    ex, outs, rets = run('convert_context_decl', Agg('variant', 'Either', 'Right', [node(Agg('struct', '~vec', None, attrs))]), recstubs)

    def ctx_literal(ex, o):
        v = strip(ex, o.st, o.val)
        t = strip(ex, o.st, v.fields[0]) if isinstance(v, Agg) and v.fields else None
        if not is_type_type(t):
            return F
        return z3.BoolVal(is_closed_record(ex, o, strip(ex, o.st, t.fields[0])))
    claim('convert_context_decl literal', ex, outs, rets, ctx_literal, 'a literal context is not translated to a closed record of its translated attributes')


def entity_decl(ctx, with_tags):
    """convert_entity_decl on `entity N0, N1 in [P0, P1] { attrs } tags T`: every declared name gets the entity type with exactly these parents, this shape and these tags"""
    P = ctx.prog('core')
    f = P.method(FILE, 'convert_entity_decl', nargs=1)
    ctx.use(f)
    ex = ctx.new_exec('core')
    ex.havoc_unknown = False
    ex.max_paths = 2000
    gid = lambda ex_, st, v: getattr(strip(ex_, st, v), 'id', None)
    names = [Opaque('ast::id::Id', f'declared name {i}') for i in range(2)]
    ids = {n.id: Opaque('ast::id::UnreservedId', f'name {i} as an id') for i, n in enumerate(names)}
    parents = [Opaque(AST + 'Path', f'parent type {i}') for i in range(2)]
    raws = {p_.id: Opaque('validator::raw_name::RawName', f'parent type {i} as RawName') for i, p_ in enumerate(parents)}
    attrs, shape_j = Opaque('Vec<Node<Annotated<AttrDecl>>>', 'attribute declarations'), Opaque('validator::json_schema::AttributesOrContext', 'converted shape')
    tag_ty, tag_j = Opaque(AST + 'Type', 'tag type'), Opaque('validator::json_schema::Type', 'converted tag type')
    NAMEOK = [z3.Bool(f'name_{i}_is_not_reserved') for i in range(2)]
    decl = Agg('variant', AST + 'EntityDecl', 'Standard', [Agg('struct', AST + 'StandardEntityDecl', None, [nonempty([node(n) for n in names]), Agg('struct', '~vec', None, parents), node(attrs), some(node(tag_ty)) if with_tags else none()],
                                                                  ('names', 'member_of_types', 'attrs', 'tags'))])
    arg = Agg('struct', AST + 'Annotated', None, [node(decl), Opaque('Annotations', 'annotations')], ('data', 'annotations'))
    ex.stub(r'convert_attr_decls(::<.*>)?$', lambda ex_, st, c, A: shape_j if gid(ex_, st, strip(ex_, st, A[0]).fields[0]) == attrs.id else None, 'convert_attr_decls(attrs): the converted shape (token)')
    ex.stub(r'cedar_type_to_json_type$', lambda ex_, st, c, A: tag_j if gid(ex_, st, strip(ex_, st, A[0]).fields[0]) == tag_ty.id else None, 'cedar_type_to_json_type(tag type): token')
    ex.stub(r'RawName as From<.*Path>>::from$|Path as Into<.*RawName>>::into$', lambda ex_, st, c, A: raws.get(gid(ex_, st, A[0])), 'Path -> RawName (token)')

    def conv_id(ex_, st, c, A):
        n = strip(ex_, st, A[0])
        i = gid(ex_, st, n.fields[0]) if isinstance(n, Agg) else None
        if i not in ids:
            return None
        k = [x.id for x in names].index(i)
        return [([NAMEOK[k]], ok(ids[i])), ([z3.Not(NAMEOK[k])], err(Agg('struct', '~error', None, [Opaque('str', f'reserved name {k}')])))]
    ex.stub(r'convert_id$', conv_id, 'convert_id(name): the id, or a reserved-name error (free)')
    ex.stub(r'Annotations as Into<.*>>::into$|Annotations as From<.*>>::from$|Annotations as Clone>::clone$', lambda ex_, st, c, A: strip(ex_, st, A[0]), 'annotations carried over (token)')
    ex.stub(r'Node<.*Id> as Clone>::clone$|Id as Clone>::clone$|EntityType<.*> as Clone>::clone$', lambda ex_, st, c, A: strip(ex_, st, A[0]), 'clone')
    ex.stub(r'ToJsonSchemaErrors as From<ToJsonSchemaError>>::from$|ToJsonSchemaError as Into<ToJsonSchemaErrors>>::into$', lambda ex_, st, c, A: Agg('struct', '~vec', None, [A[0]]), 'a single error as an error list')
    ex.stub(r'ToJsonSchemaErrors as IntoIterator>::into_iter$', lambda ex_, st, c, A: (lambda v: Agg('struct', '~vec_iter', None, list(v.fields)) if isinstance(v, Agg) and v.name == '~vec' else None)(strip(ex_, st, A[0])), 'errors into_iter')
    ex.stub(r'nonempty::NonEmpty::<.*>::collect::<', lambda ex_, st, c, A: (lambda v: (none() if not v.fields else some(Agg('struct', '~errors', None, list(v.fields)))) if isinstance(v, Agg) and v.name in ('~vec', '~vec_iter') else None)(strip(ex_, st, A[0])), 'NonEmpty::collect: none iff empty')
    def vappend(ex_, st, c, A):
        a, b = C.res(ex_, st, A[0]), C.res(ex_, st, A[1])
        if not (isinstance(a, Agg) and a.name == '~vec' and isinstance(b, Agg) and b.name == '~vec'):
            return None
        ra, rb = C.base_ref(ex_, st, A[0]), C.base_ref(ex_, st, A[1])

        def go(s2):
            ex_.write(s2, ra.fid, ra.place, Agg('struct', '~vec', None, list(a.fields) + list(b.fields)))
            ex_.write(s2, rb.fid, rb.place, Agg('struct', '~vec', None, []))
        return [([], UNIT, go)]
    ex.stub(r'Vec::<.*>::append$', vappend, 'Vec::append: moves the elements over')
    ex.stub(r'ToJsonSchemaErrors::new$', lambda ex_, st, c, A: A[0], 'ToJsonSchemaErrors::new')
    install_nonempty(ex)
    C.install(ex)
    outs = ex.run(f, [arg])
    ctx.absorb(ex)
    nm = f'convert_entity_decl (2 names, 2 parent types, {"tags" if with_tags else "no tags"})'
    ctx.panic_summary(nm, outs, ex)
    rets = [o for o in outs if o.kind == 'ret']
    bad, cover = [], []
    for o in rets:
        pc = z3.And(o.pc) if o.pc else T
        cover.append(pc)
        v = strip(ex, o.st, o.val)
        if not (isinstance(v, Agg) and v.variant in ('Ok', 'Err')):
            raise NotEncoded(f'{nm}: result {v!r}')
        if v.variant == 'Err':
            bad.append(z3.And(pc, z3.And(NAMEOK)))          # refused although no name is reserved
            continue
        items = strip(ex, o.st, v.fields[0])
        good = isinstance(items, Agg) and len(items.fields) == 2
        if good:
            for k, it in enumerate(items.fields):
                it = strip(ex, o.st, it)
                et = strip(ex, o.st, it.fields[1]) if isinstance(it, Agg) and len(it.fields) == 2 else None
                fl = {n: strip(ex, o.st, x) for n, x in zip(et.fnames or (), et.fields)} if isinstance(et, Agg) else {}
                kind = fl.get('kind')
                std = strip(ex, o.st, kind.fields[0]) if isinstance(kind, Agg) and kind.variant == 'Standard' else None
                sf = {n: strip(ex, o.st, x) for n, x in zip(std.fnames or (), std.fields)} if isinstance(std, Agg) else {}
                mot = [gid(ex, o.st, x) for x in getattr(sf.get('member_of_types'), 'fields', ())]
                tg = sf.get('tags')
                tags_ok = (isinstance(tg, Agg) and tg.variant == 'Some' and gid(ex, o.st, tg.fields[0]) == tag_j.id) if with_tags else (isinstance(tg, Agg) and tg.variant == 'None')
                good = good and gid(ex, o.st, it.fields[0]) == ids[names[k].id].id and mot == [raws[p_.id].id for p_ in parents] and gid(ex, o.st, sf.get('shape')) == shape_j.id and tags_ok
        bad.append(z3.And(pc, z3.Not(z3.And(z3.BoolVal(bool(good)), z3.And(NAMEOK)))))
    ctx.decide(f'{nm}/every declared name gets the entity type with these parents, this shape and these tags; refused only for a reserved name', [z3.Or(bad) if bad else T], ex=ex, sample={'paths': len(rets)},
               on_sat=lambda m: battery(ctx, nm, 'validator/cedar_schema/to_json_schema.rs: convert_entity_decl', 'an entity declaration loses a name, a parent type, its shape or its tags'))
    ctx.decide(f'{nm}/paths-cover', [z3.Not(z3.Or(cover or [F]))], ex=ex)
    ctx.decide(f'{nm}/witness-accepted', [z3.And(NAMEOK), z3.Or(cover or [F])], expect='sat', ex=ex)


def sequences(maxlen):
    for n in range(1, maxlen + 1):
        for seq in itertools.product(KINDS, repeat=n):
            yield seq


def families(ctx, batt=None):
    global battery
    if batt is not None:
        battery = batt
    L = 4 if ctx.tier == 'thorough' else 3
    seqs = list(sequences(L))
    chunks = [seqs[i::8] for i in range(8)]
    fam = [(f'appliesTo clauses, chunk {i}', lambda ch=ch: [app_decls(ctx, s) for s in ch]) for i, ch in enumerate(chunks)]
    fam.append(('types, attributes, contexts', lambda: type_nodes(ctx)))
    fam.append(('entity declarations', lambda: [entity_decl(ctx, True), entity_decl(ctx, False)]))
    return fam


# ---------------------------------------------------------------------------------------------------------------- native battery

def battery(ctx, name, role, why):
    cache = ctx.__dict__.setdefault('_c09_battery', {})
    if 'r' not in cache:
        cache['r'] = None
        n = 0
        for q in schema_cases():
            a = ctx.native.ask(q)
            if 'checks' not in a:
                return ctx.mismatch(name, f'schema_syntax probe: {str(a)[:400]}')
            for c in a['checks']:
                n += 1
                if not c['ok'] and cache['r'] is None:
                    cache['r'] = (f'{c["what"]}: {c.get("detail", "")[:400]}', q)
        cache['n'] = n
    if cache['r']:
        return ctx.violation(name, role, f'{why}; natively: {cache["r"][0]}', cache['r'][1])
    return ('unreplayed', f'{why}; but the {cache.get("n")} comparisons of the native schema-syntax battery hold')


def schema_cases():
    from .c09_cases import CASES
    return [dict(c, op='schema_syntax') for c in CASES]


def run(ctx):
    ctx.run_families(families(ctx))
    ctx.guarded('native battery', lambda: battery(ctx, 'native battery', 'Cedar schema syntax vs JSON schema syntax', 'native schema-syntax battery'))
    ctx.bounds += [f'appliesTo clauses: every sequence of 1..{4 if ctx.tier == "thorough" else 3} parts over {{context, principal with 2 types, principal without types, resource with 2 types, resource without types}} ({780 if ctx.tier == "thorough" else 155} sequences), parts opaque',
                   'types: Set<T>, a name, a record of 2 attributes; attribute declarations with a symbolic `?`; named and literal contexts; entity declarations with 2 names and 2 parent types, with and without tags; nested conversions as tokens (structural induction)',
                   'native battery: Cedar-syntax schemas vs hand-written JSON equivalents (entity types, memberOf, attributes required / optional, nested records, sets, common types, tags, enums, namespaces, action groups, appliesTo with several types, contexts) '
                   'compared through the public Schema API and by validating probe policies; both printers round-tripped']
    ctx.assumptions += ['Path -> RawName, annotations, source locations and the error constructors are opaque tokens; NonEmpty is modelled as head + tail; BTreeMap::from_iter keeps every entry',
                        'NOT decided - most of C09: both parsers (LALRPOP / serde), name resolution and common-type inlining after the translation (ValidatorSchema construction), the JSON -> Cedar printer (fmt.rs), namespaces, enumerated entity declarations and action declarations as a whole '
                        '(convert_action_decl / convert_namespace); those are sampled by the native battery only']
    return ctx.finish('Solver-decided translation of parts of Cedar-syntax schema declarations into the JSON schema data model (to_json_schema.rs executed from the MIR): the appliesTo clause as a state machine over all part sequences of length <= 3, '
                      'type expressions, attribute declarations, context declarations, standard entity declarations. A narrow slice of C09.')
