"""helpers shared by the property modules"""
import z3
from ..executor import IntV, BoolV, Agg, Opaque, Ref, NotEncoded
from ..framework import MachineryError


def flat(ex, o_or_val, st=None):
    """(tag, [leaf terms]) of a returned value: tag = outermost enum variant (or 'val'); leaves = scalar terms in order"""
    v = o_or_val.val if hasattr(o_or_val, 'val') else o_or_val
    st = st or getattr(o_or_val, 'st', None)
    tag = v.variant if isinstance(v, Agg) and v.variant else 'val'
    leaves = []

    def walk(x):
        if isinstance(x, IntV):
            leaves.append(x.t)
        elif isinstance(x, BoolV):
            leaves.append(x.t)
        elif isinstance(x, Agg):
            for f in x.fields:
                walk(f)
        elif isinstance(x, Ref) and st is not None:
            walk(ex.read(st, x.fid, x.place))
        elif isinstance(x, Opaque):
            leaves.append(('opaque', x))
        elif x is None:
            pass
        else:
            leaves.append(('other', x))
    walk(v)
    return tag, leaves


def scalars_only(tag_leaves):
    tag, leaves = tag_leaves
    return tag, [l for l in leaves if isinstance(l, z3.ExprRef)]


def eval_long(native, expr):
    """evaluate a Cedar expression natively; ('Some',[n]) for a long, ('Bool',[b]), ('None',[]) for an evaluation error"""
    a = native.ask({'op': 'eval', 'expr': expr})
    if 'panic' in a:
        return 'panic', []
    if 'ok' in a:
        k = a['ok']['kind']
        if k == 'long':
            return 'Some', [int(a['ok']['v'])]
        if k == 'bool':
            return 'Bool', [bool(a['ok']['v'])]
        return 'Other', [a['ok']['v']]
    if 'err' in a:
        if a['err'] in ('FailedExtensionFunctionExecution', 'IntegerOverflow'):
            return 'None', []
        return 'Err:' + a['err'], []
    raise MachineryError(f'native eval of {expr!r}: {a}')


EPOCH = 'datetime("1970-01-01")'


def dt(e):
    return f'{EPOCH}.offset(duration("{e}ms"))'


def dur(ms):
    return f'duration("{ms}ms")'


def epoch_of(x):
    return f'({x}).durationSince({EPOCH}).toMilliseconds()'


# ------------------------------------------------------------------ symbolic cedar Values

KINDS = ['bool', 'long', 'string', 'entity', 'set', 'record', 'ext']
KIND_NATIVE = {'bool': 'bool', 'long': 'long', 'string': 'string', 'entity': 'entity', 'set': 'set', 'record': 'record',
               'ipaddr': 'ext', 'decimal': 'ext', 'datetime': 'ext', 'duration': 'ext'}


class SymValue:
    """an arbitrary `ast::value::Value`: opaque struct whose `value: ValueKind` field, the `Literal` inside and the
    bool / long payloads are lazily created symbolic terms.  `code` is the Cedar type of the value as an index into KINDS."""

    def __init__(s, ex, name, v=None):
        s.ex, s.name = ex, name
        s.v = v if v is not None else Opaque('ast::value::Value', name)
        s.vk = ex.opaque_field(s.v, None, 0, 'ast::value::ValueKind')
        s.vk_disc = ex.disc_term(s.vk)
        s.lit = ex.opaque_field(s.vk, 'Lit', 0, 'ast::literal::Literal')
        s.lit_disc = ex.disc_term(s.lit)
        s.b = ex.opaque_field(s.lit, 'Bool', 0, 'bool').t
        s.n = ex.opaque_field(s.lit, 'Long', 0, 'i64').t
        VK = ex.variants_of('ast::value::ValueKind')
        LT = ex.variants_of('ast::literal::Literal')
        if VK is None or LT is None or set(VK) != {'Lit', 'Set', 'Record', 'ExtensionValue'} or set(LT) != {'Bool', 'Long', 'String', 'EntityUID'}:
            raise NotEncoded(f'ValueKind / Literal variants changed: {VK} {LT}')
        s.VK, s.LT = VK, LT
        is_lit = s.vk_disc == VK['Lit']
        s.code = z3.If(is_lit, z3.If(s.lit_disc == LT['Bool'], 0, z3.If(s.lit_disc == LT['Long'], 1, z3.If(s.lit_disc == LT['String'], 2, 3))),
                       z3.If(s.vk_disc == VK['Set'], 4, z3.If(s.vk_disc == VK['Record'], 5, 6)))

    def ins(s, prefix):
        return {f'{prefix}_kind': s.code, f'{prefix}_b': s.b, f'{prefix}_n': s.n}

    @staticmethod
    def input_decl(prefix):
        return [(f'{prefix}_kind', 'u8'), (f'{prefix}_b', 'bool'), (f'{prefix}_n', 'i64')]


def cedar_value(kind, b, n, empty_set=False):
    """Cedar expression text for a concrete value of the given kind code"""
    k = KINDS[kind]
    if k == 'bool':
        return 'true' if b else 'false'
    if k == 'long':
        return f'({n})' if n < 0 else str(n)
    return {'string': '"s"', 'entity': 'User::"alice"', 'set': '[]' if empty_set else '[1]', 'record': '{a: 1}', 'ext': 'ip("1.2.3.4")'}[k]


def gen_value(rand, prefix, boundary):
    k = rand.choice([0, 1, 1, 1, 2, 3, 4, 5, 6])
    return {f'{prefix}_kind': k, f'{prefix}_b': rand.random() < 0.5, f'{prefix}_n': rand.choice(boundary) if rand.random() < 0.7 else rand.randint(-(1 << 63), (1 << 63) - 1)}


def classify_eval(a):
    """native answer of the eval op -> (tag, vals) in the vocabulary of the operator specifications"""
    if 'panic' in a:
        return 'panic', []
    if 'ok' in a:
        k = a['ok']['kind']
        if k == 'long':
            return 'OkLong', [int(a['ok']['v'])]
        if k == 'bool':
            return 'OkBool', [bool(a['ok']['v'])]
        return 'OkOther', [k]
    if a.get('err') == 'IntegerOverflow':
        return 'Overflow', []
    if a.get('err') == 'TypeError':
        import re
        m = re.match(r'^type error: expected (.*?), got \(?(\w+)', a.get('msg', ''))
        if m:
            exp = m.group(1)
            return 'TypeError', [exp, KINDS.index(KIND_NATIVE.get(m.group(2), 'ext'))]
        return 'TypeError', [a.get('msg', ''), -1]
    if 'err' in a:
        return 'Err:' + a['err'], []
    raise MachineryError(f'native answer {a}')
