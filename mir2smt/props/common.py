"""helpers shared by the property modules"""
import z3
from ..executor import IntV, BoolV, Agg, Opaque, Ref, NotEncoded
from ..framework import MachineryError


def flat(ex, o_or_val, st=None):
    """(tag, [leaf terms]) of a returned value: tag = outermost enum variant (or 'val'); leaves = scalar terms in order"""
    v = o_or_val.val if hasattr(o_or_val, 'val') else o_or_val
    st = st or getattr(o_or_val, 'st', None)
    tag = v.variant if isinstance(v, Agg) and v.variant else 'val'
    leaves = []

    def walk(x):
        if isinstance(x, IntV):
            leaves.append(x.t)
        elif isinstance(x, BoolV):
            leaves.append(x.t)
        elif isinstance(x, Agg):
            for f in x.fields:
                walk(f)
        elif isinstance(x, Ref) and st is not None:
            walk(ex.read(st, x.fid, x.place))
        elif isinstance(x, Opaque):
            leaves.append(('opaque', x))
        elif x is None:
            pass
        else:
            leaves.append(('other', x))
    walk(v)
    return tag, leaves


def scalars_only(tag_leaves):
    tag, leaves = tag_leaves
    return tag, [l for l in leaves if isinstance(l, z3.ExprRef)]


def eval_long(native, expr):
    """evaluate a Cedar expression natively; ('Some',[n]) for a long, ('Bool',[b]), ('None',[]) for an evaluation error"""
    a = native.ask({'op': 'eval', 'expr': expr})
    if 'panic' in a:
        return 'panic', []
    if 'ok' in a:
        k = a['ok']['kind']
        if k == 'long':
            return 'Some', [int(a['ok']['v'])]
        if k == 'bool':
            return 'Bool', [bool(a['ok']['v'])]
        return 'Other', [a['ok']['v']]
    if 'err' in a:
        if a['err'] in ('FailedExtensionFunctionExecution', 'IntegerOverflow'):
            return 'None', []
        return 'Err:' + a['err'], []
    raise MachineryError(f'native eval of {expr!r}: {a}')


EPOCH = 'datetime("1970-01-01")'


def dt(e):
    return f'{EPOCH}.offset(duration("{e}ms"))'


def dur(ms):
    return f'duration("{ms}ms")'


def epoch_of(x):
    return f'({x}).durationSince({EPOCH}).toMilliseconds()'
