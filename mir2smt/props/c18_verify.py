"""C18, verification conditions on literal terms - cedar-policy-symcc/src/symccopt/verifier.rs (and the factory functions they call, executed from the symcc dump).
On a literal symbolic environment a compiled policy is one of the literal terms none / some(true) / some(false) ("errors", "matches", "does not match") and a compiled
policy set is true / false ("allow" / "deny").  For every assert builder and every such valuation (the booleans inside are symbolic: the solver decides) the returned
asserts are literal booleans - they "reduce to constants" - and their conjunction is the NEGATION of what the builder's name promises:
  never_errors: errors;  always_matches: not matches;  never_matches: matches;  matches_equivalent / implies / disjoint: the pair of `matches` violates the relation;
  always_allows: deny;  always_denies: allow;  implies / equivalent / disjoint on policy sets: the pair of decisions violates the relation.
The well-formedness asserts of the environment (enforce_*) are an environment stub returning no asserts."""
import itertools
import z3
from ..executor import IntV, BoolV, Agg, Opaque, Ref, NotEncoded, UNIT
from ..models import ok, err, some, none
from .. import containers as C

T, F = z3.BoolVal(True), z3.BoolVal(False)
FILE = 'cedar-policy-symcc/src/symccopt/verifier.rs'
TERM, PRIM, TTY = 'symcc::term::Term', 'symcc::term::TermPrim', 'symcc::term_type::TermType'


def arc(x):
    return Agg('struct', 'Arc', None, [x], ('inner',))


def lit_bool(b):
    return Agg('variant', TERM, 'Prim', [Agg('variant', PRIM, 'Bool', [BoolV(b)])])


def policy_term(shape, b):
    """none : option bool   |   some(b)"""
    if shape == 'none':
        return Agg('variant', TERM, 'None', [Agg('variant', TTY, 'Bool', [])])
    return Agg('variant', TERM, 'Some', [arc(lit_bool(b))])


def strip(ex, st, v, n=12):
    while n > 0:
        n -= 1
        if isinstance(v, Ref):
            v = ex.read(st, v.fid, v.place)
        elif isinstance(v, Agg) and v.name in ('Arc', 'Box') and len(v.fields) == 1:
            v = v.fields[0]
        else:
            break
    return v


def as_lit(ex, st, t):
    """z3 value of a literal boolean Term, or None"""
    t = strip(ex, st, t)
    if isinstance(t, Agg) and t.variant == 'Prim':
        p = strip(ex, st, t.fields[0])
        if isinstance(p, Agg) and p.variant == 'Bool' and isinstance(strip(ex, st, p.fields[0]), BoolV):
            return strip(ex, st, p.fields[0]).t
    return None


def compiled(kind, term):
    """CompiledPolicy / CompiledPolicySet: only `term` (field 0) and `symenv` (field 1) are read"""
    return Opaque(f'symccopt::compiled_policies::{kind}', kind).with_over((None, 0), term).with_over((None, 1), Opaque('symcc::env::SymEnv', 'the literal environment'))


def mk(ctx):
    ex = ctx.new_exec('symcc')
    ex.havoc_unknown = True
    ex.max_paths = 4000
    ex.stub(r'(^|::)enforce_(pair_)?compiled_polic(y|ies|yset)$', lambda ex_, st, c, A: Agg('struct', '~vec', None, []), 'well-formedness asserts of the environment: none (they are constants on a literal environment; C18 compile obligations are outside)')
    ex.stub(r'SymEnv as PartialEq>::(eq|ne)$', lambda ex_, st, c, A: BoolV(z3.BoolVal(c.endswith('::eq'))), 'both sides were compiled for the same environment (precondition of the pair builders)')
    ex.stub(r'SymEnv as Clone>::clone$', lambda ex_, st, c, A: strip(ex_, st, A[0]), 'SymEnv::clone')
    ex.stub(r'allow_all_pset$|PolicySet::new$|BTreeSet::<.*>::new$', lambda ex_, st, c, A: Opaque('opaque', 'unused component of allow_all / deny_all'), 'components of allow_all / deny_all that the builders do not read')

    ex.stub(r'<(std::collections::)?BTreeSet<.*> as IntoIterator>::into_iter$', lambda ex_, st, c, A: (lambda v: Agg('struct', '~vec_iter', None, list(v.fields)) if isinstance(v, Agg) and v.name == '~vec' else None)(strip(ex_, st, A[0])),
            'BTreeSet::into_iter on the (empty) set of well-formedness asserts')

    def chain(ex_, st, c, A):
        a, b = strip(ex_, st, A[0]), strip(ex_, st, A[1])
        if isinstance(a, Agg) and a.name in ('~vec_iter', '~vec') and isinstance(b, Agg) and b.name in ('~vec_iter', '~vec'):
            return Agg('struct', '~vec_iter', None, list(a.fields) + list(b.fields))
        return None
    ex.stub(r' as Iterator>::chain::<', chain, 'Iterator::chain on concrete sequences')
    ex.stub(r'^((std|core)::iter::)?once::<', lambda ex_, st, c, A: Agg('struct', '~vec_iter', None, [A[0]]), 'iter::once')
    C.install(ex)
    return ex


def asserts_of(ex, o):
    v = strip(ex, o.st, o.val)
    if isinstance(v, Agg) and v.name in ('~vec', '~vec_iter', '~cset', '~collected'):
        return list(v.fields)
    raise NotEncoded(f'asserts {v!r}')


def run_builder(ctx, fname, args, heap, nm, neg_phi, pre, battery):
    P = ctx.prog('symcc')
    fs = [f for f in P.find(rf'(^|::){fname}$', FILE) if len(f.args) == len(args) and '{closure' not in f.name]
    if len(fs) != 1:
        raise LookupError(f'{fname}: {len(fs)} candidates')
    f = fs[0]
    ctx.use(f)
    ex = mk(ctx)
    outs = ex.run(f, args, heap=heap, pre=list(pre))
    ctx.absorb(ex)
    ctx.panic_summary(nm, outs, ex, list(pre))
    rets = [o for o in outs if o.kind == 'ret']
    bad = []
    for o in rets:
        lits = [as_lit(ex, o.st, a) for a in asserts_of(ex, o)]
        if any(l is None for l in lits) or not lits:
            bad.append(z3.And(o.pc) if o.pc else T)          # not reduced to constants
        else:
            bad.append(z3.And(o.pc + [z3.And(lits) != neg_phi]))
    ctx.decide(f'{nm}/the asserts are constants and hold exactly when the condition is violated', list(pre) + [z3.Or(bad) if bad else T], ex=ex, sample={'paths': len(rets)},
               on_sat=lambda m: battery(ctx, nm, f'symccopt/verifier.rs: {fname}', 'the verification condition does not say what evaluation does on a literal environment'))
    ctx.decide(f'{nm}/paths-cover', list(pre) + [z3.Not(z3.Or([z3.And(o.pc) if o.pc else T for o in rets] or [F]))], ex=ex)
    ctx.decide(f'{nm}/witness', list(pre) + [z3.Or([z3.And(o.pc) if o.pc else T for o in rets] or [F])], expect='sat', ex=ex)


def single_policy(ctx, battery):
    for fname, neg in (('verify_never_errors_opt', lambda e, m: e), ('verify_always_matches_opt', lambda e, m: z3.Not(m)), ('verify_never_matches_opt', lambda e, m: m)):
        for shape in ('none', 'some'):
            b = z3.Bool('b')
            t = policy_term(shape, b)
            e, m = z3.BoolVal(shape == 'none'), (b if shape == 'some' else F)
            run_builder(ctx, fname, [Ref(0, ('local', 'P'))], {'P': compiled('CompiledPolicy', t)}, f'{fname}[policy term {"none" if shape == "none" else "some(b)"}]', neg(e, m), [], battery)


def policy_pair(ctx, battery):
    rel = {'verify_matches_equivalent_opt': lambda a, b: a == b, 'verify_matches_implies_opt': lambda a, b: z3.Implies(a, b), 'verify_matches_disjoint_opt': lambda a, b: z3.Not(z3.And(a, b))}
    for fname, phi in rel.items():
        for s1, s2 in itertools.product(('none', 'some'), repeat=2):
            b1, b2 = z3.Bool('b1'), z3.Bool('b2')
            m1, m2 = (b1 if s1 == 'some' else F), (b2 if s2 == 'some' else F)
            heap = {'P1': compiled('CompiledPolicy', policy_term(s1, b1)), 'P2': compiled('CompiledPolicy', policy_term(s2, b2))}
            run_builder(ctx, fname, [Ref(0, ('local', 'P1')), Ref(0, ('local', 'P2'))], heap, f'{fname}[{s1}, {s2}]', z3.Not(phi(m1, m2)), [], battery)


def policy_sets(ctx, battery):
    d1, d2 = z3.Bool('allow1'), z3.Bool('allow2')
    rel = {'verify_implies_opt': lambda a, b: z3.Implies(a, b), 'verify_equivalent_opt': lambda a, b: a == b, 'verify_disjoint_opt': lambda a, b: z3.Not(z3.And(a, b))}
    for fname, phi in rel.items():
        heap = {'S1': compiled('CompiledPolicySet', lit_bool(d1)), 'S2': compiled('CompiledPolicySet', lit_bool(d2))}
        run_builder(ctx, fname, [Ref(0, ('local', 'S1')), Ref(0, ('local', 'S2'))], heap, f'{fname}[decisions symbolic]', z3.Not(phi(d1, d2)), [], battery)
    for fname, neg in (('verify_always_allows_opt', z3.Not(d1)), ('verify_always_denies_opt', d1)):
        run_builder(ctx, fname, [Ref(0, ('local', 'S1'))], {'S1': compiled('CompiledPolicySet', lit_bool(d1))}, f'{fname}[decision symbolic]', neg, [], battery)


# ---------------------------------------------------------------------------------------------------------------- native battery

L_SCHEMA = 'entity Group; entity User in [Group] { level: Long, nick?: String }; entity Doc { owner: User }; action view appliesTo { principal: [User], resource: [Doc], context: { x: Long, y: Long, when: datetime } };'
L_ENTS = [{'uid': {'type': 'User', 'id': 'alice'}, 'attrs': {'level': 3, 'nick': 'al'}, 'parents': [{'type': 'Group', 'id': 'g'}]}, {'uid': {'type': 'User', 'id': 'bob'}, 'attrs': {'level': 1}, 'parents': []},
          {'uid': {'type': 'Group', 'id': 'g'}, 'attrs': {}, 'parents': []}, {'uid': {'type': 'Doc', 'id': 'd'}, 'attrs': {'owner': {'__entity': {'type': 'User', 'id': 'alice'}}}, 'parents': []}]
L_POLICIES = ['permit(principal, action, resource) when { context.x + context.y > 0 };', 'permit(principal, action, resource) when { context.x * context.y < 100 };',
              'permit(principal, action, resource) when { context.when.offset(duration("1d")) > context.when };', 'permit(principal in Group::"g", action, resource) when { resource.owner == principal };',
              'forbid(principal, action, resource) when { principal.level < 2 };', 'permit(principal, action, resource) when { principal has nick && principal.nick like "a*" };',
              'forbid(principal, action, resource) when { context.x - context.y < 0 };', 'permit(principal, action, resource) unless { principal.level * context.x > 10 };']
L_WORLDS = [('alice', 1, 2), ('alice', -5, 2), ('bob', 0, 0), ('alice', 9223372036854775807, 1), ('bob', -9223372036854775808, 2), ('bob', 20, 20), ('alice', 9223372036854775807, 9223372036854775807)]


def literal_cases():
    out = []
    for u, x, y in L_WORLDS:
        ctxj = '{"x": %d, "y": %d, "when": {"__extn": {"fn": "datetime", "arg": "2024-02-29"}}}' % (x, y)
        for i, p1 in enumerate(L_POLICIES):
            p2 = L_POLICIES[(i + 3) % len(L_POLICIES)]
            out.append({'op': 'symcc_literal', 'schema': L_SCHEMA, 'principal': f'User::"{u}"', 'action': 'Action::"view"', 'resource': 'Doc::"d"', 'context': ctxj, 'entities': __import__('json').dumps(L_ENTS), 'policy1': p1, 'policy2': p2})
    return out


def literal_battery(ctx, name, role, why):
    """every verification condition on the literal environment of a concrete request / store vs the concrete authorizer (public API of cedar-policy-symcc, no solver)"""
    from ..framework import Native
    cache = ctx.__dict__.setdefault('_c18_literal_battery', {})
    if 'r' not in cache:
        cache['r'] = None
        nat = Native('dev', ctx.log, crate='replay-symcc', binname='verif-replay-symcc')
        try:
            n = 0
            for q in literal_cases():
                a = nat.ask(q)
                if 'holds' not in a:
                    return ctx.mismatch(name, f'symcc_literal probe: {str(a)[:300]}')
                c, h = a['concrete'], a['holds']
                # a single permit / forbid policy is satisfied iff it decides: permit -> Allow, forbid -> not errors and ... : use the policy-set conditions for decisions and errors for never_errors
                sat1 = (c['allow1'] if c['permit1'] else None)
                want = {'never_errors': not c['errors1'], 'always_allows': c['allow1'], 'always_denies': not c['allow1'], 'implies': (not c['allow1']) or c['allow2'], 'equivalent': c['allow1'] == c['allow2'],
                        'disjoint': not (c['allow1'] and c['allow2'])}
                if sat1 is not None:
                    want.update({'always_matches': sat1, 'never_matches': not sat1})
                    if c['permit2']:
                        want.update({'matches_equivalent': sat1 == c['allow2'], 'matches_implies': (not sat1) or c['allow2'], 'matches_disjoint': not (sat1 and c['allow2'])})
                n += 1
                for k, w in want.items():
                    if h.get(k) is None or h[k] != w:
                        cache['r'] = (f'policy `{q["policy1"]}`' + (f' / `{q["policy2"]}`' if k in ('implies', 'equivalent', 'disjoint') or k.startswith('matches_') else '') + f' on request {q["principal"]} with context {q["context"][:40]}...: '
                                      f'`{k}` {"did not reduce to constants" if h.get(k) is None else ("holds" if h[k] else "is refuted")} on the literal environment, concrete evaluation says it {"holds" if w else "does not hold"} (concrete: {c})', q)
                        break
                if cache['r']:
                    break
            cache['n'] = n
        finally:
            nat.close()
    if cache['r']:
        return ctx.violation(name, role, f'{why}; natively: {cache["r"][0]}', cache['r'][1])
    return ('unreplayed', f'{why}; but the {cache.get("n", 0)} literal-environment comparisons of the battery agree with the concrete authorizer')


def families(ctx, battery=literal_battery):
    return [('verify builders: one policy', lambda: single_policy(ctx, battery)), ('verify builders: policy pairs', lambda: policy_pair(ctx, battery)), ('verify builders: policy sets', lambda: policy_sets(ctx, battery))]
