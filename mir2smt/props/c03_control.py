"""C03, second slice - the short-circuiting nodes `&&`, `||`, `if` of SingleEnvTypechecker::typecheck: which branches are typechecked at all, under which capabilities
(the `has` facts a branch may rely on), which type the node gets and which capability it passes on.  These rules are where validation soundness is subtle: a branch
that is skipped because the guard has a singleton type is not typechecked, and a capability handed to the wrong branch lets an unguarded optional-attribute access
through.

One run of `typecheck` per node kind from the MIR; the recursive `typecheck` of each child answers accepted / rejected with a type of one of the eleven kinds and a
capability set.  Capability sets are modelled pointwise: for ONE arbitrary `has` fact, a set is the boolean "the fact is in the set"; union is `or`, intersection is
`and`, the empty set is `false`.  Since union and intersection act pointwise, a claim proved for one arbitrary fact holds for the sets.

Reference semantics (evaluation, C02): `l && r` evaluates r only when l is true; `l || r` evaluates r only when l is false; `if c then a else b` evaluates exactly one
branch.  A fact may be assumed for a child only if it holds whenever that child is evaluated; a fact may be passed on only if it holds whenever the node is true.
Claims per node:
  (a) SOUND: accepted only if every child that CAN be evaluated (given the singleton types of the guards) was typechecked and accepted with a boolean type
      (guards / operands of && ||);
  (b) CAPABILITY IN: a child is typechecked under facts that hold whenever it is evaluated: the prior facts, plus the guard's facts exactly for the branch that is
      evaluated when the guard is true (right operand of &&, then-branch);
  (c) CAPABILITY OUT: the facts passed on hold whenever the node evaluates to true (a node of type False never does);
  (d) TYPE: the annotated type contains every value the node can have (singleton types only when the value is determined; for `if` the type of the only live
      branch or the least upper bound of both);
  (e) NOT SILENT and witnesses as for the operators."""
import itertools
import z3
from ..executor import IntV, BoolV, Agg, Opaque, Ref, NotEncoded, UNIT
from ..models import ok, err, some, none
from .. import containers as C
from .c06 import ast_expr, arc, EK
from .c03 import KINDS, BASE_KINDS, mk_type, strip, kind_of, TY, BT, FILE

T, F = z3.BoolVal(True), z3.BoolVal(False)
TA = 'validator::typecheck::typecheck_answer::TypecheckAnswer'
BOOLK = ('True', 'False', 'Bool')


def cap(term):
    return Agg('struct', '~cap', None, [BoolV(term)])


def cap_term(ex, st, v):
    v = strip(ex, st, v)
    if isinstance(v, Agg) and v.name == '~cap':
        return v.fields[0].t
    raise NotEncoded(f'capability set {v!r}')


def control_node(ctx, label, build, nkids, spec, battery, kidkinds=None, extra=None, accept_when=None, why=None, fname='typecheck', nargs=4, extra_args=None):
    """spec(kinds, okc, CL, PRIOR) -> dict(evaluated=[bool per child: can be evaluated given the guard kinds], capin=[z3 upper bound per child], capout=z3 upper bound,
    values=set of possible boolean value kinds or ('child', i) / ('lub',))"""
    P = ctx.prog('core')
    f = P.method(FILE, fname, nargs=nargs)
    ctx.use(f)
    names = {'ExtCmp': Opaque('ast::name::Name', 'a comparable extension type (datetime)'), 'ExtOther': Opaque('ast::name::Name', 'another extension type')}
    kids = [Opaque('ast::expr::Expr', f'child{i}') for i in range(nkids)]
    this = ast_expr(build([arc(k) for k in kids]))
    ex = ctx.new_exec('core')
    ex.havoc_unknown = True
    ex.max_paths = 60000
    ex.max_steps = 20_000_000
    K = [z3.Int(f'kind_of_child{i}') for i in range(nkids)]
    OKC = [z3.Bool(f'child{i}_typechecks') for i in range(nkids)]
    CL = [z3.Bool(f'fact_in_capability_of_child{i}') for i in range(nkids)]
    PRIOR, LUB = z3.Bool('fact_in_prior_capability'), z3.Bool('branch_types_have_a_least_upper_bound')
    kidkinds = kidkinds or [BASE_KINDS] * nkids
    pre = [z3.Or([k == KINDS.index(kn) for kn in kidkinds[i]]) for i, k in enumerate(K)]
    typed = [[Agg('struct', '~typed', None, [some(mk_type(kn, names)), Opaque('child', f'typed child{i}')]) for kn in KINDS] for i in range(nkids)]
    kidx = {k.id: i for i, k in enumerate(kids)}
    gid = lambda ex_, st, v: getattr(strip(ex_, st, v), 'id', None)
    LUBTY = Agg('variant', TY, 'ExtensionType', [Opaque('ast::name::Name', 'the least upper bound of the branch types')], ('name',))

    # harness-specific stubs first: the first registered matching stub wins
    env = {'K': K, 'OKC': OKC, 'CL': CL, 'PRIOR': PRIOR, 'names': names, 'gid': gid, 'kids': kids, 'kidx': kidx, 'pre': pre, 'ctx': ctx}
    if extra:
        extra(ex, env)

    def typecheck(ex_, st, c, A):
        i = kidx.get(gid(ex_, st, A[2]))
        if i is None:
            return None
        st.notes['visited'] = st.notes.get('visited', []) + [i]
        ci = dict(st.notes.get('capin', {}))
        ci[i] = cap_term(ex_, st, A[1])
        st.notes['capin'] = ci
        alts = []

        def note(j):
            def go(s2):
                kd = dict(s2.notes.get('kind', {}))
                kd[i] = j
                s2.notes['kind'] = kd
            return go
        for j, kn in enumerate(KINDS):
            if kn not in kidkinds[i]:
                continue
            alts.append(([K[i] == j, OKC[i]], Agg('variant', TA, 'TypecheckSuccess', [typed[i][j], cap(CL[i])], ('expr_type', 'expr_capability')), note(j)))
            alts.append(([K[i] == j, z3.Not(OKC[i])], Agg('variant', TA, 'TypecheckFail', [typed[i][j]], ('expr_recovery_type',)), note(j)))
        return alts
    ex.stub(r'Typechecker::<.*>::typecheck$|Typechecker::typecheck$', typecheck, 'recursive typecheck of child i: accepted or rejected, with a type of one of the kinds ' + ', '.join(KINDS) + ' and a capability set; the capability it is called with is recorded')
    ex.stub(r'remaining_stack$', lambda ex_, st, c, A: none(), 'stacker::remaining_stack: unknown (enough stack)')
    ex.stub(r'Expr::<.*>::expr_kind$|Expr::expr_kind$', lambda ex_, st, c, A: (lambda r: Ref(r.fid, ('field', r.place, 0, 'expr_kind')))(C.base_ref(ex_, st, A[0])) if gid(ex_, st, A[0]) is None else None, 'Expr::expr_kind of the node')

    def data(ex_, st, c, A):
        v = strip(ex_, st, A[0])
        if isinstance(v, Agg) and v.name == '~typed':
            return ex_.new_cell(st, v.fields[0], 'data')
        return None
    ex.stub(r'Expr::<.*>::data$', data, 'Expr::data of a typed expression: its type annotation')
    ex.stub(r'Expr::<.*>::source_loc$|Expr::source_loc$', lambda ex_, st, c, A: ex_.new_cell(st, none(), 'loc'), 'source location (none)')
    ex.stub(r'Option::<&(loc::)?Loc>::cloned$|Option::<(loc::)?Loc>::clone', lambda ex_, st, c, A: none(), 'no source location')
    ex.stub(r'Expr::<.*>::with_maybe_source_loc$', lambda ex_, st, c, A: strip(ex_, st, A[0]), 'with_maybe_source_loc keeps the typed expression')
    ex.stub(r'ExprBuilder::<.*>::with_data$', lambda ex_, st, c, A: Agg('struct', '~builder', None, [A[0]]), 'ExprBuilder::with_data(annotation)')
    ex.stub(r'ExprBuilder::<.*>::with_same_source_loc::<', lambda ex_, st, c, A: A[0], 'with_same_source_loc')
    ex.stub(r'ExprBuilder<.*> as (expr_builder::)?ExprBuilder>::(and|or|ite)$|ExprBuilder::<.*>::(and|or|ite)$',
            lambda ex_, st, c, A: (lambda b: Agg('struct', '~typed', None, [b.fields[0], Agg('struct', '~kids', None, [strip(ex_, st, a) for a in A[1:] if isinstance(strip(ex_, st, a), Agg) and strip(ex_, st, a).name == '~typed'])]) if isinstance(b, Agg) and b.name == '~builder' else None)(strip(ex_, st, A[0])), 'typed node built with the annotation of the builder')
    ex.stub(r'Expr<.*> as Clone>::clone$', lambda ex_, st, c, A: strip(ex_, st, A[0]), 'clone of a typed expression')

    def err_push(ex_, st, c, A):
        st.notes['errors'] = st.notes.get('errors', 0) + 1
        return UNIT
    ex.stub(r'Vec::<.*ValidationError>::push$', err_push, 'type_errors.push: counted')
    ex.stub(r'ValidationError::\w+$', lambda ex_, st, c, A: Opaque('ValidationError', 'a type error'), 'ValidationError constructors (term)')

    def lub(ex_, st, c, A):
        def rej(s2):
            s2.notes['errors'] = s2.notes.get('errors', 0) + 1
        return [([LUB], some(LUBTY)), ([z3.Not(LUB)], none(), rej)]
    ex.stub(r'Typechecker::<.*>::least_upper_bound_or_error(::<.*>)?$|Typechecker::least_upper_bound_or_error(::<.*>)?$', lub, 'least_upper_bound_or_error: a least upper bound of the branch types, or none with a reported error')
    ex.stub(r'CapabilitySet::<.*>::new$|CapabilitySet::new$', lambda ex_, st, c, A: cap(F), 'CapabilitySet::new: the empty set')
    ex.stub(r'CapabilitySet::<.*>::union$|CapabilitySet::union$', lambda ex_, st, c, A: cap(z3.Or(cap_term(ex_, st, A[0]), cap_term(ex_, st, A[1]))), 'CapabilitySet::union, pointwise')
    ex.stub(r'CapabilitySet::<.*>::intersect$|CapabilitySet::intersect$', lambda ex_, st, c, A: cap(z3.And(cap_term(ex_, st, A[0]), cap_term(ex_, st, A[1]))), 'CapabilitySet::intersect, pointwise')
    ex.stub(r'CapabilitySet<.*> as Clone>::clone$', lambda ex_, st, c, A: strip(ex_, st, A[0]), 'CapabilitySet::clone')
    ex.stub(r'PolicyID as Clone>::clone$', lambda ex_, st, c, A: Opaque('PolicyID', 'policy id'), 'PolicyID::clone')
    ex.stub(r'(name::)?Name as PartialEq>::(eq|ne)$', lambda ex_, st, c, A: BoolV(z3.BoolVal((gid(ex_, st, A[0]) == gid(ex_, st, A[1])) == c.endswith('::eq'))), 'Name equality (distinct opaque names differ)')
    C.install(ex)
    heap = {'TC': Opaque('validator::typecheck::SingleEnvTypechecker', 'the typechecker'), 'CAP': cap(PRIOR), 'THIS': this, 'ERRS': Opaque('Vec<ValidationError>', 'type errors so far')}
    if extra_args:
        more = extra_args(kids, heap)
    else:
        more = []
    outs = ex.run(f, [Ref(0, ('local', 'TC')), Ref(0, ('local', 'CAP')), Ref(0, ('local', 'THIS'))] + more + [Ref(0, ('local', 'ERRS'))], heap=heap, pre=pre)
    ctx.absorb(ex)
    nm = f'typing rule of {label}'
    ctx.panic_summary(nm, outs, ex, pre)
    rets = [o for o in outs if o.kind == 'ret']
    unsound, badin, badout, wrongty, silent, acc, rej, dropped = [], [], [], [], [], [], [], []

    def tokens(v, st, depth=8):
        v = strip(ex, st, v)
        out = set()
        if isinstance(v, Opaque):
            out.add(v.what)
        elif isinstance(v, Agg) and depth > 0:
            for x in v.fields:
                out |= tokens(x, st, depth - 1)
        return out
    for o in rets:
        v = strip(ex, o.st, o.val)
        if not (isinstance(v, Agg) and v.variant in ('TypecheckSuccess', 'TypecheckFail', 'RecursionLimit')):
            raise NotEncoded(f'{nm}: answer {v!r}')
        visited = set(o.st.notes.get('visited', []))
        capin = o.st.notes.get('capin', {})
        pc = z3.And(o.pc) if o.pc else T
        fixed = o.st.notes.get('kind', {})
        for combo in itertools.product(*[[fixed[i]] if i in fixed else [KINDS.index(kn) for kn in kidkinds[i]] for i in range(nkids)]):
            cond = z3.And([K[i] == combo[i] for i in range(nkids) if i not in fixed] or [T])
            kinds = [KINDS[j] for j in combo]
            s = spec(kinds, CL, PRIOR, notes=o.st.notes, env=env)
            here = z3.And(pc, cond)
            # (b) whatever child was typechecked, the fact is assumed for it only when allowed
            for i in visited:
                badin.append(z3.And(here, capin[i], z3.Not(s['capin'][i])))
            if v.variant == 'TypecheckSuccess':
                need = [z3.And(OKC[i], z3.BoolVal(kinds[i] in s['kinds_ok'][i])) if i in visited else F for i in range(nkids) if s['evaluated'][i]]
                unsound.append(z3.And(here, z3.Not(z3.And(need + [s.get('sound_extra', T)]))))
                if __import__('os').environ.get('C03_DEBUG') and (lambda sv: (sv.add(pre + [unsound[-1]]), sv.check())[1] == z3.sat)(z3.Solver()):
                    print('UNSOUND', kinds, sorted(visited), [str(x) for x in o.pc][-6:], dict(o.st.notes).get('action_route'))
                te = strip(ex, o.st, v.fields[0])
                tyv = strip(ex, o.st, te.fields[0]) if isinstance(te, Agg) and te.name == '~typed' else (strip(ex, o.st, te.fields[2]) if isinstance(te, Agg) and len(te.fields) == 3 else None)
                if not (isinstance(tyv, Agg) and tyv.variant in ('Some', 'None')):
                    raise NotEncoded(f'{nm}: annotation of the accepted node {te!r}')
                if tyv.variant == 'Some':
                    t = strip(ex, o.st, tyv.fields[0])
                    rk = 'LUB' if (isinstance(t, Agg) and t.variant == 'ExtensionType' and gid(ex, o.st, t.fields[0]) == LUBTY.fields[0].id) else kind_of(ex, o.st, t, names)
                else:
                    rk = None
                wrongty.append(z3.And(here, z3.Not(s['type_ok'](rk)) if 'type_ok' in s else z3.BoolVal(rk not in s['types'])))
                if 'types' in s and rk not in s['types'] and __import__('os').environ.get('C03_DEBUG'):
                    print('WRONGTY', kinds, rk, s['types'], sorted(visited), [str(x) for x in o.pc if 'least' in str(x) or 'havoc' in str(x)], o.st.notes.get('errors'))
                badout.append(z3.And(here, cap_term(ex, o.st, v.fields[1]), z3.Not(s['capout'])))
                # the typed AST handed on (to the level checker, the entity-manifest analysis) contains every child evaluation can reach
                have = tokens(v.fields[0], o.st)
                if True:
                    dropped.append(z3.And(here, z3.BoolVal(any(s['evaluated'][i] and f'typed child{i}' not in have for i in range(nkids)))))
        if v.variant == 'TypecheckSuccess':
            acc.append(pc)
        elif v.variant == 'TypecheckFail':
            rej.append(pc)
            # rejected although every child that was typechecked was accepted, and nothing reported
            # (a child of the bottom type is exempt: no expression has type Never under strict validation)
            silent.append(z3.And(pc, z3.And([OKC[i] for i in visited] or [T]), z3.And([K[i] != KINDS.index('Never') for i in visited] or [T]), z3.BoolVal(o.st.notes.get('errors', 0) == 0)))
    role = f'validator/typecheck.rs: {fname} ({label})'
    why = why or f'the typing rule of {label} skips a branch that can be evaluated, hands a capability to the wrong branch, or gives the node the wrong type / capability'
    rep = lambda m: battery(ctx, nm, role, why)
    q = lambda xs: pre + [z3.Or(xs) if xs else F]
    ctx.decide(f'{nm}/sound: accepted only if every child that can be evaluated was typechecked and accepted with the type the evaluator needs', q(unsound), ex=ex, sample={'paths': len(rets)}, on_sat=rep)
    ctx.decide(f'{nm}/capability in: a child is typechecked only under facts that hold whenever it is evaluated', q(badin), ex=ex, on_sat=rep)
    ctx.decide(f'{nm}/capability out: the facts passed on hold whenever the node is true', q(badout), ex=ex, on_sat=rep)
    ctx.decide(f'{nm}/the type of the node contains its values', q(wrongty), ex=ex, on_sat=rep)
    if dropped:
        def rep_dropped(m):
            # the typed AST is what the level checker (C16) and the entity-manifest analysis (C17) walk: a dropped child shows as a policy accepted at too low a level
            from . import c16
            r = c16.battery_replay(ctx, nm, f'the typed expression of a {label} node drops an operand that is evaluated')
            return r if r and r[0] == 'violation' else rep(m)
        ctx.decide(f'{nm}/the typed expression of an accepted node contains the typed form of every child evaluation can reach', q(dropped), ex=ex, on_sat=rep_dropped)
    ctx.decide(f'{nm}/not silent: a rejection with every typechecked child accepted has reported a type error', q(silent), ex=ex, on_sat=lambda m: battery(ctx, nm, role, 'a policy is rejected without a reported error'))
    ctx.decide(f'{nm}/paths-cover', pre + [z3.Not(z3.Or(acc + rej + [z3.And(o.pc) if o.pc else T for o in rets if strip(ex, o.st, o.val).variant == 'RecursionLimit'] or [F]))], ex=ex)
    ctx.decide(f'{nm}/witness-accepted', pre + [z3.Or(acc or [F])], expect='sat', ex=ex)
    ctx.decide(f'{nm}/witness-rejected', pre + [z3.Or(rej or [F])], expect='sat', ex=ex)
    # non-vacuity of the rule itself: boolean operands that typecheck are accepted (if: when the branch types have an upper bound)
    if accept_when:
        text, cond = accept_when(env)
    else:
        text, cond = 'all children are accepted booleans', z3.And([z3.Or([k == KINDS.index(b) for b in BOOLK]) for k in K] + [LUB])
    ctx.decide(f'{nm}/accepted whenever {text}', pre + [z3.And(OKC), cond, z3.Or(rej or [F])], ex=ex, on_sat=rep)
    return ex


def _bvals(kind):
    return {'True': {True}, 'False': {False}, 'Bool': {True, False}, 'Never': set()}.get(kind)


def _btypes(vals):
    """kinds that contain the boolean values `vals`"""
    out = {'Bool'}
    if not vals:
        out.add('Never')
    if vals <= {True}:
        out.add('True')
    if vals <= {False}:
        out.add('False')
    return out


def spec_and(kinds, CL, PRIOR, **kw):
    l, r = kinds
    lv, rv = _bvals(l), _bvals(r)
    boolok = set(BOOLK) | {'Never'}
    right_live = lv is None or True in lv          # the right operand is evaluated when the left one can be true (a non-boolean left is rejected anyway)
    vals = set()
    if lv is not None:
        for a in lv:
            if not a:
                vals.add(False)
            elif rv is not None:
                vals |= rv
            else:
                vals |= {True, False}
    # facts that hold when `l && r` is true: both operands evaluated to true
    capout = z3.Or(CL[0], CL[1], PRIOR) if True in vals or lv is None or rv is None else T
    return {'evaluated': [True, right_live], 'kinds_ok': [boolok, boolok], 'capin': [PRIOR, z3.Or(PRIOR, CL[0])], 'capout': capout, 'types': _btypes(vals) if lv is not None else set(KINDS) | {None}}


def spec_or(kinds, CL, PRIOR, **kw):
    l, r = kinds
    lv, rv = _bvals(l), _bvals(r)
    boolok = set(BOOLK) | {'Never'}
    right_live = lv is None or False in lv
    vals = set()
    if lv is not None:
        for a in lv:
            if a:
                vals.add(True)
            elif rv is not None:
                vals |= rv
            else:
                vals |= {True, False}
    # facts that hold when `l || r` is true: those of the operand that made it true - the left one if only it can be true, the right one if the left cannot be,
    # both (intersection) otherwise; an operand of type True adds nothing that is not already known (its facts hold whenever it is evaluated), the code's own argument
    l_true = lv is None or True in lv
    r_true = right_live and (rv is None or True in rv)
    if l_true and r_true:
        capout = z3.Or(PRIOR, z3.And(CL[0], CL[1]), CL[1] if r == 'True' else F, CL[0] if l == 'True' else F)
    elif l_true:
        capout = z3.Or(PRIOR, CL[0])
    elif r_true:
        capout = z3.Or(PRIOR, CL[1])
    else:
        capout = T
    return {'evaluated': [True, right_live], 'kinds_ok': [boolok, boolok], 'capin': [PRIOR, PRIOR], 'capout': capout, 'types': _btypes(vals) if lv is not None else set(KINDS) | {None}}


def spec_if(kinds, CL, PRIOR, **kw):
    c, a, b = kinds
    cv = _bvals(c)
    boolok = set(BOOLK) | {'Never'}
    anyk = set(KINDS)
    then_live = cv is None or True in cv
    else_live = cv is None or False in cv
    types = set()
    if then_live and else_live:
        types = {'LUB'}
    elif then_live:
        types = {a}
    elif else_live:
        types = {b}
    else:
        types = set(KINDS) | {'LUB', None}
    # facts when the `if` is true: guard true and then-branch true, or guard false and else-branch true
    t_side = z3.Or(CL[0], CL[1])
    if then_live and else_live:
        capout = z3.Or(PRIOR, z3.And(t_side, CL[2]))
    elif then_live:
        capout = z3.Or(PRIOR, t_side)
    elif else_live:
        capout = z3.Or(PRIOR, CL[2])
    else:
        capout = T
    return {'evaluated': [True, then_live, else_live], 'kinds_ok': [boolok, anyk, anyk], 'capin': [PRIOR, z3.Or(PRIOR, CL[0]), PRIOR], 'capout': capout, 'types': types}


BRANCHK = ['Never', 'True', 'Bool', 'Long']       # kinds of the branches of an `if` (their types only flow into the least upper bound)


def nodes():
    return [('`&&`', lambda k: Agg('variant', EK, 'And', [k[0], k[1]], ('left', 'right')), 2, spec_and, None),
            ('`||`', lambda k: Agg('variant', EK, 'Or', [k[0], k[1]], ('left', 'right')), 2, spec_or, None),
            ('`if`', lambda k: Agg('variant', EK, 'If', [k[0], k[1], k[2]], ('test_expr', 'then_expr', 'else_expr')), 3, spec_if, [BASE_KINDS, BRANCHK, BRANCHK])]


def families(ctx, battery):
    full = ctx.tier == 'thorough'
    return [(f'typing rule of {label}', lambda label=label, build=build, n=n, spec=spec, kk=kk: control_node(ctx, label, build, n, spec, battery, None if full else kk)) for label, build, n, spec, kk in nodes()]
