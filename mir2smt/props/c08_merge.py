"""C08 (merge) - PolicySet::merge_policyset(self, other, rename_duplicates) executed from the MIR with `self` an ARBITRARY policy set satisfying the representation
invariant (abstract maps, as for the other edits) and `other` a small concrete policy set with symbolic ids and contents (one static policy / one template / one
template with one link) that satisfies the same invariant: a failed merge changes nothing, a successful one preserves the invariant (in particular no id ends up
naming both a template and an unrelated link), loses or replaces nothing that was in `self`, and brings in every policy of `other` under its own or its renamed id."""
import z3
from ..executor import IntV, BoolV, Agg, Opaque, Ref, NotEncoded, UNIT, SymV, AMap, ASet
from ..models import ok, err, some, none
from . import c08
from .c08 import PID, TPL, POL, tmpl_id, pol_id, pol_tmpl, is_static, inv, same, fresh_state, EMPTY, deref

T_, F_ = z3.BoolVal(True), z3.BoolVal(False)
tpl_new_id = z3.Function('tpl_new_id', TPL, PID, TPL)
pol_new_id = z3.Function('pol_new_id', POL, PID, POL)
pol_new_tid = z3.Function('pol_new_template_id', POL, PID, POL)


def lhm(entries):
    return Agg('struct', '~lhm', None, [Agg('tuple', None, None, [k, v]) for k, v in entries])


def install_concrete(ex, axioms):
    """a small LinkedHashMap / LinkedHashSet with symbolic PolicyID keys (entries in insertion order); must be installed BEFORE the abstract-map stubs"""
    def cm(st, a):
        v = deref(ex, st, a)
        return v if isinstance(v, Agg) and v.name in ('~lhm', '~lhs') else None

    def base(st, r):
        while isinstance(r, Ref) and isinstance(ex.read(st, r.fid, r.place), Ref):
            r = ex.read(st, r.fid, r.place)
        return r

    def kt(st, v):
        v = deref(ex, st, v)
        if isinstance(v, SymV) and v.sort == 'PID':
            return v.t
        raise NotEncoded(f'not a policy id: {v!r}')
    ex.stub(r'LinkedHashMap::<.*>::new$', lambda ex_, st, c, A: lhm([]), 'concrete LinkedHashMap: new (the renaming)')

    def into_iter(ex_, st, c, A):
        m = cm(st, A[0])
        if m is None:
            return None
        r = base(st, A[0]) if isinstance(A[0], Ref) else None
        if m.name == '~lhs':
            return Agg('struct', '~vec_iter', None, [Ref(r.fid, ('field', r.place, i, '?')) for i in range(len(m.fields))] if r is not None else list(m.fields))
        if r is None:
            return Agg('struct', '~vec_iter', None, list(m.fields))
        return Agg('struct', '~vec_iter', None, [Agg('tuple', None, None, [Ref(r.fid, ('field', ('field', r.place, i, '?'), 0, '?')), Ref(r.fid, ('field', ('field', r.place, i, '?'), 1, '?'))]) for i in range(len(m.fields))])
    ex.stub(r'<&?(linked_hash_map::|linked_hash_set::)?LinkedHash(Map|Set)<.*> as IntoIterator>::into_iter$', into_iter, 'concrete LinkedHashMap / Set: iteration in insertion order')

    def lookup(ex_, st, c, A):
        m = cm(st, A[0])
        if m is None or m.name != '~lhm':
            return None
        k = kt(st, A[1])
        r = base(st, A[0])
        what = 'contains' if 'contains_key' in c else 'get'
        alts, neg = [], []
        for i, e in enumerate(m.fields):
            q = kt(st, e.fields[0]) == k
            alts.append((neg + [q], BoolV(T_) if what == 'contains' else some(Ref(r.fid, ('field', ('field', r.place, i, '?'), 1, '?')))))
            neg = neg + [z3.Not(q)]
        alts.append((neg, BoolV(F_) if what == 'contains' else none()))
        return alts
    ex.stub(r'LinkedHashMap::<.*>::(contains_key|get)::<', lookup, 'concrete LinkedHashMap: contains_key / get (symbolic key comparison)')

    def insert(ex_, st, c, A):
        m = cm(st, A[0])
        if m is None or m.name != '~lhm':
            return None
        r = base(st, A[0])
        k = kt(st, A[1])
        alts, neg = [], []
        for i, e in enumerate(m.fields):
            q = kt(st, e.fields[0]) == k
            ents = list(m.fields)
            ents[i] = Agg('tuple', None, None, [e.fields[0], A[2]])
            alts.append((neg + [q], some(e.fields[1]), (lambda s2, ents=ents: ex_.write(s2, r.fid, r.place, Agg('struct', '~lhm', None, ents)))))
            neg = neg + [z3.Not(q)]
        new = Agg('struct', '~lhm', None, list(m.fields) + [Agg('tuple', None, None, [deref(ex_, st, A[1]), A[2]])])
        alts.append((neg, none(), lambda s2: ex_.write(s2, r.fid, r.place, new)))
        return alts
    ex.stub(r'LinkedHashMap::<.*>::insert$', insert, 'concrete LinkedHashMap: insert')

    def keys(ex_, st, c, A):
        m = cm(st, A[0])
        if m is None or m.name != '~lhm':
            return None
        r = base(st, A[0])
        return Agg('struct', '~vec_iter', None, [Ref(r.fid, ('field', ('field', r.place, i, '?'), 0, '?')) for i in range(len(m.fields))])
    ex.stub(r'LinkedHashMap::<.*>::keys$', keys, 'concrete LinkedHashMap: keys')


def other_shapes():
    """(label, builder) - builder(ex) -> (other PolicySet value, facts about its contents (its own representation invariant), ids, description)"""
    def static_policy(tag=''):
        s, ts, ps = z3.Const('o_static_id' + tag, PID), z3.Const('o_static_template' + tag, TPL), z3.Const('o_static_policy' + tag, POL)
        facts = [tmpl_id(ts) == s, pol_id(ps) == s, pol_tmpl(ps) == ts, is_static(ts)]
        other = Agg('struct', 'ast::policy_set::PolicySet', None, [lhm([(SymV('PID', s), SymV('TPL', ts))]), lhm([(SymV('PID', s), SymV('POL', ps))]),
                                                                 lhm([(SymV('PID', s), Agg('struct', '~lhs', None, [SymV('PID', s)]))])], ('templates', 'links', 'template_to_links_map'))
        return other, facts, {'templates': [(s, ts)], 'links': [(s, ps)]}

    def template_only():
        t, tt = z3.Const('o_template_id', PID), z3.Const('o_template', TPL)
        facts = [tmpl_id(tt) == t, z3.Not(is_static(tt))]
        other = Agg('struct', 'ast::policy_set::PolicySet', None, [lhm([(SymV('PID', t), SymV('TPL', tt))]), lhm([]), lhm([(SymV('PID', t), Agg('struct', '~lhs', None, []))])], ('templates', 'links', 'template_to_links_map'))
        return other, facts, {'templates': [(t, tt)], 'links': []}

    def template_and_link():
        t, tt, l, pl = z3.Const('o_template_id', PID), z3.Const('o_template', TPL), z3.Const('o_link_id', PID), z3.Const('o_link', POL)
        facts = [tmpl_id(tt) == t, z3.Not(is_static(tt)), pol_id(pl) == l, pol_tmpl(pl) == tt, l != t]
        other = Agg('struct', 'ast::policy_set::PolicySet', None, [lhm([(SymV('PID', t), SymV('TPL', tt))]), lhm([(SymV('PID', l), SymV('POL', pl))]),
                                                                 lhm([(SymV('PID', t), Agg('struct', '~lhs', None, [SymV('PID', l)]))])], ('templates', 'links', 'template_to_links_map'))
        return other, facts, {'templates': [(t, tt)], 'links': [(l, pl)]}
    return [('one static policy', static_policy), ('one template without links', template_only), ('one template with one link', template_and_link)]


def merge(ctx, label, build, rename):
    P = ctx.prog('core')
    f = P.method('ast/policy_set.rs', 'merge_policyset', nargs=3, arg0=r'&mut ast::policy_set::PolicySet')
    ctx.use(f)
    ex = ctx.new_exec('core')
    ex.max_paths = 3000
    axioms = []
    install_concrete(ex, axioms)
    c08.install(ex)
    T, L, M = fresh_state()
    ps = Agg('struct', 'ast::policy_set::PolicySet', None, [T, L, M], ('templates', 'links', 'template_to_links_map'))
    other, facts, content = build()
    fresh = []

    def get_fresh_id(ex_, st, c, A):
        n = len(st.notes.get('fresh', []))
        f_ = z3.Const(f'fresh_id_{n}', PID)
        st.notes['fresh'] = st.notes.get('fresh', []) + [f_]
        if all(str(f_) != str(x) for x in fresh):
            fresh.append(f_)
        return SymV('PID', f_)
    ex.stub(r'PolicySet::get_fresh_id$', get_fresh_id, 'PolicySet::get_fresh_id: an id bound neither in self nor in other, different from the ids handed out before (its search loop is not decided)')
    ex.stub(r'Template::is_static$', lambda ex_, st, c, A: (lambda v: BoolV(is_static(v.t)) if isinstance(v, SymV) and v.sort == 'TPL' else None)(deref(ex_, st, A[0])), 'Template::is_static (uninterpreted)')
    ex.stub(r'Policy::is_static$', lambda ex_, st, c, A: (lambda v: BoolV(is_static(pol_tmpl(v.t))) if isinstance(v, SymV) and v.sort == 'POL' else None)(deref(ex_, st, A[0])), 'Policy::is_static = its template is static')

    def t_new_id(ex_, st, c, A):
        t, i = deref(ex_, st, A[0]), deref(ex_, st, A[1])
        if not (isinstance(t, SymV) and t.sort == 'TPL' and isinstance(i, SymV)):
            return None
        return SymV('TPL', tpl_new_id(t.t, i.t))
    ex.stub(r'Template::new_id$', t_new_id, 'Template::new_id (uninterpreted; axioms: the id is the new one, static-ness is kept)')

    def p_new_id(ex_, st, c, A):
        p, i = deref(ex_, st, A[0]), deref(ex_, st, A[1])
        if not (isinstance(p, SymV) and p.sort == 'POL' and isinstance(i, SymV)):
            return None
        return SymV('POL', pol_new_id(p.t, i.t))
    ex.stub(r'Policy::new_id$', p_new_id, 'Policy::new_id (uninterpreted; axioms: new id; a static policy gets a renamed template, a link keeps its template)')

    def p_new_tid(ex_, st, c, A):
        p, i = deref(ex_, st, A[0]), deref(ex_, st, A[1])
        if not (isinstance(p, SymV) and p.sort == 'POL' and isinstance(i, SymV)):
            return None
        st_ = is_static(pol_tmpl(p.t))
        return [([z3.Not(st_)], some(SymV('POL', pol_new_tid(p.t, i.t)))), ([st_], none())]
    ex.stub(r'Policy::new_template_id$', p_new_tid, 'Policy::new_template_id (None for a static policy; else same id, template renamed)')
    ex.stub(r'<(ast::)?(policy::)?Policy as PartialEq>::(ne|eq)$', lambda ex_, st, c, A: (lambda a, b: BoolV((a.t != b.t) if c.endswith('ne') else (a.t == b.t)) if isinstance(a, SymV) and isinstance(b, SymV) else None)(deref(ex_, st, A[0]), deref(ex_, st, A[1])),
            'Policy equality = equality of abstract policies')
    ex.stub(r'<&(ast::)?(policy::)?Policy as PartialEq>::(ne|eq)$', lambda ex_, st, c, A: (lambda a, b: BoolV((a.t != b.t) if c.endswith('ne') else (a.t == b.t)) if isinstance(a, SymV) and isinstance(b, SymV) else None)(deref(ex_, st, A[0]), deref(ex_, st, A[1])),
            '&Policy equality')
    ex.stub(r'Option::<.*LinkedHashSet<.*>>::unwrap_or_default$', lambda ex_, st, c, A: (A[0].fields[0] if isinstance(A[0], Agg) and A[0].variant == 'Some' else ASet(EMPTY)) if isinstance(A[0], Agg) else None, 'Option<LinkedHashSet>::unwrap_or_default')
    ex.stub(r'<Arc<.*Template> as AsRef<.*>>::as_ref$', lambda ex_, st, c, A: A[0], 'Arc<Template>::as_ref (abstract templates are their own referent)')
    heap = {'PS': ps, 'OTHER': other}
    outs = ex.run(f, [Ref(0, ('local', 'PS')), Ref(0, ('local', 'OTHER')), BoolV(z3.BoolVal(rename))], heap=heap)
    ctx.absorb(ex)
    # axioms of the uninterpreted constructors, instantiated on the ground terms that can occur (other's templates / policies x the fresh ids): keeps the
    # queries free of extra quantifiers so that the reachability witnesses stay decidable
    fr = [z3.Const(f'fresh_id_{n}', PID) for n in range(4)]
    tmpls = [vv for _, vv in content['templates']] + [pol_tmpl(vv) for _, vv in content['links']]
    ax = []
    for t in tmpls:
        for i in fr:
            ax.append(z3.And(tmpl_id(tpl_new_id(t, i)) == i, is_static(tpl_new_id(t, i)) == is_static(t)))
    for _, p in content['links']:
        for i in fr:
            ax.append(z3.And(pol_id(pol_new_id(p, i)) == i, pol_tmpl(pol_new_id(p, i)) == z3.If(is_static(pol_tmpl(p)), tpl_new_id(pol_tmpl(p), i), pol_tmpl(p))))
            ax.append(z3.And(pol_id(pol_new_tid(p, i)) == pol_id(p), pol_tmpl(pol_new_tid(p, i)) == tpl_new_id(pol_tmpl(p), i)))
            for j in fr:
                q = pol_new_id(p, j)
                ax.append(z3.And(pol_id(pol_new_tid(q, i)) == pol_id(q), pol_tmpl(pol_new_tid(q, i)) == tpl_new_id(pol_tmpl(q), i),
                                 tmpl_id(tpl_new_id(pol_tmpl(q), i)) == i, is_static(tpl_new_id(pol_tmpl(q), i)) == is_static(pol_tmpl(q))))
    other_keys = [k for k, _ in content['templates']] + [k for k, _ in content['links']]
    fresh_facts = [z3.And(z3.Not(z3.Select(T.pres, x)), z3.Not(z3.Select(L.pres, x)), z3.And([x != k for k in other_keys])) for x in fr] + [fr[a] != fr[b] for a in range(4) for b in range(a + 1, 4)]
    pre = [g for _, g in inv(T, L, M)] + facts + ax + fresh_facts
    nm = f'PolicySet::merge_policyset[other = {label}, rename_duplicates={rename}]'
    ctx.panic_summary(nm, outs, ex, pre)
    rets = [o for o in outs if o.kind == 'ret']
    done = {}

    def confirm(m):
        if 'r' not in done:
            done['r'] = merge_battery(ctx, nm, 'ast/policy_set.rs: PolicySet::merge_policyset', 'the merge step fails in the abstract-map model')
        return done['r']
    k = z3.Const('k', PID)
    # one query per claim: some path violates it (the per-path version needed thousands of solver calls for the renaming merges)
    claims = {}

    def add(label, o, g):
        claims.setdefault(label, []).append(z3.And(o.pc + [z3.Not(g)]))
    n_ok = n_err = 0
    for idx, o in enumerate(rets):
        T2, L2, M2 = c08.post_state(o)
        if o.val.variant == 'Err':
            n_err += 1
            add('a failed merge changes nothing', o, z3.And(same(T, T2), same(L, L2), same(M, M2)))
            if rename:
                add('a renaming merge does not fail', o, F_)
            continue
        n_ok += 1
        for lab, g in inv(T2, L2, M2):
            add(f'invariant preserved: {lab}', o, g)
        keep = z3.And(z3.ForAll([k], z3.Implies(z3.Select(T.pres, k), z3.And(z3.Select(T2.pres, k), z3.Select(T2.val, k) == z3.Select(T.val, k)))),
                      z3.ForAll([k], z3.Implies(z3.Select(L.pres, k), z3.And(z3.Select(L2.pres, k), z3.Select(L2.val, k) == z3.Select(L.val, k)))))
        add('nothing that was in self is lost or replaced', o, keep)
        arrived = []
        for kk, vv in content['templates']:
            arrived.append(z3.Or(z3.And(z3.Select(T2.pres, kk), z3.Select(T2.val, kk) == vv), z3.Or([z3.And(z3.Select(T2.pres, x), z3.Select(T2.val, x) == tpl_new_id(vv, x)) for x in fr]) if rename else F_))
        for kk, vv in content['links']:
            arrived.append(z3.Or([z3.Select(L2.pres, kk)] + ([z3.Select(L2.pres, x) for x in fr] if rename else [])))
        add('every policy of other arrives (under its own or a fresh id)', o, z3.And(arrived))
    for label, disj in claims.items():
        # split very large disjunctions so that a single query stays small
        for part in range(0, len(disj), 40):
            ctx.decide(f'{nm}: {label} (paths {part}..{min(part + 40, len(disj)) - 1} of {len(disj)})', pre + [z3.Or(disj[part:part + 40])], ex=ex, on_sat=confirm,
                       sample={'ok_paths': n_ok, 'err_paths': n_err} if label.startswith('invariant preserved: keys') and part == 0 else None)
    ctx.decide(f'{nm}/paths-cover', pre + [z3.Not(z3.Or([z3.And(o.pc) if o.pc else T_ for o in rets]))], ex=ex, on_sat=confirm)
    ctx.decide(f'{nm}/witness:Ok', pre + [z3.Or([z3.And(o.pc) if o.pc else T_ for o in rets if o.val.variant == 'Ok'] or [F_])], expect='sat', ex=ex)
    if not rename:
        ctx.decide(f'{nm}/witness:Err', pre + [z3.Or([z3.And(o.pc) if o.pc else T_ for o in rets if o.val.variant == 'Err'] or [F_])], expect='sat', ex=ex)
    return len(rets)


# ---------------------------------------------------------------------------------------------------------------- native battery

TEMPLATE = 'permit(principal == ?principal, action, resource);'
TEMPLATE2 = 'forbid(principal == ?principal, action, resource);'
STATIC = 'permit(principal, action, resource);'
STATIC2 = 'forbid(principal, action, resource);'


def merge_cases():
    """(label, self ops, other ops, rename, expected ok, expected observations after a successful merge)"""
    add_s = lambda i, text=STATIC: {'op': 'add_static', 'id': i, 'text': text}
    add_t = lambda i, text=TEMPLATE: {'op': 'add_template', 'id': i, 'text': text}
    link = lambda t, i: {'op': 'link', 'template': t, 'id': i, 'bind': True}
    return [
        ('disjoint ids', [add_s('a')], [add_s('b')], False, True),
        ('same static policy on both sides', [add_s('a')], [add_s('a')], False, True),
        ('same id, different static policies', [add_s('a')], [add_s('a', STATIC2)], False, False),
        ('same id, different static policies, renaming', [add_s('a')], [add_s('a', STATIC2)], True, True),
        ('same id, different templates', [add_t('t')], [add_t('t', TEMPLATE2)], False, False),
        ('same id, different templates, renaming', [add_t('t')], [add_t('t', TEMPLATE2), link('t', 'l')], True, True),
        ("other's template id is a link id of self", [add_t('t'), link('t', 'x')], [add_t('x', TEMPLATE2)], False, False),
        ("other's template id is a link id of self, renaming", [add_t('t'), link('t', 'x')], [add_t('x', TEMPLATE2)], True, True),
        ("other's link id is a template id of self", [add_t('x')], [add_t('t', TEMPLATE2), link('t', 'x')], False, False),
        ("other's link id is a template id of self, renaming", [add_t('x')], [add_t('t', TEMPLATE2), link('t', 'x')], True, True),
        ("other's static id is a template id of self", [add_t('x')], [add_s('x')], False, False),
        ("other's template id is a static id of self", [add_s('x')], [add_t('x')], False, False),
        ("other's link id is a static id of self", [add_s('x')], [add_t('t'), link('t', 'x')], False, False),
        ('template with a link, disjoint', [add_s('a')], [add_t('t'), link('t', 'l')], False, True),
    ]


def merge_battery(ctx, name, role, why):
    cache = ctx.__dict__.setdefault('_c08_merge_battery', {})
    if 'r' not in cache:
        cache['r'] = None
        for label, s_ops, o_ops, rename, want_ok in merge_cases():
            q = {'op': 'policyset_merge', 'self': s_ops, 'other': o_ops, 'rename': rename}
            a = ctx.native.ask(q)
            if 'ok' not in a:
                return ctx.mismatch(name, f'policyset_merge probe `{label}`: {a}')
            problems = []
            if a['ok'] != want_ok:
                problems.append(f'the merge {"succeeds" if a["ok"] else "fails"}, expected {"success" if want_ok else "an id-conflict error"}')
            if a['ok']:
                if a.get('n_policies') != a.get('expected_policies') or a.get('n_templates') != a.get('expected_templates'):
                    problems.append(f'afterwards {a.get("n_policies")} policies / {a.get("n_templates")} templates, the two sets hold {a.get("expected_policies")} / {a.get("expected_templates")} distinct ones')
                if a.get('dangling_links'):
                    problems.append(f'links without their template: {a["dangling_links"]}')
                if a.get('shared_ids'):
                    problems.append(f'ids shared by a template and an unrelated policy: {a["shared_ids"]}')
            elif a.get('changed'):
                problems.append('the failed merge changed the policy set')
            if problems:
                cache['r'] = (f'`{label}`: ' + '; '.join(problems), dict(q, expected_ok=want_ok))
                break
    if cache['r']:
        return ctx.violation(name, role, f'{why}; natively: {cache["r"][0]}', cache['r'][1])
    return ('unreplayed', f'{why}; but the {len(merge_cases())} merge scenarios behave as specified')


def battery_selftest(ctx):
    return merge_battery(ctx, 'native merge battery', 'ast/policy_set.rs: PolicySet::merge_policyset', 'native merge battery')


def families(ctx):
    fam = []
    for label, b in other_shapes():
        for rename in (False, True):
            fam.append((f'merge: other = {label}, rename={rename}', (lambda label=label, b=b, rename=rename: merge(ctx, label, b, rename))))
    fam.append(('merge battery', lambda: battery_selftest(ctx)))
    return fam
