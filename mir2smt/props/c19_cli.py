"""C19, fourth part - the command-line front end (library part of cedar-policy-cli, its own MIR dump): the exit status and the printed decision of
`cedar authorize` reflect the API response, `cedar validate` exits by the validation result, and the process exit codes are the documented ones.
File reading, clap and the text of error messages are environment; `println!` is a logged stub, so "what is printed" is the sequence of format pieces and
displayed values."""
import re
import z3
from ..executor import IntV, BoolV, Agg, Opaque, Ref, NotEncoded, UNIT, StrV
from ..models import ok, err, some, none, enum_cases
from .. import containers as C
from .c19 import strip, ident, pcs, T, F, battery_replay

CLI = 'cedar-policy-cli/src/'


def the(ctx, file, rx, pred, what):
    fs = [f for f in ctx.prog('cli').find(rx, CLI + file) if '{closure' not in f.name and pred(f)]
    if len(fs) != 1:
        raise LookupError(f'{what}: {len(fs)} candidates')
    ctx.use(fs[0])
    return fs[0]


def new_ex(ctx, paths=20000):
    ex = ctx.new_exec('cli')
    ex.havoc_unknown = True
    ex.max_paths = paths
    C.install(ex)

    def pr(ex_, st, c, A):
        a = strip(ex_, st, A[0])
        st.notes['printed'] = st.notes.get('printed', []) + [getattr(a, 'what', repr(a))]
        return UNIT
    ex.stub(r'^std::io::_e?print$', pr, 'println! / eprintln!: the format pieces and displayed values, logged')
    return ex


def field_index(relpath, struct, field):
    """declaration index of a named field (MIR addresses struct fields by position)"""
    import os
    from ..framework import REPO
    src = open(os.path.join(REPO, CLI + relpath)).read()
    m = re.search(r'pub struct ' + struct + r'\s*\{(.*?)\n\}', src, re.S)
    if not m:
        raise NotEncoded(f'struct {struct} not found in {relpath}')
    body = re.sub(r'^\s*(///|//|#\[).*$', '', m.group(1), flags=re.M)
    body = re.sub(r'#\[[^\]]*\]', '', body, flags=re.S)
    fs = re.findall(r'^\s*(?:pub(?:\([^)]*\))? )?(\w+)\s*:', body, re.M)
    if field not in fs:
        raise NotEncoded(f'{struct}.{field}: fields {fs}')
    return fs.index(field)


def with_fields(op, relpath, struct, **vals):
    for k, v in vals.items():
        op = op.with_over((None, field_index(relpath, struct, k)), v)
    return op


def printed(o):
    return ' | '.join(o.st.notes.get('printed', []))


# ------------------------------------------------------------------------------------------------------------------ native: the real binary

def build_cli(ctx):
    """the `cedar` binary of the tree under test (cargo build, cached in /verif/build/cli*)"""
    import os, subprocess, fcntl
    from ..framework import REPO, BUILD, SUFFIX, MachineryError
    tdir = os.path.join(BUILD, 'cli' + SUFFIX)
    os.makedirs(BUILD, exist_ok=True)
    lock = open(os.path.join(BUILD, f'.lock-cli{SUFFIX}'), 'w')
    fcntl.flock(lock, fcntl.LOCK_EX)
    try:
        r = subprocess.run(f'cd {REPO} && CARGO_NET_OFFLINE=true CARGO_PROFILE_DEV_DEBUG=false CARGO_TARGET_DIR={tdir} cargo build --offline -p cedar-policy-cli', shell=True, capture_output=True, text=True)
    finally:
        fcntl.flock(lock, fcntl.LOCK_UN)
    if r.returncode != 0:
        raise MachineryError('cedar-policy-cli does not build:\n' + r.stderr[-2000:])
    return os.path.join(tdir, 'debug', 'cedar')


def run_cli_battery(ctx):
    """(first disagreement or None, comparisons).  Every scenario: files in a scratch directory, the real binary, and the Rust API answer (through the replay crate) for the same documents."""
    import os, subprocess, tempfile, json, shutil
    from ..framework import BUILD
    from . import c19 as B
    exe = build_cli(ctx)
    d = tempfile.mkdtemp(prefix='cli-battery-', dir=BUILD)
    n = 0
    try:
        def w(name, text):
            pth = os.path.join(d, name)
            open(pth, 'w').write(text if isinstance(text, str) else json.dumps(text))
            return pth
        pol_sets = {'all': ' '.join(B.POLICIES.values()), 'p0': B.POLICIES['p0'], 'p1p3': B.POLICIES['p1'] + ' ' + B.POLICIES['p3'], 'none': '', 'broken': 'permit(principal, action);'}
        ents = w('entities.json', B.ENTITIES)
        schema = w('schema.cedarschema', B.SCHEMA_CEDAR)
        for pk, ptext in pol_sets.items():
            pf = w(f'{pk}.cedar', ptext)
            for (p, a, cx) in B.REQUESTS:
                for use_schema in (False, True):
                    for verbose in (False, True):
                        cxf = w('context.json', cx)
                        cmd = [exe, 'authorize', '--policies', pf, '--entities', ents, '--principal', f'User::"{p}"', '--action', f'Action::"{a}"', '--resource', 'Doc::"d"', '--context', cxf]
                        if use_schema:
                            cmd += ['--schema', schema]
                        if verbose:
                            cmd += ['--verbose']
                        r = subprocess.run(cmd, capture_output=True, text=True, timeout=60)
                        q = {'op': 'ffi_shapes', 'static': {'kind': 'concat', 'text': ptext}, 'templates': {}, 'links': [], 'schema': {'cedar': B.SCHEMA_CEDAR} if use_schema else None, 'validate': True,
                             'principal': B.uidj('User', p), 'action': B.uidj('Action', a), 'resource': B.uidj('Doc', 'd'), 'context': cx, 'entities': B.ENTITIES}
                        ans = ctx.native.ask(q)
                        if 'api' not in ans:
                            raise B.MachineryProblem(f'ffi_shapes for the CLI battery: {str(ans)[:300]}')
                        api = ans['api']
                        n += 1
                        where = f'`cedar authorize` policies {pk!r}, {p} {a} {cx}, schema {"given" if use_schema else "absent"}{", --verbose" if verbose else ""}'
                        lines = r.stdout.split('\n')
                        said = [l.strip() for l in lines if l.strip() in ('ALLOW', 'DENY')]
                        recipe = {'op': 'cli', 'argv': cmd[1:], 'files': {os.path.basename(x): open(x).read() for x in (pf, ents, cxf) + ((schema,) if use_schema else ())}, 'expected': api}
                        if api.get('failure'):
                            if r.returncode != 1 or said:
                                return (f'{where}: the API refuses the inputs ({api.get("why", "")[:120]}), the command exits {r.returncode} and prints {said}', recipe), n
                            continue
                        want_code, want_word = (0, 'ALLOW') if api['decision'] == 'allow' else (2, 'DENY')
                        if r.returncode != want_code or said != [want_word]:
                            return (f'{where}: the API decides {api["decision"]}, the command exits {r.returncode} and prints {said}', recipe), n
                        if verbose:
                            shown = sorted(l.strip() for l in lines if l.startswith('  ') and l.strip().startswith('policy'))
                            if shown != sorted(api['reasons']):
                                return (f'{where}: the API names the determining policies {api["reasons"]}, the command lists {shown}', recipe), n
                        for e in api['errors']:
                            if f'`{e}`' not in r.stdout and e not in r.stdout:
                                return (f'{where}: the API reports an error in {e}, the command output does not mention it', recipe), n
        # validate: exit 0 iff the API finds no validation error, 3 iff it does, 1 when an input does not load
        vpols = {'good': B.POLICIES['p0'] + ' ' + B.POLICIES['p1'], 'type error': 'permit(principal, action == Action::"view", resource) when { context.n == "one" };', 'unknown attr': 'permit(principal == User::"alice", action, resource) when { principal.nope };',
                 'broken': 'permit(principal, action);', 'empty': ''}
        for pk, ptext in vpols.items():
            pf = w('v.cedar', ptext)
            for sk, stext in (('good', B.SCHEMA_CEDAR), ('broken', 'entity ;')):
                sf = w('v.cedarschema', stext)
                cmd = [exe, 'validate', '--policies', pf, '--schema', sf]
                r = subprocess.run(cmd, capture_output=True, text=True, timeout=60)
                ans = ctx.native.ask({'op': 'ffi_validate', 'static': {'kind': 'concat', 'text': ptext}, 'templates': {}, 'links': [], 'schema': {'cedar': stext}})
                if 'api' not in ans:
                    raise B.MachineryProblem(f'ffi_validate for the CLI battery: {str(ans)[:300]}')
                api = ans['api']
                n += 1
                want = 1 if api.get('failure') else (3 if api['errors'] else 0)
                if r.returncode != want:
                    return (f'`cedar validate` policies {pk!r}, schema {sk!r}: the API {"refuses the inputs" if want == 1 else ("finds " + str(len(api["errors"])) + " validation errors")}, the command exits {r.returncode}',
                            {'op': 'cli', 'argv': cmd[1:], 'files': {'v.cedar': ptext, 'v.cedarschema': stext}, 'expected_exit': want}), n
        r = subprocess.run([exe, 'authorize', '--policies', os.path.join(d, 'missing.cedar'), '--entities', ents, '--principal', 'User::"a"', '--action', 'Action::"view"', '--resource', 'Doc::"d"'], capture_output=True, text=True, timeout=60)
        n += 1
        if r.returncode != 1:
            return (f'`cedar authorize` with a missing policy file exits {r.returncode}', {'op': 'cli', 'argv': ['authorize', '--policies', 'missing.cedar'], 'expected_exit': 1}), n
        return None, n
    finally:
        shutil.rmtree(d, ignore_errors=True)


def cli_replay(ctx, name, role, why):
    from . import c19 as B
    cache = ctx.__dict__.setdefault('_c19_cli_battery', {})
    if 'r' not in cache:
        try:
            cache['r'] = run_cli_battery(ctx)
        except B.MachineryProblem as e:
            cache['r'] = None
            return ctx.mismatch(name, str(e))
    if cache['r'] is None:
        return ctx.mismatch(name, 'the native CLI battery did not run')
    bad, n = cache['r']
    if bad:
        return ctx.violation(name, role, f'{why}; natively: {bad[0]}', bad[1])
    return ('unreplayed', f'{why}; but the {n} runs of the real `cedar` binary agree with the API')


def cli_selftest(ctx):
    return cli_replay(ctx, 'native CLI battery', 'cedar-policy-cli: exit status and printed decision vs the Rust API', 'native CLI battery')


def exit_codes(ctx):
    """<CedarExitCode as Termination>::report: Success -> 0, Failure -> 1, AuthorizeDeny -> 2, ValidationFailure -> 3"""
    f = the(ctx, 'lib.rs', r'>::report$', lambda f: len(f.args) == 1 and f.args[0][1].endswith('CedarExitCode'), 'CedarExitCode::report')
    want = {'Success': 'SUCCESS', 'Failure': 'FAILURE', 'AuthorizeDeny': 2, 'ValidationFailure': 3}
    for var, code in want.items():
        ex = new_ex(ctx)
        ex.stub(r'ExitCode as From<u8>>::from$', lambda ex_, st, c, A: Agg('struct', '~exit', None, [A[0]]), 'ExitCode::from(u8) (term)')
        outs = ex.run(f, [Agg('variant', 'CedarExitCode', var, [])])
        ctx.absorb(ex)
        nm = f'CedarExitCode::report[{var}]'
        ctx.panic_summary(nm, outs, ex)
        rets = [o for o in outs if o.kind == 'ret']
        bad = []
        for o in rets:
            v = strip(ex, o.st, o.val)
            if isinstance(code, int):
                good = isinstance(v, Agg) and v.name == '~exit' and isinstance(strip(ex, o.st, v.fields[0]), IntV) and ex.concrete(strip(ex, o.st, v.fields[0]).t) == code
            else:
                good = code in repr(v)
            bad.append(z3.And(o.pc + [z3.BoolVal(not good)]))
        ctx.decide(f'{nm}/process exit status {code}', [z3.Or(bad) if bad else T], ex=ex, on_sat=lambda m, nm=nm: cli_replay(ctx, nm, 'cedar-policy-cli/src/lib.rs: CedarExitCode::report', 'the exit status is not the documented one'))
        ctx.decide(f'{nm}/witness', [pcs(rets)], expect='sat', ex=ex)


def authorize_cmd(ctx, sizes=((0, 0), (1, 0), (2, 1), (0, 2))):
    f = the(ctx, 'command/authorize.rs', r'(^|::)authorize$', lambda f: len(f.args) == 1, 'authorize')
    for nr, ne in sizes:
        ex = new_ex(ctx)
        RUN, ALLOW, VERBOSE = z3.Bool('request_runs'), z3.Bool('decision_is_allow'), z3.Bool('verbose')
        resp, diag = Opaque('cedar_policy::Response', 'the API response'), Opaque('cedar_policy::Diagnostics', 'diagnostics')
        reasons = [Opaque('cedar_policy::PolicyId', f'reason{i}') for i in range(nr)]
        errors = [Opaque('cedar_policy::AuthorizationError', f'autherror{i}') for i in range(ne)]
        perrs = [Opaque('ErrReport', 'inputerror0'), Opaque('ErrReport', 'inputerror1')]
        args = with_fields(Opaque('authorize::AuthorizeArgs', 'args'), 'command/authorize.rs', 'AuthorizeArgs', verbose=BoolV(VERBOSE))
        ex.stub(r'(^|::)execute_request::<', lambda ex_, st, c, A: [([RUN], ok(resp)), ([z3.Not(RUN)], err(Agg('struct', '~vec', None, list(perrs))))], 'execute_request (own obligation): the API response or the input errors')
        ex.stub(r'cedar_policy::Response::decision$', lambda ex_, st, c, A: [([ALLOW], Agg('variant', 'cedar_policy::Decision', 'Allow', [])), ([z3.Not(ALLOW)], Agg('variant', 'cedar_policy::Decision', 'Deny', []))] if ident(ex_, st, A[0]) == resp.id else None,
                'Response::decision: Allow or Deny')
        ex.stub(r'cedar_policy::Response::diagnostics$', lambda ex_, st, c, A: ex_.new_cell(st, diag, 'diag') if ident(ex_, st, A[0]) == resp.id else None, 'Response::diagnostics')
        ex.stub(r'cedar_policy::Diagnostics::errors$', lambda ex_, st, c, A: Agg('struct', '~vec_iter', None, [ex_.new_cell(st, e, 'e') for e in errors]), f'Diagnostics::errors: {ne} errors')
        ex.stub(r'cedar_policy::Diagnostics::reason$', lambda ex_, st, c, A: Agg('struct', '~vec_iter', None, [ex_.new_cell(st, r, 'r') for r in reasons]), f'Diagnostics::reason: {nr} reasons')
        ex.stub(r' as Iterator>::peekable$', lambda ex_, st, c, A: A[0] if isinstance(A[0], Agg) and A[0].name == '~vec_iter' else None, 'peekable (the iterator itself)')

        def peek(ex_, st, c, A):
            it = strip(ex_, st, A[0])
            if not (isinstance(it, Agg) and it.name == '~vec_iter'):
                return None
            return some(ex_.new_cell(st, it.fields[0], 'peeked')) if it.fields else none()
        ex.stub(r'Peekable::<.*>::peek$', peek, 'Peekable::peek: the first item, if any')
        outs = ex.run(f, [Ref(0, ('local', 'ARGS'))], heap={'ARGS': args})
        ctx.absorb(ex)
        nm = f'cli authorize[{nr} reasons, {ne} errors]'
        ctx.panic_summary(nm, outs, ex)
        rets = [o for o in outs if o.kind == 'ret']
        bad = []
        for o in rets:
            v = strip(ex, o.st, o.val)
            if not (isinstance(v, Agg) and v.variant in ('Success', 'AuthorizeDeny', 'Failure', 'ValidationFailure', 'Unknown')):
                raise NotEncoded(f'{nm}: exit code {v!r}')
            out = printed(o)
            has = lambda w: w in out
            err_shown = all(e.what in out for e in errors)
            reasons_shown = all(r.what in out for r in reasons)
            if v.variant == 'Success':
                claim = z3.And(RUN, ALLOW, z3.BoolVal(has('ALLOW') and not has('DENY') and err_shown), z3.Implies(VERBOSE, z3.BoolVal(reasons_shown and (nr > 0 or has('no policies applied')))))
            elif v.variant == 'AuthorizeDeny':
                claim = z3.And(RUN, z3.Not(ALLOW), z3.BoolVal(has('DENY') and not has('ALLOW') and err_shown), z3.Implies(VERBOSE, z3.BoolVal(reasons_shown and (nr > 0 or has('no policies applied')))))
            elif v.variant == 'Failure':
                claim = z3.And(z3.Not(RUN), z3.BoolVal(not has('ALLOW') and not has('DENY') and all(e.what in out for e in perrs)))
            else:
                claim = F
            bad.append(z3.And(o.pc + [z3.Not(claim)]))
        ctx.decide(f'{nm}/exit Success + "ALLOW" iff the response allows, AuthorizeDeny + "DENY" iff it denies, Failure without a decision iff the request did not run; every error (and with --verbose every reason) is printed',
                   [z3.Or(bad) if bad else T], ex=ex, sample={'paths': len(rets)}, on_sat=lambda m, nm=nm: cli_replay(ctx, nm, 'cedar-policy-cli/src/command/authorize.rs: authorize', 'exit status or printed decision do not reflect the API response'))
        ctx.decide(f'{nm}/paths-cover', [z3.Not(pcs(rets))], ex=ex)
        for var in ('Success', 'AuthorizeDeny', 'Failure'):
            ctx.decide(f'{nm}/witness-{var}', [pcs([o for o in rets if strip(ex, o.st, o.val).variant == var])], expect='sat', ex=ex)


def args_ref(ex, args):
    return Ref(0, ('local', 'ARGS'))


def execute_request(ctx):
    f = the(ctx, 'command/authorize.rs', r'(^|::)execute_request$', lambda f: len(f.args) == 5, 'execute_request')
    for has_schema in (False, True):
        ex = new_ex(ctx)
        P_OK, S_OK, E_OK, R_OK = z3.Bool('policies_load'), z3.Bool('schema_loads'), z3.Bool('entities_load'), z3.Bool('request_parses')
        TIMING = z3.Bool('timing')
        pols, schema, ents, req, resp = Opaque('cedar_policy::PolicySet', 'policies'), Opaque('cedar_policy::Schema', 'schema'), Opaque('cedar_policy::Entities', 'entities'), Opaque('cedar_policy::Request', 'request'), Opaque('cedar_policy::Response', 'response')
        empty_p, empty_e = Opaque('cedar_policy::PolicySet', 'empty policy set'), Opaque('cedar_policy::Entities', 'empty entities')
        rargs, pargs, sargs, efile = Opaque('request::RequestArgs', 'request args'), Opaque('policies::PoliciesArgs', 'policies args'), Opaque('schema::OptionalSchemaArgs', 'schema args'), Opaque('String', 'entities file')
        heap = {'R': rargs, 'P': pargs, 'S': sargs, 'E': efile}

        def log(st, *x):
            st.notes['log'] = st.notes.get('log', []) + [x]

        def opt_view(ex_, st, v):
            v = strip(ex_, st, v)
            if isinstance(v, Agg) and v.variant == 'Some':
                return ('Some', ident(ex_, st, v.fields[0]))
            if isinstance(v, Agg) and v.variant == 'None':
                return ('None',)
            return ('?',)

        def get_pset(ex_, st, c, A):
            log(st, 'get_policy_set', ident(ex_, st, A[0]))
            return [([P_OK], ok(pols)), ([z3.Not(P_OK)], err(Opaque('ErrReport', 'policies error')))]
        ex.stub(r'PoliciesArgs::get_policy_set$', get_pset, 'PoliciesArgs::get_policy_set: the policy set or an error (file I/O + parser), logged')

        def get_schema(ex_, st, c, A):
            log(st, 'get_schema', ident(ex_, st, A[0]))
            return [([S_OK], ok(some(schema) if has_schema else none())), ([z3.Not(S_OK)], err(Opaque('ErrReport', 'schema error')))]
        ex.stub(r'OptionalSchemaArgs::get_schema$', get_schema, 'OptionalSchemaArgs::get_schema: the schema (if one is named) or an error, logged')

        def load_ents(ex_, st, c, A):
            log(st, 'load_entities', ident(ex_, st, A[0]), opt_view(ex_, st, A[1]))
            return [([E_OK], ok(ents)), ([z3.Not(E_OK)], err(Opaque('ErrReport', 'entities error')))]
        ex.stub(r'(^|::)load_entities::<', load_ents, 'load_entities(file, schema): the entities or an error, logged')

        def get_req(ex_, st, c, A):
            log(st, 'get_request', ident(ex_, st, A[0]), opt_view(ex_, st, A[1]))
            return [([R_OK], ok(req)), ([z3.Not(R_OK)], err(Opaque('ErrReport', 'request error')))]
        ex.stub(r'RequestArgs::get_request$', get_req, 'RequestArgs::get_request(schema): the request or an error, logged')
        ex.stub(r'cedar_policy::PolicySet::new$', lambda ex_, st, c, A: empty_p, 'PolicySet::new')
        ex.stub(r'cedar_policy::Entities::empty$', lambda ex_, st, c, A: empty_e, 'Entities::empty')
        ex.stub(r'cedar_policy::Authorizer::new$', lambda ex_, st, c, A: Opaque('cedar_policy::Authorizer', 'authorizer'), 'Authorizer::new')

        def authz(ex_, st, c, A):
            log(st, 'is_authorized', ident(ex_, st, A[1]), ident(ex_, st, A[2]), ident(ex_, st, A[3]))
            return resp
        ex.stub(r'cedar_policy::Authorizer::is_authorized$', authz, 'Authorizer::is_authorized(request, policies, entities), logged')
        ex.stub(r'Instant::now$|Instant::elapsed$|Duration::as_micros$', lambda ex_, st, c, A: Opaque('time', 'a clock reading'), 'clock (arbitrary)')
        ex.stub(r'as (miette::)?(WrapErr|Context)<.*>>::(wrap_err|wrap_err_with)(::<.*>)?$|ErrReport::wrap_err::<|Report::wrap_err::<', lambda ex_, st, c, A: Opaque('ErrReport', 'wrapped error'), 'wrap_err (term)')
        outs = ex.run(f, [Ref(0, ('local', 'R')), Ref(0, ('local', 'P')), Ref(0, ('local', 'E')), Ref(0, ('local', 'S')), BoolV(TIMING)], heap=heap)
        ctx.absorb(ex)
        nm = f'cli execute_request[schema {"named" if has_schema else "not named"}]'
        ctx.panic_summary(nm, outs, ex)
        rets = [o for o in outs if o.kind == 'ret']
        allok = z3.And(P_OK, S_OK, E_OK, R_OK)
        sview = ('Some', schema.id) if has_schema else ('None',)
        bad = []

        def res(o):
            v = strip(ex, o.st, o.val)
            if not (isinstance(v, Agg) and v.variant in ('Ok', 'Err')):
                raise NotEncoded(f'{nm}: result {v!r}')
            return v
        for o in rets:
            v = res(o)
            lg = o.st.notes.get('log', [])
            if v.variant == 'Ok':
                az = [x for x in lg if x[0] == 'is_authorized']
                good = az == [('is_authorized', req.id, pols.id, ents.id)] and ident(ex, o.st, v.fields[0]) == resp.id \
                    and ('load_entities', efile.id, sview) in lg and ('get_request', rargs.id, sview) in lg and ('get_policy_set', pargs.id) in lg and ('get_schema', sargs.id) in lg
                claim = z3.And(allok, z3.BoolVal(bool(good)))
            else:
                # with a failed schema the other inputs are still read (without a schema) to report their errors too
                claim = z3.And(z3.Not(allok), z3.BoolVal(not [x for x in lg if x[0] == 'is_authorized']))
            bad.append(z3.And(o.pc + [z3.Not(claim)]))
        ctx.decide(f'{nm}/the response of Authorizer::is_authorized on the loaded (request, policies, entities), entities and request read against the named schema; any input error prevents the call',
                   [z3.Or(bad) if bad else T], ex=ex, sample={'paths': len(rets)}, on_sat=lambda m, nm=nm: cli_replay(ctx, nm, 'cedar-policy-cli/src/command/authorize.rs: execute_request', 'the command authorizes other inputs than the ones named'))
        ctx.decide(f'{nm}/paths-cover', [z3.Not(pcs(rets))], ex=ex)
        ctx.decide(f'{nm}/witness-ok', [pcs([o for o in rets if res(o).variant == 'Ok'])], expect='sat', ex=ex)
        ctx.decide(f'{nm}/witness-err', [pcs([o for o in rets if res(o).variant == 'Err'])], expect='sat', ex=ex)


def validate_cmd(ctx):
    f = the(ctx, 'command/validate.rs', r'(^|::)validate$', lambda f: len(f.args) == 1, 'validate')
    for mode in ('Strict', 'Permissive', 'Partial'):
        for has_level in (False, True):
            ex = new_ex(ctx)
            P_OK, S_OK, PASSED, CLEAN, DENYW = z3.Bool('policies_load'), z3.Bool('schema_loads'), z3.Bool('validation_passed'), z3.Bool('passed_without_warnings'), z3.Bool('deny_warnings')
            pols, schema, validator, result = Opaque('cedar_policy::PolicySet', 'policies'), Opaque('cedar_policy::Schema', 'schema'), Opaque('cedar_policy::Validator', 'validator'), Opaque('cedar_policy::ValidationResult', 'result')
            level = IntV(z3.Int('level'), 'u32')
            args = with_fields(Opaque('validate::ValidateArgs', 'args'), 'command/validate.rs', 'ValidateArgs', validation_mode=Agg('variant', 'validate::ValidationMode', mode, []), deny_warnings=BoolV(DENYW),
                               level=some(level) if has_level else none())

            def log(st, *x):
                st.notes['log'] = st.notes.get('log', []) + [x]

            def L(key, n, result_fn):
                def fn(ex_, st, c, A):
                    log(st, key, *[ident(ex_, st, a) if not isinstance(strip(ex_, st, a), IntV) else 'level' for a in A[:n]])
                    return result_fn()
                return fn
            ex.stub(r'PoliciesArgs::get_policy_set$', L('get_policy_set', 0, lambda: [([P_OK], ok(pols)), ([z3.Not(P_OK)], err(Opaque('ErrReport', 'policies error')))]), 'PoliciesArgs::get_policy_set, logged')
            ex.stub(r'SchemaArgs::get_schema$', L('get_schema', 0, lambda: [([S_OK], ok(schema)), ([z3.Not(S_OK)], err(Opaque('ErrReport', 'schema error')))]), 'SchemaArgs::get_schema, logged')
            ex.stub(r'cedar_policy::Validator::new$', L('new', 1, lambda: validator), 'Validator::new(schema), logged')
            ex.stub(r'cedar_policy::Validator::validate$', L('validate', 2, lambda: result), 'Validator::validate(policies, mode), logged')
            ex.stub(r'cedar_policy::Validator::validate_with_level$', L('validate_with_level', 2, lambda: result), 'Validator::validate_with_level(policies, mode, level), logged')
            ex.stub(r'ValidationResult::validation_passed$', lambda ex_, st, c, A: BoolV(PASSED), 'validation_passed()')
            ex.stub(r'ValidationResult::validation_passed_without_warnings$', lambda ex_, st, c, A: BoolV(z3.And(PASSED, CLEAN)), 'validation_passed_without_warnings() (implies passed)')
            ex.stub(r'Report::new::<|<impl ErrReport>::new::<|wrap_err::<', lambda ex_, st, c, A: Opaque('ErrReport', 'report ' + ' '.join(getattr(strip(ex_, st, a), 'what', repr(strip(ex_, st, a))) for a in A)), 'miette report (term)')
            outs = ex.run(f, [Ref(0, ('local', 'ARGS'))], heap={'ARGS': args})
            ctx.absorb(ex)
            nm = f'cli validate[mode {mode}, level {"given" if has_level else "absent"}]'
            ctx.panic_summary(nm, outs, ex)
            rets = [o for o in outs if o.kind == 'ret']
            bad = []
            for o in rets:
                v = strip(ex, o.st, o.val)
                if not (isinstance(v, Agg) and v.variant in ('Success', 'AuthorizeDeny', 'Failure', 'ValidationFailure', 'Unknown')):
                    raise NotEncoded(f'{nm}: exit code {v!r}')
                lg = o.st.notes.get('log', [])
                ran = [x for x in lg if x[0] in ('validate', 'validate_with_level')]
                want_run = [('validate_with_level' if has_level else 'validate', validator.id, pols.id)]
                if mode != 'Strict':
                    claim = z3.BoolVal(v.variant == 'Failure' and not ran)        # the experimental modes are not compiled into this build
                elif v.variant == 'Success':
                    claim = z3.And(P_OK, S_OK, PASSED, z3.Or(z3.Not(DENYW), CLEAN), z3.BoolVal(ran == want_run and ('new', schema.id) in lg))
                elif v.variant == 'ValidationFailure':
                    claim = z3.And(P_OK, S_OK, z3.Or(z3.Not(PASSED), z3.And(DENYW, z3.Not(CLEAN))), z3.BoolVal(ran == want_run and ('new', schema.id) in lg))
                elif v.variant == 'Failure':
                    claim = z3.And(z3.Not(z3.And(P_OK, S_OK)), z3.BoolVal(not ran))
                else:
                    claim = F
                bad.append(z3.And(o.pc + [z3.Not(claim)]))
            ctx.decide(f'{nm}/exit Success iff validation passed (and, with --deny-warnings, without warnings), ValidationFailure iff it did not, Failure iff an input did not load; the validator runs once on the loaded policies and schema',
                       [z3.Or(bad) if bad else T], ex=ex, sample={'paths': len(rets)}, on_sat=lambda m, nm=nm: cli_replay(ctx, nm, 'cedar-policy-cli/src/command/validate.rs: validate', 'the exit status does not reflect the validation result'))
            ctx.decide(f'{nm}/paths-cover', [z3.Not(pcs(rets))], ex=ex)
            for var in (('Success', 'ValidationFailure', 'Failure') if mode == 'Strict' else ('Failure',)):
                ctx.decide(f'{nm}/witness-{var}', [pcs([o for o in rets if strip(ex, o.st, o.val).variant == var])], expect='sat', ex=ex)


def families(ctx):
    th = ctx.tier == 'thorough'
    sizes = ((0, 0), (1, 0), (2, 1), (0, 2), (3, 3)) if th else ((0, 0), (1, 0), (2, 1), (0, 2))
    return [('cli exit codes', lambda: exit_codes(ctx)), ('cli authorize', lambda: (authorize_cmd(ctx, sizes), execute_request(ctx))), ('cli validate', lambda: validate_cmd(ctx))]
