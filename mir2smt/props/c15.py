"""C15 - batched (loader-driven) authorization equals ordinary authorization (engine M, the driver only).  `is_authorized_batched` is a loop around the TPE evaluator;
what is decided here is the loop itself, executed from the MIR with the evaluator, the residual policies and the loader as environment:
  * the request is converted only when principal, action and resource are known and the context is a value;
  * every iteration asks the loader only for entity ids that occur in some residual and are not yet in the partial store, and for at least one of them while there is one,
    records every answer (an absent entity as an attribute-less one), and re-evaluates EVERY residual against the updated store;
  * the loader is called at most `max_iters` times; the loop stops early only when no residual is partial;
  * the result is the decision of tpe::Response::new over the final residuals (C14 decides that table: a decision only when every completion agrees), or
    `insufficient iterations` when it has none.
That a residual keeps the meaning of its policy under the evaluator's simplification rules is NOT decided (tpe::Evaluator::interpret is a stub); it is exercised by the
native battery, which compares batched and ordinary authorization for budgets 0..6 on stores with chains, hierarchies, missing entities and short circuits."""
import z3
from ..executor import IntV, BoolV, Agg, Opaque, Ref, NotEncoded, UNIT
from ..models import ok, err, some, none
from .. import containers as C

T, F = z3.BoolVal(True), z3.BoolVal(False)

SCHEMA = ('entity Group; entity User in [Group] { manager: User, name: String, level: Long, addr: ipaddr }; entity Photo in [Group] { owner: User, public: Bool }; '
          'action view appliesTo { principal: User, resource: Photo, context: { flag: Bool } };')


def user(i, manager, parents=(), level=1):
    return {'uid': {'type': 'User', 'id': i}, 'attrs': {'name': i, 'level': level, 'manager': {'__entity': {'type': 'User', 'id': manager}}, 'addr': {'__extn': {'fn': 'ip', 'arg': '10.1.2.3'}}}, 'parents': [{'type': 'Group', 'id': g} for g in parents]}


STORE = [user('a', 'b', ['g']), user('b', 'c'), user('c', 'c', ['h'], level=7), {'uid': {'type': 'Group', 'id': 'g'}, 'attrs': {}, 'parents': []}, {'uid': {'type': 'Group', 'id': 'h'}, 'attrs': {}, 'parents': []},
         {'uid': {'type': 'Photo', 'id': 'p'}, 'attrs': {'owner': {'__entity': {'type': 'User', 'id': 'a'}}, 'public': False}, 'parents': [{'type': 'Group', 'id': 'g'}]},
         {'uid': {'type': 'Photo', 'id': 'q'}, 'attrs': {'owner': {'__entity': {'type': 'User', 'id': 'ghost'}}, 'public': True}, 'parents': []}]
REQ = {'principal': 'User::"a"', 'action': 'Action::"view"', 'resource': 'Photo::"p"', 'context': {'flag': False}}
P_ALL = 'permit(principal, action, resource);'
BATTERY = [  # (label, policies, request delta)
    ('no entity data needed', P_ALL, {}),
    ('attribute chain of depth 3 decides a permit', 'permit(principal, action, resource) when { resource.owner.manager.manager.name == "c" };', {}),
    ('attribute chain of depth 3 decides a forbid', P_ALL + ' forbid(principal, action, resource) when { resource.owner.manager.manager.level > 5 };', {}),
    ('attribute chain that does not hold', 'permit(principal, action, resource) when { resource.owner.manager.name == "zzz" };', {}),
    ('hierarchy membership of the principal', 'permit(principal in Group::"g", action, resource);', {}),
    ('hierarchy membership two attribute hops away', 'permit(principal, action, resource) when { principal.manager.manager in Group::"h" };', {}),
    ('membership that does not hold', 'permit(principal, action, resource) when { principal.manager in Group::"h" };', {}),
    ('short circuit after the first load', 'permit(principal, action, resource) when { principal.name == "a" || resource.owner.manager.manager.name == "zzz" };', {}),
    ('the owner does not exist: the policy errors', 'permit(principal, action, resource) when { resource.owner.name == "x" };', {'resource': 'Photo::"q"'}),
    ('the owner does not exist: a forbid errors and is skipped', P_ALL + ' forbid(principal, action, resource) when { resource.owner.level > 0 };', {'resource': 'Photo::"q"'}),
    ('the owner does not exist but is only tested with has', 'permit(principal, action, resource) when { !(resource.owner has name) };', {'resource': 'Photo::"q"'}),
    ('the principal does not exist', 'permit(principal, action, resource) when { principal.level > 0 };', {'principal': 'User::"nobody"'}),
    ('the principal does not exist, scope only', 'permit(principal in Group::"g", action, resource);', {'principal': 'User::"nobody"'}),
    ('context decides', P_ALL + ' forbid(principal, action, resource) when { context.flag };', {'context': {'flag': True}}),
    ('two policies needing different entities', 'permit(principal, action, resource) when { principal.manager.level == 1 }; forbid(principal, action, resource) when { resource.owner.manager.manager.level == 0 };', {}),
    ('a has-test on a failing chain next to a false conjunct, inside unless', P_ALL + ' forbid(principal, action, resource) unless { resource.owner.manager has name && context.flag };', {'resource': 'Photo::"q"'}),
    ('a has-test on a failing chain next to a true disjunct', 'permit(principal, action, resource) when { resource.owner.manager has name || !context.flag };', {'resource': 'Photo::"q"'}),
    ('entity data needed only inside the arguments of an extension call', 'permit(principal, action, resource) when { principal.addr.isInRange(ip("10.0.0.0/8")) };', {}),
    ('entity data two hops away inside an extension call, in a forbid', P_ALL + ' forbid(principal, action, resource) when { resource.owner.manager.addr.isLoopback() };', {}),
    ('an unconditional permit next to a policy that needs two rounds', P_ALL + ' permit(principal, action, resource) when { principal.manager.name == "zzz" };', {}),
    ('a forbid decided in round 1, a permit decided in round 2', 'forbid(principal, action, resource) when { principal.name == "a" }; permit(principal, action, resource) when { principal.manager.name == "b" };', {}),
    ('a permit decided in round 1, a forbid refuted in round 2', 'permit(principal, action, resource) when { principal.name == "a" }; forbid(principal, action, resource) when { principal.manager.name == "zzz" };', {}),
    ('resource in a group reached through the principal', 'permit(principal, action, resource) when { resource in Group::"g" && principal.manager.manager.manager.name == "c" };', {}),
]
BUDGETS = [0, 1, 2, 3, 4, 5, 6, 9, 12]
DISTINCT_IDS = 9       # entities of the store (7) + ghost + nobody: a budget above this always decides


def battery_replay(ctx, name, role, why):
    cache = ctx.__dict__.setdefault('_c15_battery', {})
    if 'result' in cache:
        r = cache['result']
        return ctx.violation(name, role, f'{why}; natively: {r[0]}', r[1]) if r[0] else ('unreplayed', f'{why}; but the batched-authorization battery behaves as specified')
    for label, pols, delta, prefetch in [(a, b, c, pf) for pf in (False, True) for (a, b, c) in BATTERY]:
        rq = dict(REQ)
        rq.update(delta)
        q = {'op': 'batched', 'schema': SCHEMA, 'policies': pols, 'entities': STORE, 'request': rq, 'budgets': BUDGETS, 'prefetch': prefetch}
        if prefetch:
            label += ' (loader that also returns the ancestors of what was requested)'
        a = ctx.native.ask(q)
        if 'batched' not in a:
            return ctx.mismatch(name, f'batched probe `{label}`: {a}')
        problems, decided = [], None
        for b in a['batched']:
            k, r = b['budget'], b['result']
            if r.startswith('error'):
                problems.append(f'budget {k}: {r}')
            if b['loader_calls'] > k:
                problems.append(f'budget {k}: the loader was called {b["loader_calls"]} times')
            if r in ('Allow', 'Deny'):
                if r != a['ordinary']:
                    problems.append(f'budget {k}: batched decision {r}, ordinary authorization over the same store says {a["ordinary"]}')
                if decided is not None and r != decided:
                    problems.append(f'budget {k}: decision {r} after {decided} at a smaller budget')
                decided = r
            elif decided is not None:
                problems.append(f'budget {k}: {r} although a smaller budget already gave {decided}')
            if k > DISTINCT_IDS and r not in ('Allow', 'Deny'):
                problems.append(f'budget {k} exceeds the number of distinct entity ids ({DISTINCT_IDS}) and still gives {r}')
        if problems:
            what = f'`{label}` ({pols}): ' + '; '.join(problems[:3])
            cache['result'] = (what, dict(q, problems=problems))
            return ctx.violation(name, role, f'{why}; natively: {what}', cache['result'][1])
    cache['result'] = (None, None)
    return ('unreplayed', f'{why}; but the battery of {len(BATTERY)} batched-authorization scenarios x {len(BUDGETS)} budgets x 2 loaders behaves as specified')


def battery_selftest(ctx):
    return battery_replay(ctx, 'native battery', 'batched_evaluator.rs: is_authorized_batched vs ordinary authorization', 'native batched-authorization battery')


# ---------------------------------------------------------------------------------------------------------------- request conversion

def request_conversion(ctx):
    P = ctx.prog('core')
    f = P.method('batched_evaluator.rs', 'concrete_request_to_partial', nargs=2)
    ctx.use(f)
    EE = 'ast::request::EntityUIDEntry'
    for kp in (0, 1):
        for ka in (0, 1):
            for kr in (0, 1):
                for kc in (0, 1, 2):
                    ex = ctx.new_exec('core')
                    ex.havoc_unknown = True
                    ex.from_wrappers.add('BatchedEvalError')
                    uids = {k: Opaque('ast::entity::EntityUID', k) for k in ('principal', 'action', 'resource')}
                    ent = lambda k, known: Agg('variant', EE, 'Known', [Agg('struct', 'Arc', None, [uids[k]], ('inner',)), Opaque('Option<Loc>', 'loc')]) if known else Agg('variant', EE, 'Unknown', [Opaque('Option<EntityType>', 'ty'), Opaque('Option<Loc>', 'loc')])
                    attrs = Opaque('Arc<BTreeMap<SmolStr, Value>>', 'context attributes')
                    cx = [some(Agg('variant', 'ast::request::Context', 'Value', [attrs])), some(Agg('variant', 'ast::request::Context', 'RestrictedResidual', [Opaque('Arc<BTreeMap<SmolStr, Expr>>', 'residual context')])), none()][kc]
                    rq = Agg('struct', 'ast::request::Request', None, [ent('principal', kp), ent('action', ka), ent('resource', kr), cx], ('principal', 'action', 'resource', 'context'))
                    NEWOK = z3.Bool('partial_request_valid')
                    ex.stub(r'PartialEntityUID as From<.*EntityUID>>::from$', lambda ex_, st, c, A: Agg('struct', '~peuid', None, [A[0]]), 'PartialEntityUID::from(uid) (term)')

                    def pr_new(ex_, st, c, A):
                        st.notes['new_args'] = list(A)
                        return [([NEWOK], ok(Opaque('tpe::request::PartialRequest', 'partial request'))), ([z3.Not(NEWOK)], err(Opaque('RequestValidationError', 'invalid')))]
                    ex.stub(r'PartialRequest::new$', pr_new, 'PartialRequest::new: valid or not, logged')
                    outs = ex.run(f, [Ref(0, ('local', 'RQ')), Ref(0, ('local', 'S'))], heap={'RQ': rq, 'S': Opaque('validator::schema::ValidatorSchema', 'schema')})
                    ctx.absorb(ex)
                    nm = f'concrete_request_to_partial[principal/action/resource known={kp}{ka}{kr}, context={["value", "residual", "none"][kc]}]'
                    ctx.panic_summary(nm, outs, ex)
                    rets = [o for o in outs if o.kind == 'ret']
                    convertible = kp and ka and kr and kc != 1
                    for i, o in enumerate(rets):
                        is_ok = o.val.variant == 'Ok'
                        good = True
                        if is_ok:
                            A = o.st.notes.get('new_args', [])
                            def uid_of(x):
                                x = C.res(ex, o.st, x)
                                if isinstance(x, Agg) and x.name == '~peuid':
                                    x = C.res(ex, o.st, x.fields[0])
                                return getattr(x, 'id', None)
                            good = len(A) >= 4 and [uid_of(A[0]), uid_of(A[1]), uid_of(A[2])] == [uids['principal'].id, uids['action'].id, uids['resource'].id]
                            if good:
                                c4 = A[3]
                                good = (c4.variant == 'Some' and getattr(C.res(ex, o.st, c4.fields[0]), 'id', None) == attrs.id) if kc == 0 else c4.variant == 'None'
                        want = z3.And(z3.BoolVal(bool(convertible)), NEWOK)
                        ctx.decide(f'{nm}/path{i}', o.pc + [z3.Not(z3.And(z3.BoolVal(is_ok) == want, z3.BoolVal(bool(good))))], ex=ex,
                                   on_sat=lambda m: battery_replay(ctx, nm, 'batched_evaluator.rs: concrete_request_to_partial', 'the request handed to the partial evaluator is not the request asked about'))
                    ctx.decide(f'{nm}/paths-cover', [z3.Not(z3.Or([z3.And(o.pc) if o.pc else T for o in rets]))], ex=ex)
                    ctx.decide(f'{nm}/witness', [z3.Or([z3.And(o.pc) if o.pc else T for o in rets])], expect='sat', ex=ex)


# ---------------------------------------------------------------------------------------------------------------- the loop



def driver(ctx, max_iters, NID=3, NPOL=2):
    """the whole of is_authorized_batched for a concrete budget, two residual policies and three entity ids; everything the residuals say is symbolic"""
    P = ctx.prog('core')
    f = P.method('batched_evaluator.rs', 'is_authorized_batched', nargs=5)
    ctx.use(f)
    ex = ctx.new_exec('core')
    ex.havoc_unknown = True
    ex.max_paths = 60000
    ex.max_steps = 20_000_000
    for w in ('BatchedEvalError',):
        ex.from_wrappers.add(w)
    C.install(ex)
    K = max_iters + 1
    # residual of policy i after k evaluations: is it partial, and which ids does it mention
    PART = [[z3.Bool(f'residual{i}_{k}_partial') for k in range(K + 1)] for i in range(NPOL)]
    USES = [[[z3.Bool(f'residual{i}_{k}_mentions_id{j}') for j in range(NID)] for k in range(K + 1)] for i in range(NPOL)]
    FOUND = [z3.Bool(f'entity{j}_exists') for j in range(NID)]
    DEC = z3.Int('final_decision')          # 0 Allow, 1 Deny, 2 none
    ex.invariants.append(z3.And(DEC >= 0, DEC <= 2))
    RES = 'tpe::residual::Residual'
    res_tok = [[Opaque(RES, f'residual of policy {i} after {k} evaluations') for k in range(K + 1)] for i in range(NPOL)]
    tok_idx = {res_tok[i][k].id: (i, k) for i in range(NPOL) for k in range(K + 1)}
    for i in range(NPOL):
        for k in range(K + 1):
            ex.invariants.append(ex.is_variant(res_tok[i][k], 'Partial') == PART[i][k])
    pids = [Opaque('ast::policy::PolicyID', f'policy id {i}') for i in range(NPOL)]
    heap = {f'KEY{j}': ex.const_int(j, 'u8') for j in range(NID)}
    heap.update({f'PID{i}': pids[i] for i in range(NPOL)})
    heap.update({'RQ': Opaque('ast::request::Request', 'request'), 'PS': Opaque('ast::policy_set::PolicySet', 'policies'), 'S': Opaque('validator::schema::ValidatorSchema', 'schema'), 'LD': Opaque('dyn EntityLoader', 'loader')})
    ex.stub(r'(^|::)concrete_request_to_partial$', lambda ex_, st, c, A: ok(Opaque('tpe::request::PartialRequest', 'partial request')), 'concrete_request_to_partial: ok (own obligation)')
    ex.stub(r'<PartialEntities as Default>::default$', lambda ex_, st, c, A: Agg('struct', 'tpe::entities::PartialEntities', None, [C.sset([F] * NID)], ('entities',)), 'PartialEntities::default: the empty store')
    ex.stub(r'Extensions::<.*>::all_available$|Extensions::all_available$', lambda ex_, st, c, A: Opaque('&Extensions', 'extensions'), 'Extensions::all_available')
    exprs = [Opaque('ast::expr::Expr', f'policy {i} condition') for i in range(NPOL)]
    ex.stub(r'(^|::)policy_residual_map$', lambda ex_, st, c, A: ok(C.cmap([Agg('tuple', None, None, [Ref(0, ('local', f'PID{i}')), exprs[i]]) for i in range(NPOL)])), 'policy_residual_map: the two policy conditions')
    ex.stub(r'<(std::collections::)?HashMap<.*> as IntoIterator>::into_iter$', lambda ex_, st, c, A: Agg('struct', '~vec_iter', None, list(A[0].fields)) if isinstance(A[0], Agg) and A[0].name == '~cmap' else None, 'concrete map: into_iter')

    def loaded_bits(st, ents):
        e = C.res(ex, st, ents)
        return e.fields[0] if isinstance(e, Agg) and e.name and 'PartialEntities' in e.name else None

    def interpret(ex_, st, c, A):
        ev = C.res(ex_, st, A[0])
        x = C.res(ex_, st, A[1])
        if isinstance(x, Agg) and x.name == 'Arc':
            x = C.res(ex_, st, x.fields[0])
        # which store does the evaluator see
        seen = None
        if isinstance(ev, Agg) and len(ev.fields) >= 2:
            b = loaded_bits(st, ev.fields[1])
            seen = tuple(str(z3.simplify(v.t)) for v in b.fields) if b is not None else None
        if getattr(x, 'id', None) in {e.id: i for i, e in enumerate(exprs)}:
            i = {e.id: i for i, e in enumerate(exprs)}[x.id]
            st.notes.setdefault('evals', []).append((i, 0, seen))
            return res_tok[i][0]
        ik = tok_idx.get(getattr(x, 'id', None))
        if ik is None or ik[1] + 1 > K:
            raise NotEncoded(f'interpret of {x!r}')
        st.notes.setdefault('evals', []).append((ik[0], ik[1] + 1, seen))
        return res_tok[ik[0]][ik[1] + 1]
    ex.stub(r'tpe::evaluator::Evaluator::<.*>::interpret$|(^|::)Evaluator::<.*>::interpret$|(^|::)Evaluator::interpret$', interpret, 'tpe::Evaluator::interpret: the next residual of that policy (arbitrary), logged with the store it saw')
    ex.stub(r'PolicySet::get$', lambda ex_, st, c, A: some(ex_.new_cell(st, Opaque('ast::policy::Policy', 'policy'), 'pol')), 'PolicySet::get: the policy')
    ex.stub(r'ResidualPolicy::new$', lambda ex_, st, c, A: Agg('struct', 'tpe::response::ResidualPolicy', None, [A[0], A[1]], ('residual', 'policy')), 'ResidualPolicy::new (pair)')
    ex.stub(r'ResidualPolicy::get_residual$', lambda ex_, st, c, A: C.res(ex_, st, A[0]).fields[0], 'ResidualPolicy::get_residual')
    ex.stub(r'ResidualPolicy::get_policy_id$', lambda ex_, st, c, A: Ref(0, ('local', 'PID0')), 'ResidualPolicy::get_policy_id')

    def literal_uids(ex_, st, c, A):
        rp = C.res(ex_, st, A[0])
        r = C.res(ex_, st, rp.fields[0]) if isinstance(rp, Agg) and rp.fields else rp
        if isinstance(r, Agg) and r.name == 'Arc':
            r = C.res(ex_, st, r.fields[0])
        ik = tok_idx.get(getattr(r, 'id', None))
        if ik is None:
            raise NotEncoded(f'all_literal_uids of {r!r}')
        return C.sset(USES[ik[0]][ik[1]])
    ex.stub(r'ResidualPolicy::all_literal_uids$|Residual::all_literal_uids$', literal_uids, 'all_literal_uids(residual): an arbitrary subset of the ids (own per-node obligations)')
    C.install_symbolic_sets(ex, lambda j: Ref(0, ('local', f'KEY{j}')))

    def flat_map(ex_, st, c, A):
        it = A[0]
        if not (isinstance(it, Agg) and it.name == '~vec_iter'):
            return None
        clo = A[1]

        def go(st2, rest, acc):
            if not rest:
                return Agg('struct', '~sym_iter', None, acc)

            def then(st3, r):
                r = C.res(ex_, st3, r)
                if not (isinstance(r, Agg) and r.name == '~sset'):
                    raise NotEncoded(f'flat_map closure returned {r!r}')
                return go(st3, rest[1:], acc + [Agg('tuple', None, None, [b, ex_.const_int(j, 'u8')]) for j, b in enumerate(r.fields)])
            return ex_.call_closure(st2, clo, [rest[0]], then=then)
        return go(st, list(it.fields), [])
    ex.stub(r' as Iterator>::flat_map::<', flat_map, 'flat_map over the residual list: the mentioned ids of every residual, in order')
    ex.stub(r'PartialEntities::contains_entity$', lambda ex_, st, c, A: (lambda b, k: None if b is None or k is None else b.fields[k])(loaded_bits(st, A[0]), C.ckey(ex_, st, A[1])), 'PartialEntities::contains_entity: the loaded bit')
    ex.stub(r'<(ast::)?(entity::)?EntityUID as Clone>::clone$', lambda ex_, st, c, A: C.res(ex_, st, A[0]), 'EntityUID::clone')

    def load(ex_, st, c, A):
        req = C.res(ex_, st, A[1])
        if not (isinstance(req, Agg) and req.name == '~cset'):
            raise NotEncoded(f'load_entities of {req!r}')
        ids = [C.ckey(ex_, st, x) for x in req.fields]
        st.notes.setdefault('loads', []).append(tuple(ids))
        alts = [([], [])]
        for j in ids:
            alts = [(cs + [FOUND[j]], es + [(j, True)]) for cs, es in alts] + [(cs + [z3.Not(FOUND[j])], es + [(j, False)]) for cs, es in alts]
        return [(cs, C.cmap([Agg('tuple', None, None, [ex_.const_int(j, 'u8'), some(Opaque('ast::entity::Entity', f'entity {j}')) if fnd else none()]) for j, fnd in es])) for cs, es in alts]
    ex.stub(r'EntityLoader>::load_entities$', load, 'EntityLoader::load_entities: answers exactly the requested ids, each existing or not, logged')
    ex.stub(r'<PartialEntity as TryFrom<.*Entity>>::try_from$', lambda ex_, st, c, A: ok(Agg('struct', '~partial_entity', None, [A[0]])), 'PartialEntity::try_from: ok')
    ex.stub(r'Entity::with_uid$', lambda ex_, st, c, A: Agg('struct', '~empty_entity', None, [A[0]]), 'Entity::with_uid (an entity without attributes, parents, tags)')
    ex.stub(r'(^|::)once::<', lambda ex_, st, c, A: Agg('struct', '~vec_iter', None, [A[0]]), 'iter::once')

    def add(ex_, st, c, A):
        trusted = 'add_entity_trusted' in c
        if trusted:
            k, pe = C.ckey(ex_, st, A[1]), A[2]
        else:
            it = A[1]
            pair = it.fields[0]
            k, pe = C.ckey(ex_, st, pair.fields[0]), pair.fields[1]
        b = loaded_bits(st, A[0])
        if b is None or k is None:
            raise NotEncoded(f'{c} on {A!r}')
        src = C.res(ex_, st, pe.fields[0]) if isinstance(pe, Agg) and pe.fields else None
        st.notes.setdefault('adds', []).append((k, 'absent' if isinstance(src, Agg) and src.name == '~empty_entity' else 'loaded', trusted))
        r = C.base_ref(ex_, st, A[0])
        e = ex_.read(st, r.fid, r.place)
        return [([], ok(UNIT), lambda s2: ex_.write(s2, r.fid, r.place, e.with_field(0, b.with_field(k, BoolV(T)))))]
    ex.stub(r'PartialEntities::(add_entities::<.*>|add_entity_trusted)$', add, 'PartialEntities::{add_entities, add_entity_trusted}: the id becomes known, logged')

    def resp_new(ex_, st, c, A):
        it = A[0]
        items = it.fields if isinstance(it, Agg) and it.name in ('~vec_iter', '~vec') else None
        fin = []
        for x in items or []:
            r = C.res(ex_, st, C.res(ex_, st, x).fields[0])
            if isinstance(r, Agg) and r.name == 'Arc':
                r = C.res(ex_, st, r.fields[0])
            fin.append(tok_idx.get(getattr(r, 'id', None)))
        st.notes['final'] = fin
        return Opaque('tpe::response::Response', 'response')
    ex.stub(r'response::Response::<.*>::new::<|Response::<.*>::new::<', resp_new, 'tpe::Response::new over the final residuals, logged (C14)')
    DN = 'authorizer::Decision'
    ex.stub(r'response::Response::<.*>::decision$|Response::<.*>::decision$', lambda ex_, st, c, A: [([DEC == 0], some(Agg('variant', DN, 'Allow', []))), ([DEC == 1], some(Agg('variant', DN, 'Deny', []))), ([DEC == 2], none())],
            'tpe::Response::decision: Allow | Deny | none (C14)')
    args = [Ref(0, ('local', 'RQ')), Ref(0, ('local', 'PS')), Ref(0, ('local', 'S')), Ref(0, ('local', 'LD')), ex.const_int(max_iters, 'u32')]
    outs = ex.run(f, args, heap=heap)
    ctx.absorb(ex)
    nm = f'is_authorized_batched[budget {max_iters}, {NPOL} policies, {NID} entity ids]'
    ctx.panic_summary(nm, outs, ex)
    rets = [o for o in outs if o.kind == 'ret']
    role = 'batched_evaluator.rs: is_authorized_batched loop'
    bad = []
    n_struct_bad = 0
    for o in rets:
        loads, adds, evals, final = o.st.notes.get('loads', []), o.st.notes.get('adds', []), o.st.notes.get('evals', []), o.st.notes.get('final')
        claims = []
        # (1) budget respected
        claims.append(z3.BoolVal(len(loads) <= max_iters))
        # (2) every iteration re-evaluates every residual once, in its turn, against the store after that iteration's loads
        per_round = {}
        for (i, k, seen) in evals:
            per_round.setdefault(k, []).append(i)
        rounds = len(loads)
        structure = sorted(per_round) == list(range(rounds + 1)) and all(sorted(v) == list(range(NPOL)) for v in per_round.values())
        # (3) request of round k (k = 1..rounds) = ids mentioned by some residual after k-1 evaluations and not loaded before; all answers recorded
        # (what the property needs: nothing is asked for that no residual mentions or that is already known, and as long as some mentioned id is
        # unknown at least one of them is asked for - so a budget above the number of distinct ids always suffices; asking for ALL of them at once is an
        # efficiency matter the property does not state)
        known = set()
        for k in range(rounds):
            reqd = set(loads[k])
            needed = []
            for j in range(NID):
                mentioned = z3.Or([USES[i][k][j] for i in range(NPOL)])
                want_j = z3.And(mentioned, z3.BoolVal(j not in known))
                needed.append(want_j)
                if j in reqd:
                    claims.append(want_j)
            claims.append(z3.Implies(z3.Or(needed), z3.BoolVal(bool(reqd))))
            known |= reqd
        added = [a[0] for a in adds]
        structure = structure and sorted(added) == sorted(x for l in loads for x in l) and len(set(added)) == len(added)
        for (k_, how, trusted) in adds:
            claims.append(z3.BoolVal(how == 'loaded') == FOUND[k_])
        # (4) the loop stops before the budget is used up only when nothing is partial
        if rounds < max_iters:
            claims.append(z3.And([z3.Not(PART[i][rounds]) for i in range(NPOL)]) if rounds > 0 else F)
        for k in range(1, rounds):
            claims.append(z3.Or([PART[i][k] for i in range(NPOL)]))
        # (5) result = decision of the response over the final residuals
        structure = structure and final is not None and sorted(final, key=str) == [(i, rounds) for i in range(NPOL)]
        if isinstance(o.val, Agg) and o.val.variant == 'Ok':
            d = o.val.fields[0]
            claims.append(z3.And(DEC != 2, z3.BoolVal(isinstance(d, Agg) and d.variant in ('Allow', 'Deny')), (DEC == 0) == z3.BoolVal(isinstance(d, Agg) and d.variant == 'Allow')))
        elif isinstance(o.val, Agg) and o.val.variant == 'Err':
            claims.append(DEC == 2)
        else:
            raise NotEncoded(f'{nm}: result {o.val!r}')
        if not structure:
            n_struct_bad += 1
        bad.append(z3.And(o.pc + [z3.Not(z3.And([z3.BoolVal(bool(structure))] + claims))]))
        import os as _os
        if _os.environ.get('C15_DEBUG'):
            sv = z3.Solver()
            sv.add(*ex.invariants)
            sv.add(*o.pc)
            for ci, cl in enumerate([z3.BoolVal(bool(structure))] + claims):
                sv.push()
                sv.add(z3.Not(cl))
                if sv.check() == z3.sat:
                    print('FAIL claim', ci, cl, '| loads', loads, 'adds', adds, 'evals', [(a, b) for a, b, _ in evals], 'final', final, 'val', o.val.variant, 'pc', [str(c)[:50] for c in o.pc][:12])
                    _os.environ['C15_DEBUG'] = ''
                    sv.pop()
                    break
                sv.pop()
    ctx.decide(f'{nm}/loads exactly the unknown mentioned ids, re-evaluates every residual, stops only when decided, result = response decision, on all {len(rets)} paths',
               [z3.Or(bad) if bad else F], ex=ex, sample={'paths': len(rets), 'paths_with_wrong_structure': n_struct_bad},
               on_sat=lambda m: battery_replay(ctx, nm, role, 'the batched-evaluation loop deviates from its specification'))
    ctx.decide(f'{nm}/paths-cover', [z3.Not(z3.Or([z3.And(o.pc) if o.pc else T for o in rets]))], ex=ex)
    ctx.decide(f'{nm}/witness-decision', [z3.Or([z3.And(o.pc) if o.pc else T for o in rets if o.val.variant == 'Ok'] or [F])], expect='sat', ex=ex)
    ctx.decide(f'{nm}/witness-insufficient', [z3.Or([z3.And(o.pc) if o.pc else T for o in rets if o.val.variant == 'Err'] or [F])], expect='sat', ex=ex)
    return len(rets)


def literal_uids_nodes(ctx):
    """ResidualKind::all_literal_uids per node kind and Residual::all_literal_uids: the ids requested from the loader are the UNION over every child (two ids, symbolic
    membership per child) - no child is skipped"""
    P = ctx.prog('core')
    f = P.method('tpe/residual.rs', 'all_literal_uids', nargs=1, arg0=r'&.*ResidualKind$')
    ctx.use(f)
    RK, RES = 'tpe::residual::ResidualKind', 'tpe::residual::Residual'
    NIDS = 2
    shapes = [('Var', 0), ('If', 3), ('And', 2), ('Or', 2), ('UnaryApp', 1), ('BinaryApp', 2), ('ExtensionFunctionApp', 2), ('GetAttr', 1), ('HasAttr', 1), ('Like', 1), ('Is', 1), ('Set', 2), ('Record', 2)]
    for kind, n in shapes:
        ex = ctx.new_exec('core')
        ex.havoc_unknown = True
        ex.max_paths = 200
        ex.stub(r'^(std::collections::)?HashSet::<.*>::new$', lambda ex_, st, c, A: C.sset([F] * NIDS), 'HashSet::new (empty set over the ids)')
        C.install(ex)
        heap = {f'KEY{j}': ex.const_int(j, 'u8') for j in range(NIDS)}
        C.install_symbolic_sets(ex, lambda j: Ref(0, ('local', f'KEY{j}')))
        kids = [Opaque(RES, f'child{i}') for i in range(n)]
        U = [[z3.Bool(f'child{i}_mentions_id{j}') for j in range(NIDS)] for i in range(n)]
        arc = lambda x: Agg('struct', 'Arc', None, [x], ('inner',))
        if kind == 'Var':
            node = Agg('variant', RK, 'Var', [Opaque('Var', 'v')])
        elif kind == 'UnaryApp':
            node = Agg('variant', RK, kind, [Opaque('UnaryOp', 'op'), arc(kids[0])])
        elif kind == 'BinaryApp':
            node = Agg('variant', RK, kind, [Opaque('BinaryOp', 'op'), arc(kids[0]), arc(kids[1])])
        elif kind == 'ExtensionFunctionApp':
            node = Agg('variant', RK, kind, [Opaque('Name', 'fn'), arc(Agg('struct', '~vec', None, list(kids)))])
        elif kind == 'Set':
            node = Agg('variant', RK, kind, [arc(Agg('struct', '~vec', None, list(kids)))])
        elif kind == 'Record':
            node = Agg('variant', RK, kind, [arc(Agg('struct', '~btree', None, [Agg('tuple', None, None, [Opaque('SmolStr', f'k{i}'), kids[i]]) for i in range(n)]))])
        elif kind in ('GetAttr', 'HasAttr', 'Like', 'Is'):
            node = Agg('variant', RK, kind, [arc(kids[0]), Opaque('x', 'payload')])
        else:
            node = Agg('variant', RK, kind, [arc(k) for k in kids])
        kidx = {k.id: i for i, k in enumerate(kids)}

        def child_uids(ex_, st, c, A):
            x = C.res(ex_, st, A[0])
            if isinstance(x, Agg) and x.name == 'Arc':
                x = C.res(ex_, st, x.fields[0])
            i = kidx.get(getattr(x, 'id', None))
            if i is None:
                return None
            st.notes['asked'] = st.notes.get('asked', []) + [i]
            return C.sset(U[i])
        ex.stub(r'Residual::all_literal_uids$', child_uids, 'recursive Residual::all_literal_uids(child i): an arbitrary subset of the ids, logged')
        def extend(ex_, st, c, A):
            a, b = C.res(ex_, st, A[0]), C.res(ex_, st, A[1])
            if not (isinstance(a, Agg) and a.name == '~sset' and isinstance(b, Agg) and b.name == '~sset'):
                return None
            r = C.base_ref(ex_, st, A[0])
            new = Agg('struct', '~sset', None, [BoolV(z3.Or(x.t, y.t)) for x, y in zip(a.fields, b.fields)])
            return [([], UNIT, lambda s2: ex_.write(s2, r.fid, r.place, new))]
        ex.stub(r'HashSet<.*> as Extend<.*>>::extend::<', extend, 'HashSet::extend (union)')
        ex.stub(r'BTreeMap::<.*>::values$', lambda ex_, st, c, A: (lambda m, r: Agg('struct', '~vec_iter', None, [Ref(r.fid, ('field', ('field', r.place, i, '?'), 1, '?')) for i in range(len(m.fields))]) if isinstance(m, Agg) and m.name == '~btree' else None)(C.res(ex_, st, A[0]), C.base_ref(ex_, st, A[0])),
                'BTreeMap::values over the two fields')
        heap['NODE'] = node
        outs = ex.run(f, [Ref(0, ('local', 'NODE'))], heap=heap)
        ctx.absorb(ex)
        nm = f'ResidualKind::all_literal_uids[{kind}]'
        ctx.panic_summary(nm, outs, ex)
        rets = [o for o in outs if o.kind == 'ret']
        for i, o in enumerate(rets):
            r = C.res(ex, o.st, o.val)
            good = isinstance(r, Agg) and r.name == '~sset'
            claim = z3.And([r.fields[j].t == z3.Or([U[c_][j] for c_ in range(n)] or [F]) for j in range(NIDS)]) if good else F
            ctx.decide(f'{nm}/path{i}', o.pc + [z3.Not(claim)], ex=ex, sample={'children asked': o.st.notes.get('asked', [])} if kind == 'If' else None,
                       on_sat=lambda m, nm=nm: battery_replay(ctx, nm, 'tpe/residual.rs: ResidualKind::all_literal_uids', 'an entity id mentioned by a residual is not requested from the loader'))
        ctx.decide(f'{nm}/paths-cover', [z3.Not(z3.Or([z3.And(o.pc) if o.pc else T for o in rets]))], ex=ex)
        ctx.decide(f'{nm}/witness', [z3.Or([z3.And(o.pc) if o.pc else T for o in rets])], expect='sat', ex=ex)


CONFIGS = [(0, 3, 2), (1, 3, 2), (2, 2, 2), (2, 2, 1), (3, 1, 1)]        # (budget, entity ids, residual policies)


def families(ctx):
    fam = [('request conversion', lambda: request_conversion(ctx)), ('ids mentioned by a residual, per node kind', lambda: literal_uids_nodes(ctx))]
    for b, nid, npol in CONFIGS + ([(2, 3, 1), (3, 1, 2)] if ctx.tier == 'thorough' else []):
        fam.append((f'driver loop, budget {b}, {npol} policies, {nid} ids', lambda b=b, nid=nid, npol=npol: driver(ctx, b, nid, npol)))
    return fam


def run(ctx):
    ctx.run_families(families(ctx))
    ctx.guarded('native battery', lambda: battery_selftest(ctx))
    ctx.bounds += [f'driver loop: (budget, entity ids, residual policies) in {CONFIGS}, everything the residuals say (partial or not, which ids they mention, after each evaluation) symbolic; '
                   'more policies / ids / iterations are outside the symbolic claim', f'native battery: {len(BATTERY)} scenarios x budgets {BUDGETS} x (exact loader, loader returning extra entities)']
    ctx.assumptions += ['tpe::Evaluator::interpret, policy_residual_map, Residual::all_literal_uids, PartialEntities::{add_entities, add_entity_trusted, contains_entity}, PartialEntity::try_from, tpe::Response::{new, decision} and the loader '
                        'are environment stubs: that a residual keeps the meaning of its policy, that all_literal_uids lists every id, and the response table (C14) are NOT decided here',
                        'the loader answers exactly the requested ids (its documented contract allows more); validated policies and schema-conformant data are a precondition of the property and of the battery']
    return ctx.finish('Solver-decided driver of batched authorization, executed from the MIR of batched_evaluator.rs: request conversion, and the loop for budgets 0..3 with up to two residual policies over up to three entity ids - the loader is asked '
                      'only for not-yet-known ids the residuals mention and for at least one while there is one, every answer (existing or not) is recorded, every residual is re-evaluated against the updated store, the loader is called at most `budget` times, the loop '
                      'ends early only when no residual is partial, and the result is the decision of the TPE response over the final residuals or `insufficient iterations`; plus a native battery comparing batched with ordinary '
                      'authorization over budgets 0..9.')
