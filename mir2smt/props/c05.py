"""C05, a narrow slice - where the printer puts parentheses (est/expr.rs: `maybe_with_parens` and `impl BoundedDisplay for ExprNoExt`; the AST printer goes through the
EST printer, so this is the only expression printer).  parse(print(e)) = e needs the parser, which is out of reach (LALRPOP + regex); what is decidable is the
printer's side of the argument: the grammar parses `Member := Primary Access*` tightest, so an operand printed WITHOUT parentheses keeps its structure only if
it prints at that level, or if the grammar's associativity puts it back where it was:
  maybe_with_parens   wraps every expression kind in parentheses except those that print as a primary or member expression (literals, variables, slots, sets,
                      records, attribute access, method-style calls, extension calls);
  each operator node  prints every operand through maybe_with_parens, with exactly these exceptions: the LEFT operand of the left-associative &&, ||, +, -, * when
                      it is the same operator; operands that are syntactically delimited anyway (inside `-( )`, method-call arguments, the three parts of `if`, set and
                      record members); and the operator text between the operands is the operator's.
Reference: the Cedar grammar (docs) as a table in this file."""
import z3
from ..executor import IntV, BoolV, Agg, Opaque, Ref, NotEncoded, UNIT
from ..models import ok, err, some, none
from .. import containers as C
from .c06 import arc, strip

T, F = z3.BoolVal(True), z3.BoolVal(False)
FILE = 'est/expr.rs'
EX, NE = 'est::expr::Expr', 'est::expr::ExprNoExt'
BIN = {'Eq': ' == ', 'NotEq': ' != ', 'In': ' in ', 'Less': ' < ', 'LessEq': ' <= ', 'Greater': ' > ', 'GreaterEq': ' >= ', 'And': ' && ', 'Or': ' || ', 'Add': ' + ', 'Sub': ' - ', 'Mul': ' * '}
LEFT_ASSOC = ('And', 'Or', 'Add', 'Sub', 'Mul')
# kinds that print as a primary / member expression (everything else needs parentheses as an operand)
MEMBER_LEVEL = ('Value', 'Var', 'Slot', 'Set', 'Record', 'GetAttr', 'Contains', 'ContainsAll', 'ContainsAny', 'IsEmpty', 'GetTag', 'HasTag')
LOWER = ('Not', 'Neg', 'Eq', 'NotEq', 'In', 'Less', 'LessEq', 'Greater', 'GreaterEq', 'And', 'Or', 'Add', 'Sub', 'Mul', 'HasAttr', 'Like', 'Is', 'If')


def node_of(variant, fields=(), names=None):
    return Agg('variant', EX, 'ExprNoExt', [Agg('variant', NE, variant, list(fields), names)])


def fmt_fn(P, owner):
    fs = [f for f in P.find(r'>::fmt$', 'cedar-policy-core/src/est/expr.rs') if len(f.args) == 3 and f.args[0][1].split('<')[0].endswith(owner) and '{closure' not in f.name]
    if len(fs) != 1:
        raise LookupError(f'BoundedDisplay::fmt for {owner}: {len(fs)} candidates')
    return fs[0]


def common(ex, log):
    gid = lambda ex_, st, v: getattr(strip(ex_, st, v), 'id', None)

    def wfmt(ex_, st, c, A):
        log(st, ('text', repr(strip(ex_, st, A[1]))[:200]))
        return ok(UNIT)
    ex.stub(r' as (std::fmt::)?Write>::write_fmt$|Write>::write_str$', wfmt, 'write! into the output: logged')
    return gid


def parens_table(ctx, battery):
    P = ctx.prog('core')
    fs = [f for f in P.find(r'(^|::)maybe_with_parens$', FILE)]
    if len(fs) != 1:
        raise LookupError(f'maybe_with_parens: {len(fs)} candidates')
    f = fs[0]
    ctx.use(f)
    for kind in MEMBER_LEVEL + LOWER + ('ExtFuncCall',):
        ex = ctx.new_exec('core')
        ex.havoc_unknown = True

        def log(st, x):
            st.notes['log'] = st.notes.get('log', []) + [x]
        gid = common(ex, log)
        ex.stub(r'Expr as BoundedDisplay>::fmt(::<.*>)?$|BoundedDisplay>::fmt::<', lambda ex_, st, c, A: [([], ok(UNIT), lambda s2: log(s2, ('inner',)))], 'printing the expression itself: logged')
        e = Agg('variant', EX, 'ExtFuncCall', [Opaque('est::expr::ExtFuncCall', 'call')]) if kind == 'ExtFuncCall' else node_of(kind, [Opaque('payload', 'payload')])
        outs = ex.run(f, [Ref(0, ('local', 'W')), Ref(0, ('local', 'E')), Opaque('Option<usize>', 'limit')], heap={'W': Opaque('impl Write', 'the writer'), 'E': e}, subst={})
        ctx.absorb(ex)
        nm = f'maybe_with_parens[{kind}]'
        ctx.panic_summary(nm, outs, ex)
        rets = [o for o in outs if o.kind == 'ret']
        bad = []
        for o in rets:
            lg = o.st.notes.get('log', [])
            texts = [x[1] for x in lg if x[0] == 'text']
            wrapped = len(lg) == 3 and lg[0][0] == 'text' and '"("' in lg[0][1] and lg[1] == ('inner',) and lg[2][0] == 'text' and '")"' in lg[2][1]
            bare = lg == [('inner',)]
            good = bare if (kind in MEMBER_LEVEL or kind == 'ExtFuncCall') else wrapped
            # wrapping a member-level expression is harmless; leaving a lower-precedence one bare is not
            good = good or (wrapped and kind in MEMBER_LEVEL + ('ExtFuncCall',))
            bad.append(z3.And(z3.And(o.pc) if o.pc else T, z3.BoolVal(not good)))
        ctx.decide(f'{nm}/' + ('may print bare' if kind in MEMBER_LEVEL + ('ExtFuncCall',) else 'is wrapped in parentheses'), [z3.Or(bad) if bad else T], ex=ex, sample={'log': [str(x)[:80] for x in (rets[0].st.notes.get('log', []) if rets else [])]},
                   on_sat=lambda m: battery(ctx, nm, 'est/expr.rs: maybe_with_parens', f'a {kind} expression is printed as an operand without parentheses'))
        if kind in ('And', 'Var'):
            ctx.decide(f'{nm}/witness', [z3.Or([z3.And(o.pc) if o.pc else T for o in rets] or [F])], expect='sat', ex=ex)


def operator_arms(ctx, battery):
    """impl BoundedDisplay for ExprNoExt, the operator arms: every operand goes through maybe_with_parens except the left operand of a left-associative operator
    that is the same operator; the text between the operands is the operator's"""
    P = ctx.prog('core')
    f = fmt_fn(P, 'ExprNoExt')
    ctx.use(f)

    def run(kind, fields, names, expect, label):
        ex = ctx.new_exec('core')
        ex.havoc_unknown = True
        ex.max_paths = 400

        def log(st, x):
            st.notes['log'] = st.notes.get('log', []) + [x]
        gid = common(ex, log)
        ex.stub(r'(^|::)maybe_with_parens(::<.*>)?$', lambda ex_, st, c, A: [([], ok(UNIT), lambda s2: log(s2, ('operand', gid(ex_, st, A[1]) or id_of(ex_, st, A[1]))))], 'maybe_with_parens(operand): logged')
        ex.stub(r'[<:]Expr as ([\w]+::)*BoundedDisplay>::fmt(::<.*>)?$', lambda ex_, st, c, A: [([], ok(UNIT), lambda s2: log(s2, ('bare', gid(ex_, st, A[0]) or id_of(ex_, st, A[0]))))], 'printing an operand without parentheses: logged')
        ex.stub(r'Arc<.*Expr> as AsRef<.*>>::as_ref$|Arc<.*Expr> as Deref>::deref$', lambda ex_, st, c, A: (lambda a, r: Ref(r.fid, ('field', r.place, 0, 'inner')) if isinstance(a, Agg) and a.name == 'Arc' and isinstance(r, Ref) else None)(C.res(ex_, st, A[0]), C.base_ref(ex_, st, A[0])), 'Arc::as_ref')
        node = Agg('variant', NE, kind, fields, names)
        outs = ex.run(f, [Ref(0, ('local', 'N')), Ref(0, ('local', 'W')), Opaque('Option<usize>', 'limit')], heap={'N': node, 'W': Opaque('impl Write', 'the writer')}, subst={})
        ctx.absorb(ex)
        nm = f'printer[{label}]'
        ctx.panic_summary(nm, outs, ex)
        rets = [o for o in outs if o.kind == 'ret']
        bad = []
        last = None
        for o in rets:
            lg = o.st.notes.get('log', [])
            last = lg
            got = [(x[0], x[1]) if x[0] != 'text' else ('text', x[1]) for x in lg]
            good = len(got) == len(expect) and all((g[0] == e[0] and (g[1] == e[1] if e[0] != 'text' else (f'"{e[1]}"' in g[1]))) for g, e in zip(got, expect))
            bad.append(z3.And(z3.And(o.pc) if o.pc else T, z3.BoolVal(not good)))
        ctx.decide(f'{nm}/operands parenthesised where the grammar needs it, operator text in between', [z3.Or(bad) if bad else T], ex=ex, sample={'log': [str(x)[:70] for x in (last or [])]},
                   on_sat=lambda m: battery(ctx, nm, 'est/expr.rs: BoundedDisplay for ExprNoExt', f'the printer of a {label} node leaves an operand without the parentheses the grammar needs, or prints another operator'))
        ctx.decide(f'{nm}/witness', [z3.Or([z3.And(o.pc) if o.pc else T for o in rets] or [F])], expect='sat', ex=ex)

    ids = {}

    def id_of(ex_, st, v):
        v = strip(ex_, st, v)
        return ids.get(id(v)) or getattr(v, 'id', None)
    for kind, text in BIN.items():
        l, r = Opaque(EX, 'left operand'), Opaque(EX, 'right operand')
        if kind in LEFT_ASSOC:
            lv = node_of('Var', [Opaque('ast::expr::Var', 'a variable')])
            ids[id(lv)] = 'variable left operand'
            run(kind, [arc(lv), arc(r)], ('left', 'right'), [('operand', 'variable left operand'), ('text', text), ('operand', r.id)], f'{kind}, a variable on the left')
        else:
            run(kind, [arc(l), arc(r)], ('left', 'right'), [('operand', l.id), ('text', text), ('operand', r.id)], f'{kind}, operands of any kind')
        if kind in LEFT_ASSOC:
            same = node_of(kind, [arc(Opaque(EX, 'inner left')), arc(Opaque(EX, 'inner right'))], ('left', 'right'))
            ids[id(same)] = 'same-operator left operand'
            run(kind, [arc(same), arc(r)], ('left', 'right'), [('bare', 'same-operator left operand'), ('text', text), ('operand', r.id)], f'{kind}, left operand the same operator')
            # the RIGHT operand being the same operator still needs parentheses (the grammar is left-associative)
            run(kind, [arc(lv), arc(same)], ('left', 'right'), [('operand', 'variable left operand'), ('text', text), ('operand', 'same-operator left operand')], f'{kind}, right operand the same operator')
            other = node_of('Sub' if kind != 'Sub' else 'Add', [arc(Opaque(EX, 'inner left')), arc(Opaque(EX, 'inner right'))], ('left', 'right'))
            ids[id(other)] = 'other-operator left operand'
            run(kind, [arc(other), arc(r)], ('left', 'right'), [('operand', 'other-operator left operand'), ('text', text), ('operand', r.id)], f'{kind}, left operand another operator')
    a = Opaque(EX, 'operand')
    run('Not', [arc(a)], ('arg',), [('text', '!'), ('operand', a.id)], 'Not')


def families(ctx, battery=None):
    battery = battery or print_battery
    return [('maybe_with_parens table', lambda: parens_table(ctx, battery)), ('operator arms', lambda: operator_arms(ctx, battery))]


def print_battery(ctx, name, role, why):
    """native: policies rebuilt from their JSON form print through this printer; the printed text has to parse back to the same policy (the battery of C06, 40 of
    whose conditions are nestings that need, or must keep, parentheses)"""
    from . import c06
    return c06.battery_replay(ctx, name, role, why)


def run(ctx):
    ctx.run_families(families(ctx))
    ctx.guarded('native battery', lambda: print_battery(ctx, 'native battery', 'est/expr.rs: printed text parses back to the same policy', 'native print / re-parse battery'))
    ctx.bounds += ['maybe_with_parens on every expression kind of the EST (31 kinds); the printer arm of every binary operator with operands of any kind, and for the left-associative &&, ||, +, -, * with the same operator / another operator / a variable '
                   'on the left and the same operator on the right; `!`',
                   'native battery (sampling): 91 policies, rebuilt from JSON, printed and re-parsed']
    ctx.assumptions += ['reference = the Cedar grammar: Member := Primary Access* binds tightest; &&, ||, +, -, * are left-associative; relational operators do not associate; the table MEMBER_LEVEL in props/c05.py lists the kinds that print at member level',
                        'write! is a logged stub (the literal pieces are read from the fmt::Arguments constant); operands are opaque',
                        'NOT decided - almost all of C05: the parser (LALRPOP + regex lexer), CST -> AST conversion, printing of literals / strings / names / patterns and their re-lexing, method-call arguments, `has` / `like` / `is` right-hand sides, records, sets, '
                        'policies as a whole (scope, annotations). The claim is only that the printer never leaves a lower-precedence operand bare.']
    return ctx.finish('Solver-decided parenthesisation of the expression printer (est/expr.rs, which the AST printer also uses): maybe_with_parens wraps every expression kind that does not print as a primary / member expression, and every operator arm '
                      'prints its operands through it - except the left operand of a left-associative operator that is the same operator - with the operator\'s own text in between. A narrow slice of C05 (the printer side of parse(print(e)) = e).')
