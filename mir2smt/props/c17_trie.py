"""C17, the access tries the manifest is made of - validator/entity_manifest.rs: AccessTrie::union_mut, one node of the recursive union (cedar-policy-core built with
the entity-manifest feature).  The analysis (c17.py) relies on `union` losing nothing; at a trie node that means: the children of both nodes are merged (union_fields_mut,
logged), the ancestors tries are merged (RootAccessTrie::union_mut, logged), and the node asks for its entity as an ancestor if either side did - dropping that mark
makes the slicer omit a group the policy tests membership in."""
import z3
from ..executor import IntV, BoolV, Agg, Opaque, Ref, NotEncoded, UNIT
from .. import containers as C

T, F = z3.BoolVal(True), z3.BoolVal(False)
FILE = 'validator/entity_manifest.rs'
AT = 'validator::entity_manifest::AccessTrie'


def strip(ex, st, v, n=10):
    while n > 0 and isinstance(v, Ref):
        v = ex.read(st, v.fid, v.place)
        n -= 1
    return v


def node_union(ctx, battery):
    P = ctx.prog('coreem')
    fs = [f for f in P.find(r'::union_mut$', FILE) if f.args and 'AccessTrie' in f.args[0][1] and 'Root' not in f.args[0][1]]
    if len(fs) != 1:
        raise LookupError(f'AccessTrie::union_mut: {len(fs)} candidates')
    f = fs[0]
    ctx.use(f)
    ex = ctx.new_exec('coreem')
    ex.havoc_unknown = True
    A1, A2 = z3.Bool('self_is_ancestor'), z3.Bool('other_is_ancestor')
    c1, c2 = Opaque('HashMap<SmolStr, Box<AccessTrie>>', 'children of self'), Opaque('HashMap<SmolStr, Box<AccessTrie>>', 'children of other')
    t1, t2 = Opaque('validator::entity_manifest::RootAccessTrie', 'ancestors trie of self'), Opaque('validator::entity_manifest::RootAccessTrie', 'ancestors trie of other')
    names = ('children', 'ancestors_trie', 'is_ancestor', 'node_type')
    me = Agg('struct', AT, None, [c1, t1, BoolV(A1), Opaque('Option<Type>', 'type of self')], names)
    other = Agg('struct', AT, None, [c2, t2, BoolV(A2), Opaque('Option<Type>', 'type of other')], names)
    gid = lambda ex_, st, v: getattr(strip(ex_, st, v), 'id', None)

    def log(st, *x):
        st.notes['log'] = st.notes.get('log', []) + [x]

    def fields_union(ex_, st, c, A):
        log(st, 'children', gid(ex_, st, A[0]), gid(ex_, st, A[1]))
        return UNIT
    ex.stub(r'union_fields_mut$', fields_union, 'union_fields_mut(&mut self.children, other.children): logged')

    def root_union(ex_, st, c, A):
        log(st, 'ancestors', gid(ex_, st, A[0]), gid(ex_, st, A[1]))
        return UNIT
    ex.stub(r'RootAccessTrie>?::union_mut$|::union_mut$', lambda ex_, st, c, A: root_union(ex_, st, c, A) if gid(ex_, st, A[0]) == t1.id else None, 'RootAccessTrie::union_mut(&mut self.ancestors_trie, other.ancestors_trie): logged')
    C.install(ex)
    outs = ex.run(f, [Ref(0, ('local', 'ME')), other], heap={'ME': me})
    ctx.absorb(ex)
    nm = 'AccessTrie::union_mut'
    ctx.panic_summary(nm, outs, ex)
    rets = [o for o in outs if o.kind == 'ret']
    bad, cover = [], []
    for o in rets:
        pc = z3.And(o.pc) if o.pc else T
        cover.append(pc)
        after = strip(ex, o.st, Ref(0, ('local', 'ME')))
        lg = sorted(o.st.notes.get('log', []))
        if not (isinstance(after, Agg) and len(after.fields) == 4 and isinstance(after.fields[2], BoolV)):
            raise NotEncoded(f'{nm}: node after the union {after!r}')
        good = lg == sorted([('children', c1.id, c2.id), ('ancestors', t1.id, t2.id)]) and gid(ex, o.st, after.fields[0]) == c1.id and gid(ex, o.st, after.fields[1]) == t1.id
        bad.append(z3.And(pc, z3.Not(z3.And(z3.BoolVal(good), after.fields[2].t == z3.Or(A1, A2)))))
    role = 'validator/entity_manifest.rs: AccessTrie::union_mut'
    why = 'the union of two access-trie nodes loses children, the ancestors trie or the ancestor mark of one side'
    ctx.decide(f'{nm}/children and ancestors tries of both sides merged, ancestor mark = either side', [z3.Or(bad) if bad else F], ex=ex, sample={'paths': len(rets)}, on_sat=lambda m: battery(ctx, nm, role, why))
    ctx.decide(f'{nm}/paths-cover', [z3.Not(z3.Or(cover or [F]))], ex=ex)
    ctx.decide(f'{nm}/witness-mark-from-other', [z3.Not(A1), A2, z3.Or(cover or [F])], expect='sat', ex=ex)


SHAPES = [((), ()), ((1,), (1,)), ((1, 2), (1, 3)), ((2,), (3,)), ((), (1, 3)), ((1, 2), ()), ((1, 2), (3, 1))]


def map_union(ctx, battery, which):
    """the loops that merge two maps of sub-tries (union_fields_mut: attribute -> child; RootAccessTrie::union_mut: root -> trie): for every key of `other`, a key
    `self` already has gets the recursive union of the two values, a new key is inserted with other's value; keys only `self` has stay.  Maps of <= 2 + <= 2 keys
    (one shared, one fresh), values opaque."""
    P = ctx.prog('coreem')
    if which == 'fields':
        fs = [f for f in P.find(r'union_fields_mut$', FILE)]
    else:
        fs = [f for f in P.find(r'::union_mut$', FILE) if f.args and 'RootAccessTrie' in f.args[0][1]]
    if len(fs) != 1:
        raise LookupError(f'{which}: {len(fs)} candidates')
    f = fs[0]
    ctx.use(f)
    nm = 'union_fields_mut' if which == 'fields' else 'RootAccessTrie::union_mut'
    bad_total, runs = [], 0
    for S, O in SHAPES:
        ex = ctx.new_exec('coreem')
        ex.havoc_unknown = True
        key = lambda k: IntV(z3.IntVal(k), 'u64')
        sv = {k: Opaque('AccessTrie', f'value of self for key {k}') for k in S}
        ov = {k: Opaque('AccessTrie', f'value of other for key {k}') for k in O}
        box = (lambda v: Agg('struct', 'Box', None, [v])) if which == 'fields' else (lambda v: v)
        mk = lambda vals, ks: C.cmap([Agg('tuple', None, None, [key(k), box(vals[k])]) for k in ks])

        def gid(ex_, st, v):
            v = strip(ex_, st, v)
            while isinstance(v, Agg) and v.name == 'Box' and len(v.fields) == 1:
                v = strip(ex_, st, v.fields[0])
            return getattr(v, 'id', None)

        def log(st, *x):
            st.notes['log'] = st.notes.get('log', []) + [x]
        ex.stub(r'HashMap<.*> as IntoIterator>::into_iter$', lambda ex_, st, c, A: (lambda m: Agg('struct', '~vec_iter', None, list(m.fields)) if isinstance(m, Agg) and m.name == '~cmap' else None)(strip(ex_, st, A[0])), 'HashMap::into_iter (by value): the entries in order')

        def entry(ex_, st, c, A):
            m = strip(ex_, st, A[0])
            if not (isinstance(m, Agg) and m.name == '~cmap'):
                return None
            r = C.base_ref(ex_, st, A[0])
            i = C.find(ex_, st, m, A[1])
            if i is None:
                return Agg('variant', 'Entry', 'Vacant', [Agg('struct', '~vacant', None, [r, strip(ex_, st, A[1])])])
            return Agg('variant', 'Entry', 'Occupied', [Agg('struct', '~occupied', None, [Ref(r.fid, ('field', ('field', r.place, i, '?'), 1, '?'))])])
        ex.stub(r'HashMap::<.*>::entry$', entry, 'HashMap::entry on a concrete-key map: Occupied (reference to the value) or Vacant')
        ex.stub(r'OccupiedEntry::<.*>::get_mut$', lambda ex_, st, c, A: (lambda o: o.fields[0] if isinstance(o, Agg) and o.name == '~occupied' else None)(strip(ex_, st, A[0])), 'OccupiedEntry::get_mut: the value in place')

        def vinsert(ex_, st, c, A):
            v = strip(ex_, st, A[0])
            if not (isinstance(v, Agg) and v.name == '~vacant'):
                return None
            r = v.fields[0]
            m = strip(ex_, st, r)
            new = C.cmap(list(m.fields) + [Agg('tuple', None, None, [v.fields[1], A[1]])])
            return [([], Ref(r.fid, ('field', ('field', r.place, len(m.fields), '?'), 1, '?')), lambda s2: ex_.write(s2, r.fid, r.place, new))]
        ex.stub(r'VacantEntry::<.*>::insert$', vinsert, 'VacantEntry::insert: appends the entry')

        def rec(ex_, st, c, A):
            a, b = gid(ex_, st, A[0]), gid(ex_, st, A[1])
            if a is None or b is None:
                return None
            log(st, 'union', a, b)
            return UNIT
        ex.stub(r'AccessTrie>?::union_mut$|::union_mut$', rec, 'AccessTrie::union_mut(value of self, value of other): the recursive union, logged')
        ex.stub(r'Box<.*AccessTrie> as Drop>::drop$|drop_in_place', lambda ex_, st, c, A: UNIT, 'drop')
        C.install(ex)
        me, other = mk(sv, S), mk(ov, O)
        if which == 'fields':
            outs = ex.run(f, [Ref(0, ('local', 'ME')), other], heap={'ME': me})
            read_me = lambda st: strip(ex, st, Ref(0, ('local', 'ME')))
        else:
            RT = 'validator::entity_manifest::RootAccessTrie'
            outs = ex.run(f, [Ref(0, ('local', 'ME')), Agg('struct', RT, None, [other], ('trie',))], heap={'ME': Agg('struct', RT, None, [me], ('trie',))})
            read_me = lambda st: strip(ex, st, strip(ex, st, Ref(0, ('local', 'ME'))).fields[0])
        ctx.absorb(ex)
        ctx.panic_summary(f'{nm} {S}+{O}', outs, ex)
        rets = [o for o in outs if o.kind == 'ret']
        if not rets:
            raise NotEncoded(f'{nm} {S}+{O}: no returning path')
        runs += 1
        for o in rets:
            pc = z3.And(o.pc) if o.pc else T
            after = read_me(o.st)
            if not (isinstance(after, Agg) and after.name == '~cmap'):
                raise NotEncoded(f'{nm}: map after the union {after!r}')
            got = {ex.concrete(strip(ex, o.st, e.fields[0]).t): gid(ex, o.st, e.fields[1]) for e in after.fields}
            want = {k: sv[k].id for k in S}
            want.update({k: ov[k].id for k in O if k not in S})
            lg = sorted(o.st.notes.get('log', []))
            wlog = sorted(('union', sv[k].id, ov[k].id) for k in O if k in S)
            if (got != want or lg != wlog) and __import__('os').environ.get('C17_DEBUG'):
                print('DBG', S, O, got, want, lg, wlog, {k: v.id for k, v in sv.items()}, {k: v.id for k, v in ov.items()})
            if got != want or lg != wlog:
                bad_total.append(pc)
    role = f'validator/entity_manifest.rs: {nm}'
    why = 'the union of two access tries loses a sub-trie of one side'
    ctx.decide(f'{nm}/every key of either side survives: shared keys by the recursive union of both values, new keys with the other side\'s value ({runs} map shapes)', [z3.Or(bad_total) if bad_total else F], sample={'shapes': runs}, on_sat=lambda m: battery(ctx, nm, role, why))


def families(ctx, battery):
    return [('AccessTrie::union_mut', lambda: node_union(ctx, battery)), ('union_fields_mut', lambda: map_union(ctx, battery, 'fields')), ('RootAccessTrie::union_mut', lambda: map_union(ctx, battery, 'root'))]
