"""C04 (store edits) - Entities::{remove_entities, add_entities, upsert_entities} with TCComputation::ComputeNow executed from the MIR on a store of <= 3 entities
(one entity per call; two entities in one call on stores of <= 2 entities)
(+ one parent id without a record) whose parent links are symbolic, from ANY pre-state satisfying the store invariant `ancestors = reachability through parent links, acyclic`
(one inductive step => edit histories of any length over stores of that size).  Entity is the real struct (real Entity / TCNode-for-Arc<Entity> method bodies); its two
HashSet<EntityUID> fields are sets with symbolic membership over the concrete ids."""
import z3
from ..executor import IntV, BoolV, Agg, Opaque, Ref, NotEncoded, UNIT
from ..models import ok, err, some, none
from .. import containers as C
from .c04 import reach

T, F = z3.BoolVal(True), z3.BoolVal(False)
ENT = 'ast::entity::Entity'


def entity(ex, i, prow, irow):
    return Agg('struct', ENT, None, [ex.const_int(i, 'u8'), Opaque('BTreeMap<SmolStr, PartialValue>', f'attrs{i}'), C.sset(irow), C.sset(prow), Opaque('BTreeMap<SmolStr, PartialValue>', f'tags{i}')],
               ('uid', 'attrs', 'indirect_ancestors', 'parents', 'tags'))


def arc(x):
    return Agg('struct', 'Arc', None, [x], ('inner',))


def setup(ctx, present, NK, P, I):
    ex = ctx.new_exec('core')
    ex.max_recursion = NK + 2
    ex.max_paths = 400000
    ex.max_steps = 100_000_000
    ex.from_wrappers.add('EntitiesError')
    C.install(ex)
    heap = {f'KEY{j}': ex.const_int(j, 'u8') for j in range(NK)}
    C.install_symbolic_sets(ex, lambda j: Ref(0, ('local', f'KEY{j}')))
    C.install_eager_filter(ex)
    store = C.cmap([Agg('tuple', None, None, [ex.const_int(i, 'u8'), arc(entity(ex, i, P[i], I[i]))]) for i in present])
    ents = Agg('struct', 'entities::Entities', None, [store, Opaque('entities::Mode', 'mode')], ('entities', 'mode'))
    ex.stub(r'<(ast::)?(entity::)?EntityUID as Clone>::clone$', lambda ex_, st, c, A: C.res(ex_, st, A[0]), 'EntityUID::clone (ids are machine integers)')

    def keq(ex_, st, c, A):
        a, b = C.ckey(ex_, st, A[0]), C.ckey(ex_, st, A[1])
        if a is None or b is None:
            return None
        return BoolV(z3.BoolVal((a == b) != c.endswith('ne')))
    ex.stub(r'^<&?(ast::)?(entity::)?EntityUID as PartialEq>::(eq|ne)$', keq, 'EntityUID equality (concrete ids)')

    def make_mut(ex_, st, c, A):
        r = C.base_ref(ex_, st, A[0])
        v = ex_.read(st, r.fid, r.place)
        if isinstance(v, Agg) and v.name == 'Arc':
            return Ref(r.fid, ('field', r.place, 0, '?'))
        return None
    ex.stub(r'Arc::<.*Entity>::make_mut$', make_mut, 'Arc::make_mut (the entity itself: copy-on-write is not observable here)')

    def map_remove(ex_, st, c, A):
        m = C.res(ex_, st, A[0])
        if not (isinstance(m, Agg) and m.name == '~cmap'):
            return None
        i = C.find(ex_, st, m, A[1])
        if i is None:
            return none()
        r = C.base_ref(ex_, st, A[0])
        rest = C.cmap([e for j, e in enumerate(m.fields) if j != i])
        return [([], some(m.fields[i].fields[1]), lambda s2: ex_.write(s2, r.fid, r.place, rest))]
    ex.stub(r'HashMap::<.*>::remove::<', map_remove, 'concrete map: remove')

    def update_entity_map(ex_, st, c, A):
        m = C.res(ex_, st, A[0])
        e = A[1]
        inner = e.fields[0] if isinstance(e, Agg) and e.name == 'Arc' else None
        over = A[2]
        if not (isinstance(m, Agg) and m.name == '~cmap' and isinstance(inner, Agg) and isinstance(over, BoolV)):
            return None
        k = inner.fields[0]
        i = C.find(ex_, st, m, k)
        r = C.base_ref(ex_, st, A[0])
        if i is None:
            return [([], ok(UNIT), lambda s2: ex_.write(s2, r.fid, r.place, C.cmap(list(m.fields) + [Agg('tuple', None, None, [k, e])])))]
        if z3.is_true(z3.simplify(over.t)):
            ents_ = list(m.fields)
            ents_[i] = Agg('tuple', None, None, [m.fields[i].fields[0], e])
            return [([], ok(UNIT), lambda s2: ex_.write(s2, r.fid, r.place, C.cmap(ents_)))]
        return err(Agg('struct', '~error:duplicate', None, [k]))
    ex.stub(r'(^|::)update_entity_map$', update_entity_map, 'update_entity_map: insert / overwrite / duplicate error (an equal duplicate is treated as a duplicate)')

    def is_disjoint(ex_, st, c, A):
        a, b = C.res(ex_, st, A[0]), C.res(ex_, st, A[1])
        if not (isinstance(a, Agg) and isinstance(b, Agg) and a.name == '~cset' and b.name == '~cset'):
            return None
        ka = {C.ckey(ex_, st, x) for x in a.fields}
        kb = {C.ckey(ex_, st, x) for x in b.fields}
        return BoolV(z3.BoolVal(not (ka & kb)))
    ex.stub(r'HashSet::<.*>::is_disjoint$', is_disjoint, 'concrete sets: is_disjoint')
    ex.stub(r'TcError::<.*>::(missing_tc_edge|has_cycle)$', lambda ex_, st, c, A: Agg('struct', '~error:' + c.rsplit('::', 1)[1], None, list(A)), 'TcError constructors')
    heap['ENTS'] = ents
    return ex, heap, ents


def final_state(ex, o, NK):
    """{id: (parents bits, indirect bits)} of the returned store"""
    r = o.val.fields[0]
    store = r.fields[0]
    out = {}
    for e in store.fields:
        i = ex.concrete(e.fields[0].t)
        en = e.fields[1].fields[0]
        out[i] = ([b.t for b in en.fields[3].fields], [b.t for b in en.fields[2].fields])
    return out


def invariant(P, I, present, NK, N):
    """(P or I) = reachability through P over the present entities; acyclic"""
    Pm = [[P[i][j] if i in present else F for j in range(NK)] for i in range(N)]
    R = reach(Pm, N, NK)
    return z3.And([(z3.Or(P[i][j], I[i][j])) == R[i][j] for i in present for j in range(NK)] + [z3.Not(R[i][i]) for i in present])


def replay(ctx, name, role, NK, present, P, model, edit, why):
    ev = lambda t: z3.is_true(model.eval(t, model_completion=True))
    edges = [[i, j] for i in present for j in range(NK) if ev(P[i][j])]
    ed = dict(edit)
    if 'row' in ed:
        row = ed.pop('row')
        ed['parents'] = [j for j in range(NK) if ev(row[j])]
    if 'more_rows' in ed:
        ed['more'] = [{'id': t, 'parents': [j for j in range(NK) if ev(r_[j])]} for t, r_ in ed.pop('more_rows')]
    a = ctx.native.ask({'op': 'tc_edit', 'present': list(present), 'keys': NK, 'edges': edges, 'edit': ed})
    if 'ok' not in a:
        return ctx.mismatch(name, f'native tc_edit: {a}')
    # reference: parent links after the edit, then reachability
    par = {i: {j for (x, j) in edges if x == i} for i in present}
    if ed['op'] == 'remove':
        par.pop(ed['id'], None)
        for i in par:
            par[i].discard(ed['id'])
    else:
        if ed['op'] == 'add' and ed['id'] in par:
            want_ok = False
            par = None
        else:
            par[ed['id']] = set(ed['parents'])
            for m_ in ed.get('more', []):
                par[m_['id']] = set(m_['parents'])
    problems = []
    if par is not None:
        R = {i: set(par[i]) for i in par}
        for _ in range(NK + 1):
            for i in R:
                for m in list(R[i]):
                    if m in par:
                        R[i] |= par[m]
        want_ok = not any(i in R[i] for i in R)
    if a['ok'] != want_ok:
        problems.append(f'the edit is {"accepted" if a["ok"] else "rejected"}, expected {"accepted" if want_ok else "rejected (cycle / duplicate)"}')
    elif a['ok']:
        for i in R:
            got = {j for j in range(NK) if a['desc'].get(str(i), [False] * NK)[j]}
            if got != R[i]:
                problems.append(f'ancestors of n{i} = {sorted(got)}, reachable through the parent links now in the store = {sorted(R[i])}')
    if problems:
        return ctx.violation(name, role, f'{why}: store with parent links {edges}, then {ed}: ' + '; '.join(problems[:2]),
                             {'op': 'tc_edit', 'present': list(present), 'keys': NK, 'edges': edges, 'edit': ed, 'expected_ok': want_ok})
    return ctx.mismatch(name, f'{why}; abstract counterexample (parent links {edges}, then {ed}), but the real store agrees with reachability')


def edit(ctx, op, present, NK, target, more=(), links=None):
    """op in remove / add / upsert on entity id `target`; `more`: further entity ids in the same call (a batch; add / upsert only)"""
    P = ctx.prog('core')
    meth = {'remove': 'remove_entities', 'add': 'add_entities', 'upsert': 'upsert_entities'}[op]
    cands = [c for c in P.find(r'>::' + meth + '$', 'cedar-policy-core/src/entities.rs') if c.args and c.args[0][1].endswith('Entities')]
    if len(cands) != 1:
        raise LookupError(f'{meth}: {len(cands)} candidates')
    f = cands[0]
    ctx.use(f)
    N = NK - 1
    # links: the parent links that may be present in the pre-state (None = every link); the others are absent
    Pb = [[z3.Bool(f'p_{i}_{j}') if links is None or (i, j) in links else F for j in range(NK)] for i in range(N)]
    # pre-state: the canonical closed store over the parent links P - indirect ancestors are exactly the ids reachable but not direct parents
    # (Entity::add_indirect_ancestor never records a direct parent as indirect), and the hierarchy is acyclic
    Pm = [[Pb[i][j] if i in present else F for j in range(NK)] for i in range(N)]
    R0 = reach(Pm, N, NK)
    Ib = [[z3.simplify(z3.And(R0[i][j], z3.Not(Pb[i][j]))) for j in range(NK)] for i in range(N)]
    ex, heap, ents = setup(ctx, present, NK, Pb, Ib)
    pre = z3.And([z3.Not(R0[i][i]) for i in present])
    ex.invariants.append(pre)
    tc = Agg('variant', 'entities::TCComputation', 'ComputeNow', [])
    row = [z3.Bool(f'new_parent_{j}') for j in range(NK)]
    if op == 'remove':
        args = [ents, Agg('struct', '~vec_iter', None, [ex.const_int(target, 'u8')]), tc]
    else:
        new = arc(entity(ex, target, row, [F] * NK))
        more_rows = [(t, [z3.Bool(f'new_parent_of_{t}_{j}') for j in range(NK)]) for t in more]
        args = [ents, Agg('struct', '~vec_iter', None, [new] + [arc(entity(ex, t, r_, [F] * NK)) for t, r_ in more_rows]), none(), tc, Ref(0, ('local', 'EXT'))]
        heap['EXT'] = Opaque('Extensions', 'ext')
    outs = ex.run(f, args, heap=heap)
    ctx.absorb(ex)
    nm = f'Entities::{meth}[store {sorted(present)} of ids 0..{NK - 1}' + (f' with parent links among {sorted(links)}' if links is not None else '') + f', {op} n{target}' + ''.join(f' and n{t}' for t in more) + (' in one call' if more else '') + ']'
    ctx.panic_summary(nm, outs, ex, [pre])
    rets = [o for o in outs if o.kind == 'ret']
    # reference post-state parent links
    after = sorted(set(present) - {target}) if op == 'remove' else sorted(set(present) | {target} | set(more))
    new_row = {target: row}
    if op != 'remove':
        new_row.update(dict(more_rows))
    P2 = [[F] * NK for _ in range(N)]
    for i in after:
        for j in range(NK):
            if op == 'remove':
                P2[i][j] = F if j == target else Pb[i][j]
            else:
                P2[i][j] = new_row[i][j] if i in new_row else Pb[i][j]
    R2 = reach(P2, N, NK)
    cyc = z3.Or([R2[i][i] for i in after]) if after else F
    dup = op == 'add' and (target in present or any(t in present for t in more))
    bad = []
    for o in rets:
        if not (isinstance(o.val, Agg) and o.val.variant in ('Ok', 'Err')):
            raise NotEncoded(f'{nm}: result {o.val!r}')
        if o.val.variant == 'Err':
            claim = T if dup else (cyc if op != 'remove' else F)
        else:
            fs = final_state(ex, o, NK)
            ok_ids = sorted(fs) == after
            claim = z3.And([z3.BoolVal(ok_ids and not dup), z3.Not(cyc)] + ([(z3.Or(fs[i][0][j], fs[i][1][j])) == R2[i][j] for i in after for j in range(NK)] + [fs[i][0][j] == P2[i][j] for i in after for j in range(NK)] if ok_ids else []))
        bad.append(z3.And(o.pc + [z3.Not(claim)]))
    role = f'entities.rs: Entities::{meth} keeps ancestors = reachability through the parent links now in the store'
    ed = {'op': op, 'id': target} if op == 'remove' else {'op': op, 'id': target, 'row': row}
    if op != 'remove' and more:
        ed['more_rows'] = more_rows
    ctx.decide(f'{nm}/ancestors = reachability afterwards, cycle <=> error, on all {len(rets)} paths', list(ex.invariants) + [z3.Or(bad) if bad else F], ex=ex,
               sample={'paths': len(rets), 'ok_paths': sum(1 for o in rets if o.val.variant == 'Ok')},
               on_sat=lambda m: replay(ctx, nm, role, NK, present, Pb, m, ed, 'after the edit the ancestor relation differs from reachability through parent links'))
    ctx.decide(f'{nm}/paths-cover', list(ex.invariants) + [z3.Not(z3.Or([z3.And(o.pc) if o.pc else T for o in rets]))], ex=ex)
    if not dup:
        ctx.decide(f'{nm}/witness-ok', list(ex.invariants) + [z3.Or([z3.And(o.pc) if o.pc else T for o in rets if o.val.variant == 'Ok'] or [F])], expect='sat', ex=ex)
    if op != 'remove':
        ctx.decide(f'{nm}/witness-rejected', list(ex.invariants) + [z3.Or([z3.And(o.pc) if o.pc else T for o in rets if o.val.variant == 'Err'] or [F])], expect='sat', ex=ex)
    return len(rets)


def families(ctx):
    fam = []
    NK = 4
    for t in (0, 1, 2):
        fam.append((f'remove n{t} from a store of 3', lambda t=t: edit(ctx, 'remove', (0, 1, 2), NK, t)))
        fam.append((f'upsert n{t} in a store of 3', lambda t=t: edit(ctx, 'upsert', (0, 1, 2), NK, t)))
    fam.append(('add n2 to a store of 2', lambda: edit(ctx, 'add', (0, 1), NK, 2)))
    fam.append(('upsert (new) n2 into a store of 2', lambda: edit(ctx, 'upsert', (0, 1), NK, 2)))
    fam.append(('add n0 to a store that has it (duplicate)', lambda: edit(ctx, 'add', (0, 1), NK, 0)))
    # batches: two entities in ONE call (the bookkeeping of already-touched entities is per call), on ids 0..2 (two records + one id without a record)
    fam.append(('upsert n1 and n0 in one call, store of 2', lambda: edit(ctx, 'upsert', (0, 1), 3, 1, (0,))))
    fam.append(('upsert n0 and n1 in one call, store of 2', lambda: edit(ctx, 'upsert', (0, 1), 3, 0, (1,))))
    fam.append(('add n0 and n1 in one call, empty store', lambda: edit(ctx, 'add', (), 3, 0, (1,))))
    fam.append(('upsert n1 (present) and n0 (new) in one call', lambda: edit(ctx, 'upsert', (1,), 3, 1, (0,))))
    # a chain n2 -> n1 -> n0 with a side link n1 -> n3 (each link present or not): replacing an entity AND one of its descendants in one call, with a third entity below them
    fam.append(('upsert n0 and n1 in one call, chain store of 3', lambda: edit(ctx, 'upsert', (0, 1, 2), 4, 0, (1,), links={(1, 0), (2, 1), (1, 3)})))
    if ctx.tier == 'thorough':
        fam.append(('upsert n1 and n0 in one call, store of 2, ids 0..3', lambda: edit(ctx, 'upsert', (0, 1), 4, 1, (0,))))
        fam.append(('upsert n0 and n1 in one call, chain store of 3 (+ n0 -> n3)', lambda: edit(ctx, 'upsert', (0, 1, 2), 4, 0, (1,), links={(1, 0), (2, 1), (1, 3), (0, 3)})))
        fam.append(('upsert n1 and n0 in one call, chain store of 3', lambda: edit(ctx, 'upsert', (0, 1, 2), 4, 1, (0,), links={(1, 0), (2, 1), (1, 3)})))
    return fam
