"""C19, third part - the other entry points of the JSON interface: validate.rs, check_parse.rs, convert.rs, format.rs.
Same method as c19_utils: the real wrapper runs on opaque documents, API calls are logged environment stubs that succeed or fail freely, and the claim says
which API call is made on which values and that the answer is Success with exactly the API's result, or Failure, accordingly."""
import itertools
import z3
from ..executor import IntV, BoolV, Agg, Opaque, Ref, NotEncoded, UNIT
from ..models import ok, err, some, none, enum_cases
from .. import containers as C
from .c19 import strip, ident, pcs, T, F, battery_replay
from .c19_utils import new_ex, logger, show, okerr, wrap_err_stubs, U

FFI = 'cedar-policy/src/ffi/'


def the(ctx, file, rx, pred, what):
    fs = [f for f in ctx.prog('api').find(rx, FFI + file) if '{closure' not in f.name and pred(f)]
    if len(fs) != 1:
        raise LookupError(f'{what}: {len(fs)} candidates')
    ctx.use(fs[0])
    return fs[0]


def answer(ex, o):
    v = strip(ex, o.st, o.val)
    if not (isinstance(v, Agg) and v.variant in ('Success', 'Failure')):
        raise NotEncoded(f'answer {v!r}')
    return v


def finish(ctx, ex, nm, outs, claim_of, what, role, why, both=True, pre=()):
    import os
    if os.environ.get('C19_DEBUG'):
        print(nm, sorted(x for x in ex.stats['stubbed'] if x.startswith('HAVOC')))
    ctx.absorb(ex)
    ctx.panic_summary(nm, outs, ex)
    rets = [o for o in outs if o.kind == 'ret']
    bad = []
    for o in rets:
        v = answer(ex, o)
        bad.append(z3.And(o.pc + [z3.Not(claim_of(o, v))]))
    ctx.decide(f'{nm}/{what}', [z3.Or(bad) if bad else T], ex=ex, sample={'paths': len(rets)}, on_sat=lambda m: battery_replay(ctx, nm, role, why))
    ctx.decide(f'{nm}/paths-cover', list(pre) + [z3.Not(pcs(rets))], ex=ex)
    ctx.decide(f'{nm}/witness-success', [pcs([o for o in rets if answer(ex, o).variant == 'Success'])], expect='sat', ex=ex)
    if both:
        ctx.decide(f'{nm}/witness-failure', [pcs([o for o in rets if answer(ex, o).variant == 'Failure'])], expect='sat', ex=ex)


def detail_stubs(ex):
    """error -> Report -> DetailedError as terms that keep the identity of the error"""
    ex.stub(r'^[\w:]*Report::new::<|^[\w:]*<impl ErrReport>::new::<|^[\w:]*Report::msg::<|^[\w:]*<impl ErrReport>::msg::<', lambda ex_, st, c, A: Agg('struct', '~report', None, [A[0]]), 'miette::Report::new / msg (term around the error)')
    ex.stub(r'as Into<.*DetailedError>>::into$|DetailedError as From<.*>>::from$', lambda ex_, st, c, A: Agg('struct', '~detailed', None, [A[0]]), '-> DetailedError (term around the report)')


def errs_view(ex, st, v):
    """identity view of a Vec<DetailedError>: ids of the wrapped errors"""
    v = strip(ex, st, v)
    if not (isinstance(v, Agg) and v.name in ('~vec', '~vec_iter', '~collected')):
        return ('?',)
    out = []
    for x in v.fields:
        x = strip(ex, st, x)
        while isinstance(x, Agg) and x.name in ('~detailed', '~report') and x.fields:
            x = strip(ex, st, x.fields[0])
        out.append(getattr(x, 'id', '?'))
    return tuple(out)


# ------------------------------------------------------------------------------------------------------------------ validate.rs

def validate_entry(ctx, sizes=((0, 0), (1, 0), (2, 1), (1, 2))):
    f = the(ctx, 'validate.rs', r'(^|::)validate$', lambda f: len(f.args) == 1, 'ffi::validate')
    for ne, nw in sizes:
        ex = new_ex(ctx)
        detail_stubs(ex)
        OKC = z3.Bool('components_ok')
        pols, schema, mode = Opaque('api::PolicySet', 'policies'), Opaque('api::Schema', 'schema'), Opaque('ValidationMode', 'mode')
        settings = Agg('struct', 'ffi::validate::ValidationSettings', None, [mode], ('mode',))
        perr = Agg('struct', '~vec', None, [Opaque('ErrReport', 'parse error 0'), Opaque('ErrReport', 'parse error 1')])
        swarn = Agg('struct', '~vec', None, [Opaque('ErrReport', 'schema warning')])
        validator, result = Opaque('api::Validator', 'the validator'), Opaque('api::ValidationResult', 'the validation result')
        errors = [Opaque('api::ValidationError', f'validation error {i}') for i in range(ne)]
        warns = [Opaque('api::ValidationWarning', f'validation warning {i}') for i in range(nw)]
        pid = {x.id: Opaque('api::PolicyId', f'policy id of {x.what}') for x in errors + warns}
        WW = 'ffi::utils::WithWarnings'
        ex.stub(r'ValidationCall::get_components$', lambda ex_, st, c, A: [([OKC], Agg('struct', WW, None, [ok(Agg('tuple', None, None, [pols, schema, settings])), swarn], ('t', 'warnings'))),
                                                                            ([z3.Not(OKC)], Agg('struct', WW, None, [err(perr), Agg('struct', '~vec', None, [])], ('t', 'warnings')))], 'get_components (own obligation)')
        logger(ex, r'api::Validator::new$', 'Validator::new(schema), logged', 'new', 1, lambda ex_, st, A: validator)
        logger(ex, r'api::Validator::validate$', 'Validator::validate(validator, policies, mode), logged', 'validate', 3, lambda ex_, st, A: result)
        ex.stub(r'ValidationResult::into_errors_and_warnings$', lambda ex_, st, c, A: Agg('tuple', None, None, [Agg('struct', '~vec_iter', None, list(errors)), Agg('struct', '~vec_iter', None, list(warns))]) if ident(ex_, st, A[0]) == result.id else None,
                f'into_errors_and_warnings: {ne} errors, {nw} warnings')
        ex.stub(r'(ValidationError|ValidationWarning)::policy_id$', lambda ex_, st, c, A: ex_.new_cell(st, pid[ident(ex_, st, A[0])], 'pid') if ident(ex_, st, A[0]) in pid else None, 'policy_id() of a validation error / warning')
        ex.stub(r'PolicyId as Clone>::clone$', lambda ex_, st, c, A: strip(ex_, st, A[0]), 'PolicyId::clone: the same id')
        outs = ex.run(f, [Opaque('ffi::validate::ValidationCall', 'the call')])
        nm = f'ffi::validate[{ne} errors, {nw} warnings]'

        def ve_view(ex, st, v):
            v = strip(ex, st, v)
            if not (isinstance(v, Agg) and v.name in ('~vec', '~vec_iter', '~collected')):
                return ('?',)
            out = []
            for x in v.fields:
                x = strip(ex, st, x)
                if not (isinstance(x, Agg) and len(x.fields) == 2):
                    return ('?',)
                out.append((ident(ex, st, x.fields[0]), errs_view(ex, st, Agg('struct', '~vec', None, [x.fields[1]]))[0]))
            return tuple(out)

        def claim(o, v, ex=ex, OKC=OKC, errors=errors, warns=warns, pid=pid):
            lg = o.st.notes.get('log', [])
            if v.variant == 'Success':
                want_e = tuple((pid[e.id].id, e.id) for e in errors)
                want_w = tuple((pid[w.id].id, w.id) for w in warns)
                good = len(lg) == 2 and lg[0] == ('new', schema.id) and lg[1][:3] == ('validate', validator.id, pols.id) and lg[1][3] in (mode.id, ('const', 'api::ValidationMode::Strict')) and ve_view(ex, o.st, v.fields[0]) == want_e and ve_view(ex, o.st, v.fields[1]) == want_w \
                    and errs_view(ex, o.st, v.fields[2]) == tuple(x.id for x in swarn.fields)
                return z3.And(OKC, z3.BoolVal(bool(good)))
            return z3.And(z3.Not(OKC), z3.BoolVal(lg == [] and errs_view(ex, o.st, v.fields[0]) == tuple(x.id for x in perr.fields)))
        finish(ctx, ex, nm, outs, claim, 'Success = every error and warning of Validator::new(schema).validate(policies, mode) under its own policy id; Failure = the parse errors', 'ffi/validate.rs: validate',
               'the validation answer is not the API validation result')


def validate_components(ctx):
    f = the(ctx, 'validate.rs', r'>::get_components$', lambda f: len(f.args) == 1, 'ValidationCall::get_components')
    ex = new_ex(ctx)
    detail_stubs(ex)
    wrap_err_stubs(ex)
    P_OK, S_OK = z3.Bool('policies_parse'), z3.Bool('schema_parses')
    jp, js = Opaque(U + 'PolicySet', 'policies (JSON)'), Opaque(U + 'Schema', 'schema (JSON)')
    pols, schema, fresh = Opaque('api::PolicySet', 'policies'), Opaque('api::Schema', 'schema'), Opaque('api::PolicySet', 'empty set')
    settings = Opaque('ffi::validate::ValidationSettings', 'settings')
    call = Agg('struct', 'ffi::validate::ValidationCall', None, [settings, js, jp], ('validation_settings', 'schema', 'policies'))
    logger(ex, r'utils::PolicySet::parse$', 'PolicySet::parse (own obligation), logged', 'policies', 1, lambda ex_, st, A: [([P_OK], ok(pols)), ([z3.Not(P_OK)], err(Agg('struct', '~vec', None, [Opaque('ErrReport', 'policy error')])))])
    logger(ex, r'utils::Schema::parse$', 'Schema::parse (own obligation), logged', 'schema', 1,
           lambda ex_, st, A: [([S_OK], ok(Agg('tuple', None, None, [schema, Agg('struct', '~vec_iter', None, [])]))), ([z3.Not(S_OK)], err(Opaque('ErrReport', 'schema error')))])
    ex.stub(r'api::PolicySet::new$', lambda ex_, st, c, A: fresh, 'PolicySet::new')
    outs = ex.run(f, [call])
    nm = 'ValidationCall::get_components'
    ctx.absorb(ex)
    ctx.panic_summary(nm, outs, ex)
    rets = [o for o in outs if o.kind == 'ret']
    bad = []

    def res(o):
        v = strip(ex, o.st, o.val)
        t = strip(ex, o.st, v.fields[0]) if isinstance(v, Agg) and v.fields else None
        if not (isinstance(t, Agg) and t.variant in ('Ok', 'Err')):
            raise NotEncoded(f'{nm}: result {v!r}')
        return t
    for o in rets:
        t = res(o)
        lg = o.st.notes.get('log', [])
        if t.variant == 'Ok':
            tup = strip(ex, o.st, t.fields[0])
            good = sorted(lg) == sorted([('policies', jp.id), ('schema', js.id)]) and isinstance(tup, Agg) and [ident(ex, o.st, x) for x in tup.fields[:2]] == [pols.id, schema.id] and show(ex, o.st, tup.fields[2]) in (settings.id, ('const', 'ValidationSettings {{ mode: api::ValidationMode::Strict }}'))
            claim = z3.And(P_OK, S_OK, z3.BoolVal(bool(good)))
        else:
            claim = z3.Not(z3.And(P_OK, S_OK))
        bad.append(z3.And(o.pc + [z3.Not(claim)]))
    ctx.decide(f'{nm}/(parsed policies, parsed schema, the settings given) iff both parse', [z3.Or(bad) if bad else T], ex=ex, sample={'paths': len(rets)},
               on_sat=lambda m: battery_replay(ctx, nm, 'ffi/validate.rs: ValidationCall::get_components', 'validation runs on other documents than the ones given'))
    ctx.decide(f'{nm}/paths-cover', [z3.Not(pcs(rets))], ex=ex)
    ctx.decide(f'{nm}/witness-ok', [pcs([o for o in rets if res(o).variant == 'Ok'])], expect='sat', ex=ex)
    ctx.decide(f'{nm}/witness-err', [pcs([o for o in rets if res(o).variant == 'Err'])], expect='sat', ex=ex)


# ------------------------------------------------------------------------------------------------------------------ convert.rs

def convert_policy(ctx, kind, out):
    """policy_to_text / policy_to_json / template_to_text / template_to_json"""
    fname = f'{kind.lower()}_to_{out}'
    f = the(ctx, 'convert.rs', rf'(^|::){fname}$', lambda f: len(f.args) == 1, fname)
    ex = new_ex(ctx)
    detail_stubs(ex)
    B1, B2 = z3.Bool('parses'), z3.Bool('to_json_ok')
    doc, val = Opaque(U + kind, 'the document'), Opaque('api::' + kind, 'the parsed ' + kind.lower())
    text, js = Opaque('String', 'its text'), Opaque('serde_json::Value', 'its JSON')
    logger(ex, rf'utils::{kind}::parse$', f'utils::{kind}::parse(doc, id) (own obligation), logged', 'parse', 2, okerr(B1, val))
    logger(ex, rf'api::{kind} as (std::string::)?ToString>::to_string$', f'{kind}::to_string, logged', 'to_string', 1, lambda ex_, st, A: text)
    logger(ex, rf'api::{kind}::to_json$', f'{kind}::to_json, logged', 'to_json', 1, okerr(B2, js, 'PolicyToJsonError'))
    ex.stub(r'Value as Into<.*JsonValueWithNoDuplicateKeys>>::into$', lambda ex_, st, c, A: A[0], 'serde_json::Value -> JSON wrapper: the same document')
    outs = ex.run(f, [doc])
    nm = f'ffi::{fname}'

    def claim(o, v):
        # the id the document is parsed under does not show in its text or JSON form: only the document is fixed
        lg = [x[:2] if x[0] == 'parse' else x for x in o.st.notes.get('log', [])]
        p = ('parse', doc.id)
        if v.variant == 'Success':
            if out == 'text':
                return z3.And(B1, z3.BoolVal(lg == [p, ('to_string', val.id)] and ident(ex, o.st, v.fields[0]) == text.id))
            return z3.And(B1, B2, z3.BoolVal(lg == [p, ('to_json', val.id)] and ident(ex, o.st, v.fields[0]) == js.id))
        return z3.Not(z3.And(B1, B2)) if out == 'json' else z3.Not(B1)
    finish(ctx, ex, nm, outs, claim, f'the {out} form the API gives for the parsed {kind.lower()}, or Failure', f'ffi/convert.rs: {fname}', 'the converted document is not the API conversion')


def convert_schema(ctx, out):
    fname = f'schema_to_{out}'
    f = the(ctx, 'convert.rs', rf'(^|::){fname}$', lambda f: len(f.args) == 1, fname)
    ex = new_ex(ctx)
    detail_stubs(ex)
    B1, B2, B3 = z3.Bool('fragment_parses'), z3.Bool('conversion_ok'), z3.Bool('is_a_schema')
    doc, frag = Opaque(U + 'Schema', 'the document'), Opaque('api::SchemaFragment', 'the fragment')
    text, js = Opaque('String', 'its text'), Opaque('serde_json::Value', 'its JSON')
    warn = [Opaque('SchemaWarning', 'warning 0')]
    logger(ex, r'utils::Schema::parse_schema_fragment$', 'parse_schema_fragment (own obligation), logged', 'fragment', 1,
           lambda ex_, st, A: [([B1], ok(Agg('tuple', None, None, [frag, Agg('struct', '~vec_iter', None, list(warn))]))), ([z3.Not(B1)], err(Opaque('ErrReport', 'schema error')))])
    logger(ex, r'SchemaFragment::to_cedarschema$', 'SchemaFragment::to_cedarschema, logged', 'to_cedarschema', 1, okerr(B2, text, 'ToCedarSchemaError'))
    logger(ex, r'SchemaFragment::to_json_value$', 'SchemaFragment::to_json_value, logged', 'to_json_value', 1, okerr(B2, js, 'SchemaError'))
    logger(ex, r'SchemaFragment as TryInto<.*Schema>>::try_into$', 'SchemaFragment -> Schema, logged', 'try_into', 1, okerr(B3, Opaque('api::Schema', 'schema'), 'SchemaError'))
    logger(ex, r'api::Schema::from_json_value$', 'Schema::from_json_value, logged', 'from_json_value', 1, okerr(B3, Opaque('api::Schema', 'schema'), 'SchemaError'))
    ex.stub(r'Value as Clone>::clone$', lambda ex_, st, c, A: strip(ex_, st, A[0]), 'serde_json::Value::clone: the same document')
    ex.stub(r'Value as Into<.*JsonValueWithNoDuplicateKeys>>::into$', lambda ex_, st, c, A: A[0], 'serde_json::Value -> JSON wrapper: the same document')
    outs = ex.run(f, [doc])
    nm = f'ffi::{fname}'

    def claim(o, v):
        lg = o.st.notes.get('log', [])
        if v.variant == 'Success':
            if out == 'text':
                good = lg == [('fragment', doc.id), ('to_cedarschema', frag.id), ('try_into', frag.id)] and ident(ex, o.st, v.fields[0]) == text.id
            else:
                good = lg == [('fragment', doc.id), ('to_json_value', frag.id), ('from_json_value', js.id)] and ident(ex, o.st, v.fields[0]) == js.id
            return z3.And(B1, B2, B3, z3.BoolVal(bool(good and errs_view(ex, o.st, v.fields[1]) == tuple(w.id for w in warn))))
        return z3.Not(z3.And(B1, B2, B3))
    finish(ctx, ex, nm, outs, claim, f'the {out} form of the parsed fragment, checked to be a schema, with the parse warnings; or Failure', f'ffi/convert.rs: {fname}', 'the converted schema is not the API conversion')


# ------------------------------------------------------------------------------------------------------------------ check_parse.rs

def check_simple(ctx, fname, kind, vec_err):
    f = the(ctx, 'check_parse.rs', rf'(^|::){fname}$', lambda f: len(f.args) == 1, fname)
    ex = new_ex(ctx)
    detail_stubs(ex)
    B = z3.Bool('parses')
    doc = Opaque(U + kind, 'the document')
    e0 = Opaque('ErrReport', 'parse error')
    val = Opaque('api::' + kind, 'parsed') if kind == 'PolicySet' else Agg('tuple', None, None, [Opaque('api::Schema', 'schema'), Opaque('warnings', 'warnings')])
    logger(ex, rf'utils::{kind}::parse$', f'utils::{kind}::parse (own obligation), logged', 'parse', 1, lambda ex_, st, A: [([B], ok(val)), ([z3.Not(B)], err(Agg('struct', '~vec', None, [e0]) if vec_err else e0))])
    outs = ex.run(f, [doc])
    nm = f'ffi::{fname}'

    def claim(o, v):
        lg = o.st.notes.get('log', [])
        if v.variant == 'Success':
            return z3.And(B, z3.BoolVal(lg == [('parse', doc.id)]))
        return z3.And(z3.Not(B), z3.BoolVal(lg == [('parse', doc.id)] and errs_view(ex, o.st, v.fields[0]) == (e0.id,)))
    finish(ctx, ex, nm, outs, claim, 'Success iff the document parses, else its errors', f'ffi/check_parse.rs: {fname}', 'the parse check does not report the parse result')


def check_entities(ctx):
    f = the(ctx, 'check_parse.rs', r'(^|::)check_parse_entities$', lambda f: len(f.args) == 1, 'check_parse_entities')
    for hs in (False, True):
        ex = new_ex(ctx)
        detail_stubs(ex)
        S_OK, E_OK = z3.Bool('schema_parses'), z3.Bool('entities_parse')
        js, je, schema = Opaque(U + 'Schema', 'schema (JSON)'), Opaque(U + 'Entities', 'entities (JSON)'), Opaque('api::Schema', 'schema')
        call = Agg('struct', 'ffi::check_parse::EntitiesParsingCall', None, [je, some(js) if hs else none()], ('entities', 'schema'))
        logger(ex, r'utils::Schema::parse$', 'Schema::parse, logged', 'schema', 1, lambda ex_, st, A: [([S_OK], ok(Agg('tuple', None, None, [schema, Opaque('warnings', 'w')]))), ([z3.Not(S_OK)], err(Opaque('ErrReport', 'schema error')))])
        logger(ex, r'utils::Entities::parse$', 'Entities::parse(doc, schema), logged', 'entities', 2, okerr(E_OK, Opaque('api::Entities', 'entities')))
        outs = ex.run(f, [call])
        nm = f'ffi::check_parse_entities[schema {"given" if hs else "absent"}]'

        def claim(o, v, ex=ex, hs=hs, S_OK=S_OK, E_OK=E_OK, je=je, js=js, schema=schema):
            lg = o.st.notes.get('log', [])
            want = ([('schema', js.id)] if hs else []) + [('entities', je.id, ('Some', schema.id) if hs else ('None',))]
            allok = z3.And(E_OK, S_OK) if hs else E_OK
            if v.variant == 'Success':
                return z3.And(allok, z3.BoolVal(lg == want))
            return z3.And(z3.Not(allok), z3.BoolVal(lg == want[:len(lg)]))
        finish(ctx, ex, nm, outs, claim, 'Success iff the schema (when given) and then the entities against it parse', 'ffi/check_parse.rs: check_parse_entities', 'entities are not checked against the schema given')


def check_context(ctx):
    f = the(ctx, 'check_parse.rs', r'(^|::)check_parse_context$', lambda f: len(f.args) == 1, 'check_parse_context')
    for hs, ha in itertools.product((False, True), repeat=2):
        ex = new_ex(ctx)
        detail_stubs(ex)
        S_OK, A_OK, C_OK, V_OK = z3.Bool('schema_parses'), z3.Bool('action_parses'), z3.Bool('context_parses'), z3.Bool('context_valid')
        js, ja, jc = Opaque(U + 'Schema', 'schema (JSON)'), Opaque(U + 'EntityUid', 'action (JSON)'), Opaque(U + 'Context', 'context (JSON)')
        schema, action, cx = Opaque('api::Schema', 'schema'), Opaque('api::EntityUid', 'action'), Opaque('api::Context', 'context')
        fields = {'context': jc, 'schema': some(js) if hs else none(), 'action': some(ja) if ha else none()}
        order = struct_fields(ctx, 'ContextParsingCall', ('context', 'schema', 'action'))
        call = Agg('struct', 'ffi::check_parse::ContextParsingCall', None, [fields[k] for k in order], tuple(order))
        logger(ex, r'utils::Schema::parse$', 'Schema::parse, logged', 'schema', 1, lambda ex_, st, A: [([S_OK], ok(Agg('tuple', None, None, [schema, Opaque('warnings', 'w')]))), ([z3.Not(S_OK)], err(Opaque('ErrReport', 'schema error')))])
        logger(ex, r'utils::EntityUid::parse$', 'EntityUid::parse, logged', 'action', 1, okerr(A_OK, action))
        logger(ex, r'utils::Context::parse$', 'Context::parse(doc, schema, action), logged', 'context', 3, okerr(C_OK, cx))
        logger(ex, r'api::Context::validate$', 'Context::validate(context, schema, action), logged', 'validate', 3, lambda ex_, st, A: [([V_OK], ok(UNIT)), ([z3.Not(V_OK)], err(Opaque('RequestValidationError', 'invalid context')))])
        outs = ex.run(f, [call])
        nm = f'ffi::check_parse_context[schema {"given" if hs else "absent"}, action {"given" if ha else "absent"}]'

        def claim(o, v, ex=ex, hs=hs, ha=ha, S_OK=S_OK, A_OK=A_OK, C_OK=C_OK, V_OK=V_OK, js=js, ja=ja, jc=jc, schema=schema, action=action, cx=cx):
            lg = o.st.notes.get('log', [])
            parse = ('context', jc.id, ('Some', schema.id) if hs else ('None',), ('Some', action.id) if ha else ('None',))
            want = ([('action', ja.id)] if ha else []) + ([('schema', js.id)] if hs else []) + [parse] + ([('validate', cx.id, schema.id, action.id)] if hs and ha else [])
            allok = z3.And([C_OK] + ([S_OK] if hs else []) + ([A_OK] if ha else []) + ([V_OK] if hs and ha else []))
            if v.variant == 'Success':
                return z3.And(allok, z3.BoolVal(lg == want))
            return z3.And(z3.Not(allok), z3.BoolVal(lg == want[:len(lg)]))
        finish(ctx, ex, nm, outs, claim, 'Success iff action and schema (when given) parse, the context parses against them, and - with both - validates', 'ffi/check_parse.rs: check_parse_context',
               'the context is not checked against the schema and action given')


def struct_fields(ctx, name, default):
    """declaration order of a struct's fields in the FFI sources (so that the harness builds the aggregate the way rustc lays it out in MIR)"""
    import re, os
    from ..framework import REPO
    for fn in ('check_parse.rs', 'validate.rs', 'is_authorized.rs', 'format.rs'):
        src = open(os.path.join(REPO, FFI, fn)).read()
        m = re.search(r'pub struct ' + name + r'\s*\{(.*?)\n\}', src, re.S)
        if m:
            fs = re.findall(r'^\s*(?:pub(?:\([^)]*\))? )?(\w+):', re.sub(r'^\s*(///|#\[).*$', '', m.group(1), flags=re.M), re.M)
            if sorted(fs) == sorted(default):
                return fs
    return list(default)


def check_scope(ctx):
    f = the(ctx, 'check_parse.rs', r'(^|::)check_parse_scope_variables$', lambda f: len(f.args) == 1, 'check_parse_scope_variables')
    ex = new_ex(ctx)
    detail_stubs(ex)
    S_OK, V_OK = z3.Bool('schema_parses'), z3.Bool('scope_valid')
    names = ('principal', 'action', 'resource')
    OK = {k: z3.Bool(k + '_parses') for k in names}
    js = Opaque(U + 'Schema', 'schema (JSON)')
    docs = {k: Opaque(U + 'EntityUid', k + ' (JSON)') for k in names}
    vals = {k: Opaque('api::EntityUid', k) for k in names}
    schema = Opaque('api::Schema', 'schema')
    order = struct_fields(ctx, 'ScopeVariablesParsingCall', ('schema', 'principal', 'action', 'resource'))
    fields = dict(docs, schema=js)
    call = Agg('struct', 'ffi::check_parse::ScopeVariablesParsingCall', None, [fields[k] for k in order], tuple(order))
    idx = {d.id: k for k, d in docs.items()}
    logger(ex, r'utils::Schema::parse$', 'Schema::parse, logged', 'schema', 1, lambda ex_, st, A: [([S_OK], ok(Agg('tuple', None, None, [schema, Opaque('warnings', 'w')]))), ([z3.Not(S_OK)], err(Opaque('ErrReport', 'schema error')))])

    def uid(ex_, st, c, A):
        k = idx.get(ident(ex_, st, A[0]))
        if k is None:
            return None
        st.notes['log'] = st.notes.get('log', []) + [('uid', k)]
        return [([OK[k]], ok(vals[k])), ([z3.Not(OK[k])], err(Opaque('ErrReport', k + ' error')))]
    ex.stub(r'utils::EntityUid::parse$', uid, 'EntityUid::parse, logged')
    logger(ex, r'validate_scope_variables$', 'api::validate_scope_variables(principal, action, resource, schema), logged', 'validate', 4, lambda ex_, st, A: [([V_OK], ok(UNIT)), ([z3.Not(V_OK)], err(Opaque('RequestValidationError', 'invalid scope')))])
    outs = ex.run(f, [call])
    nm = 'ffi::check_parse_scope_variables'

    def claim(o, v):
        lg = o.st.notes.get('log', [])
        allok = z3.And([S_OK, V_OK] + list(OK.values()))
        if v.variant == 'Success':
            return z3.And(allok, z3.BoolVal(lg == [('schema', js.id), ('uid', 'principal'), ('uid', 'action'), ('uid', 'resource'), ('validate', vals['principal'].id, vals['action'].id, vals['resource'].id, schema.id)]))
        return z3.Not(allok)
    finish(ctx, ex, nm, outs, claim, 'Success iff everything parses and validate_scope_variables(principal, action, resource, schema) accepts, each value in its own position', 'ffi/check_parse.rs: check_parse_scope_variables',
           'scope variables are validated in the wrong positions')


# ------------------------------------------------------------------------------------------------------------------ format.rs

def format_entry(ctx):
    f = the(ctx, 'format.rs', r'(^|::)format$', lambda f: len(f.args) == 1, 'ffi::format')
    ex = new_ex(ctx)
    detail_stubs(ex)
    B = z3.Bool('formats')
    text, out = Opaque('String', 'policy text'), Opaque('String', 'formatted text')
    lw, iw = z3.Int('line_width'), z3.Int('indent_width')
    order = struct_fields(ctx, 'FormattingCall', ('policy_text', 'line_width', 'indent_width'))
    fields = {'policy_text': text, 'line_width': IntV(lw, 'usize'), 'indent_width': IntV(iw, 'isize')}
    call = Agg('struct', 'ffi::format::FormattingCall', None, [fields[k] for k in order], tuple(order))
    ex.stub(r'<(std::string::)?String as Deref>::deref$', lambda ex_, st, c, A: A[0], 'String -> &str (same text)')

    def pretty(ex_, st, c, A):
        cfg = strip(ex_, st, A[1])
        st.notes['log'] = st.notes.get('log', []) + [('pretty', ident(ex_, st, A[0]))]
        st.notes['cfg'] = cfg
        return [([B], ok(out)), ([z3.Not(B)], err(Opaque('ErrReport', 'format error')))]
    ex.stub(r'policies_str_to_pretty$', pretty, 'cedar_policy_formatter::policies_str_to_pretty(text, config), logged')
    pre = [lw >= 0, lw < 2**63, iw > -2**63, iw < 2**63]
    outs = ex.run(f, [call], pre=pre)
    nm = 'ffi::format'
    cfg_order = None

    def claim(o, v):
        lg = o.st.notes.get('log', [])
        cfg = o.st.notes.get('cfg')
        same = F
        if isinstance(cfg, Agg) and len(cfg.fields) == 2 and all(isinstance(strip(ex, o.st, x), IntV) for x in cfg.fields):
            byname = dict(zip(cfg.fnames, [strip(ex, o.st, x) for x in cfg.fields])) if getattr(cfg, 'fnames', None) else None
            if byname and set(byname) == {'line_width', 'indent_width'}:
                same = z3.And(byname['line_width'].t == lw, byname['indent_width'].t == iw)
        if v.variant == 'Success':
            return z3.And(B, same, z3.BoolVal(lg == [('pretty', text.id)] and ident(ex, o.st, v.fields[0]) == out.id))
        return z3.Not(B)
    finish(ctx, ex, nm, outs, claim, 'the formatter output for the text under the line and indent widths given', 'ffi/format.rs: format', 'formatting runs with other settings than the ones given', pre=pre)


def families(ctx):
    th = ctx.tier == 'thorough'
    vsizes = ((0, 0), (1, 0), (2, 1), (1, 2), (3, 3)) if th else ((0, 0), (1, 0), (2, 1), (1, 2))
    return [('validate', lambda: (validate_entry(ctx, vsizes), validate_components(ctx))),
            ('convert', lambda: ([convert_policy(ctx, k, o) for k in ('Policy', 'Template') for o in ('text', 'json')], convert_schema(ctx, 'text'), convert_schema(ctx, 'json'))),
            ('check_parse', lambda: (check_simple(ctx, 'check_parse_policy_set', 'PolicySet', True), check_simple(ctx, 'check_parse_schema', 'Schema', False), check_entities(ctx), check_context(ctx), check_scope(ctx))),
            ('format', lambda: format_entry(ctx))]
