"""C14 - type-aware partial evaluation: the response table and the views of tpe::Response (engine M)."""
import z3
from ..executor import IntV, BoolV, Agg, Opaque, Ref, NotEncoded, UNIT
from ..models import some, none, ok
from .common import SymValue

SETS = ['true_permits', 'false_permits', 'error_permits', 'residual_permits', 'true_forbids', 'false_forbids', 'error_forbids', 'residual_forbids']
P0 = 'permit(principal, action, resource) when { principal == P::"p" && resource == R::"r" };'


def views_replay(ctx, name, role, why, policies=None):
    """public-API replay: TPE on a policy whose residual differs from the original, then compare every view"""
    text = policies or (P0 + '\nforbid(principal, action, resource) when { principal.n > 5 && resource == R::"r" };'
                        + '\npermit(principal, action, resource) when { resource == R::"r" };\nforbid(principal, action, resource) when { resource != R::"r" };')
    a = ctx.native.ask({'op': 'tpe_views', 'policies': text})
    if 'policies' not in a:
        return ctx.mismatch(name, f'native tpe_views failed: {a}')
    problems = []
    if a['policies'] != a['policy_set']:
        problems.append(f'policies() = {a["policies"]} but policy_set() = {a["policy_set"]}')
    if a['policies'] != a['get_policy']:
        problems.append(f'policies() = {a["policies"]} but get_policy(id) = {a["get_policy"]}')
    buckets = {k: a[k] for k in SETS}
    ids = sorted(x for v in buckets.values() for x in v)
    if ids != sorted(set(ids)) or len(ids) != len(a['policies']):
        problems.append(f'bucket views do not partition the policies: {buckets}')
    tp, tf, rp, rf = a['true_permits'], a['true_forbids'], a['residual_permits'], a['residual_forbids']
    exp_dec = 'Deny' if tf else ('Deny' if not tp and not rp else (None if rf or not tp else 'Allow'))
    if a['decision'] != exp_dec:
        problems.append(f'decision {a["decision"]} for buckets {buckets}, expected {exp_dec}')
    if a['decision'] is not None:
        exp_reason = sorted(tp if a['decision'] == 'Allow' else tf)
        if a['reason'] != exp_reason:
            problems.append(f'reason {a["reason"]}, expected {exp_reason}')
        if a['reauthorize'].get('decision') != a['decision'] or a['from_scratch']['decision'] != a['decision']:
            problems.append(f'definite decision {a["decision"]} but reauthorize gives {a["reauthorize"]} and authorization from scratch {a["from_scratch"]}')
    if 'decision' in a['reauthorize'] and a['reauthorize'] != a['from_scratch']:
        problems.append(f'reauthorize {a["reauthorize"]} differs from authorization from scratch {a["from_scratch"]}')
    # second consistent completion: the principal has no entity in the store (attribute access on it errors)
    r2, s2 = a.get('reauthorize_absent_principal'), a.get('from_scratch_absent_principal')
    if r2 is not None and s2 is not None:
        if 'decision' in r2 and r2 != s2:
            problems.append(f'absent principal: reauthorize {r2} differs from authorization from scratch {s2} (a residual is satisfied / erroring differently from its original policy)')
        if a['decision'] is not None and s2['decision'] != a['decision']:
            problems.append(f'definite decision {a["decision"]} but the completion with an absent principal gives {s2}')
    if problems:
        return ctx.violation(name, role, f'{why}: ' + '; '.join(problems[:3]), {'op': 'tpe_views', 'policies': text, 'problems': problems})
    return ctx.mismatch(name, f'{why}; but every public view of the TPE response agrees on the probe policies')


def response_new(ctx):
    P = ctx.prog('core')
    f = P.method('tpe/response.rs', 'new', nargs=4)
    ctx.use(f)
    ex = ctx.new_exec('core')
    head = f.find_block(r'as Iterator>::next\(')
    MORE, EFF = z3.Bool('MORE'), z3.Int('EFF')
    rp = Opaque('tpe::response::ResidualPolicy', 'rp')
    resid = Opaque('tpe::residual::Residual', 'resid')
    pid = Opaque('ast::policy::PolicyID', 'pid')
    EFFT = ex.variants_of('ast::policy::Effect')
    RT = ex.variants_of('tpe::residual::Residual')
    if RT is None or set(RT) != {'Partial', 'Concrete', 'Error'}:
        raise NotEncoded(f'Residual variants: {RT}')
    ex.stub(r'as Iterator>::next$', lambda ex, st, c, A: [([MORE], some(rp)), ([z3.Not(MORE)], none())], 'Iterator::next over the residual policies: arbitrary policy or end')
    ex.stub(r'ResidualPolicy::get_residual$', lambda ex, st, c, A: Agg('struct', 'Arc', None, [resid], ('inner',)), 'ResidualPolicy::get_residual: arbitrary Residual')
    ex.stub(r'ResidualPolicy::get_policy_id$', lambda ex, st, c, A: ex.new_cell(st, pid, 'pid'), 'ResidualPolicy::get_policy_id')
    ex.stub(r'ResidualPolicy::get_effect$', lambda ex, st, c, A: [([EFF == i], Agg('variant', 'ast::policy::Effect', n, [])) for n, i in EFFT.items()], 'ResidualPolicy::get_effect: arbitrary')
    ex.stub(r'HashMap::<.*>::insert$', lambda ex, st, c, A: Opaque('Option<ResidualPolicy>', 'old'), 'HashMap::insert (logged)')
    ex.stub(r'HashSet::<.*>::insert$', lambda ex, st, c, A: BoolV(z3.Bool('fresh')), 'HashSet::insert (logged)')
    dbg = {v: k for k, v in f.debug.items()}
    emp = {}

    def is_empty(ex, st, c, A):
        nm = dbg.get(A[0].place[1], A[0].place[1])
        emp.setdefault(nm, z3.Bool('empty_' + nm))
        return BoolV(emp[nm])
    ex.stub(r'HashSet::<.*>::is_empty$', is_empty, 'HashSet::is_empty: one free boolean per bucket set')
    ex.invariants += [z3.Or([EFF == i for i in EFFT.values()])]
    outs = ex.run(f, None, start=head, stop=(head,))
    ctx.absorb(ex)
    ctx.panic_summary(f.name.split('::')[-1] + '@' + (f.file or '').split('/')[-1], outs, ex)
    # symbolic shape of the residual, for the specification of the classification
    rdisc = ex.disc_term(resid)
    val = SymValue(ex, 'resid.value', ex.opaque_field(resid, 'Concrete', 0, 'ast::value::Value'))
    is_conc_bool = z3.And(rdisc == RT['Concrete'], val.code == 0)
    cls = z3.If(z3.And(is_conc_bool, val.b), 0, z3.If(z3.And(is_conc_bool, z3.Not(val.b)), 1, z3.If(rdisc == RT['Error'], 2, 3)))   # true / false / error / residual
    permit = EFF == EFFT['Permit']
    exp_set = z3.If(permit, cls, cls + 4)
    B = [z3.BoolVal(False), z3.BoolVal(True)]
    nstep = 0
    for i, o in enumerate(outs):
        name = f'tpe::Response::new/path{i}'
        if o.kind in ('panic', 'unreachable'):
            ctx.decide(name + ':panic', o.pc, kind='panic', ex=ex)
            continue
        ins = [c for c in o.log if c.tag.startswith('HashSet::insert')]
        mins = [c for c in o.log if c.tag.startswith('HashMap::insert')]
        if o.kind.startswith('stop'):
            nstep += 1
            claims = [z3.BoolVal(len(ins) == 1 and len(mins) == 1)]
            if len(ins) == 1 and len(mins) == 1:
                tgt = dbg.get(ins[0].args[0].place[1])
                claims.append(z3.BoolVal(tgt in SETS))
                if tgt in SETS:
                    claims.append(exp_set == SETS.index(tgt))
                claims.append(z3.BoolVal(getattr(ins[0].args[1], 'id', None) == pid.id))
                # the same id, with this residual policy, goes into the residual map (what the accessors' unwrap()s rely on)
                claims.append(z3.BoolVal(dbg.get(mins[0].args[0].place[1]) == 'residual_map' and getattr(mins[0].args[1], 'id', None) == pid.id
                                         and getattr(mins[0].args[2], 'id', None) == rp.id))
            ctx.decide(name + ':classification-step', o.pc + [z3.Not(z3.And(claims))], ex=ex,
                       sample={'path_condition': [str(c)[:80] for c in o.pc][:6], 'inserts': [repr(c)[:120] for c in ins + mins]} if nstep <= 2 else None,
                       on_sat=lambda m: views_replay(ctx, name, 'tpe/response.rs: Response::new classification loop', 'a residual policy is filed in the wrong bucket set'))
            continue
        if o.kind != 'ret':
            raise NotEncoded(f'outcome {o.kind}')
        # loop exit: decision table (completion-quantified, as for C13) and field wiring
        v = o.val
        fn = v.fnames
        claims = [z3.BoolVal(not ins and not mins)]
        good = fn is not None and all(getattr(v.field(s), 'what', None) == s for s in SETS) and getattr(v.field('residuals'), 'what', None) == 'residual_map'
        claims.append(z3.BoolVal(bool(good)))
        e = {s: emp.get(s, z3.Bool('empty_' + s)) for s in SETS}
        e_tp, e_rp, e_tf, e_rf = e['true_permits'], e['residual_permits'], e['true_forbids'], e['residual_forbids']

        def allow(cp, cf):
            return z3.And(z3.Or(z3.Not(e_tp), cp), e_tf, z3.Not(cf))

        def valid(cp, cf):
            return z3.And(z3.Implies(cp, z3.Not(e_rp)), z3.Implies(cf, z3.Not(e_rf)))
        combos = [(cp, cf) for cp in B for cf in B]
        dec = v.field('decision')
        if dec.variant == 'Some':
            d = dec.fields[0].variant
            claims.append(z3.And([z3.Implies(valid(cp, cf), allow(cp, cf) == z3.BoolVal(d == 'Allow')) for cp, cf in combos]))
            what = f'Some({d})'
        else:
            claims.append(z3.And(z3.Or([z3.And(valid(cp, cf), allow(cp, cf)) for cp, cf in combos]), z3.Or([z3.And(valid(cp, cf), z3.Not(allow(cp, cf))) for cp, cf in combos])))
            what = 'None'
        ctx.decide(f'{name}:decision={what}', o.pc + [z3.Not(z3.And(claims))], ex=ex,
                   sample={'path_condition': [str(c) for c in o.pc], 'decision': what},
                   on_sat=lambda m: views_replay(ctx, name, 'tpe/response.rs: Response::new decision table', 'decision / field wiring of the TPE response'))
    stops = [o for o in outs if o.kind.startswith('stop')]
    rets = [o for o in outs if o.kind == 'ret']
    ctx.decide('tpe::Response::new/step-paths-cover-all-residual-shapes', [MORE, z3.Not(z3.Or([z3.And(o.pc) for o in stops]))], ex=ex)
    ctx.decide('tpe::Response::new/exit-paths-cover-all-bucket-states', [z3.Not(MORE), z3.Not(z3.Or([z3.And(o.pc) for o in rets]))], ex=ex)
    for k, nm in enumerate(('true', 'false', 'error', 'residual')):
        ctx.decide(f'tpe::Response::new/witness:{nm}', [MORE, cls == k, z3.Or([z3.And(o.pc) for o in stops])], expect='sat', ex=ex)


def reason(ctx):
    P = ctx.prog('core')
    f = P.method('tpe/response.rs', 'reason', nargs=1)
    ctx.use(f)
    ex = ctx.new_exec('core')
    names = ['decision', 'residuals'] + SETS + ['request', 'entities', 'schema']
    resp = Agg('struct', 'Response', None, [Opaque('Option<authorizer::Decision>', 'decision')] + [Opaque('HashSet', n) for n in names[1:]], tuple(names))
    ex.stub(r'HashSet::<.*>::iter$', lambda ex, st, c, A: Agg('struct', '~iter', None, [ex.read(st, A[0].fid, A[0].place)]), 'HashSet::iter (term)')
    outs = ex.run(f, [Ref(0, ('local', 'R'))], heap={'R': resp})
    ctx.absorb(ex)
    ctx.panic_summary(f.name.split('::')[-1] + '@' + (f.file or '').split('/')[-1], outs, ex)
    dec = resp.fields[0]
    for i, o in enumerate(outs):
        name = f'tpe::Response::reason/path{i}'
        if o.kind != 'ret':
            ctx.decide(name + ':panic', o.pc, kind='panic', ex=ex)
            continue
        v = o.val
        is_none = ex.is_variant(dec, 'None')
        d = ex.opaque_field(dec, 'Some', 0, 'authorizer::Decision')
        if v.variant == 'None':
            claim = is_none
        else:
            src = getattr(v.fields[0].fields[0], 'what', None) if isinstance(v.fields[0], Agg) and v.fields[0].name == '~iter' else None
            claim = z3.And(z3.Not(is_none), z3.If(ex.is_variant(d, 'Allow'), z3.BoolVal(src == 'true_permits'), z3.BoolVal(src == 'true_forbids')))
        ctx.decide(name, o.pc + [z3.Not(claim)], ex=ex, sample={'path_condition': [str(c) for c in o.pc], 'returns': repr(v)[:120]},
                   on_sat=lambda m: views_replay(ctx, name, 'tpe/response.rs: Response::reason', 'reason() does not return the satisfied permits on Allow / satisfied forbids on Deny'))
    ctx.decide('tpe::Response::reason/witness', [z3.BoolVal(sum(1 for o in outs if o.kind == 'ret') >= 3)], expect='sat', ex=ex)


def policy_set_view(ctx):
    """views agree: the Policy handed to PolicySet::add for a residual policy must be Policy::from(that residual policy)"""
    P = ctx.prog('core')
    f = P.method('tpe/response.rs', 'policy_set', nargs=1)
    ctx.use(f)
    conv = P.method('tpe/response.rs', 'from', nargs=1, arg0=r'ResidualPolicy$')
    ctx.use(conv)
    ex = ctx.new_exec('core')
    head = f.find_block(r'as Iterator>::next\(')
    MORE = z3.Bool('MORE')
    resid = Opaque('tpe::residual::Residual', 'the_residual')
    orig = Opaque('ast::policy::Policy', 'the_original_policy')
    rp = Agg('struct', 'tpe::response::ResidualPolicy', None,
             [Agg('struct', 'Arc', None, [resid], ('inner',)), Agg('struct', 'Arc', None, [orig], ('inner',))], ('residual', 'policy'))
    ex.stub(r'as Iterator>::next$', lambda ex, st, c, A: [([MORE], some(ex.new_cell(st, rp, 'rp'))), ([z3.Not(MORE)], none())], 'Iterator::next over Response::policies(): arbitrary residual policy or end')
    ex.stub(r'PolicySet::add$', lambda ex, st, c, A: ok(UNIT), 'PolicySet::add (logged, succeeds)')
    for nm in ('effect', 'id', 'annotations_arc'):
        ex.stub(r'Policy::' + nm + '$', (lambda nm: lambda ex, st, c, A: Agg('struct', '~Policy::' + nm, None, [ex.read(st, A[0].fid, A[0].place) if isinstance(A[0], Ref) else A[0]]))(nm),
                f'Policy::{nm} (uninterpreted function of the policy)')
    ex.stub(r'Policy::from_when_clause_annos$', lambda ex, st, c, A: Agg('struct', 'Policy', None, list(A), ('effect', 'expr', 'id', 'loc', 'annotations')), 'Policy::from_when_clause_annos (logged constructor)')
    ex.stub(r'<.*Expr as From<.*Residual>>::from$', lambda ex, st, c, A: Agg('struct', '~Expr::from', None, [A[0]]), 'Expr::from(Residual) (uninterpreted)')
    ex.stub(r'as Clone>::clone$', lambda ex, st, c, A: None, 'clone')
    outs = ex.run(f, None, start=head, stop=(head,))
    ctx.absorb(ex)
    ctx.panic_summary(f.name.split('::')[-1] + '@' + (f.file or '').split('/')[-1], outs, ex)
    n = 0
    for i, o in enumerate(outs):
        name = f'tpe::Response::policy_set/path{i}'
        if o.kind in ('panic', 'unreachable'):
            ctx.decide(name + ':panic', o.pc, kind='panic', ex=ex)
            continue
        if not o.kind.startswith('stop'):
            continue
        n += 1
        adds = [c for c in o.log if c.tag.startswith('PolicySet::add')]
        good = len(adds) == 1
        detail = ''
        if good:
            pol = adds[0].args[1]
            detail = repr(pol)[:300]
            good = isinstance(pol, Agg) and pol.fnames == ('effect', 'expr', 'id', 'loc', 'annotations')
            if good:
                def of_orig(v, fn):
                    return isinstance(v, Agg) and v.name == '~Policy::' + fn and getattr(v.fields[0], 'id', None) == orig.id
                x = pol.field('expr')
                x = x.fields[0] if isinstance(x, Agg) and x.name == 'Arc' else x
                good = of_orig(pol.field('effect'), 'effect') and isinstance(x, Agg) and x.name == '~Expr::from' and getattr(x.fields[0], 'id', None) == resid.id
                idv = pol.field('id')
                good = good and of_orig(idv, 'id')
        ctx.decide(name + ': the policy added to the set is Policy::from(residual policy)', o.pc + [z3.Not(z3.BoolVal(bool(good)))], ex=ex,
                   sample={'policy handed to PolicySet::add': detail},
                   on_sat=lambda m: views_replay(ctx, name, 'tpe/response.rs: Response::policy_set adds the original policy instead of the residual',
                                                 'policy_set() does not present the residuals', policies=P0))
    ctx.decide('tpe::Response::policy_set/witness', [z3.BoolVal(n >= 1)], expect='sat', ex=ex)


def conversion(ctx):
    """From<ResidualPolicy> for Policy: effect, id and annotations of the original, condition = the residual"""
    P = ctx.prog('core')
    f = P.method('tpe/response.rs', 'from', nargs=1, arg0=r'ResidualPolicy$')
    ctx.use(f)
    ex = ctx.new_exec('core')
    resid = Opaque('tpe::residual::Residual', 'the_residual')
    orig = Opaque('ast::policy::Policy', 'the_original_policy')
    rp = Agg('struct', 'tpe::response::ResidualPolicy', None,
             [Agg('struct', 'Arc', None, [resid], ('inner',)), Agg('struct', 'Arc', None, [orig], ('inner',))], ('residual', 'policy'))
    for nm in ('effect', 'id', 'annotations_arc'):
        ex.stub(r'Policy::' + nm + '$', (lambda nm: lambda ex, st, c, A: (Agg('struct', '~Policy::' + nm, None, [ex.read(st, A[0].fid, A[0].place)]) if nm == 'effect'
                                                                   else ex.new_cell(st, Agg('struct', '~Policy::' + nm, None, [ex.read(st, A[0].fid, A[0].place)]), nm)))(nm),
                f'Policy::{nm} (uninterpreted function of the policy)')
    ex.stub(r'Policy::from_when_clause_annos$', lambda ex, st, c, A: Agg('struct', 'Policy', None, list(A), ('effect', 'expr', 'id', 'loc', 'annotations')), 'Policy::from_when_clause_annos (logged constructor)')
    ex.stub(r'<.*Expr as From<.*Residual>>::from$', lambda ex, st, c, A: Agg('struct', '~Expr::from', None, [A[0]]), 'Expr::from(Residual) (uninterpreted)')
    outs = ex.run(f, [rp])
    ctx.absorb(ex)
    ctx.panic_summary(f.name.split('::')[-1] + '@' + (f.file or '').split('/')[-1], outs, ex)
    for i, o in enumerate(outs):
        name = f'From<ResidualPolicy> for Policy/path{i}'
        if o.kind != 'ret':
            ctx.decide(name + ':panic', o.pc, kind='panic', ex=ex)
            continue
        pol = o.val

        def of_orig(v, fn):
            return isinstance(v, Agg) and v.name == '~Policy::' + fn and getattr(v.fields[0], 'id', None) == orig.id
        good = isinstance(pol, Agg) and pol.fnames == ('effect', 'expr', 'id', 'loc', 'annotations')
        if good:
            x = pol.field('expr')
            x = x.fields[0] if isinstance(x, Agg) and x.name == 'Arc' else x
            good = of_orig(pol.field('effect'), 'effect') and of_orig(pol.field('id'), 'id') and of_orig(pol.field('annotations'), 'annotations_arc') \
                and isinstance(x, Agg) and x.name == '~Expr::from' and getattr(x.fields[0], 'id', None) == resid.id
        ctx.decide(name, o.pc + [z3.Not(z3.BoolVal(bool(good)))], ex=ex, sample={'result': repr(pol)[:300]},
                   on_sat=lambda m: views_replay(ctx, name, 'tpe/response.rs: impl From<ResidualPolicy> for Policy', 'conversion of a residual policy loses effect / id / residual', policies=P0))


def families(ctx):
    from . import c14_extra, c14_query, c14_store
    return [(fn.__name__, (lambda fn=fn: fn(ctx))) for fn in (response_new, reason, conversion, policy_set_view)] + c14_extra.families(ctx) + c14_query.families(ctx) + c14_store.families(ctx)


def run(ctx):
    ctx.run_families(families(ctx))
    from . import c14_query, c14_store
    ctx.guarded('native partial-store battery', lambda: c14_store.battery(ctx, 'native partial-store battery', 'tpe/entities.rs: partial stores vs the concrete authorizer', 'native partial-store battery'))
    ctx.guarded('native permission-query battery', lambda: c14_query.battery(ctx, 'native permission-query battery', 'api/tpe.rs: query_resource / query_principal vs enumeration', 'native permission-query battery'))
    ctx.bounds += [f'partial stores (tpe/entities.rs): from_entities_map with every outcome of its four steps and either flag; from_entities and from_json_value with free deserialization / parsing / duplicate outcomes; '
                   f'native battery: {len(c14_store.STORE_POLS) * 2} (policy, principal) cases over a three-level hierarchy given with direct parents only, through from_partial_entities / from_json_value / from_concrete',
                   f'permission queries (cedar-policy/src/api/tpe.rs from the cedar-policy crate dump): query_resource / query_principal over stores of 0..{3 if ctx.tier == "thorough" else 2} entities, query_action over 0..{3 if ctx.tier == "thorough" else 2} applicable actions, '
                   f'every outcome of the TPE run, the type test and the concrete authorizations symbolic; native battery: {len(c14_query.QUERY_CASES)} resource / principal queries against enumeration with the concrete authorizer',
                   'classification step: one loop iteration from an arbitrary state over every Residual shape (Concrete any Value / Error / Partial) and effect; decision table: all bucket-emptiness states, completions at bucket granularity']
    ctx.assumptions += ['Iterator::next, ResidualPolicy getters, HashMap/HashSet::{insert,is_empty,iter}, PolicySet::add, Policy::{effect,id,annotations_arc}, Expr::from(Residual): environment stubs / uninterpreted functions',
                        'Residual::{is_true,is_false,is_error} are executed from the MIR (not stubbed)',
                        'can_error_assuming_well_formed: per-node table with the recursive calls as free booleans; PartialEntity::check_consistency: map / set equalities as free booleans',
                        'permission queries: PolicySet::tpe, PartialEntities::from_concrete, TpeResponse::{decision, policy_set}, Authorizer::is_authorized, the query-request accessors and entity accessors are environment stubs '
                        '(that a definite TPE decision and the residual policy set are right is the first half of this property, decided above at the response level and otherwise outside)',
                        'partial stores: entity validation, validate_concrete_ancestors_concrete, compute_tc (what it computes is C04), insert_actions, collect_unique, serde and parse_ejson are stubs with free outcomes, logged in call order',
                        'simplification rules of tpe::Evaluator::interpret and PartialRequest consistency are NOT covered']
    return ctx.finish('Solver-decided response table and views of the TPE response, executed from the MIR of the current tree: classification of residual policies into the eight bucket sets (and into the residual map), '
                      'completion-quantified decision table, reason(), the ResidualPolicy -> Policy conversion, that policy_set() presents the residuals (views agree); and the permission queries of the public API: '
                      'query_resource / query_principal return exactly the entities of the requested type that are allowed (all on a definite Allow, none on Deny, by concrete authorization against the residual policy set when undecided), '
                      'query_action returns every applicable action whose TPE decision is not Deny, labelled with that decision; and that every constructor of a partial entity store from caller-given parents closes the ancestor relation '
                      '(from_entities_map with the flag computes the closure before anything else uses the store; from_entities / from_json_value pass the flag).')
