"""Further C13 obligations (engine M): the projectability table, the typed-unknown short-circuits, unknown substitution,
request concretisation and that store edits keep the partial-store mode."""
import z3
from ..executor import IntV, BoolV, Agg, Opaque, Ref, NotEncoded, UNIT
from ..models import ok, err, some, none
from .arms import native_outcome, residual_sound

NEVER_ERRS = {'Lit', 'Var', 'Unknown', 'Set', 'Record'}        # node kinds whose own evaluation step cannot raise an error (language semantics)


def projectable(ctx):
    """Expr::is_projectable = every sub-expression is of a kind whose evaluation step cannot error; anything else (operators, attribute access,
    extension calls, slots, `is`, `like`, `has`) can raise an error under some substitution and must not be projected through"""
    P = ctx.prog('core')
    f = P.method('ast/expr.rs', 'is_projectable', nargs=1)
    clos = [g for g in P.find(r'is_projectable::\{closure#0\}$', 'ast/expr.rs')]
    if len(clos) != 1:
        raise LookupError(f'is_projectable closure: {len(clos)}')
    g = clos[0]
    ctx.use(f)
    ctx.use(g)
    ex = ctx.new_exec('core')
    kind = Opaque('ast::expr::ExprKind', 'node kind')
    ex.stub(r'(^|::)Expr::(<.*>::)?expr_kind$', lambda ex_, st, c, A: ex_.new_cell(st, kind, 'kind'), 'Expr::expr_kind: arbitrary node kind')
    tbl = ex.variants_of('ast::expr::ExprKind')
    if tbl is None:
        raise NotEncoded('ExprKind table')
    clo = Agg('closure', g.args[0][1].lstrip('&').replace('mut ', ''), None, [])
    a0 = ex.new_cell(None, clo, 'clo') if g.args[0][1].startswith('&') else clo
    outs = ex.run(g, [Ref(0, ('local', 'C')) if g.args[0][1].startswith('&') else clo, Ref(0, ('local', 'E'))], heap={'C': clo, 'E': Opaque('ast::expr::Expr', 'sub-expression')})
    ctx.absorb(ex)
    ctx.panic_summary('is_projectable per-node predicate', outs, ex)
    d = ex.disc_term(kind)
    safe = z3.Or([d == i for n, i in tbl.items() if n in NEVER_ERRS])
    for i, o in enumerate(outs):
        if o.kind != 'ret':
            continue
        def on_sat(m):
            kd = m.eval(d, model_completion=True).as_long()
            nm = [n for n, j in tbl.items() if j == kd][0]
            sample = {'ExtensionFunctionApp': 'ip(unknown("x"))', 'BinaryApp': 'unknown("x") + 1', 'UnaryApp': '-unknown("x")', 'GetAttr': 'unknown("x").f', 'HasAttr': 'unknown("x") has f',
                      'And': 'unknown("x") && true', 'Or': 'unknown("x") || false', 'If': 'if unknown("x") then 1 else 2', 'Like': 'unknown("x") like "a"', 'Is': 'unknown("x") is User'}.get(nm)
            if sample is None:
                return ctx.mismatch('is_projectable', f'node kind {nm} classified differently, no replay expression for it')
            text = '{a: ' + sample + ', b: 1}.b'
            got = native_outcome(ctx, text)
            if got[0] != 'residual':
                # projected through a field that can error: unsound when the substitution makes it fail
                return ctx.violation('is_projectable', 'ast/expr.rs: Expr::is_projectable', f'`{text}` is evaluated to {got} although the sibling field `{sample}` can raise an error under a substitution of the unknown',
                                     {'op': 'peval', 'expr': text})
            return ctx.mismatch('is_projectable', f'node kind {nm}: abstract counterexample, but `{text}` stays residual')
        ctx.decide(f'is_projectable/node-predicate/path{i}', o.pc + [z3.Not(o.val.t == safe)], ex=ex, on_sat=on_sat, sample={'path_condition': [str(c)[:90] for c in o.pc][:3], 'returns': str(o.val.t)})
    ctx.decide('is_projectable/node-predicate/witness', [z3.Or([z3.And(o.pc) if o.pc else z3.BoolVal(True) for o in outs if o.kind == 'ret'])], expect='sat', ex=ex)
    # wiring: all(subexpressions, predicate)
    ex2 = ctx.new_exec('core')
    ex2.stub(r'subexpressions$', lambda ex_, st, c, A: Agg('struct', '~subexpressions', None, [A[0]]), 'Expr::subexpressions (term)')
    ex2.stub(r'as Iterator>::all::<', lambda ex_, st, c, A: Agg('struct', '~all', None, list(A)), 'Iterator::all (term)')
    this = Opaque('ast::expr::Expr', 'this')
    outs2 = ex2.run(f, [Ref(0, ('local', 'T'))], heap={'T': this})
    ctx.absorb(ex2)
    good = len(outs2) == 1 and outs2[0].kind == 'ret'
    if good:
        v = outs2[0].val
        good = isinstance(v, Agg) and v.name == '~all' and isinstance(v.fields[1], Agg) and v.fields[1].kind == 'closure' and g.closure_span in v.fields[1].name
        if good:
            it = v.fields[0]
            it = ex2.read(outs2[0].st, it.fid, it.place) if isinstance(it, Ref) else it
            good = isinstance(it, Agg) and it.name == '~subexpressions'
    ctx.decide('is_projectable/wiring: all sub-expressions satisfy the node predicate', [z3.Not(z3.BoolVal(bool(good)))], ex=ex2)


PC_ENTS = [{'uid': {'type': 'User', 'id': 'alice'}, 'attrs': {'level': 3}, 'parents': [{'type': 'Group', 'id': 'admins'}], 'tags': {'vip': True}}, {'uid': {'type': 'User', 'id': 'bob'}, 'attrs': {'level': 1}, 'parents': []},
           {'uid': {'type': 'Group', 'id': 'admins'}, 'attrs': {}, 'parents': []}, {'uid': {'type': 'Doc', 'id': 'd1'}, 'attrs': {'owner': {'__entity': {'type': 'User', 'id': 'alice'}}}, 'parents': [{'type': 'Group', 'id': 'admins'}], 'tags': {'confidential': True}}]
PC_TYPED = ['permit(principal in Group::"admins", action, resource);', 'permit(principal, action, resource) when { principal in [Group::"admins"] };', 'permit(principal == User::"alice", action, resource);', 'permit(principal == Group::"admins", action, resource);',
            'permit(principal, action, resource) unless { principal in Group::"admins" };', 'permit(principal, action, resource); forbid(principal in Group::"admins", action, resource);', 'permit(principal is User, action, resource);',
            'permit(principal, action, resource) when { resource.owner == principal };', 'permit(principal, action, resource) when { principal.hasTag("vip") };', 'permit(principal, action, resource) when { principal has level && principal.level > 2 };',
            'permit(principal, action, resource); permit(principal, action, resource) when { principal == User::"alice" };', 'forbid(principal, action, resource); permit(principal, action, resource) when { principal == User::"alice" };',
            'permit(principal, action, resource) when { resource in Group::"admins" && principal in Group::"admins" };']
PC_STORE = ['permit(principal, action, resource); forbid(principal, action, resource) when { resource.hasTag("confidential") };', 'permit(principal, action, resource) when { resource.hasTag("confidential") && resource.getTag("confidential") };',
            'permit(principal, action, resource) when { resource has owner };', 'permit(principal, action, resource) when { resource in Group::"admins" };', 'permit(principal, action, resource) unless { principal in Group::"admins" };',
            'permit(principal, action, resource) when { principal.hasTag("vip") || resource has owner };', 'forbid(principal, action, resource) unless { resource.hasTag("public") }; permit(principal, action, resource);']


def completions_battery(ctx, name, role, why):
    """a definite partial decision is the decision of every completion; re-authorizing with the completion gives what authorizing from scratch gives - for an unknown
    principal of a known type over the full store, and for a known request over a partial store that knows only some entities"""
    cache = ctx.__dict__.setdefault('_c13_completions', {})
    if 'r' not in cache:
        cache['r'] = None
        n = 0
        cases = [dict(op='partial_completions', policies=p, entities=PC_ENTS, principal_type='User', completions=['User::"alice"', 'User::"bob"']) for p in PC_TYPED]
        for known in ([], [PC_ENTS[0]], [PC_ENTS[3]], PC_ENTS[:3]):
            cases += [dict(op='partial_completions', policies=p, entities=PC_ENTS, known=known, principal='User::"alice"', completions=['User::"alice"']) for p in PC_STORE]
        for q in cases:
            a = ctx.native.ask(q)
            if 'partial' not in a:
                return ctx.mismatch(name, f'partial_completions probe: {str(a)[:300]}')
            n += 1
            d = a['partial']['decision']
            for c in a['completions']:
                what = 'an unknown principal of type User' if 'principal_type' in q else f'a partial store knowing {[e["uid"]["id"] for e in q["known"]]}'
                if d is not None and c['scratch']['decision'] != d and cache['r'] is None:
                    cache['r'] = (f'`{q["policies"]}` with {what}: partial authorization decides {d}, the completion {c["principal"]} over the full store decides {c["scratch"]["decision"]}', q)
                re_ = c.get('reauthorized')
                if re_ and cache['r'] is None:
                    if 'error' in re_ or re_.get('decision') != c['scratch']['decision'] or (re_.get('concretized') or {}).get('reasons') != c['scratch']['reasons']:
                        cache['r'] = (f'`{q["policies"]}` with {what}: re-authorizing with principal := {c["principal"]} gives {re_}, authorizing from scratch {c["scratch"]}', q)
        cache['n'] = n
    if cache['r']:
        return ctx.violation(name, role, f'{why}; natively: {cache["r"][0]}', cache['r'][1])
    return ('unreplayed', f'{why}; but in the {cache.get("n")} partial authorizations of the completion battery every definite decision is the decision of every completion and re-authorization agrees with authorization from scratch')


def reauthorize_route(ctx):
    """PartialResponse::reauthorize always re-evaluates: the answer is is_authorized_core_internal on the policy set of ALL residual policies, the request concretized
    with the mapping, and an evaluator over that request with the mapping as its unknowns - whatever the partial response had already decided"""
    P = ctx.prog('core')
    f = P.method('authorizer/partial_response.rs', 'reauthorize', nargs=4)
    ctx.use(f)
    ex = ctx.new_exec('core')
    ex.havoc_unknown = True
    PSOK, RQOK = z3.Bool('all_residual_policies_succeeds'), z3.Bool('concretize_request_succeeds')
    ps, rq, ev, ans = Opaque('ast::policy_set::PolicySet', 'all residual policies'), Opaque('ast::request::Request', 'the concretized request'), Opaque('evaluator::Evaluator', 'the evaluator'), Opaque('authorizer::partial_response::PartialResponse', 'the new response')
    gid = lambda ex_, st, v: getattr(_res(ex_, st, v), 'id', None)

    def log(st, *x):
        st.notes['log'] = st.notes.get('log', []) + [x]
    ex.stub(r'PartialResponse::all_residual_policies$', lambda ex_, st, c, A: [([PSOK], ok(ps)), ([z3.Not(PSOK)], err(Opaque('PolicySetError', 'bad policy set')))], 'all_residual_policies: the policy set or an error (free)')
    ex.stub(r'PartialResponse::concretize_request$', lambda ex_, st, c, A: [([RQOK], ok(rq)), ([z3.Not(RQOK)], err(Opaque('ConcretizationError', 'bad mapping')))], 'concretize_request(mapping): the request or an error (free)')
    ex.stub(r'Request as Clone>::clone$', lambda ex_, st, c, A: _res(ex_, st, A[0]), 'Request::clone')

    def ev_new(ex_, st, c, A):
        log(st, 'evaluator', gid(ex_, st, A[0]))
        return Agg('struct', '~ev', None, [Opaque('x', 'plain evaluator')])
    ex.stub(r'Evaluator::<.*>::new$|Evaluator::new$', ev_new, 'Evaluator::new(request, entities, extensions): logged')

    def mapper(ex_, st, c, A):
        log(st, 'with_unknowns_mapper')
        return ev
    ex.stub(r'Evaluator::<.*>::with_unknowns_mapper$|Evaluator::with_unknowns_mapper$', mapper, 'with_unknowns_mapper(mapping): the evaluator used')

    def core(ex_, st, c, A):
        log(st, 'authorize', gid(ex_, st, A[1]), gid(ex_, st, A[2]), gid(ex_, st, A[3]))
        return ans
    ex.stub(r'Authorizer::is_authorized_core_internal$', core, 'is_authorized_core_internal(evaluator, request, policy set): logged')
    from ..models import ok as _ok
    heap = {'ME': Opaque('authorizer::partial_response::PartialResponse', 'self'), 'MAP': Opaque('HashMap<SmolStr, Value>', 'mapping'), 'AUTH': Opaque('authorizer::Authorizer', 'authorizer'), 'ES': Opaque('entities::Entities', 'entities')}
    outs = ex.run(f, [Ref(0, ('local', 'ME')), Ref(0, ('local', 'MAP')), Ref(0, ('local', 'AUTH')), Ref(0, ('local', 'ES'))], heap=heap)
    ctx.absorb(ex)
    nm = 'PartialResponse::reauthorize'
    ctx.panic_summary(nm, outs, ex)
    rets = [o for o in outs if o.kind == 'ret']
    bad = []
    for o in rets:
        pc = z3.And(o.pc) if o.pc else z3.BoolVal(True)
        v = _res(ex, o.st, o.val)
        lg = o.st.notes.get('log', [])
        if not (isinstance(v, Agg) and v.variant in ('Ok', 'Err')):
            raise NotEncoded(f'{nm}: result {v!r}')
        if v.variant == 'Ok':
            good = lg == [('evaluator', rq.id), ('with_unknowns_mapper',), ('authorize', ev.id, rq.id, ps.id)] and gid(ex, o.st, v.fields[0]) == ans.id
            bad.append(z3.And(pc, z3.Not(z3.And(z3.BoolVal(good), PSOK, RQOK))))
        else:
            bad.append(z3.And(pc, PSOK, RQOK))
    ctx.decide(f'{nm}/re-evaluates all residual policies on the concretized request with the mapping, whatever was already decided', [z3.Or(bad) if bad else z3.BoolVal(True)], ex=ex, sample={'paths': len(rets)},
               on_sat=lambda m: completions_battery(ctx, nm, 'partial_response.rs: PartialResponse::reauthorize', 're-authorization does not re-evaluate the residual policies'))
    ctx.decide(f'{nm}/witness', [PSOK, RQOK, z3.Or([z3.And(o.pc) if o.pc else z3.BoolVal(True) for o in rets] or [z3.BoolVal(False)])], expect='sat', ex=ex)


def short_circuits(ctx):
    """typed unknowns: `==` between an entity literal and an unknown of a declared entity type (or two typed unknowns) is decided as false only when
    the types differ; everything else stays undecided (None).  Sound because a substitution must respect the annotation (unknown_to_partialvalue)."""
    P = ctx.prog('core')
    BOPT = None
    for meth, nargs in (('short_circuit_value_and_residual', 4), ('short_circuit_two_typed_residuals', 4), ('short_circuit_residual_and_value', 4)):
        f = P.method('evaluator.rs', meth, nargs=nargs)
        ctx.use(f)
        ex = ctx.new_exec('core')
        SAME = z3.Bool('same_entity_type')
        ex.stub(r'<&?.*EntityType as PartialEq(<.*>)?>::(eq|ne)$', lambda ex_, st, c, A: BoolV(SAME if c.endswith('eq') else z3.Not(SAME)), 'EntityType equality: free boolean')
        ex.stub(r'EntityUID::entity_type$', lambda ex_, st, c, A: ex_.new_cell(st, Opaque('ast::entity::EntityType', 'type of the literal'), 'ety'), 'EntityUID::entity_type (opaque)')
        ex.stub(r'<Arc<.*EntityUID> as Deref>::deref$', lambda ex_, st, c, A: A[0], 'Arc<EntityUID>::deref')
        kinds = {}

        def expr_kind(ex_, st, c, A, kinds=kinds):
            e = A[0]
            n = 0
            while isinstance(e, Ref) and n < 6:
                e = ex_.read(st, e.fid, e.place)
                n += 1
            if e.id not in kinds:
                kinds[e.id] = Opaque('ast::expr::ExprKind', f'kind of {e.what}')
            return ex_.new_cell(st, kinds[e.id], 'kind')
        ex.stub(r'(^|::)Expr::(<.*>::)?expr_kind$', expr_kind, 'Expr::expr_kind: arbitrary node kind')
        inner_res = Agg('variant', 'Option', 'Some', [Opaque('ast::partial_value::PartialValue', 'inner answer')])
        if meth == 'short_circuit_residual_and_value':
            INNER = z3.Bool('inner_some')
            ex.stub(r'::short_circuit_value_and_residual$', lambda ex_, st, c, A: [([INNER], inner_res), ([z3.Not(INNER)], none())], 'short_circuit_value_and_residual: arbitrary answer, logged')
        from .common import SymValue
        v = SymValue(ex, 'value operand')
        e1, e2 = Opaque('ast::expr::Expr', 'residual 1'), Opaque('ast::expr::Expr', 'residual 2')
        op = Opaque('ast::ops::BinaryOp', 'op')
        BOP = ex.variants_of('ast::ops::BinaryOp')
        heap = {'EV': Opaque('evaluator::Evaluator', 'eval'), 'V': v.v, 'E1': e1, 'E2': e2}
        if meth == 'short_circuit_value_and_residual':
            args = [Ref(0, ('local', 'EV')), Ref(0, ('local', 'V')), Ref(0, ('local', 'E2')), op]
        elif meth == 'short_circuit_two_typed_residuals':
            args = [Ref(0, ('local', 'EV')), Ref(0, ('local', 'E1')), Ref(0, ('local', 'E2')), op]
        else:
            args = [Ref(0, ('local', 'EV')), Ref(0, ('local', 'E1')), Ref(0, ('local', 'V')), op]
        outs = ex.run(f, args, heap=heap)
        ctx.absorb(ex)
        ctx.panic_summary(meth, outs, ex)
        dop = ex.disc_term(op)
        EKT = ex.variants_of('ast::expr::ExprKind')
        TYT = ex.variants_of('ast::types::Type')

        def typed_unknown(e):
            k = kinds.get(e.id)
            if k is None:
                return z3.BoolVal(False)
            u = ex.opaque_field(k, 'Unknown', 0, 'ast::expr::Unknown')
            ann = None
            for key, val in ex.memo.items():
                if key[0] == 'field' and key[1] == u.id:
                    ann = val[0]
            if ann is None:
                return z3.BoolVal(False)
            ty = ex.opaque_field(ann, 'Some', 0, 'ast::types::Type')
            return z3.And(ex.disc_term(k) == EKT['Unknown'], ex.is_variant(ann, 'Some'), ex.disc_term(ty) == TYT['Entity'])
        for i, o in enumerate(outs):
            if o.kind != 'ret':
                continue
            r = o.val
            name = f'{meth}/path{i}'
            if meth == 'short_circuit_residual_and_value':
                calls = [c for c in o.log if c.tag.startswith('short_circuit_value_and_residual')]
                commutative = z3.Or([dop == BOP[n] for n in ('Add', 'Eq', 'Mul', 'ContainsAny')])
                if r.variant == 'None' and not calls:
                    claim = z3.Not(commutative)
                else:
                    # delegated with the operands swapped, only for commutative operators
                    ok_args = len(calls) == 1 and getattr(_res(ex, o.st, calls[0].args[1]), 'id', None) == v.v.id and getattr(_res(ex, o.st, calls[0].args[2]), 'id', None) == e1.id
                    claim = z3.And(commutative, z3.BoolVal(bool(ok_args)), z3.BoolVal(r.variant == 'None') == z3.Not(z3.Bool('inner_some')))
            else:
                is_eq = dop == BOP['Eq']
                if meth == 'short_circuit_value_and_residual':
                    shape = z3.And(is_eq, v.code == 3, typed_unknown(e2))
                else:
                    shape = z3.And(is_eq, typed_unknown(e1), typed_unknown(e2))
                if r.variant == 'Some':
                    try:
                        b = r.fields[0].fields[0].fields[0].fields[0].fields[0].t
                    except (AttributeError, IndexError):
                        raise NotEncoded(f'short circuit result {r!r}')
                    # a definite answer only for entity-vs-typed-unknown equality with DIFFERENT types, and the answer is false
                    claim = z3.And(shape, z3.Not(SAME), z3.Not(b))
                else:
                    claim = z3.BoolVal(True)          # staying undecided is always sound

            def on_sat(m, meth=meth):
                text = 'User::"alice" == unknown("x")'
                got = native_outcome(ctx, text)
                if got[0] != 'residual':
                    return ctx.violation(meth, f'evaluator.rs: {meth}', f'`{text}` (untyped unknown) is decided as {got}', {'op': 'peval', 'expr': text})
                r = completions_battery(ctx, meth, f'evaluator.rs: {meth}', 'a comparison with a typed unknown is decided although completions disagree')
                if r and r[0] == 'violation':
                    return r
                return ctx.mismatch(meth, f'abstract counterexample, but `{text}` stays residual and the completion battery agrees')
            ctx.decide(name, o.pc + [z3.Not(claim)], ex=ex, on_sat=on_sat, sample={'path_condition': [str(c)[:70] for c in o.pc][:6], 'returns': repr(r)[:80]} if i < 2 else None)
        ctx.decide(f'{meth}/witness', [z3.Or([z3.And(o.pc) if o.pc else z3.BoolVal(True) for o in outs if o.kind == 'ret'])], expect='sat', ex=ex)


def _res(ex, st, v):
    n = 0
    while isinstance(v, Ref) and n < 6:
        v = ex.read(st, v.fid, v.place)
        n += 1
    return v


def store_mode(ctx):
    """a partial store stays partial through add / upsert / remove (otherwise a missing entity silently becomes `no such entity`)"""
    P = ctx.prog('core')
    for meth in ('add_entities', 'upsert_entities', 'remove_entities'):
        cands = P.find(r'>::' + meth + '$', 'cedar-policy-core/src/entities.rs')
        cands = [c for c in cands if c.args and c.args[0][1].endswith('Entities')]
        if len(cands) != 1:
            raise LookupError(f'entities.rs::{meth}: {len(cands)} candidates')
        f = cands[0]
        ctx.use(f)
        ex = ctx.new_exec('core')
        ex.havoc_unknown = True
        ex.stub(r'as Iterator>::next$', lambda ex_, st, c, A: none(), 'Iterator::next: the batch is empty (the mode does not depend on the batch)')
        mode = Opaque('entities::Mode', 'mode')
        ents = Agg('struct', 'entities::Entities', None, [Opaque('HashMap<EntityUID, Arc<Entity>>', 'map'), mode], ('entities', 'mode'))
        args = [ents] + [ex.fresh(ty, nm) for nm, ty in f.args[1:]]
        ex.max_paths = 400
        try:
            outs = ex.run(f, args)
        except NotEncoded as e:
            raise NotEncoded(f'{meth}: {e}')
        ctx.absorb(ex)
        n = 0
        for i, o in enumerate(outs):
            if o.kind != 'ret' or not isinstance(o.val, Agg) or o.val.variant != 'Ok':
                continue
            n += 1
            r = o.val.fields[0]
            good = isinstance(r, Agg) and r.fnames and 'mode' in r.fnames and getattr(r.field('mode'), 'id', None) == mode.id
            def on_sat(m, meth=meth):
                edit = meth.split('_')[0]
                a = ctx.native.ask({'op': 'peval', 'expr': 'User::"ghost" has a', 'partial': True, 'edit': edit})
                if 'residual' not in a:
                    return ctx.violation(f'Entities::{meth}', f'entities.rs: Entities::{meth} keeps Mode::Partial', f'after .partial() then {meth}, `User::"ghost" has a` evaluates to {a} instead of staying unknown',
                                         {'op': 'peval', 'expr': 'User::"ghost" has a', 'partial': True, 'edit': edit})
                return ctx.mismatch(f'Entities::{meth}', 'abstract counterexample, but the real store stays partial')
            ctx.decide(f'Entities::{meth}/path{i}: mode preserved', o.pc + [z3.Not(z3.BoolVal(bool(good)))], ex=ex, on_sat=on_sat)
        ctx.decide(f'Entities::{meth}/witness', [z3.BoolVal(n >= 1)], expect='sat', ex=ex)


def families(ctx):
    return [('is_projectable', lambda: projectable(ctx)), ('short_circuits', lambda: short_circuits(ctx)), ('store_mode', lambda: store_mode(ctx)), ('reauthorize', lambda: reauthorize_route(ctx))]
