"""C14, permission queries - cedar-policy/src/api/tpe.rs: PolicySet::{query_resource, query_principal, query_action}, executed from the cedar-policy crate's MIR dump.
The TPE run, the concrete authorizer and the entity / request accessors are environment stubs with free outcomes; decided is what the query does with them:
  query_resource / query_principal over a store of 0..2 (thorough 3) entities: entity i is returned iff its type is the requested one and
      (the TPE decision is Allow, or it is undecided and the concrete authorization of the request completed with entity i - against the residual policy set of the
       TPE response and the original entities - allows); nothing is returned on Deny; the completed request uses the id of entity i;
  query_action over 0..2 (3) applicable actions: action i is returned iff its partial request can be built and its TPE decision is not Deny, labelled with that decision;
      a failing TPE run fails the query."""
import os
import z3
from ..executor import IntV, BoolV, Agg, Opaque, Ref, NotEncoded, UNIT
from ..models import ok, err, some, none, enum_cases
from .. import containers as C

T, F = z3.BoolVal(True), z3.BoolVal(False)
FILE = 'cedar-policy/src/api/tpe.rs'
DEC = 'authorizer::Decision'


def strip(ex, st, v, n=10):
    while n > 0 and isinstance(v, Ref):
        v = ex.read(st, v.fid, v.place)
        n -= 1
    return v


def ident(ex, st, v):
    return getattr(strip(ex, st, v), 'id', None)


def pcs(outs):
    return z3.Or([z3.And(o.pc) if o.pc else T for o in outs]) if outs else F


def battery(ctx, name, role, why):
    """native replay: resource / principal queries against a brute-force enumeration with the concrete authorizer"""
    cache = ctx.__dict__.setdefault('_c14_query_battery', {})
    if 'r' not in cache:
        cache['r'] = None
        for q in QUERY_CASES:
            a = ctx.native.ask(dict(q, op='permission_query'))
            if 'query' not in a or 'brute_force' not in a:
                return ctx.mismatch(name, f'permission_query probe {q["kind"]}: {str(a)[:300]}')
            if a['query'] != a['brute_force']:
                cache['r'] = ((f'action query `{q["policies"]}` for {q["principal"]} / {q["resource"]} with an unknown context answers {a.get("answer")}: ' + '; '.join(a["query"])) if q['kind'] == 'action' else
                              f'{q["kind"]} query `{q["policies"]}` for {q.get("principal", "?")} / {q.get("action")} / {q.get("resource", "?")}: the query returns {a["query"]}, enumerating the candidates with the authorizer gives {a["brute_force"]}', dict(q, op='permission_query'))
                break
    if cache['r']:
        return ctx.violation(name, role, f'{why}; natively: {cache["r"][0]}', cache['r'][1])
    return ('unreplayed', f'{why}; but the {len(QUERY_CASES)} permission queries of the battery agree with enumeration')


QSCHEMA = 'entity Group; entity User in [Group] { level: Long }; entity Doc in [Folder] { owner: User, public: Bool }; entity Folder; action view, edit appliesTo { principal: [User], resource: [Doc, Folder], context: { n: Long } };'
QENTS = [{'uid': {'type': 'User', 'id': 'alice'}, 'attrs': {'level': 3}, 'parents': [{'type': 'Group', 'id': 'g'}]}, {'uid': {'type': 'User', 'id': 'bob'}, 'attrs': {'level': 1}, 'parents': []}, {'uid': {'type': 'Group', 'id': 'g'}, 'attrs': {}, 'parents': []},
         {'uid': {'type': 'Doc', 'id': 'd1'}, 'attrs': {'owner': {'__entity': {'type': 'User', 'id': 'alice'}}, 'public': False}, 'parents': [{'type': 'Folder', 'id': 'f'}]},
         {'uid': {'type': 'Doc', 'id': 'd2'}, 'attrs': {'owner': {'__entity': {'type': 'User', 'id': 'bob'}}, 'public': True}, 'parents': []}, {'uid': {'type': 'Folder', 'id': 'f'}, 'attrs': {}, 'parents': []}]
QPOLS = ['permit(principal, action, resource);', 'forbid(principal, action, resource);', 'permit(principal, action, resource) when { resource has owner && resource.owner == principal };',
         'permit(principal, action == Action::"view", resource is Doc) when { resource.public }; forbid(principal, action, resource) when { principal.level < 2 && context.n > 0 };',
         'permit(principal in Group::"g", action, resource in Folder::"f");', 'permit(principal, action, resource is Folder);', 'permit(principal, action, resource) when { principal.level > 2 } unless { resource has public && resource.public };']
QUERY_CASES = [dict(kind='resource', policies=p, schema=QSCHEMA, entities=QENTS, principal={'type': 'User', 'id': u}, action={'type': 'Action', 'id': a}, resource_type=rt, context={'n': n})
               for p in QPOLS for u in ('alice', 'bob') for a in ('view',) for rt in ('Doc', 'Folder') for n in (0, 1)] + \
              [dict(kind='principal', policies=p, schema=QSCHEMA, entities=QENTS, resource={'type': 'Doc', 'id': d}, action={'type': 'Action', 'id': a}, principal_type='User', context={'n': n})
               for p in QPOLS for d in ('d1', 'd2') for a in ('view', 'edit') for n in (0, 1)] + \
              [dict(kind='action', policies=p, schema=QSCHEMA, entities=QENTS, principal={'type': 'User', 'id': u}, resource={'type': 'Doc', 'id': d}, action={'type': 'Action', 'id': 'view'},
                    actions=[{'type': 'Action', 'id': 'view'}, {'type': 'Action', 'id': 'edit'}], contexts=[{'n': 0}, {'n': 1}, {'n': -5}])
               for p in QPOLS + ['permit(principal, action, resource); forbid(principal, action == Action::"edit", resource) when { context.n > 0 };',
                                 'permit(principal, action == Action::"view", resource) when { context.n == 0 }; forbid(principal, action, resource) when { context.n < 0 };']
               for u in ('alice', 'bob') for d in ('d1', 'd2')]


def entity_query(ctx, which, n):
    P = ctx.prog('api')
    fname = f'query_{which}'
    fs = [f for f in P.find(rf'>::{fname}$', FILE) if len(f.args) == 4 and '{closure' not in f.name]
    if len(fs) != 1:
        raise LookupError(f'{fname}: {len(fs)} candidates')
    f = fs[0]
    ctx.use(f)
    ex = ctx.new_exec('api')
    ex.havoc_unknown = True
    ex.max_paths = 20000
    FROM_OK, TPE_OK = z3.Bool('from_concrete_ok'), z3.Bool('tpe_ok')
    D = z3.Int('tpe_decision')          # 0 = Allow, 1 = Deny, 2 = undecided
    MATCH = [z3.Bool(f'entity_{i}_has_the_requested_type') for i in range(n)]
    ALLOW = [z3.Bool(f'concrete_request_with_entity_{i}_is_allowed') for i in range(n)]
    inner = [Opaque('cedar_policy_core::ast::Entity', f'entity {i} (core)') for i in range(n)]
    ents = [Opaque('api::Entity', f'entity {i}').with_over((None, 0), inner[i]) for i in range(n)]
    cuid = [Opaque('cedar_policy_core::ast::EntityUID', f'core uid {i}') for i in range(n)]
    ety = [Opaque('cedar_policy_core::ast::EntityType', f'type of entity {i}') for i in range(n)]
    auid = [Opaque('id::EntityUid', f'uid {i}') for i in range(n)]
    eid = [Opaque('id::EntityId', f'id {i}') for i in range(n)]
    creq = [Opaque('api::Request', f'request completed with entity {i}') for i in range(n)]
    cresp = [Opaque('api::Response', f'response for entity {i}') for i in range(n)]
    store, schema, pset = Opaque('api::Entities', 'the entities'), Opaque('api::Schema', 'schema'), Opaque('api::PolicySet', 'the policy set')
    partial, tresp, residuals = Opaque('api::tpe::PartialEntities', 'partial entities'), Opaque('api::tpe::TpeResponse', 'TPE response'), Opaque('api::PolicySet', 'residual policy set')
    rty = Opaque('cedar_policy_core::ast::EntityType', 'requested type')
    qreq = Opaque(f'api::tpe::{which.capitalize()}QueryRequest', 'the query request')
    heap = {'SELF': pset, 'REQ': qreq, 'ENTS': store, 'SCHEMA': schema}
    for i in range(n):
        heap[f'E{i}'] = ents[i]
    idx = lambda table: {x.id: i for i, x in enumerate(table)}
    by = lambda table, out: (lambda ex_, st, c, A: (lambda i: None if i is None else out[i])(idx(table).get(ident(ex_, st, A[0]))))

    def log(st, *x):
        st.notes['log'] = st.notes.get('log', []) + [x]
    ex.stub(r'api::Entities as Clone>::clone$', lambda ex_, st, c, A: Opaque('api::Entities', 'clone of the entities'), 'Entities::clone')
    ex.stub(r'PartialEntities::from_concrete$', lambda ex_, st, c, A: [([FROM_OK], ok(partial)), ([z3.Not(FROM_OK)], err(Opaque('EntitiesError', 'entities error')))], 'PartialEntities::from_concrete: ok or error')

    def tpe(ex_, st, c, A):
        log(st, 'tpe', ident(ex_, st, A[0]), ident(ex_, st, A[2]), ident(ex_, st, A[3]))
        return [([TPE_OK], ok(tresp)), ([z3.Not(TPE_OK)], err(Opaque('TpeError', 'tpe error')))]
    ex.stub(r'<impl api::PolicySet>::tpe$|PolicySet::tpe$', tpe, 'PolicySet::tpe(request, partial entities, schema): a response or an error, logged')
    ex.stub(r'TpeResponse::<.*>::policy_set$|TpeResponse::policy_set$', lambda ex_, st, c, A: residuals, 'TpeResponse::policy_set: the residual policy set')
    ex.stub(r'TpeResponse::<.*>::decision$|TpeResponse::decision$', lambda ex_, st, c, A: [([D == 0], some(Agg('variant', DEC, 'Allow', []))), ([D == 1], some(Agg('variant', DEC, 'Deny', []))), ([D == 2], none())],
            'TpeResponse::decision: Allow / Deny / undecided')
    ex.stub(r'api::Entities::iter$', lambda ex_, st, c, A: C.sym_iter([(T, Ref(0, ('local', f'E{i}'))) for i in range(n)]) if ident(ex_, st, A[0]) == store.id else None, f'Entities::iter: {n} entities')
    ex.stub(r'ast::Entity::uid$', by(inner, [None] * 0) if n == 0 else (lambda ex_, st, c, A: (lambda i: None if i is None else ex_.new_cell(st, cuid[i], 'cuid'))(idx(inner).get(ident(ex_, st, A[0])))), 'core Entity::uid')
    ex.stub(r'ast::EntityUID::entity_type$', lambda ex_, st, c, A: (lambda i: None if i is None else ex_.new_cell(st, ety[i], 'ety'))(idx(cuid).get(ident(ex_, st, A[0]))), 'EntityUID::entity_type')
    ex.stub(rf'PartialRequest::{which}_type$', lambda ex_, st, c, A: ex_.new_cell(st, rty, 'rty'), f'PartialRequest::{which}_type: the requested type')

    def ty_eq(ex_, st, c, A):
        i = idx(ety).get(ident(ex_, st, A[0]))
        if i is None or ident(ex_, st, A[1]) != rty.id:
            return None
        return BoolV(MATCH[i] if c.endswith('::eq') else z3.Not(MATCH[i]))
    ex.stub(r'EntityType as PartialEq>::(eq|ne)$', ty_eq, 'entity type == requested type: free boolean per entity')
    ex.stub(r'api::Entity::uid$', lambda ex_, st, c, A: (lambda i: None if i is None else auid[i])(idx(ents).get(ident(ex_, st, A[0]))), 'Entity::uid')
    ex.stub(r'id::EntityUid::id$', lambda ex_, st, c, A: (lambda i: None if i is None else ex_.new_cell(st, eid[i], 'eid'))(idx(auid).get(ident(ex_, st, A[0]))), 'EntityUid::id')
    ex.stub(r'id::EntityId as Clone>::clone$', lambda ex_, st, c, A: strip(ex_, st, A[0]), 'EntityId::clone: the same id')

    def to_request(ex_, st, c, A):
        i = idx(eid).get(ident(ex_, st, A[1]))
        if i is None or ident(ex_, st, A[0]) != qreq.id:
            return None
        log(st, 'to_request', i)
        return ok(creq[i])
    ex.stub(r'QueryRequest::to_request$', to_request, 'QueryRequest::to_request(id of entity i, no schema): the completed request (its unwrap cannot fail)')
    ex.stub(r'api::Authorizer::new$', lambda ex_, st, c, A: Opaque('api::Authorizer', 'authorizer'), 'Authorizer::new')

    def authz(ex_, st, c, A):
        i = idx(creq).get(ident(ex_, st, A[1]))
        if i is None:
            return None
        log(st, 'is_authorized', i, ident(ex_, st, A[2]), ident(ex_, st, A[3]))
        return cresp[i]
    ex.stub(r'api::Authorizer::is_authorized$', authz, 'Authorizer::is_authorized(completed request, policies, entities), logged')
    ex.stub(r'api::Response::decision$', lambda ex_, st, c, A: (lambda i: None if i is None else [([ALLOW[i]], Agg('variant', DEC, 'Allow', [])), ([z3.Not(ALLOW[i])], Agg('variant', DEC, 'Deny', []))])(idx(cresp).get(ident(ex_, st, A[0]))),
            'Response::decision: Allow or Deny per entity')

    def dec_eq(ex_, st, c, A):
        a, b = strip(ex_, st, A[0]), strip(ex_, st, A[1])
        if isinstance(a, Agg) and isinstance(b, Agg) and a.variant and b.variant:
            return BoolV(z3.BoolVal((a.variant == b.variant) == c.endswith('::eq')))
        return None
    ex.stub(r'Decision as PartialEq>::(eq|ne)$', dec_eq, 'Decision == Decision (derived on a field-less enum)')

    def si_map(ex_, st, c, A):
        it = strip(ex_, st, A[0])
        if not (isinstance(it, Agg) and it.name == '~sym_iter'):
            return None
        items = [(e.fields[0].t, e.fields[1]) for e in it.fields]

        def go(st2, rest, acc):
            if not rest:
                return C.sym_iter(acc)
            cnd, val = rest[0]
            return ex_.call_closure(st2, A[1], [val], then=lambda st3, r: go(st3, rest[1:], acc + [(cnd, r)]))
        return go(st, items, [])
    ex.stub(r' as Iterator>::map::<', si_map, 'map over an iterator with symbolic membership (pure function)')
    ex.stub(r' as (itertools::)?Itertools>::collect_vec$', lambda ex_, st, c, A: (lambda it: Agg('struct', '~sym_vec', None, list(it.fields)) if isinstance(it, Agg) and it.name == '~sym_iter' else None)(strip(ex_, st, A[0])),
            'collect_vec: the vector of the members present (membership stays symbolic)')
    ex.stub(r'<Vec<.*EntityUid> as IntoIterator>::into_iter$', lambda ex_, st, c, A: A[0] if isinstance(A[0], Agg) and A[0].name in ('~sym_vec', '~vec') else None, 'Vec::into_iter (the same members)')
    C.install(ex)           # after the harness stubs: the first matching stub wins
    outs = ex.run(f, [Ref(0, ('local', 'SELF')), Ref(0, ('local', 'REQ')), Ref(0, ('local', 'ENTS')), Ref(0, ('local', 'SCHEMA'))], heap=heap, pre=[D >= 0, D <= 2])
    ctx.absorb(ex)
    nm = f'PolicySet::{fname}[{n} entities]'
    ctx.panic_summary(nm, outs, ex)
    rets = [o for o in outs if o.kind == 'ret']
    bad = []

    def res(o):
        v = strip(ex, o.st, o.val)
        if not (isinstance(v, Agg) and v.variant in ('Ok', 'Err')):
            raise NotEncoded(f'{nm}: result {v!r}')
        return v
    for o in rets:
        v = res(o)
        lg = o.st.notes.get('log', [])
        if v.variant == 'Err':
            claim = z3.Not(z3.And(FROM_OK, TPE_OK))
        else:
            out = strip(ex, o.st, v.fields[0])
            if not (isinstance(out, Agg) and out.name in ('~sym_vec', '~vec')):
                raise NotEncoded(f'{nm}: answer {out!r}')
            member = {i: F for i in range(n)}
            shape_ok = True
            for e in out.fields:
                if out.name == '~vec':
                    cnd, item = T, e
                else:
                    cnd, item = e.fields[0].t, e.fields[1]
                i = idx(auid).get(ident(ex, o.st, item))
                if i is None:
                    shape_ok = False
                    continue
                member[i] = z3.Or(member[i], cnd)
            want = {i: z3.And(MATCH[i], z3.Or(D == 0, z3.And(D == 2, ALLOW[i]))) for i in range(n)}
            # the concrete authorizations that were run used the residual policy set and the ORIGINAL entities, each with its own completed request
            az = [x for x in lg if x[0] == 'is_authorized']
            wiring = all(x[2] == residuals.id and x[3] == store.id for x in az) and [x for x in lg if x[0] == 'tpe'] == [('tpe', pset.id, partial.id, schema.id)]
            claim = z3.And([FROM_OK, TPE_OK, z3.BoolVal(bool(shape_ok and wiring))] + [member[i] == want[i] for i in range(n)])
        bad.append(z3.And(o.pc + [z3.Not(claim)]))
    role = f'api/tpe.rs: PolicySet::{fname}'
    ctx.decide(f'{nm}/returned = entities of the requested type that are allowed (all on Allow, none on Deny, by concrete authorization against the residuals when undecided)', [D >= 0, D <= 2, z3.Or(bad) if bad else T], ex=ex,
               sample={'paths': len(rets)}, on_sat=lambda m: battery(ctx, nm, role, f'the {which} query does not return exactly the allowed candidates'))
    ctx.decide(f'{nm}/paths-cover', [D >= 0, D <= 2, z3.Not(pcs(rets))], ex=ex)
    ctx.decide(f'{nm}/witness-ok', [pcs([o for o in rets if res(o).variant == 'Ok'])], expect='sat', ex=ex)
    ctx.decide(f'{nm}/witness-err', [pcs([o for o in rets if res(o).variant == 'Err'])], expect='sat', ex=ex)


def action_query(ctx, n):
    P = ctx.prog('api')
    fs = [f for f in P.find(r'>::query_action$', FILE) if len(f.args) == 3 and '{closure' not in f.name]
    if len(fs) != 1:
        raise LookupError(f'query_action: {len(fs)} candidates')
    f = fs[0]
    ctx.use(f)
    ex = ctx.new_exec('api')
    ex.havoc_unknown = not os.environ.get('C14Q_NOHAVOC')
    ex.max_paths = 20000
    C.install(ex)
    REQ_OK = [z3.Bool(f'partial_request_{i}_ok') for i in range(n)]
    TPE_OK = [z3.Bool(f'tpe_{i}_ok') for i in range(n)]
    D = [z3.Int(f'decision_{i}') for i in range(n)]
    pre = [z3.And(d >= 0, d <= 2) for d in D]
    acts = [Opaque('cedar_policy_core::ast::EntityUID', f'action {i}') for i in range(n)]
    aact = [Opaque('id::EntityUid', f'action {i} (api)') for i in range(n)]
    preq = [Opaque('api::tpe::PartialRequest', f'partial request {i}') for i in range(n)]
    tresp = [Opaque('api::tpe::TpeResponse', f'TPE response {i}') for i in range(n)]
    pset, pents = Opaque('api::PolicySet', 'the policy set'), Opaque('api::tpe::PartialEntities', 'partial entities')
    qreq = Opaque('api::tpe::ActionQueryRequest', 'the query request')
    heap = {'SELF': pset, 'REQ': qreq, 'ENTS': pents}
    for i in range(n):
        heap[f'A{i}'] = acts[i]
    idx = lambda table: {x.id: i for i, x in enumerate(table)}

    def log(st, *x):
        st.notes['log'] = st.notes.get('log', []) + [x]
    ex.stub(r'ValidatorSchema::actions_for_principal_and_resource(::<.*>)?$', lambda ex_, st, c, A: Agg('struct', '~vec_iter', None, [Ref(0, ('local', f'A{i}')) for i in range(n)]), f'actions applicable to the principal and resource types: {n} actions')
    ex.stub(r'EntityUID as Clone>::clone$', lambda ex_, st, c, A: strip(ex_, st, A[0]), 'EntityUID::clone: the same uid')
    ex.stub(r'EntityUID as Into<.*EntityUid>>::into$|EntityUid as From<.*EntityUID>>::from$', lambda ex_, st, c, A: (lambda i: None if i is None else aact[i])(idx(acts).get(ident(ex_, st, A[0]))), 'core uid -> api uid')
    ex.stub(r'EntityUid as RefCast>::ref_cast$', lambda ex_, st, c, A: (lambda i: None if i is None else ex_.new_cell(st, aact[i], 'aact'))(idx(acts).get(ident(ex_, st, A[0]))), 'RefCast: the same uid seen as an api uid')

    def partial_request(ex_, st, c, A):
        i = idx(aact).get(ident(ex_, st, A[1]))
        if i is None:
            return None
        log(st, 'partial_request', i)
        return [([REQ_OK[i]], ok(preq[i])), ([z3.Not(REQ_OK[i])], err(Opaque('RequestValidationError', 'invalid partial request')))]
    ex.stub(r'ActionQueryRequest::partial_request$', partial_request, 'ActionQueryRequest::partial_request(action i): the partial request or a validation error, logged')

    def tpe(ex_, st, c, A):
        i = idx(preq).get(ident(ex_, st, A[1]))
        if i is None:
            return None
        log(st, 'tpe', i, ident(ex_, st, A[0]), ident(ex_, st, A[2]))
        return [([TPE_OK[i]], ok(tresp[i])), ([z3.Not(TPE_OK[i])], err(Opaque('TpeError', 'tpe error')))]
    ex.stub(r'<impl api::PolicySet>::tpe$|PolicySet::tpe$', tpe, 'PolicySet::tpe(partial request i, partial entities, schema): a response or an error, logged')
    ex.stub(r'TpeResponse::<.*>::decision$|TpeResponse::decision$', lambda ex_, st, c, A: (lambda i: None if i is None else [([D[i] == 0], some(Agg('variant', DEC, 'Allow', []))), ([D[i] == 1], some(Agg('variant', DEC, 'Deny', []))), ([D[i] == 2], none())])(idx(tresp).get(ident(ex_, st, A[0]))),
            'TpeResponse::decision: Allow / Deny / undecided per action')

    def opt_dec_ne(ex_, st, c, A):
        a, b = strip(ex_, st, A[0]), strip(ex_, st, A[1])
        view = lambda v: (v.variant, strip(ex_, st, v.fields[0]).variant if v.fields else None) if isinstance(v, Agg) and v.variant in ('Some', 'None') else None
        if view(a) is None or view(b) is None:
            return None
        return BoolV(z3.BoolVal((view(a) == view(b)) == c.endswith('::eq')))
    ex.stub(r'Option<(cedar_policy_core::)?(authorizer::)?Decision> as PartialEq>::(eq|ne)$', opt_dec_ne, 'Option<Decision> == / != (derived)')
    outs = ex.run(f, [Ref(0, ('local', 'SELF')), Ref(0, ('local', 'REQ')), Ref(0, ('local', 'ENTS'))], heap=heap, pre=pre)
    ctx.absorb(ex)
    nm = f'PolicySet::query_action[{n} applicable actions]'
    ctx.panic_summary(nm, outs, ex)
    rets = [o for o in outs if o.kind == 'ret']
    bad = []

    def res(o):
        v = strip(ex, o.st, o.val)
        if not (isinstance(v, Agg) and v.variant in ('Ok', 'Err')):
            raise NotEncoded(f'{nm}: result {v!r}')
        return v
    for o in rets:
        v = res(o)
        lg = o.st.notes.get('log', [])
        # the first action whose partial request builds but whose TPE run fails aborts the query
        reached_fail = z3.Or([z3.And([REQ_OK[i], z3.Not(TPE_OK[i])] + [z3.Or(z3.Not(REQ_OK[j]), TPE_OK[j]) for j in range(i)]) for i in range(n)] or [F])
        if v.variant == 'Err':
            claim = reached_fail
        else:
            out = strip(ex, o.st, v.fields[0])
            if not (isinstance(out, Agg) and out.name in ('~vec', '~vec_iter')):
                raise NotEncoded(f'{nm}: answer {out!r}')
            got = []
            for e in out.fields:
                e = strip(ex, o.st, e)
                a_ = idx(aact).get(ident(ex, o.st, e.fields[0])) if isinstance(e, Agg) and len(e.fields) == 2 else None
                d_ = strip(ex, o.st, e.fields[1]) if a_ is not None else None
                got.append((a_, (d_.variant, strip(ex, o.st, d_.fields[0]).variant if d_.fields else None) if isinstance(d_, Agg) else None))
            # on this path the decisions are fixed by the path condition: compare as a formula per action
            conj = [z3.Not(reached_fail)]
            seen = {a_: d_ for a_, d_ in got}
            order_ok = [a_ for a_, _ in got] == sorted(a_ for a_, _ in got if a_ is not None) and None not in seen
            for i in range(n):
                present = i in seen
                want_present = z3.And(REQ_OK[i], D[i] != 1)
                conj.append(want_present if present else z3.Not(want_present))
                if present:
                    conj.append({('Some', 'Allow'): D[i] == 0, ('None', None): D[i] == 2}.get(seen[i], F))
            tp = [x for x in lg if x[0] == 'tpe']
            conj.append(z3.BoolVal(bool(order_ok and all(x[2] == pset.id and x[3] == pents.id for x in tp))))
            claim = z3.And(conj)
        bad.append(z3.And(o.pc + [z3.Not(claim)]))
    ctx.decide(f'{nm}/returned = applicable actions whose partial request builds and whose TPE decision is not Deny, each labelled with that decision; a failing TPE run fails the query', pre + [z3.Or(bad) if bad else T], ex=ex,
               sample={'paths': len(rets)}, on_sat=lambda m: battery(ctx, nm, 'api/tpe.rs: PolicySet::query_action', 'the action query omits or mislabels an action'))
    ctx.decide(f'{nm}/paths-cover', pre + [z3.Not(pcs(rets))], ex=ex)
    ctx.decide(f'{nm}/witness-ok', [pcs([o for o in rets if res(o).variant == 'Ok'])], expect='sat', ex=ex)
    if n:
        ctx.decide(f'{nm}/witness-err', [pcs([o for o in rets if res(o).variant == 'Err'])], expect='sat', ex=ex)


def families(ctx):
    sizes = (0, 1, 2, 3) if ctx.tier == 'thorough' else (0, 1, 2)
    fam = []
    for n in sizes:
        fam.append((f'query_resource {n}', lambda n=n: entity_query(ctx, 'resource', n)))
        fam.append((f'query_principal {n}', lambda n=n: entity_query(ctx, 'principal', n)))
        fam.append((f'query_action {n}', lambda n=n: action_query(ctx, n)))
    return fam
