"""Abstract interpretation of the iterator pipelines the response code builds (`map.iter().map(closure).chain(..)`):
stubs turn every adaptor call into a term, `denote` evaluates such a term to a list of (source bucket, guard, element
value) by running the REAL closure bodies (from the MIR) on one abstract element per source bucket."""
import z3
from ..executor import Agg, Opaque, Ref, BoolV, IntV, NotEncoded, Enter, UNIT
from ..models import enum_cases


def wrap(tag):
    return lambda ex, st, c, A: Agg('struct', '~' + tag, None, list(A), None)


ADAPTORS = [(r'(HashMap|HashSet|BTreeMap|LinkedHashMap)::<.*>::iter$', 'iter'), (r'(HashMap|BTreeMap|LinkedHashMap)::<.*>::keys$', 'keys'),
            (r'(HashMap|BTreeMap|LinkedHashMap)::<.*>::values$', 'values'),
            (r'as Iterator>::map::<', 'map'), (r'as Iterator>::chain::<', 'chain'), (r'as Iterator>::collect::<', 'collect'),
            (r'as IntoIterator>::into_iter$', 'into_iter'), (r'as Iterator>::filter_map::<', 'filter_map'), (r'as Iterator>::filter::<', 'filter'),
            (r'as Iterator>::cloned::<', 'cloned'), (r'as Iterator>::copied::<', 'cloned')]


def install(ex, extra=()):
    for pat, tag in list(ADAPTORS) + list(extra):
        ex.stub(pat, wrap(tag), f'iterator adaptor `{tag}` as a term')


class Elem:
    def __init__(s, bucket, guard, val, st):
        s.bucket, s.guard, s.val, s.st = bucket, guard, val, st

    def __repr__(s):
        return f'Elem({s.bucket}, {s.guard}, {s.val})'


class Denoter:
    """bucket_of(value, st) -> name of the source collection a value denotes (or None)"""

    def __init__(self, ex, bucket_of, elem_of):
        self.ex, self.bucket_of, self.elem_of = ex, bucket_of, elem_of

    def source(self, st, v, owned):
        """elements of a source collection"""
        if isinstance(v, Ref):
            tgt = self.ex.read(st, v.fid, v.place)
            return self.source(st, tgt, False)
        b = self.bucket_of(v)
        if b is None:
            raise NotEncoded(f'iterator source {v!r} is not a known collection')
        return [Elem(b, [], self.elem_of(self.ex, st, b, owned), st)]

    def denote(self, st, t):
        ex = self.ex
        if isinstance(t, Agg) and t.kind == 'variant' and t.variant in ('Left', 'Right', 'Some'):
            return self.denote(st, t.fields[0])
        if isinstance(t, Agg) and t.name and t.name.startswith('~'):
            tag = t.name[1:]
            if tag in ('iter',):
                return self.source(st, t.fields[0], False)
            if tag == 'keys':
                return [Elem(e.bucket, e.guard, e.val.fields[0], e.st) for e in self.source(st, t.fields[0], False)]
            if tag == 'values':
                return [Elem(e.bucket, e.guard, e.val.fields[1], e.st) for e in self.source(st, t.fields[0], False)]
            if tag == 'into_iter':
                inner = t.fields[0]
                if isinstance(inner, Agg) and inner.name and inner.name.startswith('~'):
                    return self.denote(st, inner)
                return self.source(st, inner, True)
            if tag == 'collect':
                return self.denote(st, t.fields[0])
            if tag == 'cloned':
                out = []
                for e in self.denote(st, t.fields[0]):
                    v = e.val
                    if isinstance(v, Ref):
                        v = ex.read(e.st, v.fid, v.place)
                    out.append(Elem(e.bucket, e.guard, v, e.st))
                return out
            if tag == 'chain':
                a = self.denote(st, t.fields[0])
                b = t.fields[1]
                b = self.denote(st, b) if (isinstance(b, Agg) and (b.name or '').startswith('~')) or (isinstance(b, Agg) and b.kind == 'variant') else self.source(st, b, True)
                return a + b
            if tag == 'map':
                out = []
                for e in self.denote(st, t.fields[0]):
                    for o in ex.run_enter(e.st, ex.call_closure(e.st, t.fields[1], [e.val])):
                        if o.kind != 'ret':
                            raise NotEncoded(f'closure in map: {o.kind} {o.msg}')
                        out.append(Elem(e.bucket, e.guard + o.pc[len(e.st.pc):], o.val, o.st))
                return out
            if tag in ('filter_map', 'filter'):
                out = []
                for e in self.denote(st, t.fields[0]):
                    arg = e.val
                    if tag == 'filter':
                        arg = ex.new_cell(e.st, e.val, 'filter_arg')
                    for o in ex.run_enter(e.st, ex.call_closure(e.st, t.fields[1], [arg])):
                        if o.kind != 'ret':
                            raise NotEncoded(f'closure in {tag}: {o.kind} {o.msg}')
                        g = e.guard + o.pc[len(e.st.pc):]
                        if tag == 'filter':
                            out.append(Elem(e.bucket, g + [o.val.t], e.val, o.st))
                            continue
                        for cond, name, pay in enum_cases(ex, o.st, o.val):
                            if name == 'Some':
                                out.append(Elem(e.bucket, g + [cond], pay[0], o.st))
                return out
        raise NotEncoded(f'iterator term {t!r}')
