"""C10, a narrow slice - the value level of the entity / context JSON format (entities/json/value.rs), conversion code only (no serde, no schema-directed parsing):
for every kind of restricted-expression node, `CedarValueJson::from_expr` (what to_json writes for expressions) or `CedarValueJson::from_valuekind` on the evaluated value
of that node (what to_json writes for the values of an entity store / context), followed by `CedarValueJson::into_expr` (what from_json reads when no
schema type overrides it) gives back a node of the same kind with the same payload and the children in place.  Children are opaque and assumed to round-trip
(structural induction => values of any depth); both directions are executed from the MIR, the second run starts from the value the first one produced.
Node kinds: boolean / long (symbolic) / string / entity-uid literals, extension calls with 1 and 2 arguments, sets and records of 2 members.
Also: a record with a reserved key (`__entity`, `__extn`, `__expr`) is refused by from_expr instead of being written as something that reads back as an escape;
`null` and the removed `__expr` escape are refused by into_expr.
A native battery (op `value_json`) covers what the solver cannot: serde, Entities / Context to_json -> from_json equality, and that schema-directed parsing of the
implicit forms (an entity given as {type, id}, an extension value given as a bare string) agrees with the explicit escapes."""
import os
import z3
from ..executor import IntV, BoolV, Agg, Opaque, Ref, NotEncoded, UNIT
from ..models import ok, err, some, none
from .. import containers as C
from .c06 import arc, ast_expr, strip, shape, install_maps, EK, AEX

T, F = z3.BoolVal(True), z3.BoolVal(False)
FILE = 'entities/json/value.rs'
CVJ = 'entities::json::value::CedarValueJson'
REX = 'ast::restricted_expr::RestrictedExpr'
BREX = 'ast::restricted_expr::BorrowedRestrictedExpr'
LIT = 'ast::literal::Literal'
HAVOC = not os.environ.get('C10_NOHAVOC')


def unwrap_rex(ex, st, v):
    v = strip(ex, st, v)
    while isinstance(v, Agg) and v.name and v.name.split('<')[0].endswith('RestrictedExpr') and len(v.fields) == 1:
        v = strip(ex, st, v.fields[0])
    return v


def value_round_trip(ctx, label, build, battery, build_value=None):
    """build: the restricted-expression node; build_value (optional): the evaluated Value of that node - then the first run is CedarValueJson::from_valuekind (what
    to_json of an entity store writes) and the claim is that reading its output back gives the expression of that value"""
    P = ctx.prog('core')
    f_from = P.method(FILE, 'from_expr', nargs=1) if build_value is None else P.method(FILE, 'from_valuekind', nargs=1)
    fs = [f for f in P.find(r'::into_expr$', FILE) if f.args and f.args[0][1].endswith('CedarValueJson')]
    if len(fs) != 1:
        raise LookupError(f'CedarValueJson::into_expr: {len(fs)} candidates')
    f_into = fs[0]
    ctx.use(f_from)
    ctx.use(f_into)
    kids = [Opaque(AEX, f'child{i}') for i in range(2)]
    vkids = [Opaque('ast::value::Value', f'value of child{i}') for i in range(2)]
    jsons = [Opaque(CVJ, f'JSON of child{i}') for i in range(2)]
    back = [Opaque(AEX, f'child{i} (round-tripped)') for i in range(2)]
    B, I = z3.Bool('the_boolean'), z3.Int('the_long')
    payload = {k: Opaque(t, k) for k, t in (('string', 'smol_str::SmolStr'), ('euid', 'ast::entity::EntityUID'), ('fn_name', 'ast::name::Name'), ('key0', 'smol_str::SmolStr'), ('key1', 'smol_str::SmolStr'))}
    payload['bool'], payload['long'] = BoolV(B), IntV(I, 'i64')
    tok = {k.id: f'child{i}' for i, k in enumerate(kids)}
    tok.update({k.id: f'child{i}' for i, k in enumerate(back)})
    tok.update({v.id: k for k, v in payload.items() if isinstance(v, Opaque)})
    node = build(kids, payload)
    from ..models import key_id
    distinct = key_id(payload['key0']) != key_id(payload['key1'])
    RESERVED = z3.Bool('a_key_is_reserved')
    pre = [I >= -2**63, I < 2**63]
    # ---------------- expression -> JSON value
    ex = ctx.new_exec('core')
    ex.havoc_unknown = HAVOC
    ex.max_paths = 400
    ex.invariants.append(distinct)
    kid_idx = {k.id: i for i, k in enumerate(kids)}
    kid_idx.update({k.id: i for i, k in enumerate(vkids)})
    gid = lambda ex_, st, v: getattr(unwrap_rex(ex_, st, v), 'id', None)

    def rec_from(ex_, st, c, A):
        i = kid_idx.get(gid(ex_, st, A[0]))
        return None if i is None else ok(jsons[i])
    ex.stub(r'CedarValueJson>?::from_expr$|json::value::<impl at [^>]*>::from_expr$', rec_from, 'recursive from_expr of child i: its JSON value (induction hypothesis)')
    ex.stub(r'CedarValueJson>?::from_value$|json::value::<impl at [^>]*>::from_value$', rec_from, 'recursive from_value of the value of child i: its JSON value (induction hypothesis)')
    ex.stub(r'Value as Clone>::clone$', lambda ex_, st, c, A: strip(ex_, st, A[0]), 'Value::clone')
    ex.stub(r'value::Set::iter$|Set>?::iter$', lambda ex_, st, c, A: (lambda sv: Agg('struct', '~vec_iter', None, list(sv.fields[0].fields)) if isinstance(sv, Agg) and sv.name == '~valueset' else None)(C.res(ex_, st, A[0])), 'Set::iter: the members')
    ex.stub(r'btree_set::Iter<.*> as Iterator>::cloned::<', lambda ex_, st, c, A: A[0], 'Iterator::cloned over the members')
    ex.stub(r'RestrictedExpr::as_borrowed$', lambda ex_, st, c, A: Agg('struct', BREX, None, [A[0]]), 'RestrictedExpr::as_borrowed')
    ex.stub(r'Vec::<.*RestrictedExpr>::as_slice$', lambda ex_, st, c, A: A[0], 'Vec::as_slice')
    ex.stub(r'BTreeMap::<.*Value>::keys$', lambda ex_, st, c, A: Opaque('btree_map::Keys', 'the keys of the record'), 'BTreeMap::keys (only handed to check_for_reserved_keys)')
    ty_and_id, fn_text = Opaque('entities::json::value::TypeAndId', 'type and id of the uid'), Opaque('smol_str::SmolStr', 'function name as text')
    tok.update({ty_and_id.id: 'euid', fn_text.id: 'fn_name'})
    ex.stub(r'TypeAndId as From<.*EntityUID>>::from$|EntityUID as Into<.*TypeAndId>>::into$', lambda ex_, st, c, A: ty_and_id if gid(ex_, st, A[0]) == payload['euid'].id else None, 'EntityUID -> {type, id} (leaf: printing the type name is C05)')
    ex.stub(r'Arc::<.*EntityUID>::unwrap_or_clone$', lambda ex_, st, c, A: strip(ex_, st, A[0]), 'Arc::unwrap_or_clone')
    ex.stub(r'(Name) as (ToSmolStr|ToString)>::(to_smolstr|to_string)$|<T as (ToSmolStr|ToString)>::(to_smolstr|to_string)$', lambda ex_, st, c, A: fn_text if gid(ex_, st, A[0]) == payload['fn_name'].id else None, 'printing of the function name (opaque text)')
    ex.stub(r'check_for_reserved_keys(::<.*>)?$', lambda ex_, st, c, A: [([z3.Not(RESERVED)], ok(UNIT)), ([RESERVED], err(Opaque('JsonSerializationError', 'reserved key')))], 'check_for_reserved_keys: free (a key is reserved or not)')
    ex.stub(r'Literal as Clone>::clone$|SmolStr as Clone>::clone$|Name as Clone>::clone$', lambda ex_, st, c, A: strip(ex_, st, A[0]), 'clone')
    ex.stub(r'BorrowedRestrictedExpr<.*> as AsRef<.*Expr>>::as_ref$|BorrowedRestrictedExpr<.*> as Deref>::deref$', lambda ex_, st, c, A: (lambda b: b.fields[0] if isinstance(b, Agg) and len(b.fields) == 1 else None)(C.res(ex_, st, A[0])), 'BorrowedRestrictedExpr::as_ref: the expression')
    ex.stub(r'Vec::<.*Expr>::as_slice$', lambda ex_, st, c, A: A[0], 'Vec::as_slice')
    ex.stub(r'BTreeMap::<.*Expr>::keys$', lambda ex_, st, c, A: Opaque('btree_map::Keys', 'the keys of the record'), 'BTreeMap::keys (only handed to check_for_reserved_keys)')
    install_maps(ex)
    C.install(ex)
    heap = {'N': ast_expr(node)}
    if build_value is None:
        outs = ex.run(f_from, [Agg('struct', BREX, None, [Ref(0, ('local', 'N'))])], heap=heap, pre=pre)
    else:
        outs = ex.run(f_from, [build_value(vkids, kids, payload)], heap=heap, pre=pre)
    ctx.absorb(ex)
    nm = f'value -> JSON -> value[{label}]' if build_value is None else f'evaluated value -> JSON -> expression[{label}]'
    ctx.panic_summary(nm + ' (to JSON)', outs, ex, pre)
    rets = [o for o in outs if o.kind == 'ret']
    oks = [o for o in rets if isinstance(o.val, Agg) and o.val.variant == 'Ok']
    errs = [o for o in rets if isinstance(o.val, Agg) and o.val.variant == 'Err']
    if len(oks) != 1 or len(oks) + len(errs) != len(rets):
        raise NotEncoded(f'{nm}: from_expr gave {[(o.kind, repr(o.val)[:80]) for o in outs][:4]}')
    role = 'entities/json/value.rs: CedarValueJson::from_expr / into_expr'
    why = f'a {label} value does not survive value -> JSON -> value'
    rep = lambda m: battery(ctx, nm, role, why)
    # refused exactly when a record key is reserved
    is_record = label.startswith('record')
    okpc = z3.And(oks[0].pc) if oks[0].pc else T
    ctx.decide(f'{nm}/written unless a record key is reserved (then refused)', pre + [z3.Not(okpc == (z3.Not(RESERVED) if is_record else T))], ex=ex, on_sat=rep)
    jval = oks[0].val.fields[0]
    if os.environ.get('C10_DEBUG'):
        print('JSON', label, repr(jval)[:400])
    # ---------------- JSON value -> expression
    ex2 = ctx.new_exec('core')
    ex2.havoc_unknown = HAVOC
    ex2.max_paths = 400
    ex2.invariants.append(distinct)
    ex2.from_wrappers.add('ExpressionConstructionError')
    j_idx = {j.id: i for i, j in enumerate(jsons)}

    def rec_into(ex_, st, c, A):
        i = j_idx.get(getattr(strip(ex_, st, A[0]), 'id', None))
        return None if i is None else ok(Agg('struct', REX, None, [back[i]]))
    ex2.stub(r'CedarValueJson>?::into_expr$|json::value::<impl at [^>]*>::into_expr$', lambda ex_, st, c, A: rec_into(ex_, st, c, A), 'recursive into_expr of the JSON of child i: the child again (induction hypothesis)')
    ex2.stub(r'CedarValueJson as Clone>::clone$|SmolStr as Clone>::clone$|TypeAndId as Clone>::clone$', lambda ex_, st, c, A: strip(ex_, st, A[0]), 'clone')
    ex2.stub(r'EntityUID as TryFrom<.*TypeAndId>>::try_from$|TypeAndId as TryInto<.*EntityUID>>::try_into$', lambda ex_, st, c, A: ok(payload['euid']) if getattr(strip(ex_, st, A[0]), 'id', None) == ty_and_id.id else None, '{type, id} -> the EntityUID it came from (leaf)')
    ex2.stub(r'Name( as [\w:]+)?>?::from_normalized_str$', lambda ex_, st, c, A: ok(payload['fn_name']) if getattr(strip(ex_, st, A[0]), 'id', None) == fn_text.id else None, 'parsing the printed function name gives the name back (C05)')
    ex2.stub(r'SmolStr::as_str$|<(smol_str::)?SmolStr as Deref>::deref$|SmolStr as AsRef<str>>::as_ref$', lambda ex_, st, c, A: A[0], 'SmolStr as str')
    ex2.stub(r'::Data as Default>::default$', lambda ex_, st, c, A: UNIT, 'ExprBuilder::Data = ()')
    ex2.stub(r'dyn Fn\(\).*as Fn.*>::call$|dyn Fn\(\).*>::call$', lambda ex_, st, c, A: Opaque('JsonDeserializationErrorContext', 'error context'), 'ctx(): the error context')
    def lit_from(ex_, st, c, A):
        v = strip(ex_, st, A[0])
        if isinstance(v, BoolV):
            return Agg('variant', LIT, 'Bool', [v])
        if isinstance(v, IntV):
            return Agg('variant', LIT, 'Long', [v])
        if isinstance(v, Opaque) and v.ty.endswith('SmolStr'):
            return Agg('variant', LIT, 'String', [v])
        if isinstance(v, Opaque) and v.ty.endswith('EntityUID'):
            return Agg('variant', LIT, 'EntityUID', [arc(v)])
        return None
    ex2.stub(r'Literal as From<.*>>::from$', lit_from, 'Literal::from(bool / i64 / SmolStr / EntityUID): the literal of that kind (the four From impls)')
    ex2.stub(r'slice::from_ref::<', lambda ex_, st, c, A: ex_.new_cell(st, Agg('struct', '~vec', None, [strip(ex_, st, A[0])]), 'slice'), 'slice::from_ref: a one-element slice')
    install_maps(ex2)
    C.install(ex2)
    outs2 = ex2.run(f_into, [jval, Ref(0, ('local', 'CTX'))], heap={'CTX': Opaque('dyn Fn() -> JsonDeserializationErrorContext', 'error context')}, pre=pre)
    ctx.absorb(ex2)
    ctx.panic_summary(nm + ' (back to a value)', outs2, ex2, pre)
    rets2 = [o for o in outs2 if o.kind == 'ret']
    orig = shape(ex, oks[0].st, ast_expr(node), tok)

    def result_of(o):
        return unwrap_rex(ex2, o.st, o.val.fields[0]) if isinstance(o.val, Agg) and o.val.variant == 'Ok' else None
    last = None
    bad = []
    for o in rets2:
        r_ = result_of(o)
        sh = shape(ex2, o.st, r_, tok) if r_ is not None else ('error', repr(o.val)[:80])
        last = sh
        bad.append(z3.And(o.pc + [z3.BoolVal(sh != orig)]))
    ctx.decide(f'{nm}/same kind, same payload, children in place', pre + [okpc, z3.Or(bad) if bad else T], ex=ex2, sample={'node': str(orig)[:200], 'json': repr(jval)[:200], 'back': str(last)[:200]}, on_sat=rep)
    ctx.decide(f'{nm}/paths-cover', pre + [z3.Not(z3.Or([z3.And(o.pc) if o.pc else T for o in rets2] or [F]))], ex=ex2)
    ctx.decide(f'{nm}/witness', pre + [z3.Or([z3.And(o.pc) if o.pc else T for o in rets2] or [F])], expect='sat', ex=ex2)


def refused(ctx, label, jval, battery):
    """JSON values that are never a Cedar value: into_expr refuses them"""
    P = ctx.prog('core')
    fs = [f for f in P.find(r'::into_expr$', FILE) if f.args and f.args[0][1].endswith('CedarValueJson')]
    f_into = fs[0]
    ctx.use(f_into)
    ex = ctx.new_exec('core')
    ex.havoc_unknown = HAVOC
    ex.stub(r'dyn Fn\(\).*as Fn.*>::call$|dyn Fn\(\).*>::call$', lambda ex_, st, c, A: Opaque('JsonDeserializationErrorContext', 'error context'), 'ctx(): the error context')
    C.install(ex)
    outs = ex.run(f_into, [jval, Ref(0, ('local', 'CTX'))], heap={'CTX': Opaque('dyn Fn() -> JsonDeserializationErrorContext', 'error context')})
    ctx.absorb(ex)
    nm = f'JSON -> value[{label}]'
    ctx.panic_summary(nm, outs, ex)
    rets = [o for o in outs if o.kind == 'ret']
    bad = [z3.And(o.pc) if o.pc else T for o in rets if not (isinstance(o.val, Agg) and o.val.variant == 'Err')]
    ctx.decide(f'{nm}/refused', [z3.Or(bad) if bad else F], ex=ex, on_sat=lambda m: battery(ctx, nm, 'entities/json/value.rs: CedarValueJson::into_expr', f'{label} is read as a Cedar value'))
    ctx.decide(f'{nm}/witness', [z3.Or([z3.And(o.pc) if o.pc else T for o in rets] or [F])], expect='sat', ex=ex)


def nodes():
    lit = lambda variant, key: (lambda k, p: Agg('variant', EK, 'Lit', [Agg('variant', LIT, variant, [p[key] if key != 'euid' else arc(p[key])])]))
    out = [('boolean literal', lit('Bool', 'bool')), ('long literal', lit('Long', 'long')), ('string literal', lit('String', 'string')), ('entity uid literal', lit('EntityUID', 'euid'))]
    out.append(('extension call with 1 argument', lambda k, p: Agg('variant', EK, 'ExtensionFunctionApp', [p['fn_name'], arc(Agg('struct', '~vec', None, [k[0]]))], ('fn_name', 'args'))))
    out.append(('extension call with 2 arguments', lambda k, p: Agg('variant', EK, 'ExtensionFunctionApp', [p['fn_name'], arc(Agg('struct', '~vec', None, [k[0], k[1]]))], ('fn_name', 'args'))))
    out.append(('set of 2', lambda k, p: Agg('variant', EK, 'Set', [arc(Agg('struct', '~vec', None, [k[0], k[1]]))])))
    out.append(('set of 0', lambda k, p: Agg('variant', EK, 'Set', [arc(Agg('struct', '~vec', None, []))])))
    out.append(('record of 2', lambda k, p: Agg('variant', EK, 'Record', [arc(Agg('struct', '~btree', None, [Agg('tuple', None, None, [p['key0'], k[0]]), Agg('tuple', None, None, [p['key1'], k[1]])]))])))
    out.append(('record of 0', lambda k, p: Agg('variant', EK, 'Record', [arc(Agg('struct', '~btree', None, []))])))
    return out


VK = 'ast::value::ValueKind'


def value_nodes():
    """(label, expression node, evaluated value of that node): members of sets / records are the values of the children; the arguments of an extension value are kept
    as restricted expressions"""
    lit = lambda variant, key: (lambda k, p: Agg('variant', EK, 'Lit', [Agg('variant', LIT, variant, [p[key] if key != 'euid' else arc(p[key])])]))
    vlit = lambda variant, key: (lambda vk, k, p: Agg('variant', VK, 'Lit', [Agg('variant', LIT, variant, [p[key] if key != 'euid' else arc(p[key])])]))
    out = [(f'{n} literal', lit(v, key), vlit(v, key)) for n, v, key in (('boolean', 'Bool', 'bool'), ('long', 'Long', 'long'), ('string', 'String', 'string'), ('entity uid', 'EntityUID', 'euid'))]
    rex = lambda e: Agg('struct', REX, None, [e])
    ext = lambda n: (lambda vk, k, p: Agg('variant', VK, 'ExtensionValue', [arc(Agg('struct', 'ast::extension::RepresentableExtensionValue', None, [p['fn_name'], Agg('struct', '~vec', None, [rex(k[i]) for i in range(n)]), Opaque('Arc<dyn InternalExtensionValue>', 'the value')], ('func', 'args', 'value')))]))
    out.append(('extension value, constructor with 1 argument', lambda k, p: Agg('variant', EK, 'ExtensionFunctionApp', [p['fn_name'], arc(Agg('struct', '~vec', None, [k[0]]))], ('fn_name', 'args')), ext(1)))
    out.append(('extension value, constructor with 2 arguments', lambda k, p: Agg('variant', EK, 'ExtensionFunctionApp', [p['fn_name'], arc(Agg('struct', '~vec', None, [k[0], k[1]]))], ('fn_name', 'args')), ext(2)))
    vset = lambda n: (lambda vk, k, p: Agg('variant', VK, 'Set', [Agg('struct', '~valueset', None, [Agg('struct', '~vec', None, [vk[i] for i in range(n)])])]))
    out.append(('set of 2', lambda k, p: Agg('variant', EK, 'Set', [arc(Agg('struct', '~vec', None, [k[0], k[1]]))]), vset(2)))
    out.append(('set of 0', lambda k, p: Agg('variant', EK, 'Set', [arc(Agg('struct', '~vec', None, []))]), vset(0)))
    vrec = lambda n: (lambda vk, k, p: Agg('variant', VK, 'Record', [arc(Agg('struct', '~btree', None, [Agg('tuple', None, None, [p[f'key{i}'], vk[i]]) for i in range(n)]))]))
    out.append(('record of 2', lambda k, p: Agg('variant', EK, 'Record', [arc(Agg('struct', '~btree', None, [Agg('tuple', None, None, [p['key0'], k[0]]), Agg('tuple', None, None, [p['key1'], k[1]])]))]), vrec(2)))
    out.append(('record of 0', lambda k, p: Agg('variant', EK, 'Record', [arc(Agg('struct', '~btree', None, []))]), vrec(0)))
    return out


def families(ctx, battery=None):
    battery = battery or value_battery
    fam = [(f'evaluated value round trip: {label}', lambda label=label, build=build, bv=bv: value_round_trip(ctx, label, build, battery, bv)) for label, build, bv in value_nodes()]
    fam += [(f'value round trip: {label}', lambda label=label, build=build: value_round_trip(ctx, label, build, battery)) for label, build in nodes()]
    fam.append(('null is refused', lambda: refused(ctx, 'null', Agg('variant', CVJ, 'Null', []), battery)))
    from . import c10_schema
    fam += c10_schema.families(ctx)
    fam.append(('__expr is refused', lambda: refused(ctx, 'the removed __expr escape', Agg('variant', CVJ, 'ExprEscape', [Opaque('smol_str::SmolStr', 'expression text')], ('__expr',)), battery)))
    return fam


# ---------------------------------------------------------------------------------------------------------------- native battery

VJ_SCHEMA = ('entity Group in [Group]; entity User in [Group] { n: Long, s: String, b: Bool, ls: Set<Long>, t: datetime, d: decimal, ip: ipaddr, dur: duration, o?: Long, r: { x: Long, y?: String, e: User }, f: User, fs: Set<User>, rs: Set<{ k: String }> } tags String; '
             'action view appliesTo { principal: [User], resource: [User], context: { n: Long, who: User, when: datetime, r: { deep: Set<ipaddr> } } };')


def value_cases():
    U = lambda i: {'__entity': {'type': 'User', 'id': i}}
    X = lambda f, a: {'__extn': {'fn': f, 'arg': a}}
    attrs = {'n': -5, 's': 'a "quoted" \\ é\n', 'b': False, 'ls': [1, 2, 9223372036854775807], 't': X('datetime', '2024-01-01T01:02:03.004Z'), 'd': X('decimal', '-1.2345'), 'ip': X('ip', '10.0.0.0/8'), 'dur': X('duration', '1d2h3ms'),
             'r': {'x': -9223372036854775808, 'e': U('u2')}, 'f': U('u"2'), 'fs': [U('u1'), U('u2')], 'rs': [{'k': 'a'}, {'k': ''}]}
    explicit = [{'uid': {'type': 'User', 'id': 'u1'}, 'attrs': attrs, 'parents': [{'type': 'Group', 'id': 'g'}], 'tags': {'': 'empty key', 'k': 'v'}},
                {'uid': {'type': 'User', 'id': 'u2'}, 'attrs': dict(attrs, o=0, r={'x': 0, 'y': '', 'e': U('u1')}), 'parents': [], 'tags': {}},
                {'uid': {'type': 'User', 'id': 'u"2'}, 'attrs': dict(attrs, fs=[], ls=[], rs=[]), 'parents': [], 'tags': {}}, {'uid': {'type': 'Group', 'id': 'g'}, 'attrs': {}, 'parents': [{'type': 'Group', 'id': 'mid'}]}, {'uid': {'type': 'Group', 'id': 'mid'}, 'attrs': {}, 'parents': [{'type': 'Group', 'id': 'root'}]},
                {'uid': {'type': 'Group', 'id': 'root'}, 'attrs': {}, 'parents': []}]
    # the same store with the implicit forms schema-directed parsing accepts: entities as {type, id}, extension values as bare strings
    def implicit(v):
        if isinstance(v, dict) and set(v) == {'__entity'}:
            return v['__entity']
        if isinstance(v, dict) and set(v) == {'__extn'}:
            return v['__extn']['arg']
        if isinstance(v, dict):
            return {k: implicit(x) for k, x in v.items()}
        if isinstance(v, list):
            return [implicit(x) for x in v]
        return v
    imp = [dict(e, attrs=implicit(e['attrs'])) for e in explicit]
    cx = {'n': 1, 'who': U('u1'), 'when': X('datetime', '2024-01-01'), 'r': {'deep': [X('ip', '::1'), X('ip', '1.2.3.4/32')]}}
    probes = ['principal.n == -5', 'principal.s == "a \\"quoted\\" \\\\ \u00e9\\n"', '!principal.b', 'principal.ls.contains(9223372036854775807) && principal.ls.contains(1) && !principal.ls.contains(3)', 'principal.ls == [2, 1, 9223372036854775807]',
              'principal.t == datetime("2024-01-01T01:02:03.004Z")', 'principal.d == decimal("-1.2345")', 'principal.ip == ip("10.0.0.0/8")', 'principal.dur == duration("1d2h3ms")', '!(principal has o) && resource.o == 0',
              'principal.r.x == -9223372036854775807 - 1 && principal.r.e == User::"u2" && !(principal.r has y)', 'resource.r.y == "" && resource.r.e == principal', 'principal.f == User::"u\\"2"', 'principal.fs == [User::"u2", User::"u1"]',
              'principal.rs.contains({k: "a"}) && principal.rs.contains({k: ""}) && !principal.rs.contains({k: "b"})', 'principal.hasTag("") && principal.getTag("") == "empty key" && principal.getTag("k") == "v" && !resource.hasTag("k")',
              'principal in Group::"g" && !(resource in Group::"g")', 'principal in Group::"root" && Group::"g" in Group::"root" && !(Group::"root" in Group::"g")', 'context.n == 1 && context.who == principal && context.when == datetime("2024-01-01") && context.r.deep.contains(ip("::1")) && context.r.deep.contains(ip("1.2.3.4/32"))',
              'User::"u\\"2".fs.isEmpty() && User::"u\\"2".ls.isEmpty() && User::"u\\"2".rs.isEmpty()']
    return [{'op': 'value_json', 'schema': VJ_SCHEMA, 'entities': explicit, 'implicit': imp, 'context': cx, 'implicit_context': implicit(cx), 'probes': probes}]


def value_battery(ctx, name, role, why):
    cache = ctx.__dict__.setdefault('_c10_battery', {})
    if 'r' not in cache:
        cache['r'] = None
        n = 0
        for q in value_cases():
            a = ctx.native.ask(q)
            if 'checks' not in a:
                return ctx.mismatch(name, f'value_json probe: {str(a)[:400]}')
            for c in a['checks']:
                n += 1
                if not c['ok'] and cache['r'] is None:
                    cache['r'] = (f'{c["what"]}: {c.get("detail", "")[:300]}', q)
        cache['n'] = n
    if cache['r']:
        return ctx.violation(name, role, f'{why}; natively: {cache["r"][0]}', cache['r'][1])
    return ('unreplayed', f'{why}; but the {cache.get("n")} native round-trip / schema-directed checks of the battery hold')


def run(ctx):
    ctx.run_families(families(ctx))
    ctx.guarded('native battery', lambda: value_battery(ctx, 'native battery', 'entities/json: to_json / from_json of entities and contexts', 'native entity / context JSON battery'))
    ctx.bounds += ['schema-directed parsing (ValueParser::val_into_restricted_expr): expected Set<T> with an array of 2 / a non-array; expected record of 2 attributes (required or not, symbolic; closed or open, symbolic) with every subset of the expected keys present '
                   'and an unexpected key present or not (8 document shapes) / a non-object; expected entity type; expected Long / String / Bool / no expected type',
                   'both writers (from_expr on the expression, from_valuekind on its evaluated value) x one restricted-expression node of each kind (4 literal kinds with symbolic boolean / i64, extension call with 1 and 2 arguments, set of 0 / 2, record of 0 / 2) with opaque children => values of any depth at the level of the conversion code',
                   'native battery: a 4-entity store and a context with every attribute type (strings with quotes / backslashes / non-ASCII, i64 extremes, nested records, sets of entities / records / extension values, tags): '
                   'Entities::to_json_value -> from_json_value (with and without the schema), Context likewise, implicit {type, id} / bare-string forms under the schema vs explicit escapes']
    ctx.assumptions += ['children round-trip (induction hypothesis); EntityUID <-> {type, id} and function-name printing / parsing are opaque leaves (names are C05); check_for_reserved_keys answers freely; BTreeMap / Vec / iterator adaptors are the small-container models',
                        'schema-directed parsing: serde_json::from_value yields a token or fails (free); nested val_into_restricted_expr calls parse or not (free) and are logged with the expected type they receive; serde_json::Map as a small entry list; '
                        'the extension-type branch (implicit constructors, argument types of extension functions) is NOT covered',
                        'NOT decided - most of C10: serde (untagged-enum resolution, duplicate keys, number ranges), entity / context level JSON (uid, attrs, parents, tags), the TPE / partial formats; '
                        'those are only sampled by the native battery']
    return ctx.finish('Solver-decided value level of the entity / context JSON format, conversion code only: for every restricted-expression node kind CedarValueJson::from_expr - and CedarValueJson::from_valuekind on the evaluated value of the node - followed by CedarValueJson::into_expr (all executed from the MIR) gives the node back; '
                      'records with reserved keys are refused when writing, `null` and `__expr` when reading; and the dispatch of schema-directed parsing on the expected type: elements of sets and attributes of records are parsed under the types the schema gives them, '
                      'a record document is accepted exactly when every required attribute is present and no unexpected one (unless the type is open), an expected entity type reads an entity uid. A narrow slice of C10.')
