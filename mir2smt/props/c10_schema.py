"""C10, schema-directed parsing - entities/json/value.rs: ValueParser::val_into_restricted_expr, the dispatch on the EXPECTED type.  serde is out of reach, so
`serde_json::from_value` is a stub that yields a token (or fails, free); what is decided is what the function does around it:
  expected Set<T>, document an array of 2 elements      every element is parsed WITH the element type T, in order; the result is the set of the two results; an
                                                         element that fails fails the whole value
  expected Set<T>, document not an array                refused (type mismatch)
  expected record {k0: T0 (required or not), k1: T1}, document an object with any subset of {k0, k1} and possibly one unexpected key, closed or open record type:
                                                         accepted iff every required attribute is present and (no unexpected key or the type is open); every present
                                                         expected attribute is parsed WITH its type; the result is the record of exactly the present expected attributes
  expected record, document not an object               refused
  expected entity type                                   the document is read as an entity uid (implicit or escaped: serde's business) and becomes the literal of that uid
  expected Long / String / Bool, or no expected type     ordinary parsing: CedarValueJson::into_expr of the document (c10.py)
so that implicit forms nested inside sets and records are read under the types the schema gives them."""
import itertools
import z3
from ..executor import IntV, BoolV, Agg, Opaque, Ref, NotEncoded, UNIT
from ..models import ok, err, some, none
from .. import containers as C
from .c06 import strip, shape, install_maps, arc

T, F = z3.BoolVal(True), z3.BoolVal(False)
FILE = 'entities/json/value.rs'
ST = 'entities::json::schema_types::SchemaType'
JV = 'JsonValue'          # serde_json::Value (variant table in executor.STD_ENUMS)
REX = 'ast::restricted_expr::RestrictedExpr'


def run_parser(ctx, label, doc, expected, extra_stubs, claim, invariants=()):
    P = ctx.prog('core')
    f = P.method(FILE, 'val_into_restricted_expr', nargs=4)
    ctx.use(f)
    ex = ctx.new_exec('core')
    ex.havoc_unknown = True
    ex.max_paths = 4000
    ex.from_wrappers.add('ExpressionConstructionError')
    for inv in invariants:
        ex.invariants.append(inv)
    gid = lambda ex_, st, v: getattr(strip(ex_, st, v), 'id', None)

    def log(st, *x):
        st.notes['log'] = st.notes.get('log', []) + [x]
    OKR = {}

    def rec(ex_, st, c, A):
        d = gid(ex_, st, A[1])
        if d is None:
            return None
        o = strip(ex_, st, A[2])
        ty = gid(ex_, st, o.fields[0]) if isinstance(o, Agg) and o.variant == 'Some' else None
        okb = OKR.setdefault(d, z3.Bool(f'nested_value_{d}_parses'))
        if d not in RESV:
            RESV[d] = Agg('struct', REX, None, [Opaque('ast::expr::Expr', f'parsed nested value {d}')])
            RES[d] = RESV[d].fields[0].id
        res = RESV[d]
        return [([okb], ok(res), lambda s2: log(s2, 'parse', d, ty)), ([z3.Not(okb)], err(Opaque('JsonDeserializationError', f'nested value {d} does not parse')), lambda s2: log(s2, 'parse-failed', d, ty))]
    RES, RESV = {}, {}
    ex.stub(r'ValueParser::<.*>::val_into_restricted_expr$|ValueParser::val_into_restricted_expr$|value::<impl at [^>]*>::val_into_restricted_expr$', rec,
            'recursive val_into_restricted_expr(nested document, expected type): parses or not (free), logged with the expected type it is given')
    # the document is not an `unknown` escape
    ex.stub(r'(serde_json::)?from_value::<(entities::json::value::)?ExtnValueJson>$', lambda ex_, st, c, A: err(Opaque('serde_json::Error', 'not an extension escape')), 'serde_json::from_value::<ExtnValueJson>: the document is not an __extn escape')
    ex.stub(r'dyn Fn\(\).*as Fn.*>::call$|dyn Fn\(\).*>::call$', lambda ex_, st, c, A: Opaque('JsonDeserializationErrorContext', 'error context'), 'ctx(): the error context')
    ex.stub(r'JsonDeserializationError::\w+(::<.*>)?$|TypeMismatchError::\w+$|EntitySchemaConformanceError::\w+$', lambda ex_, st, c, A: Opaque('JsonDeserializationError', 'an error'), 'error constructors (terms)')
    ex.stub(r'serde_json::Value as Clone>::clone$|SmolStr as Clone>::clone$|SchemaType as Clone>::clone$', lambda ex_, st, c, A: strip(ex_, st, A[0]), 'clone')
    ex.stub(r'<&bool as (std::ops::)?Not>::not$', lambda ex_, st, c, A: (lambda b: BoolV(z3.Not(b.t)) if isinstance(b, BoolV) else None)(strip(ex_, st, A[0])), '!(&bool)')
    ex.stub(r'::Data as Default>::default$', lambda ex_, st, c, A: UNIT, 'ExprBuilder::Data = ()')
    for rx, fn, tag in extra_stubs(gid, log):
        ex.stub(rx, fn, tag)
    install_maps(ex)
    C.install(ex)
    heap = {'P': Opaque('entities::json::value::ValueParser', 'the parser'), 'CTX': Opaque('dyn Fn() -> JsonDeserializationErrorContext', 'error context'), 'TY': expected}
    outs = ex.run(f, [Ref(0, ('local', 'P')), doc, some(Ref(0, ('local', 'TY'))) if expected is not None else none(), Ref(0, ('local', 'CTX'))], heap=heap)
    ctx.absorb(ex)
    nm = f'schema-directed parsing[{label}]'
    ctx.panic_summary(nm, outs, ex)
    rets = [o for o in outs if o.kind == 'ret']
    if not rets:
        raise NotEncoded(f'{nm}: no returning path')
    bad = []
    for o in rets:
        v = strip(ex, o.st, o.val)
        if not (isinstance(v, Agg) and v.variant in ('Ok', 'Err')):
            raise NotEncoded(f'{nm}: result {v!r}')
        pc = z3.And(o.pc) if o.pc else T
        cl = claim(ex, o, v, o.st.notes.get('log', []), OKR, RES, gid)
        if __import__('os').environ.get('C10_DEBUG') and (lambda sv: (sv.add(pc, z3.Not(cl)), sv.check())[1] == z3.sat)(z3.Solver()):
            print('DBG', label, v.variant, o.st.notes.get('log', []), repr(unwrap(ex, o.st, v.fields[0]))[:200], z3.simplify(cl))
        bad.append(z3.And(pc, z3.Not(cl)))
    role = 'entities/json/value.rs: ValueParser::val_into_restricted_expr'
    why = f'schema-directed parsing ({label}) does not read nested values under the types the schema gives them, or accepts / refuses the wrong documents'
    from .c10 import value_battery
    ctx.decide(f'{nm}/nested values parsed under their schema types; accepted exactly when it should be', [z3.Or(bad) if bad else T], ex=ex, sample={'paths': len(rets)}, on_sat=lambda m: value_battery(ctx, nm, role, why))
    ctx.decide(f'{nm}/paths-cover', [z3.Not(z3.Or([z3.And(o.pc) if o.pc else T for o in rets] or [F]))], ex=ex)
    ctx.decide(f'{nm}/witness', [z3.Or([z3.And(o.pc) if o.pc else T for o in rets] or [F])], expect='sat', ex=ex)


def unwrap(ex, st, v):
    v = strip(ex, st, v)
    while isinstance(v, Agg) and v.name and v.name.split('<')[0].endswith('RestrictedExpr') and len(v.fields) == 1:
        v = strip(ex, st, v.fields[0])
    while isinstance(v, Agg) and v.name and v.name.split('<')[0].endswith('::Expr') and v.kind == 'struct' and len(v.fields) == 3:
        v = strip(ex, st, v.fields[0])
    return v


def no_stubs(gid, log):
    return []


def set_cases(ctx):
    elem_ty = Opaque(ST, 'the element type')
    sty = Agg('variant', ST, 'Set', [Agg('struct', 'Box', None, [elem_ty])], ('element_ty',))
    docs = [Opaque(JV, f'element {i}') for i in range(2)]
    arr = Agg('variant', JV, 'Array', [Agg('struct', '~vec', None, docs)])

    def claim(ex, o, v, lg, OKR, RES, gid):
        want = [('parse', docs[0].id, elem_ty.id), ('parse', docs[1].id, elem_ty.id)]
        if v.variant == 'Ok':
            e = unwrap(ex, o.st, v.fields[0])
            members = [gid(ex, o.st, m) for m in getattr(strip(ex, o.st, e.fields[0]) if isinstance(e, Agg) and e.variant == 'Set' else None, 'fields', [])] if isinstance(e, Agg) else None
            return z3.BoolVal(lg == want and members == [RES.get(docs[0].id), RES.get(docs[1].id)])
        # refused: some element did not parse (and every element tried was tried under the element type)
        return z3.BoolVal(any(x[0] == 'parse-failed' for x in lg) and all(x[2] == elem_ty.id for x in lg))
    run_parser(ctx, 'expected Set<T>, array of 2', arr, sty, no_stubs, claim)
    other = Opaque(JV, 'a document that is not an array')
    cvj_stubs = lambda gid, log: [(r'(serde_json::)?from_value::<(entities::json::value::)?CedarValueJson>$', lambda ex_, st, c, A: [([z3.Bool('document_deserializes')], ok(Opaque('CedarValueJson', 'the document as a value'))), ([z3.Not(z3.Bool('document_deserializes'))], err(Opaque('serde_json::Error', 'bad document')))], 'serde_json::from_value::<CedarValueJson>: free'),
                                  (r'CedarValueJson>?::into_expr$|value::<impl at [^>]*>::into_expr$', lambda ex_, st, c, A: [([z3.Bool('value_converts')], ok(Agg('struct', REX, None, [Opaque('ast::expr::Expr', 'the value read without a schema')]))), ([z3.Not(z3.Bool('value_converts'))], err(Opaque('JsonDeserializationError', 'bad value')))], 'CedarValueJson::into_expr: free (c10.py decides it)'),
                                  (r'::try_type_of$', lambda ex_, st, c, A: none(), 'try_type_of (for the error message)')]
    run_parser(ctx, 'expected Set<T>, not an array', Agg('variant', JV, 'String', [Opaque('String', 'text')]), sty, cvj_stubs, lambda ex, o, v, lg, OKR, RES, gid: z3.BoolVal(v.variant == 'Err' and not lg))
    run_parser(ctx, 'expected record, not an object', Agg('variant', JV, 'String', [Opaque('String', 'text')]),
               Agg('variant', ST, 'Record', [Agg('struct', '~btree', None, []), BoolV(z3.Bool('the_record_type_is_open'))], ('attrs', 'open_attrs')), cvj_stubs, lambda ex, o, v, lg, OKR, RES, gid: z3.BoolVal(v.variant == 'Err' and not lg))


def record_cases(ctx):
    OPEN = z3.Bool('the_record_type_is_open')
    REQ = [z3.Bool(f'attribute_{i}_is_required') for i in range(2)]
    keys = [Opaque('smol_str::SmolStr', f'key{i}') for i in range(2)]
    tys = [Opaque(ST, f'type of attribute {i}') for i in range(2)]
    AT = 'entities::json::schema_types::AttributeType'
    attrs = Agg('struct', '~btree', None, [Agg('tuple', None, None, [keys[i], Agg('struct', AT, None, [tys[i], BoolV(REQ[i])], ('attr_type', 'required'))]) for i in range(2)])
    rty = Agg('variant', ST, 'Record', [attrs, BoolV(OPEN)], ('attrs', 'open_attrs'))
    extra_key = Opaque('String', 'an unexpected key')
    for present in itertools.product([False, True], repeat=2):
        for extra in (False, True):
            vals = {i: Opaque(JV, f'value of key{i}') for i in range(2) if present[i]}
            entries = [Agg('tuple', None, None, [keys[i], vals[i]]) for i in range(2) if present[i]] + ([Agg('tuple', None, None, [extra_key, Opaque(JV, 'value of the unexpected key')])] if extra else [])
            doc = Agg('variant', JV, 'Object', [Agg('struct', '~jsonmap', None, entries)])

            def stubs(gid, log):
                def remove(ex_, st, c, A):
                    m = strip(ex_, st, A[0])
                    if not (isinstance(m, Agg) and m.name == '~jsonmap'):
                        return None
                    k = gid(ex_, st, A[1])
                    r = C.base_ref(ex_, st, A[0])
                    for i, e in enumerate(m.fields):
                        if gid(ex_, st, e.fields[0]) == k:
                            new = Agg('struct', '~jsonmap', None, [x for j, x in enumerate(m.fields) if j != i])
                            return [([], some(e.fields[1]), lambda s2: ex_.write(s2, r.fid, r.place, new))]
                    return none()
                return [(r'serde_json::Map::<.*>::remove::<|serde_json::Map<.*>::remove', remove, 'serde_json::Map::remove(key): the value under that key, removed'),
                        (r'SmolStr::as_str$', lambda ex_, st, c, A: A[0], 'SmolStr::as_str'),
                        (r'serde_json::Map<.*> as IntoIterator>::into_iter$', lambda ex_, st, c, A: (lambda m: Agg('struct', '~vec_iter', None, list(m.fields)) if isinstance(m, Agg) and m.name == '~jsonmap' else None)(strip(ex_, st, A[0])), 'serde_json::Map::into_iter: the remaining entries'),
                        (r'serde_json::map::IntoIter as Iterator>::next$', lambda ex_, st, c, A: None, 'next')]

            def claim(ex, o, v, lg, OKR, RES, gid, present=present, extra=extra, vals=vals):
                want_calls = [('parse', vals[i].id, tys[i].id) for i in range(2) if present[i]]
                missing_required = z3.Or([REQ[i] for i in range(2) if not present[i]] or [F])
                unexpected = z3.And(z3.BoolVal(extra), z3.Not(OPEN))
                allok = z3.And([OKR[vals[i].id] for i in range(2) if present[i] and vals[i].id in OKR] or [T])
                if v.variant == 'Ok':
                    e = unwrap(ex, o.st, v.fields[0])
                    ents = getattr(strip(ex, o.st, e.fields[0]) if isinstance(e, Agg) and e.variant == 'Record' else None, 'fields', None)
                    got = sorted((gid(ex, o.st, x.fields[0]), gid(ex, o.st, x.fields[1])) for x in ents) if ents is not None else None
                    want = sorted((keys[i].id, RES.get(vals[i].id)) for i in range(2) if present[i])
                    return z3.And(z3.BoolVal(sorted(lg) == sorted(want_calls) and got == want), z3.Not(missing_required), z3.Not(unexpected))
                # refused: a required attribute is missing, an unexpected key in a closed record, or a nested value that does not parse; nested values only ever parsed under their types
                typed = all(x[2] == tys[[vals.get(i).id if i in vals else None for i in range(2)].index(x[1])].id for x in lg)
                failed = any(x[0] == 'parse-failed' for x in lg)          # (the iterator model evaluates the adaptor chain eagerly: later elements are still visited)
                return z3.And(z3.BoolVal(typed), z3.Or(missing_required, unexpected, z3.BoolVal(failed)))
            label = 'expected record {k0, k1}, object with ' + ('+'.join(f'k{i}' for i in range(2) if present[i]) or 'no expected key') + (' and an unexpected key' if extra else '')
            from ..models import key_id
            run_parser(ctx, label, doc, rty, stubs, claim, invariants=[key_id(keys[0]) != key_id(keys[1])])


def leaf_cases(ctx):
    # an entity type is expected: the document is read as an entity uid and becomes its literal
    ety = Agg('variant', ST, 'Entity', [Opaque('ast::entity::EntityType', 'the expected entity type')], ('ty',))
    doc = Opaque(JV, 'a document')
    uidj, euid = Opaque('entities::json::value::EntityUidJson', 'the document as an entity uid'), Opaque('ast::entity::EntityUID', 'the entity uid')
    D, U = z3.Bool('document_is_an_entity_uid'), z3.Bool('uid_is_well_formed')

    def stubs(gid, log):
        return [(r'(serde_json::)?from_value::<(entities::json::value::)?EntityUidJson(<.*>)?>$', lambda ex_, st, c, A: [([D], ok(uidj)), ([z3.Not(D)], err(Opaque('serde_json::Error', 'not a uid')))] if gid(ex_, st, A[0]) == doc.id else None, 'serde_json::from_value::<EntityUidJson>(document): free'),
                (r'EntityUidJson(::)?(<.*>)?>?::into_euid$', lambda ex_, st, c, A: [([U], ok(euid)), ([z3.Not(U)], err(Opaque('JsonDeserializationError', 'bad uid')))] if gid(ex_, st, A[0]) == uidj.id else None, 'EntityUidJson::into_euid: free'),
                (r'Literal as From<.*>>::from$', lambda ex_, st, c, A: Agg('variant', 'ast::literal::Literal', 'EntityUID', [arc(strip(ex_, st, A[0]))]), 'Literal::from(EntityUID)')]

    def claim(ex, o, v, lg, OKR, RES, gid):
        if v.variant == 'Ok':
            e = unwrap(ex, o.st, v.fields[0])
            lit = strip(ex, o.st, e.fields[0]) if isinstance(e, Agg) and e.variant == 'Lit' else None
            return z3.And(D, U, z3.BoolVal(isinstance(lit, Agg) and lit.variant == 'EntityUID' and gid(ex, o.st, lit.fields[0]) == euid.id))
        return z3.Not(z3.And(D, U))
    run_parser(ctx, 'expected entity type', doc, ety, stubs, claim)
    # ordinary parsing for the other types and without a schema type
    val, res = Opaque('CedarValueJson', 'the document as a value'), Opaque('ast::expr::Expr', 'the value read without a schema')
    D2, V2 = z3.Bool('document_deserializes'), z3.Bool('value_converts')

    def stubs2(gid, log):
        return [(r'(serde_json::)?from_value::<(entities::json::value::)?CedarValueJson>$', lambda ex_, st, c, A: [([D2], ok(val)), ([z3.Not(D2)], err(Opaque('serde_json::Error', 'bad document')))] if gid(ex_, st, A[0]) == doc.id else None, 'serde_json::from_value::<CedarValueJson>(document): free'),
                (r'CedarValueJson>?::into_expr$|value::<impl at [^>]*>::into_expr$', lambda ex_, st, c, A: [([V2], ok(Agg('struct', REX, None, [res]))), ([z3.Not(V2)], err(Opaque('JsonDeserializationError', 'bad value')))] if gid(ex_, st, A[0]) == val.id else None, 'CedarValueJson::into_expr: free (c10.py decides it)')]

    def claim2(ex, o, v, lg, OKR, RES, gid):
        if v.variant == 'Ok':
            return z3.And(D2, V2, z3.BoolVal(getattr(unwrap(ex, o.st, v.fields[0]), 'id', None) == res.id))
        return z3.Not(z3.And(D2, V2))
    for label, ty in (('expected Long', Agg('variant', ST, 'Long', [])), ('expected String', Agg('variant', ST, 'String', [])), ('expected Bool', Agg('variant', ST, 'Bool', [])), ('no expected type', None)):
        run_parser(ctx, label, doc, ty, stubs2, claim2)


def families(ctx):
    return [('schema-directed sets', lambda: set_cases(ctx)), ('schema-directed records', lambda: record_cases(ctx)), ('schema-directed leaves', lambda: leaf_cases(ctx))]
